// Package values generates protobuf message values (dynamicpb) for a descriptor: boundary
// classes per field kind plus PRNG-drawn members. Class labels never contain concrete values.
package values

import (
	"math"
	"math/rand"
	"strings"

	"google.golang.org/protobuf/proto"
	"google.golang.org/protobuf/reflect/protoreflect"
	"google.golang.org/protobuf/types/dynamicpb"
)

// Labeled is a value with its class label.
type Labeled struct {
	Class string
	V     protoreflect.Value
}

// LMsg is a message with a label.
type LMsg struct {
	Class string
	M     *dynamicpb.Message
}

// Opt tunes generation.
type Opt struct {
	URLSafe   bool // strings usable as path values (non-empty)
	NoNaN     bool
	NoLong    bool
	NoControl bool // avoid control characters / NUL in strings
}

const long4k = 4096

// Strings returns string classes.
func Strings(o Opt) []Labeled {
	out := []Labeled{
		{"ascii", protoreflect.ValueOfString("alpha-1")},
		{"nonascii-bmp", protoreflect.ValueOfString("héllo wörld ñ 日本語")},
		{"astral", protoreflect.ValueOfString("a😀b𝒳")},
		{"url-reserved", protoreflect.ValueOfString("a/b?c#d%e&f=g+h i;j")},
		{"pct-looking", protoreflect.ValueOfString("x%2Fy%20z")},
		{"dot-segments", protoreflect.ValueOfString("..")},
		{"quotes", protoreflect.ValueOfString(`q"u\o'te<>&`)},
		// text that template engines and replace functions treat specially (JavaScript replacement
		// patterns, Go regexp expansion, the path template's own brace syntax)
		{"replace-patterns", protoreflect.ValueOfString("a$&b$'c$`d$$e$1${x}")},
		{"template-braces", protoreflect.ValueOfString("{id}{user_id}{}x")},
		// whitespace at the ends is data (a lenient number parser may trim, a string binder may not)
		{"padded-spaces", protoreflect.ValueOfString(" 42 ")},
		{"padded-nbsp", protoreflect.ValueOfString("\u00a0draft\u00a0 ")},
	}
	if !o.URLSafe {
		out = append(out, Labeled{"empty", protoreflect.ValueOfString("")})
	}
	if !o.NoControl {
		out = append(out, Labeled{"control", protoreflect.ValueOfString("tab\tnl\ncr\r\u0001")})
	}
	if !o.NoLong {
		out = append(out, Labeled{"long", protoreflect.ValueOfString(strings.Repeat("0123456789abcdef", long4k/16))})
	}
	return out
}

// Scalars returns the boundary classes of a scalar kind (enum needs the descriptor).
func Scalars(fd protoreflect.FieldDescriptor, o Opt) []Labeled {
	switch fd.Kind() {
	case protoreflect.StringKind:
		return Strings(o)
	case protoreflect.BoolKind:
		return []Labeled{{"false", protoreflect.ValueOfBool(false)}, {"true", protoreflect.ValueOfBool(true)}}
	case protoreflect.Int32Kind, protoreflect.Sint32Kind, protoreflect.Sfixed32Kind:
		return []Labeled{{"zero", protoreflect.ValueOfInt32(0)}, {"one", protoreflect.ValueOfInt32(1)}, {"neg", protoreflect.ValueOfInt32(-7)},
			{"min", protoreflect.ValueOfInt32(math.MinInt32)}, {"max", protoreflect.ValueOfInt32(math.MaxInt32)}}
	case protoreflect.Int64Kind, protoreflect.Sint64Kind, protoreflect.Sfixed64Kind:
		return []Labeled{{"zero", protoreflect.ValueOfInt64(0)}, {"one", protoreflect.ValueOfInt64(1)}, {"neg", protoreflect.ValueOfInt64(-7)},
			{"min", protoreflect.ValueOfInt64(math.MinInt64)}, {"max", protoreflect.ValueOfInt64(math.MaxInt64)},
			{"gt2p53", protoreflect.ValueOfInt64(1<<53 + 1)}, {"lt-2p53", protoreflect.ValueOfInt64(-(1<<53 + 1))}, {"safe-max", protoreflect.ValueOfInt64(1<<53 - 1)}}
	case protoreflect.Uint32Kind, protoreflect.Fixed32Kind:
		return []Labeled{{"zero", protoreflect.ValueOfUint32(0)}, {"one", protoreflect.ValueOfUint32(1)}, {"max", protoreflect.ValueOfUint32(math.MaxUint32)}}
	case protoreflect.Uint64Kind, protoreflect.Fixed64Kind:
		return []Labeled{{"zero", protoreflect.ValueOfUint64(0)}, {"one", protoreflect.ValueOfUint64(1)}, {"max", protoreflect.ValueOfUint64(math.MaxUint64)},
			{"gt2p53", protoreflect.ValueOfUint64(1<<53 + 1)}, {"gt-int64", protoreflect.ValueOfUint64(1 << 63)}}
	case protoreflect.FloatKind:
		out := []Labeled{{"zero", protoreflect.ValueOfFloat32(0)}, {"frac", protoreflect.ValueOfFloat32(1.5)}, {"neg", protoreflect.ValueOfFloat32(-2.25)},
			{"max", protoreflect.ValueOfFloat32(math.MaxFloat32)}, {"tiny", protoreflect.ValueOfFloat32(math.SmallestNonzeroFloat32)}, {"inexact", protoreflect.ValueOfFloat32(0.1)}}
		if !o.NoNaN {
			out = append(out, Labeled{"nan", protoreflect.ValueOfFloat32(float32(math.NaN()))}, Labeled{"inf", protoreflect.ValueOfFloat32(float32(math.Inf(1)))}, Labeled{"-inf", protoreflect.ValueOfFloat32(float32(math.Inf(-1)))})
		}
		return out
	case protoreflect.DoubleKind:
		out := []Labeled{{"zero", protoreflect.ValueOfFloat64(0)}, {"frac", protoreflect.ValueOfFloat64(1.5)}, {"neg", protoreflect.ValueOfFloat64(-2.25)},
			{"max", protoreflect.ValueOfFloat64(math.MaxFloat64)}, {"tiny", protoreflect.ValueOfFloat64(math.SmallestNonzeroFloat64)}, {"inexact", protoreflect.ValueOfFloat64(0.1)}, {"big-int", protoreflect.ValueOfFloat64(1e21)}}
		if !o.NoNaN {
			out = append(out, Labeled{"nan", protoreflect.ValueOfFloat64(math.NaN())}, Labeled{"inf", protoreflect.ValueOfFloat64(math.Inf(1))}, Labeled{"-inf", protoreflect.ValueOfFloat64(math.Inf(-1))})
		}
		return out
	case protoreflect.BytesKind:
		all := make([]byte, 256)
		for i := range all {
			all[i] = byte(i)
		}
		return []Labeled{{"empty", protoreflect.ValueOfBytes(nil)}, {"one-zero", protoreflect.ValueOfBytes([]byte{0})}, {"two", protoreflect.ValueOfBytes([]byte{0xff, 0xfe})},
			{"three", protoreflect.ValueOfBytes([]byte{0xfb, 0xef, 0xbe})}, {"all-bytes", protoreflect.ValueOfBytes(all)}}
	case protoreflect.EnumKind:
		var out []Labeled
		vs := fd.Enum().Values()
		for i := 0; i < vs.Len(); i++ {
			cl := "enum-zero"
			if vs.Get(i).Number() != 0 {
				cl = "enum-v" + itoa(i)
			}
			out = append(out, Labeled{cl, protoreflect.ValueOfEnum(vs.Get(i).Number())})
		}
		return out
	}
	return nil
}

func itoa(i int) string {
	if i == 0 {
		return "0"
	}
	s := ""
	for i > 0 {
		s = string(rune('0'+i%10)) + s
		i /= 10
	}
	return s
}

// Timestamps returns classes of google.protobuf.Timestamp (as seconds,nanos pairs).
func Timestamps() []struct {
	Class string
	S     int64
	N     int32
} {
	return []struct {
		Class string
		S     int64
		N     int32
	}{
		{"epoch", 0, 0},
		{"sec", 1700000000, 0},
		{"millis", 1700000000, 123000000},
		{"nanos", 1700000000, 123456789},
		{"pre-epoch", -86400*365 - 1, 500000000},
		{"midnight", 1704067200, 0},       // 2024-01-01T00:00:00Z
		{"day-end", 1704153599, 999999999}, // 2024-01-01T23:59:59.999999999Z
		{"max", 253402300799, 999999999},
		{"min", -62135596800, 0},
		// inside the Timestamp range, outside what an int64 count of nanoseconds can hold (1677-09-21 .. 2262-04-11)
		{"year-2500", 16725225600, 0},
		{"year-1500", -14831769600, 0},
		{"year-2263", 9246182400, 0},
		{"year-1677", -9246096000, 0},
	}
}

// Gen builds messages.
type Gen struct {
	R   *rand.Rand
	Opt Opt
}

func isWKT(md protoreflect.MessageDescriptor, name string) bool {
	return string(md.FullName()) == "google.protobuf."+name
}

// nonDefault returns a clearly non-default value for a scalar field, varied by variant.
func (g *Gen) nonDefault(fd protoreflect.FieldDescriptor, variant int) protoreflect.Value {
	switch fd.Kind() {
	case protoreflect.StringKind:
		ss := []string{"v-one", "zwei ü", "三", "x y/z"}
		return protoreflect.ValueOfString(ss[variant%len(ss)])
	case protoreflect.BoolKind:
		return protoreflect.ValueOfBool(true)
	case protoreflect.Int32Kind, protoreflect.Sint32Kind, protoreflect.Sfixed32Kind:
		return protoreflect.ValueOfInt32(int32([]int{42, -17, 2147483647, -2147483648}[variant%4]))
	case protoreflect.Int64Kind, protoreflect.Sint64Kind, protoreflect.Sfixed64Kind:
		return protoreflect.ValueOfInt64([]int64{4242, -1717, math.MaxInt64, math.MinInt64}[variant%4])
	case protoreflect.Uint32Kind, protoreflect.Fixed32Kind:
		return protoreflect.ValueOfUint32([]uint32{7, math.MaxUint32}[variant%2])
	case protoreflect.Uint64Kind, protoreflect.Fixed64Kind:
		return protoreflect.ValueOfUint64([]uint64{77, math.MaxUint64}[variant%2])
	case protoreflect.FloatKind:
		return protoreflect.ValueOfFloat32([]float32{1.5, -0.25, 3e10}[variant%3])
	case protoreflect.DoubleKind:
		return protoreflect.ValueOfFloat64([]float64{2.5, -0.125, 1e100}[variant%3])
	case protoreflect.BytesKind:
		return protoreflect.ValueOfBytes([][]byte{{1, 2, 3, 250}, {0xfb, 0xff}, {0}}[variant%3])
	case protoreflect.EnumKind:
		vs := fd.Enum().Values()
		if vs.Len() > 1 {
			return protoreflect.ValueOfEnum(vs.Get(1 + variant%(vs.Len()-1)).Number())
		}
		return protoreflect.ValueOfEnum(vs.Get(0).Number())
	}
	panic("nonDefault: unsupported kind " + fd.Kind().String())
}

// SetMember sets one member of a oneof (or any singular field) of m to a non-default value.
func (g *Gen) SetMember(m protoreflect.Message, fd protoreflect.FieldDescriptor, variant int) {
	if fd.Message() != nil {
		v := m.Mutable(fd).Message()
		if !SetWKT(v, variant) {
			g.fill(v, variant, 2)
		}
		return
	}
	m.Set(fd, g.nonDefault(fd, variant))
}

// MapKey returns a map key value for index i.
func MapKey(fd protoreflect.FieldDescriptor, i int) protoreflect.MapKey {
	switch fd.Kind() {
	case protoreflect.StringKind:
		return protoreflect.ValueOfString([]string{"k1", "key two", "ключ"}[i%3]).MapKey()
	case protoreflect.BoolKind:
		return protoreflect.ValueOfBool(i%2 == 0).MapKey()
	case protoreflect.Int32Kind, protoreflect.Sint32Kind, protoreflect.Sfixed32Kind:
		return protoreflect.ValueOfInt32(int32([]int{1, -2, 2147483647}[i%3])).MapKey()
	case protoreflect.Int64Kind, protoreflect.Sint64Kind, protoreflect.Sfixed64Kind:
		return protoreflect.ValueOfInt64([]int64{1, -2, math.MaxInt64}[i%3]).MapKey()
	case protoreflect.Uint32Kind, protoreflect.Fixed32Kind:
		return protoreflect.ValueOfUint32([]uint32{1, 2, math.MaxUint32}[i%3]).MapKey()
	default:
		return protoreflect.ValueOfUint64([]uint64{1, 2, math.MaxUint64}[i%3]).MapKey()
	}
}

// fieldLikeKeys returns map keys spelled like multi-word field names of md's file (both spellings),
// or generic ones when the file declares none.
func fieldLikeKeys(md protoreflect.MessageDescriptor) []string {
	var names []string
	seen := map[string]bool{}
	var walk func(ms protoreflect.MessageDescriptors)
	walk = func(ms protoreflect.MessageDescriptors) {
		for i := 0; i < ms.Len(); i++ {
			m := ms.Get(i)
			if m.IsMapEntry() {
				continue
			}
			for j := 0; j < m.Fields().Len(); j++ {
				f := m.Fields().Get(j)
				n := string(f.Name())
				if strings.Contains(n, "_") && f.JSONName() != n && !seen[n] && len(names) < 4 {
					seen[n] = true
					names = append(names, n, f.JSONName())
				}
			}
			walk(m.Messages())
		}
	}
	walk(md.ParentFile().Messages())
	if len(names) == 0 {
		names = []string{"display_name", "displayName", "created_at"}
	}
	return names
}

// SetWKT fills a well-known-type message with a representative value.
func SetWKT(m protoreflect.Message, variant int) bool {
	md := m.Descriptor()
	f := md.Fields()
	switch {
	case isWKT(md, "Timestamp"):
		ts := Timestamps()
		t := ts[(1+variant)%len(ts)]
		m.Set(f.ByName("seconds"), protoreflect.ValueOfInt64(t.S))
		if t.N != 0 {
			m.Set(f.ByName("nanos"), protoreflect.ValueOfInt32(t.N))
		}
		return true
	case isWKT(md, "Duration"):
		m.Set(f.ByName("seconds"), protoreflect.ValueOfInt64(3))
		m.Set(f.ByName("nanos"), protoreflect.ValueOfInt32(500000000))
		return true
	case strings.HasPrefix(string(md.FullName()), "google.protobuf.") && strings.HasSuffix(string(md.Name()), "Value") && f.Len() == 1 && f.Get(0).Name() == "value":
		m.Set(f.Get(0), (&Gen{}).nonDefault(f.Get(0), variant))
		return true
	case isWKT(md, "FieldMask"):
		l := m.Mutable(f.ByName("paths")).List()
		l.Append(protoreflect.ValueOfString("a.b"))
		return true
	case isWKT(md, "Empty"):
		return true
	case isWKT(md, "Value"):
		// a Value without a kind is not a value (the reference encoder refuses it): always pick one
		switch variant % 4 {
		case 0:
			m.Set(f.ByName("string_value"), protoreflect.ValueOfString("val-"+itoa(variant)))
		case 1:
			m.Set(f.ByName("number_value"), protoreflect.ValueOfFloat64(2.5))
		case 2:
			m.Set(f.ByName("bool_value"), protoreflect.ValueOfBool(true))
		default:
			m.Set(f.ByName("null_value"), protoreflect.ValueOfEnum(0))
		}
		return true
	case isWKT(md, "Struct"), isWKT(md, "ListValue"), isWKT(md, "Any"):
		return true // left empty (valid)
	}
	return false
}

// Full returns a message with every field set to a non-default value; oneofs select the
// (variant mod n)-th member. depth bounds recursion for recursive types.
func (g *Gen) Full(md protoreflect.MessageDescriptor, variant, depth int) *dynamicpb.Message {
	m := dynamicpb.NewMessage(md)
	g.fill(m, variant, depth)
	return m
}

func (g *Gen) fill(m protoreflect.Message, variant, depth int) {
	md := m.Descriptor()
	if SetWKT(m, variant) {
		return
	}
	fds := md.Fields()
	for i := 0; i < fds.Len(); i++ {
		fd := fds.Get(i)
		if oo := fd.ContainingOneof(); oo != nil && !oo.IsSynthetic() {
			want := oo.Fields().Get(variant % oo.Fields().Len())
			if want != fd {
				continue
			}
		}
		switch {
		case fd.IsMap():
			if depth <= 0 && fd.MapValue().Kind() == protoreflect.MessageKind {
				continue
			}
			mp := m.Mutable(fd).Map()
			for k := 0; k < 2; k++ {
				key := MapKey(fd.MapKey(), k+variant)
				if fd.MapValue().Kind() == protoreflect.MessageKind {
					v := mp.NewValue()
					g.fill(v.Message(), variant+k, depth-1)
					mp.Set(key, v)
				} else {
					mp.Set(key, g.nonDefault(fd.MapValue(), variant+k))
				}
			}
		case fd.IsList():
			if depth <= 0 && fd.Kind() == protoreflect.MessageKind {
				continue
			}
			l := m.Mutable(fd).List()
			for k := 0; k < 2; k++ {
				if fd.Kind() == protoreflect.MessageKind {
					v := l.NewElement()
					g.fill(v.Message(), variant+k, depth-1)
					l.Append(v)
				} else {
					l.Append(g.nonDefault(fd, variant+k))
				}
			}
		case fd.Kind() == protoreflect.MessageKind:
			if depth <= 0 {
				continue
			}
			g.fill(m.Mutable(fd).Message(), variant, depth-1)
		default:
			m.Set(fd, g.nonDefault(fd, variant+i))
		}
	}
}

// FieldClasses returns, for one field of md, messages that set only that field (plus
// `base` fields copied from baseMsg if non-nil) to each boundary class.
func (g *Gen) FieldClasses(md protoreflect.MessageDescriptor, fd protoreflect.FieldDescriptor, base *dynamicpb.Message) []LMsg {
	var out []LMsg
	mk := func() *dynamicpb.Message {
		m := dynamicpb.NewMessage(md)
		if base != nil {
			proto.Merge(m, base)
			m.Clear(fd)
		}
		return m
	}
	isMsg := fd.Kind() == protoreflect.MessageKind || fd.Kind() == protoreflect.GroupKind
	switch {
	case fd.IsMap():
		out = append(out, LMsg{"map-empty", mk()})
		m := mk()
		mp := m.Mutable(fd).Map()
		vfd := fd.MapValue()
		if vfd.Kind() == protoreflect.MessageKind {
			v := mp.NewValue()
			g.fill(v.Message(), 0, 2)
			mp.Set(MapKey(fd.MapKey(), 0), v)
			mp.Set(MapKey(fd.MapKey(), 1), mp.NewValue()) // empty message value
			out = append(out, LMsg{"map-msgs", m})
			// several entries of the SAME shape (every list of the same length) with different content: a
			// decoder that reuses a scratch slice or map across entries makes them equal
			ms := mk()
			mps := ms.Mutable(fd).Map()
			for k := 0; k < 3; k++ {
				v := mps.NewValue()
				g.fill(v.Message(), 0, 2)
				vf := v.Message().Descriptor().Fields()
				for i := 0; i < vf.Len(); i++ {
					lf := vf.Get(i)
					switch {
					case lf.IsList() && lf.Message() == nil:
						l := v.Message().Mutable(lf).List()
						l.Truncate(0)
						l.Append(g.nonDefault(lf, k))
						l.Append(g.nonDefault(lf, k+1))
					case !lf.IsList() && !lf.IsMap() && lf.Message() == nil && lf.ContainingOneof() == nil:
						v.Message().Set(lf, g.nonDefault(lf, k))
					}
				}
				mps.Set(MapKey(fd.MapKey(), k), v)
			}
			out = append(out, LMsg{"map-msgs-same-shape", ms})
		} else {
			for i, lv := range Scalars(vfd, Opt{NoLong: true}) {
				mp.Set(MapKey(fd.MapKey(), i), lv.V)
				if i >= 2 {
					break
				}
			}
			out = append(out, LMsg{"map-some", m})
		}
		// caller-chosen keys that are spelled like field names of the definition (proto and JSON spelling
		// of multi-word fields declared in the same file): map keys are data, never names
		if fd.MapKey().Kind() == protoreflect.StringKind {
			mk2 := mk()
			mp2 := mk2.Mutable(fd).Map()
			for i, k := range fieldLikeKeys(md) {
				var v protoreflect.Value
				if vfd.Kind() == protoreflect.MessageKind {
					v = mp2.NewValue()
					g.fill(v.Message(), i, 2)
				} else {
					v = g.nonDefault(vfd, i)
				}
				mp2.Set(protoreflect.ValueOfString(k).MapKey(), v)
			}
			out = append(out, LMsg{"map-keys-like-field-names", mk2})
		}
	case fd.IsList():
		out = append(out, LMsg{"list-empty", mk()})
		if isMsg {
			m := mk()
			l := m.Mutable(fd).List()
			v := l.NewElement()
			g.fill(v.Message(), 0, 2)
			l.Append(v)
			l.Append(l.NewElement())
			v2 := l.NewElement()
			g.fill(v2.Message(), 1, 2)
			l.Append(v2)
			out = append(out, LMsg{"list-msgs", m})
		} else {
			m := mk()
			l := m.Mutable(fd).List()
			for _, lv := range Scalars(fd, Opt{NoLong: true}) {
				l.Append(lv.V)
			}
			out = append(out, LMsg{"list-all-classes", m})
			m1 := mk()
			m1.Mutable(fd).List().Append(g.nonDefault(fd, 0))
			out = append(out, LMsg{"list-one", m1})
		}
	case isMsg && isWKT(fd.Message(), "Value"):
		// google.protobuf.Value: unset, and one class per kind incl. an EXPLICIT null (set, and not the same as unset)
		out = append(out, LMsg{"msg-unset", mk()})
		for v, label := range []string{"value-string", "value-number", "value-bool", "value-explicit-null"} {
			m := mk()
			SetWKT(m.Mutable(fd).Message(), v)
			out = append(out, LMsg{label, m})
		}
		{
			m := mk()
			vm := m.Mutable(fd).Message()
			st := vm.Mutable(vm.Descriptor().Fields().ByName("struct_value")).Message()
			e := st.Mutable(st.Descriptor().Fields().ByName("fields")).Map()
			inner := e.NewValue()
			SetWKT(inner.Message(), 0)
			e.Set(protoreflect.ValueOfString("k").MapKey(), inner)
			nul := e.NewValue()
			SetWKT(nul.Message(), 3)
			e.Set(protoreflect.ValueOfString("nothing").MapKey(), nul)
			out = append(out, LMsg{"value-struct", m})
		}
	case isMsg:
		out = append(out, LMsg{"msg-unset", mk()})
		m := mk()
		m.Mutable(fd) // set but empty
		out = append(out, LMsg{"msg-empty", m})
		if isWKT(fd.Message(), "Timestamp") {
			for _, t := range Timestamps() {
				m := mk()
				tm := m.Mutable(fd).Message()
				tm.Set(tm.Descriptor().Fields().ByName("seconds"), protoreflect.ValueOfInt64(t.S))
				if t.N != 0 {
					tm.Set(tm.Descriptor().Fields().ByName("nanos"), protoreflect.ValueOfInt32(t.N))
				}
				out = append(out, LMsg{"ts-" + t.Class, m})
			}
		} else {
			for v := 0; v < 2; v++ {
				m := mk()
				g.fill(m.Mutable(fd).Message(), v, 2)
				out = append(out, LMsg{"msg-full" + itoa(v), m})
			}
			// partially populated children: only the first / only the last scalar field
			var scal []protoreflect.FieldDescriptor
			cf := fd.Message().Fields()
			for i := 0; i < cf.Len(); i++ {
				if c := cf.Get(i); c.Message() == nil && !c.IsList() && !c.IsMap() && c.ContainingOneof() == nil {
					scal = append(scal, c)
				}
			}
			if len(scal) >= 2 {
				for _, pick := range []struct {
					label string
					f     protoreflect.FieldDescriptor
				}{{"msg-partial-first", scal[0]}, {"msg-partial-last", scal[len(scal)-1]}} {
					m := mk()
					m.Mutable(fd).Message().Set(pick.f, g.nonDefault(pick.f, 1))
					out = append(out, LMsg{pick.label, m})
				}
			}
		}
	default:
		if fd.HasPresence() {
			out = append(out, LMsg{"unset", mk()})
		}
		for _, lv := range Scalars(fd, g.Opt) {
			m := mk()
			m.Set(fd, lv.V)
			out = append(out, LMsg{lv.Class, m})
		}
	}
	return out
}

// All returns a labelled value set for a message type: empty, two full variants (more when
// oneofs need them), and per-field boundary classes.
func (g *Gen) All(md protoreflect.MessageDescriptor) []LMsg {
	out := []LMsg{{"empty", dynamicpb.NewMessage(md)}}
	nv := 2
	oos := md.Oneofs()
	for i := 0; i < oos.Len(); i++ {
		if !oos.Get(i).IsSynthetic() && oos.Get(i).Fields().Len() > nv {
			nv = oos.Get(i).Fields().Len()
		}
	}
	for v := 0; v < nv; v++ {
		out = append(out, LMsg{"full" + itoa(v), g.Full(md, v, 3)})
	}
	fds := md.Fields()
	for i := 0; i < fds.Len(); i++ {
		fd := fds.Get(i)
		for _, lm := range g.FieldClasses(md, fd, nil) {
			out = append(out, LMsg{"#" + itoa(int(fd.Number())) + ":" + lm.Class, lm.M})
		}
	}
	if DefaultCombos > 0 && !g.Opt.URLSafe {
		out = append(out, g.Pairs(md)...)
		out = append(out, g.Combos(md, DefaultCombos)...)
	}
	return out
}

// Pairs returns, for every ordered pair of singular message-typed sibling fields, the
// combinations in which one child is richer than the other (full/empty, full/partial,
// partial/partial, empty/full): what one child leaves unset must not be filled from a sibling.
func (g *Gen) Pairs(md protoreflect.MessageDescriptor) []LMsg {
	fds := md.Fields()
	var msgs []protoreflect.FieldDescriptor
	for i := 0; i < fds.Len(); i++ {
		fd := fds.Get(i)
		if fd.Message() != nil && !fd.IsList() && !fd.IsMap() && !fd.Message().IsMapEntry() && fd.Message().ParentFile().Package() != "google.protobuf" {
			msgs = append(msgs, fd)
		}
	}
	if len(msgs) < 2 || len(msgs) > 4 {
		return nil
	}
	byClass := func(fd protoreflect.FieldDescriptor) map[string]*dynamicpb.Message {
		out := map[string]*dynamicpb.Message{}
		for _, lm := range g.FieldClasses(md, fd, nil) {
			out[lm.Class] = lm.M
		}
		return out
	}
	var out []LMsg
	n := 0
	for i := 0; i < len(msgs); i++ {
		for j := 0; j < len(msgs); j++ {
			if i == j {
				continue
			}
			a, b := byClass(msgs[i]), byClass(msgs[j])
			for _, combo := range [][2]string{{"msg-full0", "msg-empty"}, {"msg-full0", "msg-partial-first"}, {"msg-partial-last", "msg-partial-first"}, {"msg-full1", "msg-partial-last"}} {
				x, y := a[combo[0]], b[combo[1]]
				if x == nil || y == nil {
					continue
				}
				m := dynamicpb.NewMessage(md)
				proto.Merge(m, x)
				proto.Merge(m, y)
				out = append(out, LMsg{"pair" + itoa(n), m})
				n++
			}
		}
	}
	return out
}

// DefaultCombos is the number of field-combination values All appends (set once per run by the
// driver: quick 4, thorough 32).
var DefaultCombos = 0

// Combos returns n messages in which every field independently stays unset or takes one of its
// boundary classes, so classes of different fields meet in one value (set-but-empty next to
// null, extremes next to absent siblings, two oneofs, …). The draw depends only on the shape of
// the message type (field count, index), never on the run's seed: the same combinations are
// explored on every run, more of them in the thorough tier.
func (g *Gen) Combos(md protoreflect.MessageDescriptor, n int) []LMsg {
	fds := md.Fields()
	per := make([][]LMsg, fds.Len())
	for i := 0; i < fds.Len(); i++ {
		per[i] = g.FieldClasses(md, fds.Get(i), nil)
	}
	var out []LMsg
	for k := 0; k < n; k++ {
		r := rand.New(rand.NewSource(int64(7919*fds.Len() + 104729*k + 13)))
		m := dynamicpb.NewMessage(md)
		label := "combo" + itoa(k)
		nonFinite := false
		for i := 0; i < fds.Len(); i++ {
			if len(per[i]) == 0 || r.Intn(5) < 2 {
				continue
			}
			pick := per[i][r.Intn(len(per[i]))]
			switch pick.Class {
			case "nan", "inf", "-inf", "list-all-classes":
				nonFinite = true
			}
			proto.Merge(m, pick.M)
		}
		if nonFinite {
			label += "+nan" // value-class dependent findings (non-finite floats) stay recognisable
		}
		out = append(out, LMsg{label, m})
	}
	return out
}

// Equal is proto.Equal (NaN-aware since protobuf-go treats NaNs as equal).
func Equal(a, b proto.Message) bool { return proto.Equal(a, b) }
