package checks

import (
	"google.golang.org/protobuf/types/descriptorpb"
	"sort"
	"fmt"
	"math"
	"strings"

	validate "buf.build/gen/go/bufbuild/protovalidate/protocolbuffers/go/buf/validate"
	protovalidate "buf.build/go/protovalidate"
	"google.golang.org/protobuf/proto"
	"google.golang.org/protobuf/reflect/protoreflect"
	"google.golang.org/protobuf/types/dynamicpb"

	"verif/internal/model/jsonmap"
	"verif/internal/oas"
	"verif/internal/plugin"
	"verif/internal/spec"
)

func init() { Registry["C19"] = c19 }

type ruleProbe struct {
	Class string
	Set   func(m *dynamicpb.Message, fd protoreflect.FieldDescriptor)
}

type ruleCase struct {
	ID       string
	Kind     spec.T
	Card     spec.Card
	Number64 bool // int64_encoding=NUMBER
	BytesEnc int32 // bytes_encoding (0 = none)
	MapKey   spec.T // key kind of a map field (0 = string)
	Rules    *validate.FieldRules
	Probes   []ruleProbe
	Format   string // expected published format for well-known string rules
	Required bool
	// OneWay: rules outside the property's "supported" list (element, key and value rules): the
	// document may be laxer than the rules, but a value the rules accept must still validate
	OneWay bool
	// SkipZero: the zero value is exempt from the rules (ignore = IGNORE_IF_ZERO_VALUE), which plain
	// schema keywords cannot express: zero-valued probes are not judged
	SkipZero bool
}

func scalarProbe(class string, v protoreflect.Value) ruleProbe {
	return ruleProbe{Class: class, Set: func(m *dynamicpb.Message, fd protoreflect.FieldDescriptor) { m.Set(fd, v) }}
}

func listProbe(class string, vs ...string) ruleProbe {
	return ruleProbe{Class: class, Set: func(m *dynamicpb.Message, fd protoreflect.FieldDescriptor) {
		l := m.Mutable(fd).List()
		for _, s := range vs {
			l.Append(protoreflect.ValueOfString(s))
		}
	}}
}

func mapProbe(class string, n int) ruleProbe {
	return ruleProbe{Class: class, Set: func(m *dynamicpb.Message, fd protoreflect.FieldDescriptor) {
		mp := m.Mutable(fd).Map()
		for i := 0; i < n; i++ {
			mp.Set(protoreflect.ValueOfString(fmt.Sprintf("k%d", i)).MapKey(), protoreflect.ValueOfString("v"))
		}
	}}
}

type numKind struct {
	T        spec.T
	Signed   bool
	Bits     int
	Float    bool
	mk       func(i int64, u uint64, f float64) protoreflect.Value
	rules    func(op string, i int64, u uint64, f float64, in []float64) *validate.FieldRules
}

func i32(v int64) int32 { return int32(v) }

func numKinds() []numKind {
	vi32 := func(i int64, _ uint64, _ float64) protoreflect.Value { return protoreflect.ValueOfInt32(int32(i)) }
	vi64 := func(i int64, _ uint64, _ float64) protoreflect.Value { return protoreflect.ValueOfInt64(i) }
	vu32 := func(_ int64, u uint64, _ float64) protoreflect.Value { return protoreflect.ValueOfUint32(uint32(u)) }
	vu64 := func(_ int64, u uint64, _ float64) protoreflect.Value { return protoreflect.ValueOfUint64(u) }
	vf32 := func(_ int64, _ uint64, f float64) protoreflect.Value { return protoreflect.ValueOfFloat32(float32(f)) }
	vf64 := func(_ int64, _ uint64, f float64) protoreflect.Value { return protoreflect.ValueOfFloat64(f) }
	// rule builders per kind (each kind has its own rules message)
	type b = func(op string, i int64, u uint64, f float64, in []float64) *validate.FieldRules
	mkI32 := func(wrap func(*validate.Int32Rules) *validate.FieldRules) b { return nil }
	_ = mkI32
	return []numKind{
		{spec.Int32, true, 32, false, vi32, func(op string, i int64, _ uint64, _ float64, in []float64) *validate.FieldRules {
			r := &validate.Int32Rules{}
			switch op {
			case "gt":
				r.GreaterThan = &validate.Int32Rules_Gt{Gt: i32(i)}
			case "gte":
				r.GreaterThan = &validate.Int32Rules_Gte{Gte: i32(i)}
			case "lt":
				r.LessThan = &validate.Int32Rules_Lt{Lt: i32(i)}
			case "lte":
				r.LessThan = &validate.Int32Rules_Lte{Lte: i32(i)}
			case "const":
				r.Const = proto.Int32(i32(i))
			case "in":
				for _, x := range in {
					r.In = append(r.In, int32(x))
				}
			case "gte+lte":
				r.GreaterThan = &validate.Int32Rules_Gte{Gte: i32(i)}
				r.LessThan = &validate.Int32Rules_Lte{Lte: i32(i) + 10}
			case "gt+lt":
				r.GreaterThan = &validate.Int32Rules_Gt{Gt: i32(i)}
				r.LessThan = &validate.Int32Rules_Lt{Lt: i32(i) + 10}
			}
			return &validate.FieldRules{Type: &validate.FieldRules_Int32{Int32: r}}
		}},
		{spec.Sint32, true, 32, false, vi32, func(op string, i int64, _ uint64, _ float64, in []float64) *validate.FieldRules {
			r := &validate.SInt32Rules{}
			switch op {
			case "gt":
				r.GreaterThan = &validate.SInt32Rules_Gt{Gt: i32(i)}
			case "gte":
				r.GreaterThan = &validate.SInt32Rules_Gte{Gte: i32(i)}
			case "lt":
				r.LessThan = &validate.SInt32Rules_Lt{Lt: i32(i)}
			case "lte":
				r.LessThan = &validate.SInt32Rules_Lte{Lte: i32(i)}
			case "const":
				r.Const = proto.Int32(i32(i))
			case "in":
				for _, x := range in {
					r.In = append(r.In, int32(x))
				}
			case "gte+lte":
				r.GreaterThan = &validate.SInt32Rules_Gte{Gte: i32(i)}
				r.LessThan = &validate.SInt32Rules_Lte{Lte: i32(i) + 10}
			case "gt+lt":
				r.GreaterThan = &validate.SInt32Rules_Gt{Gt: i32(i)}
				r.LessThan = &validate.SInt32Rules_Lt{Lt: i32(i) + 10}
			}
			return &validate.FieldRules{Type: &validate.FieldRules_Sint32{Sint32: r}}
		}},
		{spec.Sfixed32, true, 32, false, vi32, func(op string, i int64, _ uint64, _ float64, in []float64) *validate.FieldRules {
			r := &validate.SFixed32Rules{}
			switch op {
			case "gt":
				r.GreaterThan = &validate.SFixed32Rules_Gt{Gt: i32(i)}
			case "gte":
				r.GreaterThan = &validate.SFixed32Rules_Gte{Gte: i32(i)}
			case "lt":
				r.LessThan = &validate.SFixed32Rules_Lt{Lt: i32(i)}
			case "lte":
				r.LessThan = &validate.SFixed32Rules_Lte{Lte: i32(i)}
			case "const":
				r.Const = proto.Int32(i32(i))
			case "in":
				for _, x := range in {
					r.In = append(r.In, int32(x))
				}
			case "gte+lte":
				r.GreaterThan = &validate.SFixed32Rules_Gte{Gte: i32(i)}
				r.LessThan = &validate.SFixed32Rules_Lte{Lte: i32(i) + 10}
			case "gt+lt":
				r.GreaterThan = &validate.SFixed32Rules_Gt{Gt: i32(i)}
				r.LessThan = &validate.SFixed32Rules_Lt{Lt: i32(i) + 10}
			}
			return &validate.FieldRules{Type: &validate.FieldRules_Sfixed32{Sfixed32: r}}
		}},
		{spec.Uint32, false, 32, false, vu32, func(op string, _ int64, u uint64, _ float64, in []float64) *validate.FieldRules {
			r := &validate.UInt32Rules{}
			switch op {
			case "gt":
				r.GreaterThan = &validate.UInt32Rules_Gt{Gt: uint32(u)}
			case "gte":
				r.GreaterThan = &validate.UInt32Rules_Gte{Gte: uint32(u)}
			case "lt":
				r.LessThan = &validate.UInt32Rules_Lt{Lt: uint32(u)}
			case "lte":
				r.LessThan = &validate.UInt32Rules_Lte{Lte: uint32(u)}
			case "const":
				r.Const = proto.Uint32(uint32(u))
			case "in":
				for _, x := range in {
					r.In = append(r.In, uint32(x))
				}
			case "gte+lte":
				r.GreaterThan = &validate.UInt32Rules_Gte{Gte: uint32(u)}
				r.LessThan = &validate.UInt32Rules_Lte{Lte: uint32(u) + 10}
			case "gt+lt":
				r.GreaterThan = &validate.UInt32Rules_Gt{Gt: uint32(u)}
				r.LessThan = &validate.UInt32Rules_Lt{Lt: uint32(u) + 10}
			}
			return &validate.FieldRules{Type: &validate.FieldRules_Uint32{Uint32: r}}
		}},
		{spec.Fixed32, false, 32, false, vu32, func(op string, _ int64, u uint64, _ float64, in []float64) *validate.FieldRules {
			r := &validate.Fixed32Rules{}
			switch op {
			case "gt":
				r.GreaterThan = &validate.Fixed32Rules_Gt{Gt: uint32(u)}
			case "gte":
				r.GreaterThan = &validate.Fixed32Rules_Gte{Gte: uint32(u)}
			case "lt":
				r.LessThan = &validate.Fixed32Rules_Lt{Lt: uint32(u)}
			case "lte":
				r.LessThan = &validate.Fixed32Rules_Lte{Lte: uint32(u)}
			case "const":
				r.Const = proto.Uint32(uint32(u))
			case "in":
				for _, x := range in {
					r.In = append(r.In, uint32(x))
				}
			case "gte+lte":
				r.GreaterThan = &validate.Fixed32Rules_Gte{Gte: uint32(u)}
				r.LessThan = &validate.Fixed32Rules_Lte{Lte: uint32(u) + 10}
			case "gt+lt":
				r.GreaterThan = &validate.Fixed32Rules_Gt{Gt: uint32(u)}
				r.LessThan = &validate.Fixed32Rules_Lt{Lt: uint32(u) + 10}
			}
			return &validate.FieldRules{Type: &validate.FieldRules_Fixed32{Fixed32: r}}
		}},
		{spec.Int64, true, 64, false, vi64, func(op string, i int64, _ uint64, _ float64, in []float64) *validate.FieldRules {
			r := &validate.Int64Rules{}
			switch op {
			case "gt":
				r.GreaterThan = &validate.Int64Rules_Gt{Gt: i}
			case "gte":
				r.GreaterThan = &validate.Int64Rules_Gte{Gte: i}
			case "lt":
				r.LessThan = &validate.Int64Rules_Lt{Lt: i}
			case "lte":
				r.LessThan = &validate.Int64Rules_Lte{Lte: i}
			case "const":
				r.Const = proto.Int64(i)
			case "in":
				for _, x := range in {
					r.In = append(r.In, int64(x))
				}
			case "gte+lte":
				r.GreaterThan = &validate.Int64Rules_Gte{Gte: i}
				r.LessThan = &validate.Int64Rules_Lte{Lte: i + 10}
			case "gt+lt":
				r.GreaterThan = &validate.Int64Rules_Gt{Gt: i}
				r.LessThan = &validate.Int64Rules_Lt{Lt: i + 10}
			}
			return &validate.FieldRules{Type: &validate.FieldRules_Int64{Int64: r}}
		}},
		{spec.Sint64, true, 64, false, vi64, func(op string, i int64, _ uint64, _ float64, in []float64) *validate.FieldRules {
			r := &validate.SInt64Rules{}
			switch op {
			case "gt":
				r.GreaterThan = &validate.SInt64Rules_Gt{Gt: i}
			case "gte":
				r.GreaterThan = &validate.SInt64Rules_Gte{Gte: i}
			case "lt":
				r.LessThan = &validate.SInt64Rules_Lt{Lt: i}
			case "lte":
				r.LessThan = &validate.SInt64Rules_Lte{Lte: i}
			case "const":
				r.Const = proto.Int64(i)
			case "in":
				for _, x := range in {
					r.In = append(r.In, int64(x))
				}
			case "gte+lte":
				r.GreaterThan = &validate.SInt64Rules_Gte{Gte: i}
				r.LessThan = &validate.SInt64Rules_Lte{Lte: i + 10}
			case "gt+lt":
				r.GreaterThan = &validate.SInt64Rules_Gt{Gt: i}
				r.LessThan = &validate.SInt64Rules_Lt{Lt: i + 10}
			}
			return &validate.FieldRules{Type: &validate.FieldRules_Sint64{Sint64: r}}
		}},
		{spec.Sfixed64, true, 64, false, vi64, func(op string, i int64, _ uint64, _ float64, in []float64) *validate.FieldRules {
			r := &validate.SFixed64Rules{}
			switch op {
			case "gt":
				r.GreaterThan = &validate.SFixed64Rules_Gt{Gt: i}
			case "gte":
				r.GreaterThan = &validate.SFixed64Rules_Gte{Gte: i}
			case "lt":
				r.LessThan = &validate.SFixed64Rules_Lt{Lt: i}
			case "lte":
				r.LessThan = &validate.SFixed64Rules_Lte{Lte: i}
			case "const":
				r.Const = proto.Int64(i)
			case "in":
				for _, x := range in {
					r.In = append(r.In, int64(x))
				}
			case "gte+lte":
				r.GreaterThan = &validate.SFixed64Rules_Gte{Gte: i}
				r.LessThan = &validate.SFixed64Rules_Lte{Lte: i + 10}
			case "gt+lt":
				r.GreaterThan = &validate.SFixed64Rules_Gt{Gt: i}
				r.LessThan = &validate.SFixed64Rules_Lt{Lt: i + 10}
			}
			return &validate.FieldRules{Type: &validate.FieldRules_Sfixed64{Sfixed64: r}}
		}},
		{spec.Uint64, false, 64, false, vu64, func(op string, _ int64, u uint64, _ float64, in []float64) *validate.FieldRules {
			r := &validate.UInt64Rules{}
			switch op {
			case "gt":
				r.GreaterThan = &validate.UInt64Rules_Gt{Gt: u}
			case "gte":
				r.GreaterThan = &validate.UInt64Rules_Gte{Gte: u}
			case "lt":
				r.LessThan = &validate.UInt64Rules_Lt{Lt: u}
			case "lte":
				r.LessThan = &validate.UInt64Rules_Lte{Lte: u}
			case "const":
				r.Const = proto.Uint64(u)
			case "in":
				for _, x := range in {
					r.In = append(r.In, uint64(x))
				}
			case "gte+lte":
				r.GreaterThan = &validate.UInt64Rules_Gte{Gte: u}
				r.LessThan = &validate.UInt64Rules_Lte{Lte: u + 10}
			case "gt+lt":
				r.GreaterThan = &validate.UInt64Rules_Gt{Gt: u}
				r.LessThan = &validate.UInt64Rules_Lt{Lt: u + 10}
			}
			return &validate.FieldRules{Type: &validate.FieldRules_Uint64{Uint64: r}}
		}},
		{spec.Fixed64, false, 64, false, vu64, func(op string, _ int64, u uint64, _ float64, in []float64) *validate.FieldRules {
			r := &validate.Fixed64Rules{}
			switch op {
			case "gt":
				r.GreaterThan = &validate.Fixed64Rules_Gt{Gt: u}
			case "gte":
				r.GreaterThan = &validate.Fixed64Rules_Gte{Gte: u}
			case "lt":
				r.LessThan = &validate.Fixed64Rules_Lt{Lt: u}
			case "lte":
				r.LessThan = &validate.Fixed64Rules_Lte{Lte: u}
			case "const":
				r.Const = proto.Uint64(u)
			case "in":
				for _, x := range in {
					r.In = append(r.In, uint64(x))
				}
			case "gte+lte":
				r.GreaterThan = &validate.Fixed64Rules_Gte{Gte: u}
				r.LessThan = &validate.Fixed64Rules_Lte{Lte: u + 10}
			case "gt+lt":
				r.GreaterThan = &validate.Fixed64Rules_Gt{Gt: u}
				r.LessThan = &validate.Fixed64Rules_Lt{Lt: u + 10}
			}
			return &validate.FieldRules{Type: &validate.FieldRules_Fixed64{Fixed64: r}}
		}},
		{spec.Float, true, 32, true, vf32, func(op string, _ int64, _ uint64, f float64, in []float64) *validate.FieldRules {
			r := &validate.FloatRules{}
			switch op {
			case "gt":
				r.GreaterThan = &validate.FloatRules_Gt{Gt: float32(f)}
			case "gte":
				r.GreaterThan = &validate.FloatRules_Gte{Gte: float32(f)}
			case "lt":
				r.LessThan = &validate.FloatRules_Lt{Lt: float32(f)}
			case "lte":
				r.LessThan = &validate.FloatRules_Lte{Lte: float32(f)}
			case "const":
				r.Const = proto.Float32(float32(f))
			case "in":
				for _, x := range in {
					r.In = append(r.In, float32(x))
				}
			case "gte+lte":
				r.GreaterThan = &validate.FloatRules_Gte{Gte: float32(f)}
				r.LessThan = &validate.FloatRules_Lte{Lte: float32(f) + 10}
			case "gt+lt":
				r.GreaterThan = &validate.FloatRules_Gt{Gt: float32(f)}
				r.LessThan = &validate.FloatRules_Lt{Lt: float32(f) + 10}
			}
			return &validate.FieldRules{Type: &validate.FieldRules_Float{Float: r}}
		}},
		{spec.Double, true, 64, true, vf64, func(op string, _ int64, _ uint64, f float64, in []float64) *validate.FieldRules {
			r := &validate.DoubleRules{}
			switch op {
			case "gt":
				r.GreaterThan = &validate.DoubleRules_Gt{Gt: f}
			case "gte":
				r.GreaterThan = &validate.DoubleRules_Gte{Gte: f}
			case "lt":
				r.LessThan = &validate.DoubleRules_Lt{Lt: f}
			case "lte":
				r.LessThan = &validate.DoubleRules_Lte{Lte: f}
			case "const":
				r.Const = proto.Float64(f)
			case "in":
				r.In = append(r.In, in...)
			case "gte+lte":
				r.GreaterThan = &validate.DoubleRules_Gte{Gte: f}
				r.LessThan = &validate.DoubleRules_Lte{Lte: f + 10}
			case "gt+lt":
				r.GreaterThan = &validate.DoubleRules_Gt{Gt: f}
				r.LessThan = &validate.DoubleRules_Lt{Lt: f + 10}
			}
			return &validate.FieldRules{Type: &validate.FieldRules_Double{Double: r}}
		}},
	}
}

// reshapeRange turns a two-sided range rule (lower=b, upper=b+10) into one with equal bounds
// ("x=y": both b) or an inverted one ("x>y": lower=b+10, upper=b, which the rules define as
// "outside the interval").
func reshapeRange(r *validate.FieldRules, op string) *validate.FieldRules {
	rm := r.ProtoReflect()
	tf := rm.WhichOneof(rm.Descriptor().Oneofs().ByName("type"))
	m := rm.Mutable(tf).Message()
	lo := m.WhichOneof(m.Descriptor().Oneofs().ByName("greater_than"))
	hi := m.WhichOneof(m.Descriptor().Oneofs().ByName("less_than"))
	if lo == nil || hi == nil {
		return r
	}
	lv, hv := m.Get(lo), m.Get(hi)
	if strings.Contains(op, "=") {
		m.Set(hi, lv)
	} else {
		m.Set(lo, hv)
		m.Set(hi, lv)
	}
	return r
}

func ruleCatalogue() []ruleCase {
	var out []ruleCase
	// ---- numeric ----
	for _, nk := range numKinds() {
		type bound struct {
			Class string
			I     int64
			U     uint64
			F     float64
		}
		bounds := []bound{{"zero", 0, 0, 0}, {"small", 10, 10, 10.5}}
		if nk.Signed {
			bounds = append(bounds, bound{"negative", -5, 0, -5.5})
		}
		if nk.Bits == 64 && !nk.Float {
			bounds = append(bounds, bound{"gt2p53", 1<<53 + 1, 1<<53 + 1, 0})
			if nk.Signed {
				bounds = append(bounds, bound{"lt-2p53", -(1<<53 + 1), 0, 0})
			} else {
				bounds = append(bounds, bound{"gt-int64", 0, 1<<63 + 5, 0})
			}
		}
		if nk.Float {
			// a value without an exact binary representation (the shortest decimal of the float32 differs from
			// the decimal expansion of its float64 widening)
			bounds = append(bounds, bound{"inexact", 0, 0, 3.14159})
		}
		if nk.Bits == 32 && !nk.Float {
			if nk.Signed {
				bounds = append(bounds, bound{"near-max", math.MaxInt32 - 20, 0, 0})
			} else {
				bounds = append(bounds, bound{"near-max", 0, math.MaxUint32 - 20, 0})
			}
		}
		for _, op := range []string{"gt", "gte", "lt", "lte", "const", "gte+lte", "gt+lt", "in", "gte=lte", "gt=lt", "gte>lte", "gt>lt"} {
			for _, b := range bounds {
				if !nk.Signed && b.Class == "negative" {
					continue
				}
				if op == "in" && b.Class != "small" && b.Class != "inexact" {
					continue
				}
				b, op, nk := b, op, nk
				number64s := []bool{false}
				if nk.Bits == 64 && !nk.Float {
					number64s = []bool{false, true}
				}
				for _, n64 := range number64s {
					rc := ruleCase{Kind: nk.T, Number64: n64}
					enc := ""
					if n64 {
						enc = "+int64number"
					}
					rc.ID = fmt.Sprintf("rules/numeric-%s/%s%s/bound=%s", op, spec.KindName(nk.T), enc, b.Class)
					switch op {
					case "gte=lte", "gte>lte":
						rc.Rules = reshapeRange(nk.rules("gte+lte", b.I, b.U, b.F, nil), op)
					case "gt=lt", "gt>lt":
						rc.Rules = reshapeRange(nk.rules("gt+lt", b.I, b.U, b.F, nil), op)
					default:
						inList := []float64{10, 20, 30}
						if b.Class == "inexact" {
							inList = []float64{0.1, 19.99, 2.5}
						}
						rc.Rules = nk.rules(op, b.I, b.U, b.F, inList)
					}
					// probes around the bound(s)
					addP := func(class string, di int64, df float64) {
						var v protoreflect.Value
						switch {
						case nk.Float:
							v = nk.mk(0, 0, b.F+df)
						case nk.Signed:
							v = nk.mk(b.I+di, 0, 0)
						default:
							if di < 0 && b.U < uint64(-di) {
								return
							}
							v = nk.mk(0, uint64(int64(b.U)+di), 0)
						}
						rc.Probes = append(rc.Probes, scalarProbe(class, v))
					}
					addP("at", 0, 0)
					addP("below", -1, -0.25)
					addP("above", 1, 0.25)
					if strings.Contains(op, "+") || strings.Contains(op, ">") {
						addP("at-upper", 10, 10)
						addP("above-upper", 11, 10.25)
						addP("inside", 5, 5)
					}
					if op == "in" {
						rc.Probes = nil
						inProbes := []float64{10, 20, 30, 11, 0}
						if b.Class == "inexact" {
							inProbes = []float64{0.1, 19.99, 2.5, 0.2, 0}
						}
						for i, x := range inProbes {
							rc.Probes = append(rc.Probes, scalarProbe(fmt.Sprintf("in-probe%d", i), nk.mk(int64(x), uint64(x), x)))
						}
					}
					rc.Probes = append(rc.Probes, scalarProbe("zero", nk.mk(0, 0, 0)))
					out = append(out, rc)
				}
			}
		}
	}
	// ---- strings ----
	str := func(id string, r *validate.StringRules, format string, probes ...string) {
		rc := ruleCase{ID: "rules/" + id, Kind: spec.String, Rules: &validate.FieldRules{Type: &validate.FieldRules_String_{String_: r}}, Format: format}
		for i, p := range probes {
			rc.Probes = append(rc.Probes, scalarProbe(fmt.Sprintf("s%d", i), protoreflect.ValueOfString(p)))
		}
		out = append(out, rc)
	}
	str("string-min_len/string/len=3", &validate.StringRules{MinLen: proto.Uint64(3)}, "", "", "ab", "abc", "abcd", "😀😀", "😀😀😀", "é", "ééé")
	str("string-max_len/string/len=3", &validate.StringRules{MaxLen: proto.Uint64(3)}, "", "", "abc", "abcd", "😀😀😀", "😀😀😀😀")
	str("string-min+max_len/string/len=2..4", &validate.StringRules{MinLen: proto.Uint64(2), MaxLen: proto.Uint64(4)}, "", "a", "ab", "abcd", "abcde", "😀😀😀😀", "😀")
	str("string-min_len/string/len=0", &validate.StringRules{MinLen: proto.Uint64(0)}, "", "", "a")
	str("string-pattern/string/lower", &validate.StringRules{Pattern: proto.String("^[a-z]+$")}, "", "abc", "ABC", "ab1", "")
	str("string-pattern/string/code", &validate.StringRules{Pattern: proto.String("^[A-Z]{2}-[0-9]{3}$")}, "", "AB-123", "AB-12", "ab-123", "xAB-123")
	str("string-pattern/string/unanchored", &validate.StringRules{Pattern: proto.String("[0-9]+")}, "", "abc123def", "abc", "7")
	str("string-in/string/two", &validate.StringRules{In: []string{"red", "green"}}, "", "red", "green", "blue", "", "RED")
	str("string-const/string/fixed", &validate.StringRules{Const: proto.String("fixed")}, "", "fixed", "other", "")
	str("string-format/string/email", &validate.StringRules{WellKnown: &validate.StringRules_Email{Email: true}}, "email")
	str("string-format/string/uuid", &validate.StringRules{WellKnown: &validate.StringRules_Uuid{Uuid: true}}, "uuid")
	str("string-format/string/uri", &validate.StringRules{WellKnown: &validate.StringRules_Uri{Uri: true}}, "uri")
	str("string-format/string/hostname", &validate.StringRules{WellKnown: &validate.StringRules_Hostname{Hostname: true}}, "hostname")
	str("string-format/string/ipv4", &validate.StringRules{WellKnown: &validate.StringRules_Ipv4{Ipv4: true}}, "ipv4")
	str("string-format/string/ipv6", &validate.StringRules{WellKnown: &validate.StringRules_Ipv6{Ipv6: true}}, "ipv6")
	str("string-format/string/ip", &validate.StringRules{WellKnown: &validate.StringRules_Ip{Ip: true}}, "*")
	// ---- repeated ----
	rep := func(id string, r *validate.RepeatedRules, probes ...ruleProbe) {
		out = append(out, ruleCase{ID: "rules/" + id, Kind: spec.String, Card: spec.Repeated, Rules: &validate.FieldRules{Type: &validate.FieldRules_Repeated{Repeated: r}}, Probes: probes})
	}
	rep("repeated-min_items/string/n=1", &validate.RepeatedRules{MinItems: proto.Uint64(1)}, listProbe("n0"), listProbe("n1", "a"), listProbe("n2", "a", "b"))
	rep("repeated-max_items/string/n=3", &validate.RepeatedRules{MaxItems: proto.Uint64(3)}, listProbe("n0"), listProbe("n3", "a", "b", "c"), listProbe("n4", "a", "b", "c", "d"))
	rep("repeated-min+max_items/string/n=2..3", &validate.RepeatedRules{MinItems: proto.Uint64(2), MaxItems: proto.Uint64(3)}, listProbe("n1", "a"), listProbe("n2", "a", "b"), listProbe("n3", "a", "b", "c"), listProbe("n4", "a", "b", "c", "d"))
	rep("repeated-unique/string/true", &validate.RepeatedRules{Unique: proto.Bool(true)}, listProbe("distinct", "a", "b"), listProbe("dup", "a", "b", "a"), listProbe("n0"))
	// ---- map ----
	mp := func(id string, r *validate.MapRules, probes ...ruleProbe) {
		out = append(out, ruleCase{ID: "rules/" + id, Kind: spec.String, Card: spec.Map, Rules: &validate.FieldRules{Type: &validate.FieldRules_Map{Map: r}}, Probes: probes})
	}
	mp("map-min_pairs/string/n=1", &validate.MapRules{MinPairs: proto.Uint64(1)}, mapProbe("n0", 0), mapProbe("n1", 1), mapProbe("n2", 2))
	mp("map-max_pairs/string/n=2", &validate.MapRules{MaxPairs: proto.Uint64(2)}, mapProbe("n0", 0), mapProbe("n2", 2), mapProbe("n3", 3))
	mp("map-min+max_pairs/string/n=1..2", &validate.MapRules{MinPairs: proto.Uint64(1), MaxPairs: proto.Uint64(2)}, mapProbe("n0", 0), mapProbe("n1", 1), mapProbe("n2", 2), mapProbe("n3", 3))
	// ---- required ----
	out = append(out, ruleCase{ID: "rules/required/string/true", Kind: spec.String, Rules: &validate.FieldRules{Required: proto.Bool(true)}, Required: true})
	out = append(out, ruleCase{ID: "rules/required/int32/true", Kind: spec.Int32, Rules: &validate.FieldRules{Required: proto.Bool(true)}, Required: true})
	out = append(out, ruleCase{ID: "rules/required/string/false-with-other-rule", Kind: spec.String, Rules: &validate.FieldRules{Type: &validate.FieldRules_String_{String_: &validate.StringRules{MinLen: proto.Uint64(1)}}}})
	out = append(out, ruleCase{ID: "rules/required/message-optional/true", Kind: spec.String, Card: spec.Optional, Rules: &validate.FieldRules{Required: proto.Bool(true)}, Required: true})
	// required on fields without presence: the rule is about the field being non-empty, never about
	// the elements, keys or values inside it (one-way: what the rules accept must validate)
	reqOnly := func() *validate.FieldRules { return &validate.FieldRules{Required: proto.Bool(true)} }
	bytesList := func(class string, vs ...string) ruleProbe {
		return ruleProbe{Class: class, Set: func(m *dynamicpb.Message, fd protoreflect.FieldDescriptor) {
			l := m.Mutable(fd).List()
			for _, s := range vs {
				l.Append(protoreflect.ValueOfBytes([]byte(s)))
			}
		}}
	}
	emptyValueMap := ruleProbe{Class: "empty-value", Set: func(m *dynamicpb.Message, fd protoreflect.FieldDescriptor) {
		m.Mutable(fd).Map().Set(protoreflect.ValueOfString("k").MapKey(), protoreflect.ValueOfString(""))
	}}
	emptyKeyMap := ruleProbe{Class: "empty-key", Set: func(m *dynamicpb.Message, fd protoreflect.FieldDescriptor) {
		m.Mutable(fd).Map().Set(protoreflect.ValueOfString("").MapKey(), protoreflect.ValueOfString("v"))
	}}
	out = append(out, ruleCase{ID: "rules/required/repeated-string/true", Kind: spec.String, Card: spec.Repeated, Rules: reqOnly(), Required: true, OneWay: true,
		Probes: []ruleProbe{listProbe("n1", "a"), listProbe("one-empty-element", ""), listProbe("empty-element-among-others", "a", "", "b"), listProbe("n3", "a", "b", "c")}})
	out = append(out, ruleCase{ID: "rules/required/repeated-bytes/true", Kind: spec.Bytes, Card: spec.Repeated, Rules: reqOnly(), Required: true, OneWay: true,
		Probes: []ruleProbe{bytesList("n1", "a"), bytesList("one-empty-element", ""), bytesList("empty-element-among-others", "ab", "", "c")}})
	out = append(out, ruleCase{ID: "rules/required+min_items/repeated-string/n=2", Kind: spec.String, Card: spec.Repeated, Required: true, OneWay: true,
		Rules:  &validate.FieldRules{Required: proto.Bool(true), Type: &validate.FieldRules_Repeated{Repeated: &validate.RepeatedRules{MinItems: proto.Uint64(2)}}},
		Probes: []ruleProbe{listProbe("n2", "a", "b"), listProbe("empty-elements", "", ""), listProbe("n1", "a")}})
	out = append(out, ruleCase{ID: "rules/required/map-string/true", Kind: spec.String, Card: spec.Map, Rules: reqOnly(), Required: true, OneWay: true,
		Probes: []ruleProbe{mapProbe("n1", 1), emptyValueMap, emptyKeyMap, mapProbe("n3", 3)}})
	out = append(out, ruleCase{ID: "rules/required/string/true-values", Kind: spec.String, Rules: reqOnly(), Required: true, OneWay: true,
		Probes: []ruleProbe{scalarProbe("one-char", protoreflect.ValueOfString("a")), scalarProbe("blank", protoreflect.ValueOfString(" ")), scalarProbe("long", protoreflect.ValueOfString(strings.Repeat("x", 300)))}})
	out = append(out, ruleCase{ID: "rules/required/int32/true-values", Kind: spec.Int32, Rules: reqOnly(), Required: true, OneWay: true,
		Probes: []ruleProbe{scalarProbe("one", protoreflect.ValueOfInt32(1)), scalarProbe("negative", protoreflect.ValueOfInt32(-1)), scalarProbe("max", protoreflect.ValueOfInt32(math.MaxInt32))}})
	out = append(out, ruleCase{ID: "rules/required/bool/true-values", Kind: spec.Bool, Rules: reqOnly(), Required: true, OneWay: true,
		Probes: []ruleProbe{scalarProbe("true", protoreflect.ValueOfBool(true))}})
	out = append(out, ruleCase{ID: "rules/required/optional-string/true-values", Kind: spec.String, Card: spec.Optional, Rules: reqOnly(), Required: true, OneWay: true,
		Probes: []ruleProbe{scalarProbe("empty-but-set", protoreflect.ValueOfString("")), scalarProbe("one-char", protoreflect.ValueOfString("a"))}})
	// bytes length rules count BYTES; the JSON form is text in one of five encodings whose length is another
	// number (one-way: a value the rules accept must validate)
	for _, be := range []struct {
		label string
		enc   int32
	}{{"default", 0}, {"base64", 1}, {"base64_raw", 2}, {"base64url", 3}, {"base64url_raw", 4}, {"hex", 5}} {
		bp := func(n int) ruleProbe {
			return scalarProbe(fmt.Sprintf("n%d", n), protoreflect.ValueOfBytes([]byte(strings.Repeat("\xfb\xef\xbe\x01", n/4+1)[:n])))
		}
		br := func(r *validate.BytesRules) *validate.FieldRules {
			return &validate.FieldRules{Type: &validate.FieldRules_Bytes{Bytes: r}}
		}
		for _, n := range []uint64{16, 20, 3, 1} {
			out = append(out, ruleCase{ID: fmt.Sprintf("rules/bytes-len/%s/n=%d", be.label, n), Kind: spec.Bytes, BytesEnc: be.enc, OneWay: true, Rules: br(&validate.BytesRules{Len: proto.Uint64(n)}),
				Probes: []ruleProbe{bp(int(n)), bp(int(n) - 1), bp(int(n) + 1)}})
		}
		out = append(out, ruleCase{ID: fmt.Sprintf("rules/bytes-max_len/%s/n=32", be.label), Kind: spec.Bytes, BytesEnc: be.enc, OneWay: true, Rules: br(&validate.BytesRules{MaxLen: proto.Uint64(32)}),
			Probes: []ruleProbe{bp(1), bp(30), bp(31), bp(32), bp(33)}})
		out = append(out, ruleCase{ID: fmt.Sprintf("rules/bytes-min_len/%s/n=5", be.label), Kind: spec.Bytes, BytesEnc: be.enc, OneWay: true, Rules: br(&validate.BytesRules{MinLen: proto.Uint64(5)}),
			Probes: []ruleProbe{bp(4), bp(5), bp(6), bp(64)}})
		out = append(out, ruleCase{ID: fmt.Sprintf("rules/bytes-min+max_len/%s/n=20..32", be.label), Kind: spec.Bytes, BytesEnc: be.enc, OneWay: true, Rules: br(&validate.BytesRules{MinLen: proto.Uint64(20), MaxLen: proto.Uint64(32)}),
			Probes: []ruleProbe{bp(19), bp(20), bp(22), bp(31), bp(32), bp(33)}})
	}
	// ---- the ignore option ----
	// IGNORE_IF_ZERO_VALUE on a field without presence exempts only the zero value: every other value
	// is judged by the same rules, and `required` stays in force. IGNORE_ALWAYS switches the rules and
	// `required` off: nothing may be published for the field.
	n := len(out)
	for i := 0; i < n; i++ {
		rc := out[i]
		if rc.Card == spec.Optional || rc.Format != "" || rc.Number64 {
			continue
		}
		pick := strings.HasPrefix(rc.ID, "rules/string-") || strings.HasPrefix(rc.ID, "rules/repeated-") || strings.HasPrefix(rc.ID, "rules/map-") || strings.HasPrefix(rc.ID, "rules/required/") ||
			((strings.HasPrefix(rc.ID, "rules/numeric-gte+lte/") || strings.HasPrefix(rc.ID, "rules/numeric-gt/") || strings.HasPrefix(rc.ID, "rules/numeric-lte/") || strings.HasPrefix(rc.ID, "rules/numeric-const/")) && strings.HasSuffix(rc.ID, "bound=small"))
		if !pick {
			continue
		}
		z := rc
		z.ID = rc.ID + "/ignore=if-zero"
		z.Rules = proto.Clone(rc.Rules).(*validate.FieldRules)
		z.Rules.Ignore = validate.Ignore_IGNORE_IF_ZERO_VALUE.Enum()
		z.SkipZero = true
		out = append(out, z)
		a := rc
		a.ID = rc.ID + "/ignore=always"
		a.Rules = proto.Clone(rc.Rules).(*validate.FieldRules)
		a.Rules.Ignore = validate.Ignore_IGNORE_ALWAYS.Enum()
		a.Required = false
		out = append(out, a)
	}
	// ---- element, key and value rules (one-way: a value the rules accept must validate) ----
	items := func(id string, kind spec.T, item *validate.FieldRules, probes ...ruleProbe) {
		out = append(out, ruleCase{ID: "rules/" + id, Kind: kind, Card: spec.Repeated, OneWay: true, Probes: probes,
			Rules: &validate.FieldRules{Type: &validate.FieldRules_Repeated{Repeated: &validate.RepeatedRules{Items: item}}}})
	}
	strItem := func(r *validate.StringRules) *validate.FieldRules {
		return &validate.FieldRules{Type: &validate.FieldRules_String_{String_: r}}
	}
	items("repeated-items-in/string/three", spec.String, strItem(&validate.StringRules{In: []string{"admin", "editor", "viewer"}}), listProbe("members", "admin", "viewer"), listProbe("one", "editor"), listProbe("n0"), listProbe("outsider", "admin", "root"))
	items("repeated-items-const/string/fixed", spec.String, strItem(&validate.StringRules{Const: proto.String("x")}), listProbe("members", "x", "x"), listProbe("n0"), listProbe("other", "y"))
	items("repeated-items-pattern+max_len/string/lower", spec.String, strItem(&validate.StringRules{Pattern: proto.String("^[a-z]+$"), MaxLen: proto.Uint64(4)}), listProbe("ok", "ab", "abcd"), listProbe("long", "abcde"), listProbe("upper", "AB"))
	items("repeated-items-min_len/string/len=2", spec.String, strItem(&validate.StringRules{MinLen: proto.Uint64(2)}), listProbe("ok", "ab", "abc"), listProbe("short", "a"))
	out = append(out, ruleCase{ID: "rules/repeated-items-in+max_items/string/two", Kind: spec.String, Card: spec.Repeated, OneWay: true,
		Rules:  &validate.FieldRules{Type: &validate.FieldRules_Repeated{Repeated: &validate.RepeatedRules{MaxItems: proto.Uint64(2), Items: strItem(&validate.StringRules{In: []string{"a", "b"}})}}},
		Probes: []ruleProbe{listProbe("ok", "a", "b"), listProbe("n0"), listProbe("too-many", "a", "b", "a")}})
	mapKV := func(id string, keys, values *validate.FieldRules, probes ...ruleProbe) {
		out = append(out, ruleCase{ID: "rules/" + id, Kind: spec.String, Card: spec.Map, OneWay: true, Probes: probes,
			Rules: &validate.FieldRules{Type: &validate.FieldRules_Map{Map: &validate.MapRules{Keys: keys, Values: values}}}})
	}
	mapKV("map-values-in/string/one", nil, strItem(&validate.StringRules{In: []string{"v"}}), mapProbe("n0", 0), mapProbe("n2", 2))
	mapKV("map-keys-pattern/string/k", strItem(&validate.StringRules{Pattern: proto.String("^k[0-9]+$")}), nil, mapProbe("n0", 0), mapProbe("n3", 3))
	mapKV("map-keys+values/string/len", strItem(&validate.StringRules{MaxLen: proto.Uint64(3)}), strItem(&validate.StringRules{MinLen: proto.Uint64(1)}), mapProbe("n0", 0), mapProbe("n2", 2))
	// maps whose KEY kind is not string (JSON member names are always strings) with and without rules on the keys
	keyedProbe := func(class string, keys ...protoreflect.Value) ruleProbe {
		return ruleProbe{Class: class, Set: func(m *dynamicpb.Message, fd protoreflect.FieldDescriptor) {
			mp := m.Mutable(fd).Map()
			for _, k := range keys {
				mp.Set(k.MapKey(), protoreflect.ValueOfString("v"))
			}
		}}
	}
	i32 := func(n int32) protoreflect.Value { return protoreflect.ValueOfInt32(n) }
	i32Rule := func(r *validate.Int32Rules) *validate.FieldRules { return &validate.FieldRules{Type: &validate.FieldRules_Int32{Int32: r}} }
	out = append(out, ruleCase{ID: "rules/map-keys-gt/int32-key/zero", Kind: spec.String, Card: spec.Map, MapKey: spec.Int32, OneWay: true,
		Rules:  &validate.FieldRules{Type: &validate.FieldRules_Map{Map: &validate.MapRules{Keys: i32Rule(&validate.Int32Rules{GreaterThan: &validate.Int32Rules_Gt{Gt: 0}})}}},
		Probes: []ruleProbe{keyedProbe("n0"), keyedProbe("one-positive-key", i32(1)), keyedProbe("three-positive-keys", i32(1), i32(20), i32(300)), keyedProbe("a-negative-key", i32(-1))}})
	out = append(out, ruleCase{ID: "rules/map-keys+max_pairs/int32-key/n=2", Kind: spec.String, Card: spec.Map, MapKey: spec.Int32, OneWay: true,
		Rules:  &validate.FieldRules{Type: &validate.FieldRules_Map{Map: &validate.MapRules{MaxPairs: proto.Uint64(2), Keys: i32Rule(&validate.Int32Rules{LessThan: &validate.Int32Rules_Lte{Lte: 100}})}}},
		Probes: []ruleProbe{keyedProbe("n0"), keyedProbe("n2", i32(1), i32(100)), keyedProbe("n3", i32(1), i32(2), i32(3))}})
	out = append(out, ruleCase{ID: "rules/map-keys-const/bool-key/true", Kind: spec.String, Card: spec.Map, MapKey: spec.Bool, OneWay: true,
		Rules:  &validate.FieldRules{Type: &validate.FieldRules_Map{Map: &validate.MapRules{Keys: &validate.FieldRules{Type: &validate.FieldRules_Bool{Bool: &validate.BoolRules{Const: proto.Bool(true)}}}}}},
		Probes: []ruleProbe{keyedProbe("n0"), keyedProbe("true-key", protoreflect.ValueOfBool(true)), keyedProbe("false-key", protoreflect.ValueOfBool(false))}})
	out = append(out, ruleCase{ID: "rules/map-min_pairs/uint32-key/n=1", Kind: spec.String, Card: spec.Map, MapKey: spec.Uint32,
		Rules:  &validate.FieldRules{Type: &validate.FieldRules_Map{Map: &validate.MapRules{MinPairs: proto.Uint64(1)}}},
		Probes: []ruleProbe{keyedProbe("n0"), keyedProbe("n1", protoreflect.ValueOfUint32(7)), keyedProbe("n2", protoreflect.ValueOfUint32(7), protoreflect.ValueOfUint32(4000000000))}})
	out = append(out, ruleCase{ID: "rules/map-keys-in/int64-key/two", Kind: spec.String, Card: spec.Map, MapKey: spec.Int64, OneWay: true,
		Rules:  &validate.FieldRules{Type: &validate.FieldRules_Map{Map: &validate.MapRules{Keys: &validate.FieldRules{Type: &validate.FieldRules_Int64{Int64: &validate.Int64Rules{In: []int64{5, 1<<53 + 1}}}}}}},
		Probes: []ruleProbe{keyedProbe("n0"), keyedProbe("member", protoreflect.ValueOfInt64(5)), keyedProbe("big-member", protoreflect.ValueOfInt64(1<<53+1)), keyedProbe("outsider", protoreflect.ValueOfInt64(6))}})
	return out
}

// c19: OpenAPI constraints accept exactly what the declared validation rules accept.

// ruleUnit is one proto package of the rule catalogue: message R<i> {<kind> val = 1 [rules]; string other = 2;}
// per rule case, a message AllRules with one field per R<i>, and a service with one POST RPC over AllRules.
type ruleUnit struct {
	pkg, svc string
	cat      []ruleCase
	f        *spec.File
}

func buildRuleUnit(pkg, goName, svc string, cat []ruleCase) *ruleUnit {
	return buildRuleUnitX(pkg, goName, svc, cat, false)
}

// buildRuleUnitX: with perRPC every R<i> is also the request and response of its own POST RPC
// Check<i> (so that it travels as a top-level message).
func buildRuleUnitX(pkg, goName, svc string, cat []ruleCase, perRPC bool) *ruleUnit {
	f := &spec.File{Path: strings.ReplaceAll(pkg, ".", "/") + "/rules.proto", Package: pkg, GoImport: "lab/gen/" + goName, GoName: goName}
	all := &spec.Message{Name: "AllRules"}
	for i, rc := range cat {
		fld := spec.F("val", 1, rc.Kind)
		switch rc.Card {
		case spec.Repeated:
			fld.Rep()
		case spec.Map:
			if rc.MapKey != 0 {
				fld.MapOf(rc.MapKey)
			} else {
				fld.MapOf(spec.String)
			}
		case spec.Optional:
			fld.Opt()
		}
		fld.Ann.Rules = rc.Rules
		if rc.Number64 {
			fld.Ann.Int64Enc = 2
		}
		if rc.BytesEnc != 0 {
			fld.Ann.BytesEnc = rc.BytesEnc
		}
		mn := fmt.Sprintf("R%03d", i)
		f.Messages = append(f.Messages, &spec.Message{Name: mn, Fields: []*spec.Field{fld, spec.F("other", 2, spec.String)}})
		all.Fields = append(all.Fields, spec.FM(fmt.Sprintf("r%03d", i), int32(i+1), "."+pkg+"."+mn))
	}
	f.Messages = append(f.Messages, all)
	f.Services = []*spec.Service{{Name: svc, Methods: []*spec.Method{{Name: "Check", In: "." + pkg + ".AllRules", Out: "." + pkg + ".AllRules", HTTP: &spec.HTTP{Path: "/check", Verb: 2}}}}}
	// a message with a required field is ALSO the body of a route that binds that field to a path variable
	// (PUT /things/{val} next to POST /check): the component schema is shared by both uses and must keep
	// stating the rule
	for i, rc := range cat {
		if rc.Required && rc.Card == spec.Singular && (rc.Kind == spec.String || rc.Kind == spec.Int32) {
			mn := fmt.Sprintf(".%s.R%03d", pkg, i)
			f.Services[0].Methods = append(f.Services[0].Methods, &spec.Method{Name: fmt.Sprintf("Put%03d", i), In: mn, Out: mn, HTTP: &spec.HTTP{Path: fmt.Sprintf("/things/%03d/{val}", i), Verb: 3}})
		}
	}
	if perRPC {
		for i := range cat {
			mn := fmt.Sprintf(".%s.R%03d", pkg, i)
			f.Services[0].Methods = append(f.Services[0].Methods, &spec.Method{Name: fmt.Sprintf("Check%03d", i), In: mn, Out: mn, HTTP: &spec.HTTP{Path: fmt.Sprintf("/check/%03d", i), Verb: 2}})
		}
	}
	return &ruleUnit{pkg: pkg, svc: svc, cat: cat, f: f}
}

func c19(c *Ctx) {
	c.R.Rule = "abstract case = (rule kind x field kind x rule-value class) x probe value (at, just below, just above every bound; list/map sizes around limits; in/const members and near-misses; code-point lengths with non-BMP characters); " +
		"non-trivial = both acceptance decisions were computed for the probe: rules(v) by the reference rule evaluator (pvstub) on the real descriptor, schema(json(v)) by python-jsonschema (Draft 2020-12) on the field's schema taken from the emitted document; plus required-list and format-name checks"
	c.R.Assume("pvstub implements the documented semantics of the standard buf.validate rules; python-jsonschema 4.26 implements Draft 2020-12; `format` is annotation-only except for the published format *name*")
	pkg := "c19.r"
	cat := ruleCatalogue()
	if !c.Thorough() {
		var keep []ruleCase
		for i, rc := range cat {
			if !strings.HasPrefix(rc.ID, "rules/numeric-") || (i+int(c.Seed))%3 == 0 {
				keep = append(keep, rc)
			}
		}
		cat = keep
	}
	// the same message and field names are declared twice, in two proto packages with DIFFERENT rules
	// (the twin uses the catalogue rotated by 7), and the documents are generated alone and together
	// in one invocation in both orders: each document must state its own package's rules
	type unit = ruleUnit
	build := buildRuleUnit
	rot := make([]ruleCase, len(cat))
	for i := range cat {
		rot[i] = cat[(i+7)%len(cat)]
	}
	main := build(pkg, "c19r", "RuleService", cat)
	twin := build("c19.twin", "c19twin", "TwinRuleService", rot)
	// and a third package reaches every option file (sebuf annotations AND buf/validate) only through an
	// umbrella file with `import public`
	rot3 := make([]ruleCase, len(cat))
	for i := range cat {
		rot3[i] = cat[(i+3)%len(cat)]
	}
	pub := build("c19.pub", "c19pub", "PubRuleService", rot3)
	umbrella := &spec.File{Path: "c19/common/options.proto", Package: "c19.common", GoImport: "lab/gen/c19common", GoName: "c19common", Public: []string{spec.AnnotationsPath, spec.HeadersPath, spec.ValidatePath}}
	pub.f.Via, pub.f.ViaAll = umbrella.Path, true
	type arrangement struct {
		label string
		files []*unit
		judge []*unit
		extra []*spec.File // files of the request that are not generated
	}
	arrs := []arrangement{
		{"alone", []*unit{main}, []*unit{main}, nil},
		{"twin-package-first", []*unit{twin, main}, []*unit{main}, nil},
		{"twin-package-second", []*unit{main, twin}, []*unit{twin}, nil},
		{"options-via-public-import", []*unit{pub}, []*unit{pub}, []*spec.File{umbrella}},
	}
	if c.Thorough() {
		arrs[1].judge = []*unit{twin, main}
		arrs[2].judge = []*unit{main, twin}
	}
	v, _ := protovalidate.New()
	enc := &jsonmap.Encoder{}
	var jobs []pyJob
	docs := map[string]any{}
	type pending struct {
		caseID  string
		accepts bool
		rc      ruleCase
		probe   string
		inst    any
		schema  any
		msg     string
		arr     string
	}
	pend := map[string]pending{}
	for ai, ar := range arrs {
		var files []*spec.File
		var gen []string
		files = append(files, ar.extra...)
		for _, u := range ar.files {
			files = append(files, u.f)
			gen = append(gen, u.f.Path)
		}
		req, err := spec.Request(files, gen, "format=json")
		if err != nil {
			c.R.Harness(err.Error())
			return
		}
		reg, _ := spec.Files(req)
		res := c.TB.Run("openapiv3", req, plugin.RunOpt{})
		c.R.Eval(1)
		if !res.OK() {
			c.R.Violate("rules/all", "no-document", res.Crash+res.Error, map[string]any{"stderr": res.Stderr, "arrangement": ar.label})
			return
		}
		for ui, u := range ar.judge {
			var doc *oas.Doc
			for n, ct := range res.Files {
				if !strings.HasPrefix(n, u.svc+".") && !strings.Contains(n, "/"+u.svc+".") {
					continue
				}
				d, err := oas.Parse(n, ct)
				if err != nil {
					c.R.Violate("rules/all", "unparsable", err.Error(), map[string]any{"arrangement": ar.label})
					return
				}
				doc = d
			}
			if doc == nil {
				c.R.Violate("rules/all", "no-document", "no document for "+u.svc, map[string]any{"arrangement": ar.label, "files": len(res.Files)})
				return
			}
			docKey := fmt.Sprintf("d%d_%d", ai, ui)
			docs[docKey] = doc.Root
			protoText := u.f.Proto()
			for i, rc := range u.cat {
				mn := fmt.Sprintf("R%03d", i)
				md := msgDesc(reg, u.pkg+"."+mn)
				fd := md.Fields().ByName("val")
				ms := oas.M(doc.Schemas()[mn])
				if ms == nil {
					c.R.Violate(rc.ID, "message-without-schema", "", map[string]any{"message": mn, "arrangement": ar.label})
					continue
				}
				fs := oas.M(ms["properties"])[fd.JSONName()]
				protoFrag := fmt.Sprintf("message %s { %s }", mn, strings.TrimSpace(strings.SplitN(strings.SplitN(protoText, "message "+mn+" {", 2)[1], "\n", 3)[1]))
				if fs == nil {
					c.R.Violate(rc.ID, "field-without-schema", "", map[string]any{"proto": protoFrag, "arrangement": ar.label})
					continue
				}
				// required list
				inReq := false
				for _, r := range oas.L(ms["required"]) {
					if oas.S(r) == fd.JSONName() {
						inReq = true
					}
				}
				if inReq != rc.Required {
					c.R.Violate(rc.ID, "required-list-differs", fmt.Sprintf("rules-require=%v schema-requires=%v", rc.Required, inReq), map[string]any{"proto": protoFrag, "schema": ms, "arrangement": ar.label})
				}
				if rc.Format != "" && rc.Format != "*" {
					if got := oas.S(oas.M(doc.Deref(fs))["format"]); got != rc.Format {
						c.R.Violate(rc.ID, "format-name-differs", "want "+rc.Format+" got "+orNone(got), map[string]any{"proto": protoFrag, "schema": fs, "arrangement": ar.label})
					}
				}
				for _, p := range rc.Probes {
					m := dynamicpb.NewMessage(md)
					p.Set(m, fd)
					if rc.SkipZero && !m.Has(fd) {
						continue
					}
					accepts := v.Validate(m) == nil
					if rc.OneWay && !accepts {
						continue
					}
					var inst any
					switch {
					case fd.IsList():
						arr := []any{}
						l := m.Get(fd).List()
						for k := 0; k < l.Len(); k++ {
							x, _ := enc.Value(fd, l.Get(k))
							arr = append(arr, x)
						}
						inst = arr
					case fd.IsMap():
						obj := map[string]any{}
						m.Get(fd).Map().Range(func(k protoreflect.MapKey, val protoreflect.Value) bool {
							obj[k.String()] = val.String()
							return true
						})
						inst = obj
					default:
						x, err := enc.Value(fd, m.Get(fd))
						if err != nil {
							continue
						}
						inst = x
					}
					id := fmt.Sprintf("%s/%d/%s", docKey, i, p.Class)
					jobs = append(jobs, pyJob{ID: id, Schema: fs, Instance: jsonmap.Resolve(inst), Doc: docKey})
					pend[id] = pending{caseID: rc.ID + "@" + p.Class, accepts: accepts, rc: rc, probe: p.Class, inst: inst, schema: fs, msg: protoFrag, arr: ar.label}
				}
				if len(rc.Probes) == 0 {
					c.R.Decided(rc.ID)
				}
			}
		}
	}
	c19structural(c)
	results, validator, err := pyValidate(jobs, docs)
	if err != nil {
		c.R.Harness("schema validator unavailable: " + err.Error())
		return
	}
	c.R.Set("schema_validator", validator)
	c.R.Eval(len(jobs))
	sampled := false
	for id, p := range pend {
		r, ok := results[id]
		if !ok || r.Valid == nil {
			c.R.Inconclusive(p.caseID, "validator:"+r.SchemaError)
			continue
		}
		rp := map[string]any{"proto": p.msg, "probe_json": p.inst, "field_schema": p.schema, "rules_accept": p.accepts, "schema_accepts": *r.Valid, "schema_error": r.Error, "arrangement": p.arr}
		if r.SchemaError != "" {
			c.R.Violate(p.caseID, "invalid-schema", r.SchemaError, rp)
		}
		switch {
		case p.accepts && !*r.Valid:
			c.R.Violate(p.caseID, "schema-rejects-what-rules-accept", r.Keyword, rp)
		case !p.accepts && *r.Valid:
			c.R.Violate(p.caseID, "schema-accepts-what-rules-reject", "", rp)
		}
		c.R.Decided(p.caseID)
		if !sampled && strings.Contains(p.caseID, "gte+lte/int32") {
			sampled = true
			c.R.Sample(map[string]any{"case": p.caseID, "proto": p.msg, "probe_json": p.inst, "field_schema": p.schema, "rules_accept": p.accepts, "schema_accepts": *r.Valid})
		}
	}
}


// c19structural: required lists of EVERY component schema of a service whose rule-carrying fields sit inside
// JSON-mapping constructs (flattened children, oneof variants, list/map elements): a plain object schema
// lists as required exactly the fields whose own rules require them — whatever was converted before it.
func c19structural(c *Ctx) {
	pkg := "c19.structural"
	u := buildRuleUnitX(pkg, "c19structural", "StructuralRuleService", nil, false)
	u.f.Services[0].Methods = nil
	cases := addStructuralRuleCases(u.f, pkg)
	req, err := spec.Request([]*spec.File{u.f}, nil, "format=json")
	if err != nil {
		c.R.Harness(err.Error())
		return
	}
	reg, _ := spec.Files(req)
	res := c.TB.Run("openapiv3", req, plugin.RunOpt{})
	c.R.Eval(1)
	if !res.OK() {
		c.R.Violate("rules/structural/all", "no-document", res.Crash+res.Error, map[string]any{"proto": u.f.Proto()})
		return
	}
	var doc *oas.Doc
	for n, ct := range res.Files {
		d, err := oas.Parse(n, ct)
		if err != nil {
			c.R.Violate("rules/structural/all", "unparsable", err.Error(), nil)
			return
		}
		doc = d
	}
	if doc == nil {
		return
	}
	label := map[string]string{}
	for _, sc := range cases {
		label[sc.msg] = sc.id
	}
	fds, _ := reg.FindFileByPath(u.f.Path)
	if fds == nil {
		c.R.Harness("c19structural: file not linked")
		return
	}
	msgs := fds.Messages()
	for i := 0; i < msgs.Len(); i++ {
		md := msgs.Get(i)
		name := string(md.Name())
		id := "rules/structural/required-list/" + name
		if l, ok := label[name]; ok {
			id = "rules/structural/required-list/" + l
		}
		sch := oas.M(doc.Schemas()[name])
		if sch == nil {
			continue
		}
		if _, plain := sch["properties"]; !plain || sch["allOf"] != nil || sch["oneOf"] != nil {
			c.R.Decided(id)
			continue // composed schemas (flatten parents, flattened oneofs) are judged on the wire (C06)
		}
		want := map[string]bool{}
		for j := 0; j < md.Fields().Len(); j++ {
			fd := md.Fields().Get(j)
			if fo, ok := fd.Options().(*descriptorpb.FieldOptions); ok && fo != nil && proto.HasExtension(fo, validate.E_Field) {
				if proto.GetExtension(fo, validate.E_Field).(*validate.FieldRules).GetRequired() {
					want[fd.JSONName()] = true
				}
			}
		}
		got := map[string]bool{}
		for _, r := range oas.L(sch["required"]) {
			got[oas.S(r)] = true
		}
		var diff []string
		for k := range want {
			if !got[k] {
				diff = append(diff, "missing:"+k)
			}
		}
		for k := range got {
			if !want[k] {
				diff = append(diff, "extra:"+k)
			}
		}
		if len(diff) > 0 {
			sort.Strings(diff)
			c.R.Violate(id, "required-list-differs", strings.SplitN(diff[0], ":", 2)[0], map[string]any{"message": name, "schema": sch, "difference": diff, "proto": u.f.Proto()})
		}
		c.R.Decided(id)
	}
}
