package checks

import (
	"fmt"
	"os"
	"path/filepath"
	"sort"
	"strings"
	"sync"

	"google.golang.org/protobuf/reflect/protoreflect"
	"google.golang.org/protobuf/types/dynamicpb"

	"verif/internal/corpus"
	"verif/internal/lab"
	"verif/internal/model/jsonmap"
	"verif/internal/oas"
	"verif/internal/plugin"
	"verif/internal/spec"
	"verif/internal/tstype"
	"verif/internal/values"
)

func init() { Registry["C07"] = c07 }

// tsProblems groups checker problems by symptom (one finding per symptom per case).
func reportTS(c *Ctx, caseID string, probs []tstype.Problem, rp map[string]any, md ...protoreflect.MessageDescriptor) {
	seen := map[string]bool{}
	for _, p := range probs {
		if seen[p.Symptom] {
			continue
		}
		seen[p.Symptom] = true
		rp2 := map[string]any{}
		for k, v := range rp {
			rp2[k] = v
		}
		rp2["at"], rp2["problem"] = p.Path, p.Detail
		var all []string
		for _, q := range probs {
			all = append(all, q.Symptom+" "+q.Path)
		}
		rp2["all_problems"] = all
		det := depthOf(p.Path)
		if len(md) > 0 && md[0] != nil {
			det = "role:" + jsonmap.RolePath(md[0], p.Path)
		}
		c.R.Violate(caseID, p.Symptom, det, rp2)
	}
}

// c07: wire JSON and handler inputs inhabit the generated TypeScript types.
func c07(c *Ctx) {
	c.R.Rule = "abstract case = (JSON-mapping feature x context x value class) for {Go-server response vs TS client's declared result type, accepted contract-form request body vs declared request interface} + (placement RPC: path/query kind x verb) for the object the generated TS server passes to its handler + ts-client vs ts-server declaration equality per type name; " +
		"non-trivial = the JSON value was captured on the wire (Go server) or in the handler (node bridge) and checked structurally, with excess-property checking, against the type AST read from the emitted declarations"
	c.R.Assume("tstype reads the regular subset of TypeScript the plugins emit (validated on the repository's golden .ts files); no tsc available; a declaration the reader cannot parse is inconclusive, never a violation")
	feats := corpus.Features() // every feature in both tiers; quick thins values
	ctxs := []string{"top", "child", "repeated", "map", "oneof", "disc_nested", "disc_flatten", "flatten", "unwrap_sibling", "root_list"}
	fl, err := buildFeatureLab(c, "c07", feats, []variant{{Tag: "s", Plugins: []string{"go-http"}}}, true, ctxs, false)
	if err != nil {
		c.R.Harness(err.Error())
		return
	}
	p, err := startPool(fl.Bin, 8, "")
	if err != nil {
		c.R.Harness(err.Error())
		return
	}
	ids := sortedFeatIDs(fl.Units)
	enc := &jsonmap.Encoder{}
	var sampleOnce sync.Once
	p.Each(len(ids), func(ch *lab.Child, i int) {
		u := fl.Units[ids[i]][0]
		base := "tstype/" + u.FP.Feat.ID
		if !u.OK() {
			return
		}
		req, _ := spec.Request([]*spec.File{u.FP.File}, nil, "")
		mods := map[string]*tstype.Module{}
		srcs := map[string]string{}
		for _, tp := range []string{"ts-client", "ts-server"} {
			res := lab.RunDecoy(c.TB, tp, req, plugin.RunOpt{})
			c.R.Eval(1)
			if !res.OK() {
				c.R.Violate(base, "refused", tp+": "+res.Crash+res.Error, map[string]any{"proto": u.FP.File.Proto()})
				return
			}
			for _, ct := range res.Files {
				mods[tp] = tstype.Parse(ct)
				srcs[tp] = ct
			}
		}
		protoText := u.FP.File.Proto()
		cm, sm := mods["ts-client"], mods["ts-server"]
		if cm == nil || sm == nil {
			return
		}
		for _, un := range append(append([]string{}, cm.Unparsed...), sm.Unparsed...) {
			c.R.Inconclusive(base+"/declarations", "unparsed:"+un)
		}
		// declarations of the two plugins agree per type name
		declCase := base + "/client-vs-server-declarations"
		for name, ct := range cm.Types {
			st, ok := sm.Types[name]
			if !ok {
				c.R.Violate(declCase, "type-missing-in-ts-server", "", map[string]any{"proto": protoText, "type": name})
				continue
			}
			if ct.String() != st.String() {
				c.R.Violate(declCase, "declarations-differ", "", map[string]any{"proto": protoText, "type": name, "ts_client": ct.String(), "ts_server": st.String()})
			}
		}
		for name := range sm.Types {
			if _, ok := cm.Types[name]; !ok {
				c.R.Violate(declCase, "type-missing-in-ts-client", "", map[string]any{"proto": protoText, "type": name})
			}
		}
		c.R.Decided(declCase)
		gs, err := serveGo(ch, []string{u.FP.Svc}, "none", false)
		if err != nil {
			return
		}
		defer gs.Stop()
		chk := &tstype.Checker{M: cm}
		rootMD := u.Msg(u.FP.Root)
		g := &values.Gen{R: c.Rng("c07:" + u.FP.Feat.ID)}
		rootVals := g.All(rootMD)
		if !c.Thorough() {
			rootVals = thin(rootVals, 4, int(c.Seed))
		}
		for _, ctx := range ctxs {
			full, ok := u.FP.Ctx[ctx]
			if !ok {
				continue
			}
			ctxMD := u.Msg(full)
			sig, ok := cm.Methods[lowerFirst(u.FP.RPC[ctx])]
			if !ok {
				c.R.Violate(base+"/ctx="+ctx, "client-method-missing", "", map[string]any{"proto": protoText, "method": lowerFirst(u.FP.RPC[ctx]), "methods": keysOfSig(cm.Methods)})
				continue
			}
			rpc := u.FP.Svc + "." + u.FP.RPC[ctx]
			for vi, rv := range rootVals {
				if ctx != "top" && vi%3 != 0 {
					continue
				}
				second := rootVals[(vi+1)%len(rootVals)]
				M := wrapInContext(ctxMD, rootMD, []*dynamicpb.Message{rv.M, second.M})
				vclass := rv.Class
				if ctx == "repeated" || ctx == "map" || ctx == "root_list" {
					vclass += "+" + second.Class
				}
				// response direction
				caseID := fmt.Sprintf("%s/ctx=%s/dir=resp@%s", base, ctx, vclass)
				if c.Want(caseID) {
					gs.Script(rpc, map[string]any{"resp": b64(wire(M))})
					emptyTree, _ := enc.Message(dynamicpb.NewMessage(ctxMD))
					resp, err := rawHTTP("POST", gs.URL, u.FP.Path[ctx], [][2]string{{"Content-Type", "application/json"}}, jsonmap.Marshal(emptyTree))
					c.R.Eval(1)
					_, _ = syncEvents(ch)
					if err == nil && resp.Status == 200 {
						if t, perr := jsonmap.Parse(resp.Body); perr == nil {
							probs := chk.CheckNamed(t, sig[1])
							reportTS(c, caseID, probs, map[string]any{"proto": protoText, "rpc": rpc, "declared_result_type": sig[1], "declaration": typeText(cm, sig[1]), "wire_json": string(resp.Body)}, ctxMD)
							c.R.Decided(caseID)
							sampleOnce.Do(func() {
								c.R.Sample(map[string]any{"case": caseID, "declared_result_type": sig[1], "declaration": typeText(cm, sig[1]), "wire_json": string(resp.Body), "problems": len(probs)})
							})
						}
					}
				}
				// response direction when the request's Content-Type is spelled otherwise
				if ctx == "top" && (rv.Class == "full0" || rv.Class == "full1") {
					for _, alt := range altRequestCTs {
						caseID := fmt.Sprintf("%s/ctx=%s/dir=resp/ct=%s@%s", base, ctx, alt.Label, vclass)
						if !c.Want(caseID) {
							continue
						}
						gs.Script(rpc, map[string]any{"resp": b64(wire(M))})
						emptyTree, _ := enc.Message(dynamicpb.NewMessage(ctxMD))
						var hdr [][2]string
						if alt.CT != "" {
							hdr = [][2]string{{"Content-Type", alt.CT}}
						}
						resp, err := rawHTTP("POST", gs.URL, u.FP.Path[ctx], hdr, jsonmap.Marshal(emptyTree))
						c.R.Eval(1)
						_, _ = syncEvents(ch)
						if err != nil || resp.Status != 200 || !strings.HasPrefix(resp.Header.Get("Content-Type"), "application/json") {
							continue
						}
						if t, perr := jsonmap.Parse(resp.Body); perr == nil {
							probs := chk.CheckNamed(t, sig[1])
							reportTS(c, caseID, probs, map[string]any{"proto": protoText, "rpc": rpc, "request_content_type": alt.CT, "declared_result_type": sig[1], "declaration": typeText(cm, sig[1]), "wire_json": string(resp.Body)}, ctxMD)
							c.R.Decided(caseID)
						}
					}
				}
				// request direction: contract-form body that the server accepts
				caseID = fmt.Sprintf("%s/ctx=%s/dir=req@%s", base, ctx, vclass)
				if c.Want(caseID) {
					tree, merr := enc.Message(M)
					if merr != nil {
						continue
					}
					body := jsonmap.Marshal(tree)
					gs.Script(rpc, map[string]any{})
					resp, err := rawHTTP("POST", gs.URL, u.FP.Path[ctx], [][2]string{{"Content-Type", "application/json"}}, body)
					c.R.Eval(1)
					evs, _ := syncEvents(ch)
					accepted := false
					for _, e := range evs {
						if e.Str("ev") == "handler" {
							accepted = true
						}
					}
					if err == nil && accepted && resp.Status == 200 {
						t, _ := jsonmap.Parse(body)
						probs := chk.CheckNamed(t, sig[0])
						reportTS(c, caseID, probs, map[string]any{"proto": protoText, "rpc": rpc, "declared_request_type": sig[0], "declaration": typeText(cm, sig[0]), "accepted_request_json": string(body)}, ctxMD)
						c.R.Decided(caseID)
					}
				}
			}
		}
	})
	p.Close()
	for _, pn := range p.Panics {
		c.R.Harness("driver panic in work item: " + firstLines(pn, 12))
	}
	c07handlers(c, fl.L)
}

func keysOfSig(m map[string][2]string) []string {
	var ks []string
	for k := range m {
		ks = append(ks, k)
	}
	sort.Strings(ks)
	return ks
}

func typeText(m *tstype.Module, name string) string {
	if t, ok := m.Types[name]; ok {
		return name + " = " + t.String()
	}
	return name
}

// c07handlers: the object a generated TS server passes to a handler inhabits the declared
// request interface (path/query-built arguments with numeric/bool/string kinds).
func c07handlers(c *Ctx, l *lab.Lab) {
	node, err := lab.StartNode()
	if err != nil {
		c.R.Inconclusive("tstype/handler-arg/all", "node-unavailable")
		return
	}
	defer node.Quit()
	// separate files per placement so that one unloadable module (path+query) does not mask the rest
	groups := corpus.PlacementGroups()
	for _, g := range groups {
		for _, where := range []string{"path", "query"} {
			if where == "path" && !g.WithPath && !g.JSONNames {
				continue
			}
			pkg := fmt.Sprintf("c07.h%s%s", g.Label, where)
			f, cases := corpus.PlacementFileG(pkg, "c07h"+g.Label+where, g)
			// keep only the wanted placement
			var keepM []*spec.Method
			var keepC []*corpus.PlaceCase
			for i, pc := range cases {
				if pc.Where == where {
					keepM = append(keepM, f.Services[0].Methods[i])
					keepC = append(keepC, pc)
				}
			}
			f.Services[0].Methods = keepM
			req, err := spec.Request([]*spec.File{f}, nil, "")
			if err != nil {
				c.R.Harness(err.Error())
				continue
			}
			res := lab.RunDecoy(c.TB, "ts-server", req, plugin.RunOpt{})
			c.R.Eval(1)
			if !res.OK() {
				continue
			}
			var file, src string
			for n, ct := range res.Files {
				file = filepath.Join(l.Dir, "ts", "c07h"+g.Label+where, filepath.Base(n))
				_ = os.MkdirAll(filepath.Dir(file), 0o755)
				_ = os.WriteFile(file, []byte(ct), 0o644)
				src = ct
			}
			mod := tstype.Parse(src)
			chk := &tstype.Checker{M: mod}
			ts, err := serveTS(node, file, "createPlaceServiceRoutes", nil)
			if err != nil {
				for _, pc := range keepC {
					c.R.Violate("tstype/handler-arg/"+pc.ID, "ts-load", err.Error(), map[string]any{"proto": f.Proto()})
				}
				continue
			}
			protoText := f.Proto()
			reg, _ := spec.Files(req)
			for _, pc := range keepC {
				md := msgDesc(reg, pc.In)
				fd := md.Fields().ByName(protoreflect.Name(pc.Field))
				sig, ok := mod.Methods[lowerFirst(pc.Method)]
				if !ok {
					continue
				}
				for _, uv := range urlValues(fd.Kind(), where == "path") {
					if uv.Invalid {
						continue
					}
					caseID := fmt.Sprintf("tstype/handler-arg/%s@%s", pc.ID, uv.Class)
					if !c.Want(caseID) {
						continue
					}
					var body []byte
					hdr := [][2]string{{"Content-Type", "application/json"}}
					if pc.Verb == "POST" || pc.Verb == "PUT" || pc.Verb == "PATCH" {
						body = []byte(`{"note":"n"}`)
					}
					_, err := rawHTTP(pc.Verb, ts.URL, buildTarget(pc, uv.Raw), hdr, body)
					c.R.Eval(1)
					evs, _ := syncEvents(node)
					if err != nil {
						continue
					}
					for _, e := range evs {
						if e.Str("ev") != "handler" {
							continue
						}
						t, perr := jsonmap.Parse([]byte(e.Str("req_json")))
						if perr != nil {
							continue
						}
						probs := chk.CheckNamed(t, sig[0])
						reportTS(c, caseID, probs, map[string]any{"proto": protoText, "request": pc.Verb + " " + buildTarget(pc, uv.Raw), "declared_request_type": typeText(mod, sig[0]), "handler_argument_json": e.Str("req_json")})
						c.R.Decided(caseID)
					}
				}
			}
			ts.Stop()
		}
	}
	_ = oas.S
	_ = strings.TrimSpace
}
