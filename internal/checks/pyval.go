package checks

import (
	"sync"
	"sort"
	"bytes"
	"encoding/json"
	"fmt"
	"os"
	"os/exec"
	"path/filepath"
	"time"

	"verif/internal/report"
)

// pyJob is one schema validation job for py/validate.py.
type pyJob struct {
	ID       string `json:"id"`
	Schema   any    `json:"schema"`
	Instance any    `json:"instance"`
	Doc      string `json:"doc,omitempty"`
}

type pyResult struct {
	ID          string `json:"id"`
	Valid       *bool  `json:"valid"`
	Error       string `json:"error"`
	SchemaError string `json:"schema_error"`
	Keyword     string `json:"keyword"`
	Path        string `json:"path"`
}

func pythonBin() string {
	if p := os.Getenv("VERIF_PYTHON"); p != "" {
		return p
	}
	if p, err := exec.LookPath("python3-vt"); err == nil {
		return p
	}
	return ""
}

// pyValidate runs the independent Draft 2020-12 validator over a batch: the jobs are grouped by document and
// spread over up to 8 validator processes (each gets only the documents its jobs refer to).
func pyValidate(jobs []pyJob, docs map[string]any) (map[string]pyResult, string, error) {
	const workers = 8
	if len(jobs) < 400 {
		return pyValidateOne(jobs, docs)
	}
	byDoc := map[string][]pyJob{}
	var keys []string
	for _, j := range jobs {
		if _, ok := byDoc[j.Doc]; !ok {
			keys = append(keys, j.Doc)
		}
		byDoc[j.Doc] = append(byDoc[j.Doc], j)
	}
	sort.Strings(keys)
	// greedy balancing: biggest groups first onto the lightest worker
	sort.SliceStable(keys, func(a, b int) bool { return len(byDoc[keys[a]]) > len(byDoc[keys[b]]) })
	parts := make([][]pyJob, workers)
	for _, k := range keys {
		w := 0
		for i := range parts {
			if len(parts[i]) < len(parts[w]) {
				w = i
			}
		}
		parts[w] = append(parts[w], byDoc[k]...)
	}
	type res struct {
		m   map[string]pyResult
		v   string
		err error
	}
	out := make([]res, workers)
	var wg sync.WaitGroup
	for i := range parts {
		if len(parts[i]) == 0 {
			continue
		}
		wg.Add(1)
		go func(i int) {
			defer wg.Done()
			sub := map[string]any{}
			for _, j := range parts[i] {
				if d, ok := docs[j.Doc]; ok {
					sub[j.Doc] = d
				}
			}
			out[i].m, out[i].v, out[i].err = pyValidateOne(parts[i], sub)
		}(i)
	}
	wg.Wait()
	all := map[string]pyResult{}
	validator := ""
	for _, r := range out {
		if r.err != nil {
			return nil, "", r.err
		}
		for k, v := range r.m {
			all[k] = v
		}
		if r.v != "" {
			validator = r.v
		}
	}
	return all, validator, nil
}

func pyValidateOne(jobs []pyJob, docs map[string]any) (map[string]pyResult, string, error) {
	py := pythonBin()
	if py == "" {
		return nil, "", fmt.Errorf("python3-vt (jsonschema) not found")
	}
	in, err := json.Marshal(map[string]any{"jobs": jobs, "documents": docs})
	if err != nil {
		return nil, "", err
	}
	cmd := exec.Command("sh", "-c", fmt.Sprintf("ulimit -v 8388608; exec %q %q", py, filepath.Join(report.VerifDir, "py", "validate.py")))
	cmd.Stdin = bytes.NewReader(in)
	var out, errb bytes.Buffer
	cmd.Stdout, cmd.Stderr = &out, &errb
	done := make(chan error, 1)
	if err := cmd.Start(); err != nil {
		return nil, "", err
	}
	go func() { done <- cmd.Wait() }()
	select {
	case err := <-done:
		if err != nil {
			return nil, "", fmt.Errorf("validator failed: %v: %s", err, firstLines(errb.String(), 8))
		}
	case <-time.After(10 * time.Minute):
		_ = cmd.Process.Kill()
		return nil, "", fmt.Errorf("validator timeout")
	}
	var resp struct {
		Results   []pyResult `json:"results"`
		Validator string     `json:"validator"`
	}
	dec := json.NewDecoder(&out)
	if err := dec.Decode(&resp); err != nil {
		return nil, "", fmt.Errorf("validator output: %v", err)
	}
	m := map[string]pyResult{}
	for _, r := range resp.Results {
		m[r.ID] = r
	}
	return m, resp.Validator, nil
}
