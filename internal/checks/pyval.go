package checks

import (
	"bytes"
	"encoding/json"
	"fmt"
	"os"
	"os/exec"
	"path/filepath"
	"time"

	"verif/internal/report"
)

// pyJob is one schema validation job for py/validate.py.
type pyJob struct {
	ID       string `json:"id"`
	Schema   any    `json:"schema"`
	Instance any    `json:"instance"`
	Doc      string `json:"doc,omitempty"`
}

type pyResult struct {
	ID          string `json:"id"`
	Valid       *bool  `json:"valid"`
	Error       string `json:"error"`
	SchemaError string `json:"schema_error"`
	Keyword     string `json:"keyword"`
	Path        string `json:"path"`
}

func pythonBin() string {
	if p := os.Getenv("VERIF_PYTHON"); p != "" {
		return p
	}
	if p, err := exec.LookPath("python3-vt"); err == nil {
		return p
	}
	return ""
}

// pyValidate runs the independent Draft 2020-12 validator over a batch.
func pyValidate(jobs []pyJob, docs map[string]any) (map[string]pyResult, string, error) {
	py := pythonBin()
	if py == "" {
		return nil, "", fmt.Errorf("python3-vt (jsonschema) not found")
	}
	in, err := json.Marshal(map[string]any{"jobs": jobs, "documents": docs})
	if err != nil {
		return nil, "", err
	}
	cmd := exec.Command("sh", "-c", fmt.Sprintf("ulimit -v 8388608; exec %q %q", py, filepath.Join(report.VerifDir, "py", "validate.py")))
	cmd.Stdin = bytes.NewReader(in)
	var out, errb bytes.Buffer
	cmd.Stdout, cmd.Stderr = &out, &errb
	done := make(chan error, 1)
	if err := cmd.Start(); err != nil {
		return nil, "", err
	}
	go func() { done <- cmd.Wait() }()
	select {
	case err := <-done:
		if err != nil {
			return nil, "", fmt.Errorf("validator failed: %v: %s", err, firstLines(errb.String(), 8))
		}
	case <-time.After(10 * time.Minute):
		_ = cmd.Process.Kill()
		return nil, "", fmt.Errorf("validator timeout")
	}
	var resp struct {
		Results   []pyResult `json:"results"`
		Validator string     `json:"validator"`
	}
	dec := json.NewDecoder(&out)
	if err := dec.Decode(&resp); err != nil {
		return nil, "", fmt.Errorf("validator output: %v", err)
	}
	m := map[string]pyResult{}
	for _, r := range resp.Results {
		m[r.ID] = r
	}
	return m, resp.Validator, nil
}
