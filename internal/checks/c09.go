package checks

import (
	"strconv"
	"regexp"
	"fmt"
	"os"
	"path/filepath"
	"sort"
	"strings"

	"verif/internal/lab"
	"verif/internal/oas"
	"verif/internal/plugin"
	"verif/internal/spec"
)

func init() { Registry["C09"] = c09 }

// hdrValue is a header value with its class and whether every published reading accepts it.
type hdrValue struct {
	Class string
	V     string
	Valid bool // true: valid under every published reading; false: clearly invalid
}

// headerValues returns accept-side and reject-side values for a declared type/format
// (DESIGN C09: borderline spellings are deliberately not used).
func headerValues(typ, format string) []hdrValue {
	var out []hdrValue
	ok := func(c, v string) { out = append(out, hdrValue{c, v, true}) }
	bad := func(c, v string) { out = append(out, hdrValue{c, v, false}) }
	switch typ {
	case "integer":
		ok("int", "42")
		ok("int-neg", "-7")
		ok("int-max64", "9223372036854775807")
		bad("int-word", "12abc")
		bad("int-frac", "1.5")
		bad("int-empty", "")
	case "number":
		ok("num-int", "3")
		ok("num-frac", "-2.5")
		bad("num-dots", "1.2.3")
		bad("num-word", "abc")
		bad("num-empty", "")
	case "boolean":
		ok("bool-true", "true")
		ok("bool-false", "false")
		bad("bool-word", "maybe")
		bad("bool-empty", "")
	case "array":
		ok("array-two", "a,b")
		ok("array-one", "a")
	default: // string / unset
		switch format {
		case "uuid":
			ok("uuid-lower", "123e4567-e89b-12d3-a456-426614174000")
			ok("uuid-upper", "123E4567-E89B-12D3-A456-426614174000")
			bad("uuid-word", "not-a-uuid")
			bad("uuid-nonhex", "zzzzzzzz-zzzz-zzzz-zzzz-zzzzzzzzzzzz")
			bad("uuid-empty", "")
		case "email":
			ok("email", "user@example.com")
			ok("email-plus", "first.last+tag@sub.example.org")
			bad("email-no-at", "no-at-sign")
			bad("email-no-domain", "x@")
			bad("email-empty", "")
		case "date-time":
			ok("dt-z", "2024-01-15T10:30:00Z")
			ok("dt-offset", "2024-01-15T10:30:00+05:30")
			ok("dt-frac", "2024-01-15T10:30:00.123Z")
			bad("dt-date-only", "2024-01-15")
			bad("dt-month13", "2024-13-45T10:30:00Z")
			bad("dt-empty", "")
		case "date":
			ok("date", "2024-01-15")
			ok("date-leap", "2024-02-29")
			bad("date-month13", "2024-13-45")
			bad("date-word", "yesterday")
			bad("date-empty", "")
		case "time":
			ok("time", "10:30:00")
			ok("time-end", "23:59:59")
			bad("time-overflow", "25:61:00")
			bad("time-word", "noon")
			bad("time-empty", "")
		default:
			ok("str-ascii", "hello")
			ok("str-punct", "a=b; c, d")
		}
	}
	return out
}

type hdrDecl struct {
	Label    string // coordinates
	Svc      []spec.Header
	Mth      []spec.Header
	SvcName  string
	Method   string
	Path     string
	Target   string // request target below the base path ("" = Path): path variables filled in, query string
	// effective required headers (after method-replaces-service by name)
	Effective []spec.Header
	Optional  []spec.Header
}

func effective(svc, mth []spec.Header) (req, opt []spec.Header) {
	byName := map[string]spec.Header{}
	var order []string
	for _, h := range svc {
		k := strings.ToLower(h.Name)
		if _, ok := byName[k]; !ok {
			order = append(order, k)
		}
		byName[k] = h
	}
	for _, h := range mth {
		k := strings.ToLower(h.Name)
		if _, ok := byName[k]; !ok {
			order = append(order, k)
		}
		byName[k] = h
	}
	for _, k := range order {
		if byName[k].Required {
			req = append(req, byName[k])
		} else {
			opt = append(opt, byName[k])
		}
	}
	return
}

func headerCatalogue(pkg string) (*spec.File, []*hdrDecl) {
	f := &spec.File{Path: "c09/headers.proto", Package: pkg, GoImport: "lab/gen/c09h", GoName: "c09h"}
	f.Messages = []*spec.Message{{Name: "HReq", Fields: []*spec.Field{spec.F("note", 1, spec.String)}}, {Name: "HResp", Fields: []*spec.Field{spec.F("ok", 1, spec.Bool)}}}
	var decls []*hdrDecl
	n := 0
	add := func(label string, svc, mth []spec.Header) {
		n++
		d := &hdrDecl{Label: label, Svc: svc, Mth: mth, SvcName: fmt.Sprintf("Hdr%dService", n), Method: fmt.Sprintf("Call%d", n), Path: fmt.Sprintf("/h%d", n)}
		d.Effective, d.Optional = effective(svc, mth)
		s := &spec.Service{Name: d.SvcName, BasePath: spec.S("/hdr"), Headers: svc, Methods: []*spec.Method{{Name: d.Method, In: "." + pkg + ".HReq", Out: "." + pkg + ".HResp", HTTP: &spec.HTTP{Path: d.Path, Verb: 2}, Headers: mth}}}
		f.Services = append(f.Services, s)
		decls = append(decls, d)
	}
	type tf struct{ t, f string }
	var tfs []tf
	for _, t := range []string{"", "string", "integer", "number", "boolean", "array"} {
		tfs = append(tfs, tf{t, ""})
	}
	for _, fm := range []string{"uuid", "email", "date-time", "date", "time"} {
		tfs = append(tfs, tf{"string", fm})
	}
	tfs = append(tfs, tf{"", "uuid"})
	names := []string{"X-API-Key", "Authorization", "X-Request-ID", "x-lower", "X-Multi-Word-Name"}
	for i, x := range tfs {
		nm := names[i%len(names)]
		for _, lvl := range []string{"service", "method"} {
			for _, req := range []bool{true, false} {
				h := spec.Header{Name: nm, Type: x.t, Format: x.f, Required: req}
				label := fmt.Sprintf("single/%s/type=%s/format=%s/required=%v", lvl, orNone(x.t), orNone(x.f), req)
				if lvl == "service" {
					add(label, []spec.Header{h}, nil)
				} else {
					add(label, nil, []spec.Header{h})
				}
			}
		}
	}
	// overriding
	add("override/same-name/int->uuid", []spec.Header{{Name: "X-Tok", Type: "integer", Required: true}}, []spec.Header{{Name: "X-Tok", Type: "string", Format: "uuid", Required: true}})
	add("override/case-variant/int->uuid", []spec.Header{{Name: "X-Tok", Type: "integer", Required: true}}, []spec.Header{{Name: "x-tok", Type: "string", Format: "uuid", Required: true}})
	add("override/required->optional", []spec.Header{{Name: "X-Tok", Type: "integer", Required: true}}, []spec.Header{{Name: "X-Tok", Type: "integer", Required: false}})
	add("override/optional->required", []spec.Header{{Name: "X-Tok", Type: "string", Required: false}}, []spec.Header{{Name: "X-Tok", Type: "boolean", Required: true}})
	// several required headers
	add("multi/three-required", []spec.Header{{Name: "X-One", Type: "integer", Required: true}, {Name: "X-Two", Type: "string", Format: "email", Required: true}}, []spec.Header{{Name: "X-Three", Type: "boolean", Required: true}, {Name: "X-Opt", Type: "string"}})
	// declaration order: optional headers before/between required ones, with and without an override
	opt := func(n string) spec.Header { return spec.Header{Name: n, Type: "string"} }
	reqd := func(n, t, fm string) spec.Header { return spec.Header{Name: n, Type: t, Format: fm, Required: true} }
	add("order/optional-first/override-later-required", []spec.Header{opt("X-Trace"), reqd("X-Tenant", "integer", ""), reqd("X-Tok", "integer", "")}, []spec.Header{reqd("X-Tok", "string", "uuid")})
	add("order/two-optional-first/override-last-required", []spec.Header{opt("X-Trace"), opt("X-Span"), reqd("X-Tok", "integer", "")}, []spec.Header{reqd("X-Tok", "string", "uuid")})
	add("order/optional-between/override-first-required", []spec.Header{reqd("X-Tok", "integer", ""), opt("X-Trace"), reqd("X-Tenant", "boolean", "")}, []spec.Header{reqd("X-Tok", "string", "email")})
	add("order/optional-between/no-override", []spec.Header{reqd("X-One", "integer", ""), opt("X-Trace"), reqd("X-Two", "boolean", "")}, []spec.Header{opt("X-Idem"), reqd("X-Three", "string", "date")})
	add("order/optional-first/override-optional", []spec.Header{opt("X-Trace"), reqd("X-Tenant", "integer", ""), reqd("X-Tok", "integer", "")}, []spec.Header{{Name: "X-Trace", Type: "boolean", Required: true}})
	add("order/override-two", []spec.Header{opt("X-Trace"), reqd("X-A", "integer", ""), reqd("X-B", "integer", ""), reqd("X-C", "integer", "")}, []spec.Header{reqd("X-C", "boolean", ""), reqd("X-A", "string", "uuid")})
	// a header that shares its name with a query parameter or a path variable of the same RPC: three
	// parameter locations, one name; every server and the published list keep them apart
	f.Messages = append(f.Messages, &spec.Message{Name: "HReqNames", Fields: []*spec.Field{spec.F("note", 1, spec.String), spec.F("token", 2, spec.String).Q("token"), spec.F("version", 3, spec.String), spec.F("x_tok", 4, spec.String).Q("X-Tok")}})
	addNamed := func(label string, svc, mth []spec.Header) {
		add(label, svc, mth)
		d := decls[len(decls)-1]
		s := f.Services[len(f.Services)-1]
		d.Path = fmt.Sprintf("/h%d/{version}", n)
		d.Target = fmt.Sprintf("/h%d/v7?token=qtok&X-Tok=qx", n)
		s.Methods[0].In = "." + pkg + ".HReqNames"
		s.Methods[0].HTTP.Path = d.Path
	}
	addNamed("same-name/header-and-query/service-level", []spec.Header{{Name: "token", Type: "string", Required: true}}, nil)
	addNamed("same-name/header-and-query/method-level", nil, []spec.Header{{Name: "token", Type: "integer", Required: true}})
	addNamed("same-name/header-and-query/case-variant", []spec.Header{{Name: "X-Tok", Type: "string", Format: "uuid", Required: true}}, nil)
	addNamed("same-name/header-and-path-variable", []spec.Header{{Name: "version", Type: "integer", Required: true}}, []spec.Header{{Name: "X-Other", Type: "string"}})
	addNamed("same-name/header-query-and-path", []spec.Header{{Name: "version", Type: "boolean", Required: true}, {Name: "token", Type: "string", Format: "email", Required: true}}, nil)
	// many declarations on one route (sorting and merging code behaves differently beyond small sizes): n
	// service-level headers, one of them required and re-declared by the method with another type, in
	// ascending, descending and scattered name order, the re-declared one first, in the middle or last
	for _, nh := range []int{13, 16, 24} {
		for _, ord := range []string{"asc", "desc", "scattered"} {
			for _, pos := range []string{"first", "mid", "last"} {
				var names []string
				for i := 0; i < nh-1; i++ {
					k := i
					switch ord {
					case "desc":
						k = nh - 2 - i
					case "scattered":
						k = (i*7 + 3) % (nh - 1)
					}
					names = append(names, fmt.Sprintf("X-Hdr-%c%02d", 'A'+rune(k%26), k))
				}
				at := map[string]int{"first": 0, "mid": (nh - 1) / 2, "last": nh - 1}[pos]
				var svc []spec.Header
				for i, nm := range names {
					if i == at {
						svc = append(svc, reqd("X-Tok", "integer", ""))
					}
					svc = append(svc, opt(nm))
				}
				if at >= len(names) {
					svc = append(svc, reqd("X-Tok", "integer", ""))
				}
				add(fmt.Sprintf("many/%d-headers/%s/override-%s", nh, ord, pos), svc, []spec.Header{reqd("X-Tok", "string", "uuid"), opt("X-Method-Only")})
			}
		}
	}
	// several methods in one service: each method's verdict depends on its own declarations only
	addMulti := func(label string, svc []spec.Header, mths [][]spec.Header) {
		n++
		sname := fmt.Sprintf("Hdr%dService", n)
		s := &spec.Service{Name: sname, BasePath: spec.S("/hdr"), Headers: svc}
		for i, mh := range mths {
			d := &hdrDecl{Label: fmt.Sprintf("%s/method%d-of-%d", label, i+1, len(mths)), Svc: svc, Mth: mh, SvcName: sname, Method: fmt.Sprintf("Call%dm%d", n, i+1), Path: fmt.Sprintf("/h%dm%d", n, i+1)}
			d.Effective, d.Optional = effective(svc, mh)
			s.Methods = append(s.Methods, &spec.Method{Name: d.Method, In: "." + pkg + ".HReq", Out: "." + pkg + ".HResp", HTTP: &spec.HTTP{Path: d.Path, Verb: 2}, Headers: mh})
			decls = append(decls, d)
		}
		f.Services = append(f.Services, s)
	}
	addMulti("multi-method/with-without-with-without", nil, [][]spec.Header{{reqd("X-Request-ID", "string", "uuid")}, nil, {reqd("X-Api-Key", "string", "")}, nil})
	addMulti("multi-method/without-first", nil, [][]spec.Header{nil, {reqd("X-Api-Key", "integer", "")}, nil})
	addMulti("multi-method/optional-service-header/different-method-headers", []spec.Header{opt("X-Trace"), reqd("X-Tenant", "integer", "")},
		[][]spec.Header{{reqd("X-Alpha-Token", "string", "")}, {reqd("X-Beta-Token", "boolean", "")}, nil, {reqd("X-Gamma-Token", "string", "email"), opt("X-Note")}})
	addMulti("multi-method/two-optional-service-headers/different-method-headers", []spec.Header{opt("X-Trace"), opt("X-Span"), reqd("X-Tenant", "integer", "")},
		[][]spec.Header{{reqd("X-Alpha-Token", "string", ""), reqd("X-Alpha-Two", "integer", "")}, {reqd("X-Beta-Token", "boolean", "")}, {opt("X-Only-Optional")}})
	addMulti("multi-method/override-in-one-method", []spec.Header{reqd("X-Tok", "integer", "")}, [][]spec.Header{{reqd("X-Tok", "string", "uuid")}, nil, {reqd("X-Other", "boolean", "")}})
	return f, decls
}

// c09: requests are dispatched only when every required header is present and valid.
func c09(c *Ctx) {
	c.R.Rule = "abstract case = (header declaration: level x type x format x required, overriding {same name, case-variant, required<->optional}, several required) x header value set {all valid (per class), absent, clearly invalid per type/format, empty, non-UTF-8, different header-name case, all required missing} x body {valid, malformed}; servers: generated Go server and generated TS server; " +
		"non-trivial = the raw request was sent and status, violation list and handler log (and body bytes read before the verdict, Go) were compared with the header model"
	c.R.Assume("accept-side values are valid under every published reading (OpenAPI type/format and docs table); reject-side values are clearly invalid; borderline spellings are not asserted (DESIGN C09)")
	l, err := lab.New(c.TB, "c09")
	if err != nil {
		c.R.Harness(err.Error())
		return
	}
	f, decls := headerCatalogue("c09.h")
	req, err := spec.Request([]*spec.File{f}, nil, "")
	if err != nil {
		c.R.Harness(err.Error())
		return
	}
	ad, err := l.Add(req, lab.PkgOpt{Plugins: []string{"go-http"}})
	if err != nil {
		c.R.Harness(err.Error())
		return
	}
	protoText := f.Proto()
	if ad.Refused != "" {
		c.R.Violate("hdr/all", "refused", ad.Refused, map[string]any{"proto": protoText})
		return
	}
	tsFile := ""
	var doc map[string]*oas.Doc = map[string]*oas.Doc{}
	for _, p := range []string{"ts-server", "openapiv3"} {
		res := lab.RunDecoy(c.TB, p, req, plugin.RunOpt{})
		c.R.Eval(1)
		if !res.OK() {
			continue
		}
		for name, content := range res.Files {
			if p == "ts-server" {
				tsFile = filepath.Join(l.Dir, "ts", filepath.Base(name))
				_ = os.MkdirAll(filepath.Dir(tsFile), 0o755)
				_ = os.WriteFile(tsFile, []byte(content), 0o644)
			} else if d, err := oas.Parse(name, content); err == nil {
				doc[strings.TrimSuffix(filepath.Base(name), ".openapi.yaml")] = d
			}
		}
	}
	if un := l.CompileAll(false); un != "" {
		c.R.Harness("unattributed build output: " + firstLines(un, 10))
		return
	}
	if d := emittedDiag(l.Failed["gen/c09h"]); d != nil {
		c.R.Violate("hdr/all", "compile", d.Msg, map[string]any{"proto": protoText})
		return
	}
	bin, err := l.BuildBinary(true)
	if err != nil {
		c.R.Harness(err.Error())
		return
	}
	ch, err := lab.Start(bin, c.Scratch+"/race-c09")
	if err != nil {
		c.R.Harness(err.Error())
		return
	}
	defer ch.Quit()
	node, _ := lab.StartNode()
	if node != nil {
		defer node.Quit()
	}
	for di, d := range decls {
		if !c.Thorough() && strings.HasPrefix(d.Label, "single/") && (di+int(c.Seed))%2 == 1 {
			continue
		}
		gs, err := serveGo(ch, []string{"c09.h." + d.SvcName}, "none", false)
		if err != nil {
			c.R.Harness("cannot serve: " + err.Error())
			continue
		}
		var ts *srv
		if node != nil && tsFile != "" {
			ts, _ = serveTS(node, tsFile, "create"+d.SvcName+"Routes", nil)
		}
		c09decl(c, d, ch, node, gs, ts, protoText)
		// published parameter list: every declared header appears as `in: header` with its type/format
		if dd := doc[d.SvcName]; dd != nil {
			caseID := "hdr/openapi/" + d.Label
			for _, op := range dd.Ops() {
				if !strings.HasSuffix(op.Path, d.Path) {
					continue // another method of the same service
				}
				have := map[string]oas.Param{}
				for _, p := range op.Params {
					if p.In == "header" {
						have[strings.ToLower(p.Name)] = p
					}
				}
				for _, h := range append(append([]spec.Header{}, d.Effective...), d.Optional...) {
					p, ok := have[strings.ToLower(h.Name)]
					if !ok {
						c.R.Violate(caseID, "header-not-published", "", map[string]any{"proto": protoText, "header": h.Name})
						continue
					}
					if p.Required != h.Required {
						c.R.Violate(caseID, "published-required-differs", "", map[string]any{"proto": protoText, "header": h.Name, "declared_required": h.Required, "published_required": p.Required})
					}
					// the published type/format is the one of the declaration that applies to this method
					wantType, wantFormat := h.Type, h.Format
					if wantType == "" {
						wantType = "string"
					}
					sch := oas.M(p.Schema)
					gotType, gotFormat := oas.S(sch["type"]), oas.S(sch["format"])
					if gotType != wantType || gotFormat != wantFormat {
						c.R.Violate(caseID, "published-type-differs", "", map[string]any{"proto": protoText, "header": h.Name, "operation": op.Path,
							"declared": wantType + "/" + wantFormat, "published": gotType + "/" + gotFormat})
					}
				}
			}
			c.R.Decided(caseID)
		}
		gs.Stop()
		if ts != nil {
			ts.Stop()
		}
	}
	nr, reps := lab.RaceReports(c.Scratch + "/race-c09")
	c.R.Count("race_reports", nr)
	for _, r := range reps {
		c.R.Violate("hdr/race", "race", firstLines(r, 3), map[string]any{"report": r})
	}
}

type hdrScenario struct {
	Class   string
	Headers [][2]string
	Offend  []string // names (as declared) of offending required headers; empty => must dispatch
	Skip    bool     // not asserted
	BadBody bool
	// Encoding: a Content-Encoding the peer announces for its body (the body is then NOT valid in that coding):
	// whatever a server does about coded bodies comes after the decision about the headers
	Encoding string
}

// clearlyInvalidFor: v is invalid for header h under every published reading of its type and format.
func clearlyInvalidFor(h spec.Header, v string) bool {
	isInt := regexp.MustCompile(`^-?[0-9]+$`).MatchString(v)
	switch h.Type {
	case "integer":
		return !isInt && v != ""
	case "number":
		_, err := strconv.ParseFloat(v, 64)
		return err != nil && v != ""
	case "boolean":
		switch strings.ToLower(v) {
		case "true", "false", "1", "0", "t", "f", "":
			return false
		}
		return true
	case "array":
		return false
	}
	switch h.Format {
	case "uuid":
		return len(v) != 36 && v != ""
	case "email":
		return !strings.Contains(v, "@") && v != ""
	case "date-time", "date", "time":
		return v != "" && (v[0] < '0' || v[0] > '9')
	}
	return false
}

func c09decl(c *Ctx, d *hdrDecl, ch, node *lab.Child, gs, ts *srv, protoText string) {
	validOf := func(h spec.Header) string {
		for _, v := range headerValues(h.Type, h.Format) {
			if v.Valid {
				return v.V
			}
		}
		return "x"
	}
	allValid := func(except string) [][2]string {
		var hs [][2]string
		for _, h := range d.Effective {
			if h.Name == except {
				continue
			}
			hs = append(hs, [2]string{h.Name, validOf(h)})
		}
		return hs
	}
	var scs []hdrScenario
	// every class of valid value for each required header (others valid)
	for _, h := range d.Effective {
		for _, v := range headerValues(h.Type, h.Format) {
			hs := append(allValid(h.Name), [2]string{h.Name, v.V})
			if v.Valid {
				scs = append(scs, hdrScenario{Class: "valid:" + v.Class, Headers: hs})
				scs = append(scs, hdrScenario{Class: "valid-lowercase-name:" + v.Class, Headers: append(allValid(h.Name), [2]string{strings.ToLower(h.Name), v.V})})
			} else {
				sc := hdrScenario{Class: "invalid:" + v.Class, Headers: hs, Offend: []string{h.Name}}
				scs = append(scs, sc)
				scs = append(scs, hdrScenario{Class: "invalid+bad-body:" + v.Class, Headers: hs, Offend: []string{h.Name}, BadBody: true})
			}
		}
		scs = append(scs, hdrScenario{Class: "absent", Headers: allValid(h.Name), Offend: []string{h.Name}})
		scs = append(scs, hdrScenario{Class: "absent+bad-body", Headers: allValid(h.Name), Offend: []string{h.Name}, BadBody: true})
		for _, enc := range []string{"gzip", "x-gzip", "deflate", "br", "identity"} {
			scs = append(scs, hdrScenario{Class: "absent+body-announced-as-" + enc, Headers: allValid(h.Name), Offend: []string{h.Name}, BadBody: true, Encoding: enc})
		}
		if h.Type != "array" {
			scs = append(scs, hdrScenario{Class: "non-utf8", Headers: append(allValid(h.Name), [2]string{h.Name, "caf\xe9\xff"}), Offend: []string{h.Name},
				// un-formatted strings: Go checks UTF-8, the published schema (type: string) cannot express it → only typed/format headers are asserted
				Skip: (h.Type == "" || h.Type == "string") && h.Format == ""})
		}
	}
	// a value that satisfies the service-level declaration a method re-declares, but is clearly invalid
	// under the method's own (the effective) declaration, must be rejected like any other invalid value
	for _, h := range d.Effective {
		for _, sh := range d.Svc {
			if !strings.EqualFold(sh.Name, h.Name) || (sh.Type == h.Type && sh.Format == h.Format) {
				continue
			}
			isMth := false
			for _, mh := range d.Mth {
				if mh.Name == h.Name {
					isMth = true
				}
			}
			if !isMth {
				continue
			}
			for _, v := range headerValues(sh.Type, sh.Format) {
				if v.Valid && clearlyInvalidFor(h, v.V) {
					hs := append(allValid(h.Name), [2]string{h.Name, v.V})
					scs = append(scs, hdrScenario{Class: "invalid:valid-for-replaced-declaration:" + v.Class, Headers: hs, Offend: []string{h.Name}})
				}
			}
		}
	}
	if len(d.Effective) > 1 {
		var names []string
		for _, h := range d.Effective {
			names = append(names, h.Name)
		}
		scs = append(scs, hdrScenario{Class: "all-required-missing", Headers: nil, Offend: names})
	}
	if len(d.Effective) == 0 {
		scs = append(scs, hdrScenario{Class: "no-required/none-sent", Headers: nil})
	}
	// optional headers absent must not block; optional present+valid must not block
	for _, h := range d.Optional {
		scs = append(scs, hdrScenario{Class: "optional-present-valid", Headers: append(allValid(""), [2]string{h.Name, validOf(h)})})
	}
	for _, sc := range scs {
		for _, target := range []string{"go", "ts"} {
			if target == "ts" && ts == nil {
				continue
			}
			caseID := fmt.Sprintf("hdr/%s/%s@%s", target, d.Label, sc.Class)
			if !c.Want(caseID) || sc.Skip {
				continue
			}
			if target == "ts" && strings.Contains(sc.Class, "non-utf8") {
				continue // node's HTTP parser may reject the request line itself; not the generated code
			}
			hdr := append([][2]string{{"Content-Type", "application/json"}}, sc.Headers...)
			body := []byte(`{"note":"n"}`)
			if sc.BadBody {
				body = []byte(`{"note": `)
			}
			if sc.Encoding != "" {
				hdr = append(hdr, [2]string{"Content-Encoding", sc.Encoding})
				body = []byte("\x1f\x8bnot a compressed stream at all, 36+ bytes long")
			}
			base, child := gs.URL, ch
			if target == "ts" {
				base, child = ts.URL, node
			}
			target := d.Path
			if d.Target != "" {
				target = d.Target
			}
			resp, err := rawHTTP("POST", base, "/hdr"+target, hdr, body)
			c.R.Eval(1)
			if err != nil {
				transportFailure(c, child, nil, caseID, err, map[string]any{"proto": protoText, "declaration": d.Label, "headers_sent": hdr})
				continue
			}
			evs, serr := syncEvents(child)
			if serr != nil {
				c.R.Inconclusive(caseID, "sync")
				continue
			}
			entered := 0
			var bodyRead int64 = -1
			for _, e := range evs {
				switch e.Str("ev") {
				case "handler":
					entered++
				case "wire":
					bodyRead = e.Int("body_read")
				case "panic":
					c.R.Violate(caseID, "panic", e.Str("value"), map[string]any{"proto": protoText, "headers": hdr})
				}
			}
			rp := map[string]any{"proto": protoText, "server": target, "service": d.SvcName, "declared_service_headers": d.Svc, "declared_method_headers": d.Mth, "sent_headers": hdr, "sent_body": string(body),
				"status": resp.Status, "response_body": string(resp.Body), "handler_entries": entered}
			if len(sc.Offend) == 0 {
				if entered != 1 || resp.Status != 200 {
					c.R.Violate(caseID, "valid-headers-rejected", fmt.Sprintf("st%d", resp.Status), rp)
				}
				c.R.Decided(caseID)
				continue
			}
			if entered > 0 {
				c.R.Violate(caseID, "handler-reached-with-bad-header", "", rp)
				c.R.Decided(caseID)
				continue
			}
			if resp.Status != 400 {
				c.R.Violate(caseID, "status", fmt.Sprintf("st%d", resp.Status), rp)
				c.R.Decided(caseID)
				continue
			}
			fields, okv := violationFields(resp.Body, resp.Header.Get("Content-Type"))
			if !okv {
				c.R.Violate(caseID, "malformed-400-body", "", rp)
				c.R.Decided(caseID)
				continue
			}
			got := append([]string{}, fields...)
			for i := range got {
				got[i] = strings.ToLower(got[i])
			}
			want := append([]string{}, sc.Offend...)
			for i := range want {
				want[i] = strings.ToLower(want[i])
			}
			sort.Strings(got)
			sort.Strings(want)
			if strings.Join(got, ",") != strings.Join(want, ",") {
				rp["violation_fields"] = fields
				rp["expected_fields"] = sc.Offend
				c.R.Violate(caseID, "violations-differ", fmt.Sprintf("got %d want %d", len(got), len(want)), rp)
			} else {
				// the name reported must be the declared header name
				for _, f := range fields {
					exact := false
					for _, o := range sc.Offend {
						if f == o {
							exact = true
						}
					}
					if !exact {
						rp["violation_fields"] = fields
						c.R.Violate(caseID, "violation-name-spelling", "", rp)
					}
				}
			}
			if target == "go" && bodyRead > 0 {
				rp["body_bytes_read_before_verdict"] = bodyRead
				c.R.Violate(caseID, "body-read-before-header-verdict", "", rp)
			}
			c.R.Decided(caseID)
		}
	}
	c.R.Sample(map[string]any{"case": "hdr/go/" + d.Label, "declared": map[string]any{"service": d.Svc, "method": d.Mth}, "scenarios": len(scs)})
}

var _ = lab.ErrDead
