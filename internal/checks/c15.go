package checks

import (
	"fmt"
	"os"
	"strings"
	"sync"

	"google.golang.org/protobuf/proto"
	"google.golang.org/protobuf/types/pluginpb"

	"verif/internal/corpus"
	"verif/internal/plugin"
	"verif/internal/spec"
)

func init() {
	Registry["C15"] = c15
	Registry["C14"] = c14
}

// reqCase is one generation request of the shared L1 corpus.
type reqCase struct {
	ID    string
	Files []*spec.File
	Gen   []string   // nil = all, in order
	Extra *spec.File // an unrelated file that may be added
}

// l1Corpus lists the shared valid corpus: feature packages (with service and contexts),
// routing files, header-heavy service, multi-file package, many types.
func l1Corpus(c *Ctx, family string, sampleEvery int) []reqCase {
	var out []reqCase
	feats := corpus.Features()
	for i, f := range feats {
		if sampleEvery > 1 && (i+int(c.Seed))%sampleEvery != 0 {
			continue
		}
		fp := corpus.BuildFeaturePkg(f, i, family, "s", corpus.NewNames(c.Rng("names:"+f.ID)), true, corpus.Contexts)
		out = append(out, reqCase{ID: "feat/" + f.ID, Files: []*spec.File{fp.File}})
		// the same types reached from two services: in one file, and from two files over a shared types file
		if i%2 == int(c.Seed)%2 || sampleEvery <= 1 {
			fq := corpus.BuildFeaturePkg(f, i, family, "q", corpus.NewNames(c.Rng("names:"+f.ID)), true, corpus.Contexts)
			out = append(out, reqCase{ID: "feat-2svc/" + f.ID, Files: []*spec.File{corpus.TwoServices(fq)}})
			fr := corpus.BuildFeaturePkg(f, i, family, "r", corpus.NewNames(c.Rng("names:"+f.ID)), true, corpus.Contexts)
			out = append(out, reqCase{ID: "feat-shared/" + f.ID, Files: corpus.SplitShared(fr)})
		}
		if i%5 == 0 {
			fn := corpus.BuildFeaturePkg(f, i, family, "n", corpus.NewNames(c.Rng("names:"+f.ID)), false, []string{"top", "child"})
			out = append(out, reqCase{ID: "feat-nosvc/" + f.ID, Files: []*spec.File{fn.File}})
		}
	}
	// feature twins: two proto packages (two Go packages) generated in one invocation that declare the
	// SAME message names with a DIFFERENT member of the same annotation group (UNIX_SECONDS vs DATE,
	// HEX vs BASE64URL, NULL vs OMIT, another prefix, another discriminator layout ...): what a generator
	// remembers about a message must be keyed by the message, not by its name
	{
		group := func(f corpus.Feature) string { return strings.SplitN(f.Ann, "_", 2)[0] }
		byGroup := map[string][]int{}
		var order []string
		for i, f := range feats {
			g := group(f)
			if g == "none" {
				continue
			}
			if _, ok := byGroup[g]; !ok {
				order = append(order, g)
			}
			byGroup[g] = append(byGroup[g], i)
		}
		for _, g := range order {
			idx := byGroup[g]
			for k, i := range idx {
				// partner: the next feature of the group with another annotation value (ring order)
				j := -1
				for d := 1; d < len(idx); d++ {
					if cand := idx[(k+d)%len(idx)]; feats[cand].Ann != feats[i].Ann || g == "nullable" || g == "int64" || g == "unwrap" || g == "flatten" {
						j = cand
						break
					}
				}
				if j < 0 {
					continue
				}
				if sampleEvery > 1 && k != int(c.Seed)%len(idx) {
					continue // sampled runs: one twin pair per annotation group, seed-rotated
				}
				names := func() *corpus.Names { return corpus.NewNames(c.Rng("names:twin:" + feats[i].ID)) }
				a := corpus.BuildFeaturePkg(feats[i], i, family+"twa", "s", names(), true, []string{"top", "child"})
				b := corpus.BuildFeaturePkg(feats[j], i, family+"twb", "s", names(), true, []string{"top", "child"})
				for _, sv := range b.File.Services {
					sv.Name = "Twin" + sv.Name // documents are named after the bare service name (a recorded C18 finding): keep them apart
				}
				out = append(out, reqCase{ID: "feat-twins/" + feats[i].ID + "~" + feats[j].Ann, Files: []*spec.File{a.File, b.File}})
			}
		}
	}
	lit := 0
	for bi := range corpus.BaseVariants {
		if sampleEvery > 1 && bi != 0 && bi != 1+int(c.Seed)%4 {
			continue
		}
		for _, sub := range []string{"main", "noslash", "pathquery", "bodyquery", "bodymap", "shared"} {
			f, _ := corpus.RoutingFile(bi, sub, fmt.Sprintf("%s.rb%d%s", family, bi, sub), fmt.Sprintf("lab/gen/%srb%d%s", family, bi, sub), fmt.Sprintf("%srb%d%s", family, bi, sub), &lit, false)
			out = append(out, reqCase{ID: fmt.Sprintf("routes/base=%s/%s", corpus.BaseVariants[bi].Label, sub), Files: []*spec.File{f}})
		}
	}
	out = append(out, reqCase{ID: "headers/many", Files: []*spec.File{corpus.ManyHeadersFile(family+".hh", family+"hh")}})
	out = append(out, reqCase{ID: "types/many", Files: []*spec.File{corpus.ManyTypesFile(family+".mt", family+"mt")}})
	out = append(out, reqCase{ID: "headers/case-variants", Files: []*spec.File{corpus.HeaderCaseVariantsFile(family+".hcv", family+"hcv")}})
	for i, v := range corpus.EnumRuleVariants() {
		out = append(out, reqCase{ID: "rules/enum/" + v.ID, Files: []*spec.File{corpus.EnumRulesFile(fmt.Sprintf("%s.er%d", family, i), fmt.Sprintf("%ser%d", family, i), v)}})
	}
	out = append(out, reqCase{ID: "headers/count", Files: []*spec.File{corpus.HeaderCountFile(family+".hc", family+"hc")}})
	out = append(out, reqCase{ID: "requests/shared", Files: []*spec.File{corpus.SharedRequestFile(family+".sr", family+"sr")}})
	out = append(out, reqCase{ID: "same-route/two-services/one-file", Files: corpus.SameRouteServices(family+".same1", family+"same1", false)})
	out = append(out, reqCase{ID: "same-route/two-services/two-packages", Files: corpus.SameRouteServices(family+".same2", family+"same2", true)})
	t, s, u := corpus.MultiFilePackage(family+".multi", family+"multi")
	out = append(out, reqCase{ID: "multifile/package", Files: []*spec.File{t, s}, Extra: u})
	out = append(out, reqCase{ID: "multifile/same-package-siblings", Files: corpus.SiblingFiles(family+".sib", family+"sib")})
	{
		lit := 0
		v2, _ := corpus.RoutingFile(1, "main", family+".ver", "lab/gen/"+family+"ver", family+"ver", &lit, false)
		out = append(out, reqCase{ID: "versions/v0-v1", Files: []*spec.File{corpus.OlderVersion(v2), v2}})
		// two versions of a service that declares service- and method-level headers: the same service, RPC
		// and header names in two Go packages, with other requiredness and types in the older one
		hv := corpus.HeaderCaseVariantsFile(family+".hver", family+"hver")
		ho := corpus.OlderVersion(hv)
		for _, sv := range ho.Services {
			for i := range sv.Headers {
				sv.Headers[i].Required = !sv.Headers[i].Required
			}
			for _, m := range sv.Methods {
				for i := range m.Headers {
					m.Headers[i].Required = !m.Headers[i].Required
					if m.Headers[i].Type == "string" {
						m.Headers[i].Type = "integer"
					}
				}
			}
		}
		out = append(out, reqCase{ID: "versions/v0-v1-with-headers", Files: []*spec.File{ho, hv}})
	}
	// 3, 5 and 7 services in one invocation (one file / three files): a generator that spreads services over
	// workers sized by GOMAXPROCS must cover all of them for every ratio of the two numbers
	for _, n := range []int{3, 5, 7} {
		out = append(out, reqCase{ID: fmt.Sprintf("services/%d-in-one-file", n), Files: corpus.ManyServices(fmt.Sprintf("%s.ms%d", family, n), fmt.Sprintf("%sms%d", family, n), n, 1)})
		out = append(out, reqCase{ID: fmt.Sprintf("services/%d-in-three-files", n), Files: corpus.ManyServices(fmt.Sprintf("%s.mt%d", family, n), fmt.Sprintf("%smt%d", family, n), n, 3)})
	}
	out = append(out, examplesByKindCases()...)
	out = append(out, reqCase{ID: "twins/packages", Files: corpus.TwinPackages(family+".tw", family+"tw")})
	for _, es := range corpus.EnumShapes(family+".en", family+"en") {
		out = append(out, reqCase{ID: "enums/" + es.Label, Files: es.Files})
	}
	return out
}

func stripHeader(s string) string {
	// drop the "Code generated by protoc-gen-… DO NOT EDIT." line(s)
	var out []string
	for _, l := range strings.Split(s, "\n") {
		if strings.Contains(l, "Code generated by protoc-gen-") {
			continue
		}
		out = append(out, l)
	}
	return strings.Join(out, "\n")
}

func firstDiff(a, b string) int {
	n := len(a)
	if len(b) < n {
		n = len(b)
	}
	for i := 0; i < n; i++ {
		if a[i] != b[i] {
			return i
		}
	}
	return n
}

func around(s string, i int) string {
	lo, hi := i-80, i+80
	if lo < 0 {
		lo = 0
	}
	if hi > len(s) {
		hi = len(s)
	}
	return s[lo:hi]
}

// c15: generation is a pure, order-independent function of the definitions.
// ownedBy reports whether an emitted file name derives from the source file path (longest
// matching source prefix wins, so a.proto does not claim a_types_*.go of a_types.proto).
func ownedBy(name, path string, all []*spec.File) bool {
	match := func(p string) int {
		// emitted names are relative to the Go import path or the source path: compare base names
		pre := strings.TrimSuffix(p[strings.LastIndex(p, "/")+1:], ".proto")
		name := name[strings.LastIndex(name, "/")+1:]
		if strings.HasPrefix(name, pre+"_") || strings.HasPrefix(name, pre+".") {
			return len(pre)
		}
		return -1
	}
	mine := match(path)
	if mine < 0 {
		return false
	}
	// two source files may share a base name in different directories / Go packages: the emitted
	// file's directory (Go import path or source directory) then decides
	dirOf := func(n string) string {
		if i := strings.LastIndex(n, "/"); i >= 0 {
			return n[:i]
		}
		return ""
	}
	nd := dirOf(name)
	inDir := func(f *spec.File) bool { return nd == f.GoImport || nd == dirOf(f.Path) }
	var me *spec.File
	for _, f := range all {
		if f.Path == path {
			me = f
		}
	}
	for _, f := range all {
		if f.Path == path {
			continue
		}
		if match(f.Path) > mine {
			return false
		}
		if match(f.Path) == mine && me != nil && !inDir(me) && inDir(f) {
			return false
		}
	}
	return true
}

func c15(c *Ctx) {
	c.R.Rule = "abstract case = (request of the shared corpus x plugin x variation {repeat with different process/GOMAXPROCS, extra unrelated file in proto_file, extra unrelated file also generated, permuted file_to_generate, single-file vs multi-file invocation, equivalent parameter spelling}); " +
		"non-trivial = every emitted file of the baseline run was compared byte-for-byte with the same-named file of the varied run"
	c.R.Assume("sha/byte comparison of CodeGeneratorResponse.file contents; different OS processes give different Go map-iteration seeds")
	every := 4
	repeats := 8
	if c.Thorough() {
		every, repeats = 1, 16
	}
	cases := l1Corpus(c, "c15", every)
	t, s, u := corpus.MultiFilePackage("c15.multi", "c15multi")
	_ = t
	_ = s
	var mu sync.Mutex
	sampled := false
	plugin.Parallel(len(cases), 8, func(i int) {
		rc := cases[i]
		req, err := spec.Request(rc.Files, rc.Gen, "")
		if err != nil {
			c.R.Harness(rc.ID + ": " + err.Error())
			return
		}
		var protos []string
		for _, f := range rc.Files {
			protos = append(protos, f.Proto())
		}
		type pv struct{ p, param string }
		var pvs []pv
		for _, p := range plugin.Sebuf {
			pvs = append(pvs, pv{p, ""})
		}
		if len(rc.Files) > 1 || (c.Thorough() && i%4 == int(c.Seed)%4) {
			// rarely used plugin parameters switch on generators of their own (mock server, JSON rendering):
			// the same variations apply to what they emit
			pvs = append(pvs, pv{"go-http", "generate_mock=true"}, pv{"openapiv3", "format=json"})
		}
		for _, v := range pvs {
			p, param := v.p, v.param
			caseBase := "determinism/" + rc.ID + "/" + p
			if param != "" {
				caseBase += "[" + param + "]"
				r0, err := spec.Request(rc.Files, rc.Gen, param)
				if err != nil {
					continue
				}
				req = r0
			} else if r0, err := spec.Request(rc.Files, rc.Gen, ""); err == nil {
				req = r0
			}
			if !c.Want(caseBase+"/repeat") && c.Only != "" && !strings.HasPrefix(c.Only, caseBase) {
				continue
			}
			base := c.TB.Run(p, req, plugin.RunOpt{Env: []string{"GOMAXPROCS=16"}, MemKB: 2 * 1024 * 1024})
			c.R.Eval(1)
			if !base.OK() {
				// acceptance/termination are C12/C16 matters; nothing to compare here
				if os.Getenv("VERIF_DEBUG_BASE") != "" {
					fmt.Fprintln(os.Stderr, "BASE", caseBase, base.Crash, base.Error, firstLines(base.Stderr, 2))
				}
				c.R.Inconclusive(caseBase+"/repeat", "baseline-not-ok")
				continue
			}
			cmp := func(caseID string, other *plugin.Result, names []string, what string) {
				c.R.Eval(1)
				if !other.OK() {
					c.R.Violate(caseID, "nondeterministic", what+": outcome differs (baseline ok, variation failed)", map[string]any{"protos": protos, "plugin": p, "error": other.Error, "crash": other.Crash})
					return
				}
				compared := 0
				for _, n := range names {
					a, okA := base.Files[n]
					b, okB := other.Files[n]
					if !okA {
						// (names may come from the variation: single-file vs multi-file) a file the file's own run
						// emits must also come out of the run that generates it together with others
						if okB {
							c.R.Violate(caseID, "nondeterministic", what+": file missing in baseline", map[string]any{"protos": protos, "plugin": p, "file": n, "baseline_files": base.Names()})
						}
						continue
					}
					if !okB {
						c.R.Violate(caseID, "nondeterministic", what+": file missing in variation", map[string]any{"protos": protos, "plugin": p, "file": n})
						continue
					}
					compared++
					if a != b {
						d := firstDiff(a, b)
						c.R.Violate(caseID, "nondeterministic", what+": bytes differ", map[string]any{"protos": protos, "plugin": p, "file": n, "offset": d, "baseline": around(a, d), "variation": around(b, d)})
					}
				}
				c.R.Count("files_compared", compared)
				c.R.Decided(caseID)
			}
			// repeats with different processes / GOMAXPROCS
			for r := 0; r < repeats; r++ {
				gmp := []string{"1", "2", "3", "16", "4", "5", "7", "2"}[r%8]
				other := c.TB.Run(p, req, plugin.RunOpt{Env: []string{"GOMAXPROCS=" + gmp}})
				cmp(caseBase+"/repeat", other, base.Names(), "repeat")
			}
			// serialised request bytes in a different (valid) encoding order do not exist for
			// plugins; instead vary the request content:
			if rc.Extra != nil || len(rc.Files) >= 1 {
				extra := rc.Extra
				if extra == nil {
					extra = u
				}
				// (a) unrelated file present in proto_file but not generated
				files := append(append([]*spec.File{}, rc.Files...), extra)
				var gen []string
				for _, f := range rc.Files {
					gen = append(gen, f.Path)
				}
				if req2, err := spec.Request(files, gen, param); err == nil {
					cmp(caseBase+"/extra-proto-file", c.TB.Run(p, req2, plugin.RunOpt{}), base.Names(), "extra unrelated proto_file")
				}
				// (b) unrelated file also generated, listed first
				files2 := append([]*spec.File{extra}, rc.Files...)
				if req3, err := spec.Request(files2, nil, param); err == nil {
					cmp(caseBase+"/extra-generated", c.TB.Run(p, req3, plugin.RunOpt{}), base.Names(), "extra unrelated generated file")
				}
			}
			if len(rc.Files) > 1 {
				// permuted file_to_generate
				var gen []string
				for i := len(rc.Files) - 1; i >= 0; i-- {
					gen = append(gen, rc.Files[i].Path)
				}
				if req4, err := spec.Request(rc.Files, gen, param); err == nil {
					cmp(caseBase+"/permuted", c.TB.Run(p, req4, plugin.RunOpt{}), base.Names(), "permuted file_to_generate")
				}
				// each file generated alone (others only in proto_file)
				for _, f := range rc.Files {
					if req5, err := spec.Request(rc.Files, []string{f.Path}, param); err == nil {
						alone := c.TB.Run(p, req5, plugin.RunOpt{})
						if alone.OK() {
							// every file the multi-file run emitted for f must also come out of the run for f alone
							names := alone.Names()
							for _, n := range base.Names() {
								if _, dup := alone.Files[n]; !dup && ownedBy(n, f.Path, rc.Files) {
									names = append(names, n)
								}
							}
							cmp(caseBase+"/single-vs-multi", alone, names, "single-file vs multi-file invocation")
						}
					}
				}
			}
			// equivalent parameter spellings
			switch p + param {
			case "openapiv3":
				ry := proto.Clone(req).(*pluginpb.CodeGeneratorRequest)
				ry.Parameter = proto.String("format=yaml")
				cmp(caseBase+"/param-spelling", c.TB.Run(p, ry, plugin.RunOpt{}), base.Names(), "format=yaml vs default")
			case "go-http":
				rm := proto.Clone(req).(*pluginpb.CodeGeneratorRequest)
				rm.Parameter = proto.String("generate_mock=false")
				cmp(caseBase+"/param-spelling", c.TB.Run(p, rm, plugin.RunOpt{}), base.Names(), "generate_mock=false vs default")
			}
			mu.Lock()
			if !sampled && p == "openapiv3" {
				sampled = true
				c.R.Sample(map[string]any{"case": caseBase, "files": base.Names(), "sha": func() map[string]string {
					m := map[string]string{}
					for n, ct := range base.Files {
						m[n] = plugin.Hash(ct)
					}
					return m
				}(), "repeats": repeats})
			}
			mu.Unlock()
		}
	})
}

// c14 (L1 half here; L2 half = C04's cross-package comparison, re-run on a sample):
// go-http and go-client emit interchangeable codec files.
func c14(c *Ctx) {
	c.R.Rule = "abstract case = (request of the shared corpus incl. service-less files and multi-file packages) ; for every file name emitted by both go-http and go-client the contents must be identical apart from the generator-name header line; " +
		"a codec file emitted by go-http for a feature go-client implements (all but unwrap) must have a go-client counterpart; non-trivial = both plugins answered and their file sets were compared; L2: C04's cross-package encode/decode comparison is re-run on the feature catalogue"
	c.R.Assume("header line is the only permitted difference (property text)")
	cases := l1Corpus(c, "c14", 1)
	plugin.Parallel(len(cases), 16, func(i int) {
		rc := cases[i]
		req, err := spec.Request(rc.Files, rc.Gen, "")
		if err != nil {
			c.R.Harness(rc.ID + ": " + err.Error())
			return
		}
		var protos []string
		for _, f := range rc.Files {
			protos = append(protos, f.Proto())
		}
		// the standard protogen parameters both plugins accept: where files are written and under which Go
		// import path a proto file (the definition's own, or a well-known one) is known must not make the
		// two plugins part ways
		params := []struct{ label, p string }{{"", ""}}
		tsRelated := strings.Contains(rc.ID, "ts_") || strings.Contains(rc.ID, "timestamp") || strings.Contains(rc.ID, "multifile") || strings.Contains(rc.ID, "none/messages")
		if c.Thorough() || i%3 == int(c.Seed)%3 || tsRelated {
			params = append(params, struct{ label, p string }{"/param=paths-source-relative", "paths=source_relative"},
				struct{ label, p string }{"/param=M-timestamp-to-ptypes", "Mgoogle/protobuf/timestamp.proto=github.com/golang/protobuf/ptypes/timestamp"},
				struct{ label, p string }{"/param=M-own-file-elsewhere", "M" + rc.Files[len(rc.Files)-1].Path + "=example.com/elsewhere/pkg;pkgx"},
				struct{ label, p string }{"/param=module", "module=lab"})
		}
		for _, pr := range params {
			caseID := "interchange/" + rc.ID + pr.label
			if !c.Want(caseID) {
				continue
			}
			if pr.p != "" {
				if req, err = spec.Request(rc.Files, rc.Gen, pr.p); err != nil {
					continue
				}
			}
			h := c.TB.Run("go-http", req, plugin.RunOpt{})
			cl := c.TB.Run("go-client", req, plugin.RunOpt{})
			c.R.Eval(2)
			if !h.OK() || !cl.OK() {
				if h.OK() != cl.OK() {
					c.R.Violate(caseID, "plugins-differ", "one plugin refuses", map[string]any{"protos": protos, "http_error": h.Error + h.Crash, "client_error": cl.Error + cl.Crash})
				} else {
					c.R.Inconclusive(caseID, "both-refuse")
				}
				continue
			}
			both := 0
			for _, n := range h.Names() {
				hc := h.Files[n]
				cc, ok := cl.Files[n]
				if !ok {
					// server-only files are fine; codec files need a counterpart
					isCodec := !strings.HasSuffix(n, "_http.pb.go") && !strings.HasSuffix(n, "_http_binding.pb.go") && !strings.HasSuffix(n, "_http_config.pb.go") &&
						!strings.HasSuffix(n, "_http_mock.pb.go") && !strings.HasSuffix(n, "_error_impl.pb.go")
					if isCodec && !strings.HasSuffix(n, "_unwrap.pb.go") {
						c.R.Violate(caseID, "codec-file-missing-in-client", suffixOf(n), map[string]any{"protos": protos, "file": n, "client_files": cl.Names()})
					}
					continue
				}
				both++
				a, b := stripHeader(hc), stripHeader(cc)
				if a != b {
					d := firstDiff(a, b)
					c.R.Violate(caseID, "same-name-files-differ", suffixOf(n), map[string]any{"protos": protos, "file": n, "offset": d, "go_http": around(a, d), "go_client": around(b, d)})
				}
			}
			// and the other way round: a codec file only the client plugin writes means the server-side package
		// lacks that codec
		for _, n := range cl.Names() {
			if _, ok := h.Files[n]; ok {
				continue
			}
			if !strings.HasSuffix(n, "_client.pb.go") && !strings.HasSuffix(n, "_unwrap.pb.go") {
				c.R.Violate(caseID, "codec-file-missing-in-server", suffixOf(n), map[string]any{"protos": protos, "file": n, "server_files": h.Names(), "parameter": pr.p})
			}
		}
		c.R.Count("same_name_files_compared", both)
			c.R.Decided(caseID)
			if rc.ID == "multifile/package" && pr.p == "" {
				c.R.Sample(map[string]any{"case": caseID, "go_http_files": h.Names(), "go_client_files": cl.Names(), "same_name_files": both})
			}
		}
	})
	// L2: behaviour of a client-only package vs server-only package
	c04cross(c)
	// … and of packages whose annotated helper types live in another file of the package
	c04split(c, "c14s", "interchange-split")
	c04enum(c, "c14e", "interchange-enum")
}

func suffixOf(name string) string {
	i := strings.LastIndex(name, "_")
	if j := strings.LastIndex(name, "/"); j > i {
		i = j
	}
	base := name[strings.LastIndex(name, "/")+1:]
	if k := strings.Index(base, "_"); k >= 0 {
		return base[k:]
	}
	_ = i
	return base
}
