package checks

import (
	"fmt"
	"os"
	"path/filepath"
	"sort"
	"strings"

	validate "buf.build/gen/go/bufbuild/protovalidate/protocolbuffers/go/buf/validate"
	sebufhttp "github.com/SebastienMelki/sebuf/http"
	"google.golang.org/protobuf/encoding/protojson"
	"google.golang.org/protobuf/proto"
	"google.golang.org/protobuf/reflect/protoreflect"
	"google.golang.org/protobuf/types/dynamicpb"

	"verif/internal/lab"
	"verif/internal/model/jsonmap"
	"verif/internal/oas"
	"verif/internal/plugin"
	"verif/internal/spec"
)

func init() { Registry["C10"] = c10 }

func errSchema(pkg string) *spec.File {
	f := &spec.File{Path: "c10/errs.proto", Package: pkg, GoImport: "lab/gen/c10e", GoName: "c10e"}
	strMin := func(n uint64) *validate.FieldRules {
		return &validate.FieldRules{Type: &validate.FieldRules_String_{String_: &validate.StringRules{MinLen: proto.Uint64(n)}}}
	}
	f.Messages = []*spec.Message{
		{Name: "Item", Fields: []*spec.Field{spec.F("sku", 1, spec.String).With(func(a *spec.Ann) { a.Rules = strMin(2) }), spec.F("count", 2, spec.Int32)}},
		{Name: "Inner", Fields: []*spec.Field{spec.F("email", 1, spec.String).With(func(a *spec.Ann) {
			a.Rules = &validate.FieldRules{Type: &validate.FieldRules_String_{String_: &validate.StringRules{WellKnown: &validate.StringRules_Email{Email: true}}}}
		}), spec.FM("deep_item", 2, "."+pkg+".Item")}},
		{Name: "DoReq", Fields: []*spec.Field{
			spec.F("name", 1, spec.String).With(func(a *spec.Ann) { a.Rules = strMin(3) }),
			spec.FM("inner", 2, "."+pkg+".Inner"),
			spec.FM("items", 3, "."+pkg+".Item").Rep(),
			spec.FM("by_key", 4, "."+pkg+".Item").MapOf(spec.String),
			spec.F("qty", 5, spec.Int32).With(func(a *spec.Ann) {
				a.Rules = &validate.FieldRules{Type: &validate.FieldRules_Int32{Int32: &validate.Int32Rules{GreaterThan: &validate.Int32Rules_Gt{Gt: 0}, LessThan: &validate.Int32Rules_Lte{Lte: 100}}}}
			}),
		}},
		{Name: "DoResp", Fields: []*spec.Field{spec.F("ok", 1, spec.Bool), spec.F("note", 2, spec.String)}},
		{Name: "OneReq", Fields: []*spec.Field{spec.F("num", 1, spec.Int32)}},
		{Name: "FindReq", Fields: []*spec.Field{spec.F("q", 1, spec.String).QReq("q")}},
		{Name: "LookupError", Fields: []*spec.Field{spec.F("code", 1, spec.String), spec.F("retry_after", 2, spec.Int64), spec.F("hints", 3, spec.String).Rep(), spec.F("fatal", 4, spec.Bool)}},
	}
	f.Services = []*spec.Service{{Name: "ErrService", BasePath: spec.S("/err"), Headers: []spec.Header{{Name: "X-Key", Type: "string", Required: true}},
		Methods: []*spec.Method{
			{Name: "Do", In: "." + pkg + ".DoReq", Out: "." + pkg + ".DoResp", HTTP: &spec.HTTP{Path: "/do", Verb: 2}},
			{Name: "GetOne", In: "." + pkg + ".OneReq", Out: "." + pkg + ".DoResp", HTTP: &spec.HTTP{Path: "/one/{num}", Verb: 1}},
			{Name: "Find", In: "." + pkg + ".FindReq", Out: "." + pkg + ".DoResp", HTTP: &spec.HTTP{Path: "/find", Verb: 1}},
		}}}
	return f
}

// errScenario is one error source.
type errScenario struct {
	Source string
	// request
	Verb, Target string
	NoKey        bool
	BodyJSON     string // JSON request body ("" = valid default)
	Msg          func(md protoreflect.MessageDescriptor) *dynamicpb.Message // typed request (for protobuf CT and clients); nil = raw only
	RawOnly      bool
	Script       map[string]any // handler script (error)
	// expectation
	Status     int
	Fields     []string // expected violation fields (set), nil = not a validation error
	AnyViolation bool   // validation error with >=1 violation, field not asserted
	Message    string   // expected Error.message ("" = not asserted)
	Custom     bool     // custom LookupError expected with all fields
	Either     bool     // wrapped custom: either form accepted
	Handler    bool     // handler is entered
}

func validDo(md protoreflect.MessageDescriptor) *dynamicpb.Message {
	m := dynamicpb.NewMessage(md)
	f := md.Fields()
	m.Set(f.ByName("name"), protoreflect.ValueOfString("valid-name"))
	m.Set(f.ByName("qty"), protoreflect.ValueOfInt32(5))
	return m
}

func c10scenarios(pkg string) []errScenario {
	ve := &sebufhttp.ValidationError{Violations: []*sebufhttp.FieldViolation{{Field: "custom.path", Description: "from handler"}, {Field: "other", Description: "second"}}}
	vew, _ := proto.Marshal(ve)
	setItem := func(m protoreflect.Message, sku string) {
		m.Set(m.Descriptor().Fields().ByName("sku"), protoreflect.ValueOfString(sku))
	}
	return []errScenario{
		{Source: "header-missing", Verb: "POST", Target: "/err/do", NoKey: true, Msg: validDo, Status: 400, Fields: []string{"X-Key"}},
		{Source: "url-path-unconvertible", Verb: "GET", Target: "/err/one/abc", RawOnly: true, Status: 400, Fields: []string{"num"}},
		{Source: "url-query-missing-required", Verb: "GET", Target: "/err/find", RawOnly: true, Status: 400, Fields: []string{"q"}},
		{Source: "malformed-body", Verb: "POST", Target: "/err/do", BodyJSON: `{"name": "valid-name", "qty": `, RawOnly: true, Status: 400, AnyViolation: true},
		{Source: "rule-top-level", Verb: "POST", Target: "/err/do", Msg: func(md protoreflect.MessageDescriptor) *dynamicpb.Message {
			m := validDo(md)
			m.Set(md.Fields().ByName("name"), protoreflect.ValueOfString("ab"))
			return m
		}, Status: 400, Fields: []string{"name"}},
		{Source: "rule-nested", Verb: "POST", Target: "/err/do", Msg: func(md protoreflect.MessageDescriptor) *dynamicpb.Message {
			m := validDo(md)
			in := m.Mutable(md.Fields().ByName("inner")).Message()
			in.Set(in.Descriptor().Fields().ByName("email"), protoreflect.ValueOfString("not-an-email"))
			return m
		}, Status: 400, Fields: []string{"inner.email"}},
		{Source: "rule-nested-deep", Verb: "POST", Target: "/err/do", Msg: func(md protoreflect.MessageDescriptor) *dynamicpb.Message {
			m := validDo(md)
			in := m.Mutable(md.Fields().ByName("inner")).Message()
			in.Set(in.Descriptor().Fields().ByName("email"), protoreflect.ValueOfString("a@b.co"))
			setItem(in.Mutable(in.Descriptor().Fields().ByName("deep_item")).Message(), "x")
			return m
		}, Status: 400, Fields: []string{"inner.deep_item.sku"}},
		{Source: "rule-repeated-element", Verb: "POST", Target: "/err/do", Msg: func(md protoreflect.MessageDescriptor) *dynamicpb.Message {
			m := validDo(md)
			l := m.Mutable(md.Fields().ByName("items")).List()
			e0 := l.NewElement()
			setItem(e0.Message(), "good")
			l.Append(e0)
			e1 := l.NewElement()
			setItem(e1.Message(), "x")
			l.Append(e1)
			return m
		}, Status: 400, Fields: []string{"items.sku"}},
		{Source: "rule-map-value", Verb: "POST", Target: "/err/do", Msg: func(md protoreflect.MessageDescriptor) *dynamicpb.Message {
			m := validDo(md)
			mp := m.Mutable(md.Fields().ByName("by_key")).Map()
			v := mp.NewValue()
			setItem(v.Message(), "y")
			mp.Set(protoreflect.ValueOfString("k1").MapKey(), v)
			return m
		}, Status: 400, Fields: []string{"by_key.sku"}},
		{Source: "rule-several", Verb: "POST", Target: "/err/do", Msg: func(md protoreflect.MessageDescriptor) *dynamicpb.Message {
			m := validDo(md)
			m.Set(md.Fields().ByName("name"), protoreflect.ValueOfString(""))
			m.Set(md.Fields().ByName("qty"), protoreflect.ValueOfInt32(101))
			return m
		}, Status: 400, Fields: []string{"name", "qty"}},
		{Source: "handler-plain-error", Verb: "POST", Target: "/err/do", Msg: validDo, Script: map[string]any{"err": map[string]any{"kind": "plain", "message": "user not found: 123 ü"}}, Status: 500, Message: "user not found: 123 ü", Handler: true},
		{Source: "handler-sebuf-error", Verb: "POST", Target: "/err/do", Msg: validDo, Script: map[string]any{"err": map[string]any{"kind": "sebuf", "message": "db down"}}, Status: 500, Message: "db down", Handler: true},
		{Source: "handler-wrapped-sebuf-error", Verb: "POST", Target: "/err/do", Msg: validDo, Script: map[string]any{"err": map[string]any{"kind": "wrapped-sebuf", "message": "inner msg"}}, Status: 500, Message: "~wrapped: inner msg", Handler: true},
		// a handler error that WRAPS a ValidationError is a handler error (the handler did not reject the
		// request, something it called did): 500 with the error's own message, not a 400 with violations
		{Source: "handler-wrapped-validation-error", Verb: "POST", Target: "/err/do", Msg: validDo, Script: map[string]any{"err": map[string]any{"kind": "wrapped-validation", "wire": b64(vew)}}, Status: 500, Message: "~wrapped: validation error", Handler: true},
		{Source: "handler-validation-error", Verb: "POST", Target: "/err/do", Msg: validDo, Script: map[string]any{"err": map[string]any{"kind": "validation", "wire": b64(vew)}}, Status: 400, Fields: []string{"custom.path", "other"}, Handler: true},
		{Source: "handler-custom-error-message", Verb: "POST", Target: "/err/do", Msg: validDo, Script: map[string]any{"err": map[string]any{"kind": "custom", "type": pkg + ".LookupError"}}, Status: 500, Custom: true, Handler: true},
		{Source: "handler-wrapped-custom-error-message", Verb: "POST", Target: "/err/do", Msg: validDo, Script: map[string]any{"err": map[string]any{"kind": "wrapped-custom", "type": pkg + ".LookupError"}}, Status: 500, Custom: true, Either: true, Handler: true},
	}
}

var hookKinds = []string{"none", "nil", "msg", "status", "status-msg", "headers", "body", "inspect"}

// c10: errors surface with the documented status, body, format and client-side type.
func c10(c *Ctx) {
	c.R.Rule = "abstract case = (error source {header, URL binding, malformed body, rule violation at top/nested/deep/repeated/map/several paths, plain/sebuf/validation/custom handler errors incl. wrapped}) x content type {json, x-protobuf, octet-stream} x error hook behaviour {none, returns nil, returns message, sets status, sets status+message, sets headers, writes body, inspects with errors.As} " +
		"+ client-side surfacing through the generated Go client and TS client, + TS server error surfacing; non-trivial = the failing request was sent, and status, content type, decoded error body, handler log and the client's returned error value were compared with the documented error model"
	c.R.Assume("pvstub stands in for protovalidate (standard rules, protovalidate-shaped field paths); Content-Type header after a hook called WriteHeader is not asserted (net/http freezes headers)")
	pkg := "c10.e"
	f := errSchema(pkg)
	l, err := lab.New(c.TB, "c10")
	if err != nil {
		c.R.Harness(err.Error())
		return
	}
	req, err := spec.Request([]*spec.File{f}, nil, "")
	if err != nil {
		c.R.Harness(err.Error())
		return
	}
	reg, _ := spec.Files(req)
	ad, err := l.Add(req, lab.PkgOpt{Plugins: []string{"go-http", "go-client"}, Helpers: true})
	if err != nil {
		c.R.Harness(err.Error())
		return
	}
	protoText := f.Proto()
	if ad.Refused != "" {
		c.R.Violate("err/all", "refused", ad.Refused, map[string]any{"proto": protoText})
		return
	}
	tsClient, tsServer := "", ""
	for _, p := range []string{"ts-client", "ts-server"} {
		res := lab.RunDecoy(c.TB, p, req, plugin.RunOpt{})
		c.R.Eval(1)
		if res.OK() {
			for name, content := range res.Files {
				dst := filepath.Join(l.Dir, "ts", filepath.Base(name))
				_ = os.MkdirAll(filepath.Dir(dst), 0o755)
				_ = os.WriteFile(dst, []byte(content), 0o644)
				if p == "ts-client" {
					tsClient = dst
				} else {
					tsServer = dst
				}
			}
		}
	}
	if un := l.CompileAll(false); un != "" {
		c.R.Harness("unattributed build output: " + firstLines(un, 10))
		return
	}
	if d := emittedDiag(l.Failed["gen/c10e"]); d != nil {
		c.R.Violate("err/all", "compile", d.Msg, map[string]any{"proto": protoText, "file": d.File})
		return
	}
	bin, err := l.BuildBinary(true)
	if err != nil {
		c.R.Harness(err.Error())
		return
	}
	ch, err := lab.Start(bin, c.Scratch+"/race-c10")
	if err != nil {
		c.R.Harness(err.Error())
		return
	}
	defer ch.Quit()
	node, _ := lab.StartNode()
	if node != nil {
		defer node.Quit()
	}
	doMD := msgDesc(reg, pkg+".DoReq")
	lookupMD := msgDesc(reg, pkg+".LookupError")
	custom := dynamicpb.NewMessage(lookupMD)
	custom.Set(lookupMD.Fields().ByName("code"), protoreflect.ValueOfString("E_LOOKUP"))
	custom.Set(lookupMD.Fields().ByName("retry_after"), protoreflect.ValueOfInt64(1<<53+1))
	custom.Mutable(lookupMD.Fields().ByName("hints")).List().Append(protoreflect.ValueOfString("try later"))
	custom.Mutable(lookupMD.Fields().ByName("hints")).List().Append(protoreflect.ValueOfString("ü"))
	custom.Set(lookupMD.Fields().ByName("fatal"), protoreflect.ValueOfBool(true))
	customWire := wire(custom)
	enc := &jsonmap.Encoder{}
	scs := c10scenarios(pkg)
	cts := []struct{ Label, CT string }{{"json", "application/json"}, {"x-protobuf", "application/x-protobuf"}}
	if c.Thorough() {
		cts = append(cts, struct{ Label, CT string }{"octet-stream", "application/octet-stream"}, struct{ Label, CT string }{"json-charset", "application/json; charset=utf-8"})
	}
	// every hook kind in turn, in ONE process; then the hook-less registration once more, after a
	// registration that did pass a hook (options of one registration are that registration's alone)
	type hookRun struct{ hook, label string }
	var hookRuns []hookRun
	for _, h := range hookKinds {
		hookRuns = append(hookRuns, hookRun{h, h})
	}
	hookRuns = append(hookRuns, hookRun{"status-msg", ""}, hookRun{"none", "none-after-hooked-registrations"})
	for _, hr := range hookRuns {
		hook := hr.hook
		gs, err := serveGo(ch, []string{pkg + ".ErrService"}, hook, false)
		if err != nil {
			c.R.Harness("cannot serve: " + err.Error())
			return
		}
		if hr.label == "" {
			gs.Stop() // registered only for what it may leave behind
			continue
		}
		for si, sc := range scs {
			if !c.Thorough() && hook != "none" && (si+len(hook)+int(c.Seed))%2 == 1 {
				continue
			}
			for _, ct := range cts {
				caseID := fmt.Sprintf("err/go-server/%s/%s/hook=%s", sc.Source, ct.Label, hr.label)
				if !c.Want(caseID) {
					continue
				}
				isProto := !strings.HasPrefix(ct.CT, "application/json")
				if isProto && sc.RawOnly && sc.BodyJSON != "" {
					continue
				}
				// script
				if sc.Script != nil {
					s := map[string]any{}
					for k, v := range sc.Script {
						s[k] = v
					}
					if e, ok := s["err"].(map[string]any); ok && strings.HasSuffix(fmt.Sprint(e["kind"]), "custom") {
						e2 := map[string]any{}
						for k, v := range e {
							e2[k] = v
						}
						e2["wire"] = b64(customWire)
						s["err"] = e2
					}
					gs.Script("", s)
				} else {
					gs.Script("", map[string]any{})
				}
				hdr := [][2]string{{"Content-Type", ct.CT}}
				if !sc.NoKey {
					hdr = append(hdr, [2]string{"X-Key", "k"})
				}
				var body []byte
				if sc.Verb == "POST" {
					switch {
					case sc.BodyJSON != "":
						body = []byte(sc.BodyJSON)
					case sc.Msg != nil && isProto:
						body = wire(sc.Msg(doMD))
					case sc.Msg != nil:
						t, _ := enc.Message(sc.Msg(doMD))
						body = jsonmap.Marshal(t)
					}
				}
				resp, err := rawHTTP(sc.Verb, gs.URL, sc.Target, hdr, body)
				c.R.Eval(1)
				if err != nil {
					transportFailure(c, ch, nil, caseID, err, map[string]any{"target": sc.Target})
					continue
				}
				evs, _ := syncEvents(ch)
				entered := 0
				for _, e := range evs {
					if e.Str("ev") == "handler" {
						entered++
					}
					if e.Str("ev") == "panic" {
						c.R.Violate(caseID, "panic", e.Str("value"), map[string]any{"proto": protoText, "stack": e.Str("stack")})
					}
				}
				rp := map[string]any{"proto": protoText, "request": sc.Verb + " " + sc.Target, "request_headers": hdr, "request_body_b64": b64(body), "hook": hook,
					"status": resp.Status, "response_content_type": resp.Header.Get("Content-Type"), "response_headers": resp.Header, "response_body_b64": b64(resp.Body), "response_body_text": string(resp.Body), "handler_entries": entered}
				if sc.Handler != (entered == 1) {
					c.R.Violate(caseID, "handler-entry", fmt.Sprintf("entered=%d", entered), rp)
				}
				c10judge(c, caseID, sc, hook, isProto, resp, rp, customWire, lookupMD)
				c.R.Decided(caseID)
			}
		}
		gs.Stop()
	}
	// ---- client side: Go client and TS client against the Go server (no hook) ----
	gs, err := serveGo(ch, []string{pkg + ".ErrService"}, "none", false)
	if err == nil {
		for _, sc := range scs {
			if sc.RawOnly || sc.Msg == nil {
				continue
			}
			// content-type arrangements: client-level only, and a per-call override that differs from it
			type ctArr struct{ Label, CT, CallCT string }
			arrs := []ctArr{{"json", "application/json", ""}, {"x-protobuf", "application/x-protobuf", ""},
				{"client=default,call=x-protobuf", "", "application/x-protobuf"}, {"client=json,call=x-protobuf", "application/json", "application/x-protobuf"},
				{"client=x-protobuf,call=json", "application/x-protobuf", "application/json"}}
			for _, ct := range arrs {
				caseID := fmt.Sprintf("err/go-client/%s/%s", sc.Source, ct.Label)
				if !c.Want(caseID) {
					continue
				}
				gs.Script("", scriptWithCustom(sc.Script, customWire))
				opts := map[string]any{}
				if ct.CT != "" {
					opts["ct"] = ct.CT
				}
				if ct.CallCT != "" {
					opts["callct"] = ct.CallCT
				}
				if !sc.NoKey {
					opts["chelpers"] = []map[string]string{{"K": "X-Key", "V": "k"}}
				}
				out, err := callGo(ch, pkg+".ErrService", gs.URL, "Do", pkg+".DoReq", wire(sc.Msg(doMD)), opts)
				c.R.Eval(1)
				if err != nil {
					c.R.Inconclusive(caseID, "call:"+err.Error())
					continue
				}
				rp := map[string]any{"proto": protoText, "source": sc.Source, "client_content_type": ct.CT, "per_call_content_type": ct.CallCT, "client_return": out.Ret}
				for _, e := range out.byKind("wire") {
					rp["wire_status"] = e["status"]
					rp["wire_response_body"] = string(unb64(e.Str("resp_body")))
				}
				ce := oasM(out.Ret["err"])
				if ce == nil {
					c.R.Violate(caseID, "client-returned-no-error", "", rp)
					c.R.Decided(caseID)
					continue
				}
				switch {
				case sc.Fields != nil:
					if ce["class"] != "validation" {
						c.R.Violate(caseID, "client-error-type", fmt.Sprint(ce["class"]), rp)
						break
					}
					ve := &sebufhttp.ValidationError{}
					_ = proto.Unmarshal(unb64(fmt.Sprint(ce["wire"])), ve)
					var got []string
					for _, v := range ve.GetViolations() {
						got = append(got, v.GetField())
					}
					if !sameSet(got, sc.Fields) {
						rp["client_violation_fields"] = got
						c.R.Violate(caseID, "client-violations-differ", "", rp)
					}
				case sc.Custom:
					// the client can only carry *Error or a fallback text; either way the caller must be
					// able to recover the status and the message/body ("E_LOOKUP" is in both encodings)
					txt := fmt.Sprint(ce["text"])
					if ce["class"] == "other" && !strings.Contains(txt, "500") {
						c.R.Violate(caseID, "client-fallback-lacks-status", "", rp)
					}
					if !strings.Contains(txt, "E_LOOKUP") && !strings.Contains(fmt.Sprint(ce["message"]), "E_LOOKUP") {
						c.R.Violate(caseID, "client-error-lost-body", fmt.Sprint(ce["class"]), rp)
					}
				default:
					if ce["class"] != "error" {
						c.R.Violate(caseID, "client-error-type", fmt.Sprint(ce["class"]), rp)
					} else if strings.HasPrefix(sc.Message, "~") {
						if !strings.Contains(fmt.Sprint(ce["message"]), strings.TrimPrefix(sc.Message, "~")) {
							c.R.Violate(caseID, "client-error-message-differs", "", rp)
						}
					} else if sc.Message != "" && ce["message"] != sc.Message {
						c.R.Violate(caseID, "client-error-message-differs", "", rp)
					}
				}
				c.R.Decided(caseID)
			}
			// TS client
			if node != nil && tsClient != "" {
				caseID := fmt.Sprintf("err/ts-client/%s/json", sc.Source)
				if !c.Want(caseID) {
					continue
				}
				gs.Script("", scriptWithCustom(sc.Script, customWire))
				t, _ := enc.Message(sc.Msg(doMD))
				copts := map[string]any{}
				if !sc.NoKey {
					copts["defaultHeaders"] = map[string]string{"X-Key": "k"}
				}
				ret, err := callTS(node, tsClient, "ErrServiceClient", gs.URL, "do", jsonmap.Resolve(t), map[string]any{"copts": copts})
				c.R.Eval(1)
				wireEvs, _ := syncEvents(ch)
				if err != nil {
					c.R.Inconclusive(caseID, "tscall:"+err.Error())
					continue
				}
				rp := map[string]any{"proto": protoText, "source": sc.Source, "client_return": ret}
				wireBody, wireStatus := "", int64(0)
				for _, e := range wireEvs {
					if e.Str("ev") == "wire" {
						wireBody, wireStatus = string(unb64(e.Str("resp_body"))), e.Int("status")
					}
				}
				rp["wire_status"], rp["wire_response_body"] = wireStatus, wireBody
				te := oasM(ret["err"])
				if te == nil {
					c.R.Violate(caseID, "client-returned-no-error", "", rp)
					c.R.Decided(caseID)
					continue
				}
				if sc.Fields != nil {
					if te["cls"] != "ValidationError" {
						c.R.Violate(caseID, "client-error-type", fmt.Sprint(te["cls"]), rp)
					} else {
						var got []string
						for _, v := range oas.L(te["violations"]) {
							got = append(got, oas.S(oas.M(v)["field"]))
						}
						if !sameSet(got, sc.Fields) {
							c.R.Violate(caseID, "client-violations-differ", "", rp)
						}
					}
				} else {
					if te["cls"] != "ApiError" {
						c.R.Violate(caseID, "client-error-type", fmt.Sprint(te["cls"]), rp)
					} else {
						if fmt.Sprint(te["statusCode"]) != fmt.Sprint(wireStatus) {
							c.R.Violate(caseID, "client-status-differs", "", rp)
						}
						if fmt.Sprint(te["body"]) != wireBody {
							c.R.Violate(caseID, "client-body-differs", "", rp)
						}
					}
				}
				c.R.Decided(caseID)
			}
		}
		gs.Stop()
	}
	// ---- Go client against servers whose error hook rewrites status/body ----
	for _, hk := range []struct {
		Hook, WantClass, WantText string
		Status                    int
	}{{"status-msg", "error", "hook422", 422}, {"status400-msg", "error|other", "hook400 not-a-validation-error", 400}, {"msg", "error", "hook:", 500}} {
		hs, err := serveGo(ch, []string{pkg + ".ErrService"}, hk.Hook, false)
		if err != nil {
			c.R.Harness("cannot serve: " + err.Error())
			break
		}
		for _, ctl := range []struct{ Label, CT string }{{"json", "application/json"}, {"x-protobuf", "application/x-protobuf"}} {
			caseID := fmt.Sprintf("err/go-client/hook=%s/handler-plain-error/%s", hk.Hook, ctl.Label)
			if !c.Want(caseID) {
				continue
			}
			hs.Script("", map[string]any{"err": map[string]any{"kind": "plain", "message": "boom"}})
			out, err := callGo(ch, pkg+".ErrService", hs.URL, "Do", pkg+".DoReq", wire(validDo(doMD)), map[string]any{"ct": ctl.CT, "chelpers": []map[string]string{{"K": "X-Key", "V": "k"}}})
			c.R.Eval(1)
			if err != nil {
				c.R.Inconclusive(caseID, "call:"+err.Error())
				continue
			}
			rp := map[string]any{"proto": protoText, "hook": hk.Hook, "content_type": ctl.CT, "client_return": out.Ret}
			for _, e := range out.byKind("wire") {
				rp["wire_status"] = e["status"]
				rp["wire_response_body"] = string(unb64(e.Str("resp_body")))
			}
			ce := oasM(out.Ret["err"])
			switch {
			case ce == nil:
				c.R.Violate(caseID, "client-returned-no-error", "", rp)
			case !strings.Contains("|"+hk.WantClass+"|", "|"+fmt.Sprint(ce["class"])+"|"):
				c.R.Violate(caseID, "client-error-type", fmt.Sprint(ce["class"]), rp)
			case !strings.Contains(fmt.Sprint(ce["message"]), hk.WantText) && !strings.Contains(fmt.Sprint(ce["text"]), hk.WantText):
				c.R.Violate(caseID, "client-error-lost-body", fmt.Sprint(ce["class"]), rp)
			case ce["class"] == "other" && !strings.Contains(fmt.Sprint(ce["text"]), fmt.Sprint(hk.Status)):
				c.R.Violate(caseID, "client-fallback-lacks-status", "", rp)
			}
			c.R.Decided(caseID)
		}
		hs.Stop()
	}
	// ---- TS client against the same hook servers: any failure that is not a violation list is an
	// ApiError carrying the wire status and the wire body ----
	if node != nil && tsClient != "" {
		for _, hook := range []string{"status-msg", "status400-msg", "msg", "body"} {
			hs, err := serveGo(ch, []string{pkg + ".ErrService"}, hook, false)
			if err != nil {
				c.R.Harness("cannot serve: " + err.Error())
				break
			}
			caseID := fmt.Sprintf("err/ts-client/hook=%s/handler-plain-error/json", hook)
			if c.Want(caseID) {
				hs.Script("", map[string]any{"err": map[string]any{"kind": "plain", "message": "boom"}})
				t, _ := enc.Message(validDo(doMD))
				ret, err := callTS(node, tsClient, "ErrServiceClient", hs.URL, "do", jsonmap.Resolve(t), map[string]any{"copts": map[string]any{"defaultHeaders": map[string]string{"X-Key": "k"}}})
				c.R.Eval(1)
				wireEvs, _ := syncEvents(ch)
				if err != nil {
					c.R.Inconclusive(caseID, "tscall:"+err.Error())
				} else {
					wireBody, wireStatus := "", int64(0)
					for _, e := range wireEvs {
						if e.Str("ev") == "wire" {
							wireBody, wireStatus = string(unb64(e.Str("resp_body"))), e.Int("status")
						}
					}
					rp := map[string]any{"proto": protoText, "hook": hook, "client_return": ret, "wire_status": wireStatus, "wire_response_body": wireBody}
					te := oasM(ret["err"])
					switch {
					case te == nil:
						c.R.Violate(caseID, "client-returned-no-error", "", rp)
					case te["cls"] != "ApiError":
						c.R.Violate(caseID, "client-error-type", fmt.Sprint(te["cls"]), rp)
					case fmt.Sprint(te["statusCode"]) != fmt.Sprint(wireStatus):
						c.R.Violate(caseID, "client-status-differs", "", rp)
					case fmt.Sprint(te["body"]) != wireBody:
						c.R.Violate(caseID, "client-body-differs", "", rp)
					}
					c.R.Decided(caseID)
				}
			}
			hs.Stop()
		}
	}
	// ---- TS server error surfacing ----
	if node != nil && tsServer != "" {
		c10ts(c, node, tsServer, protoText)
	}
	nr, reps := lab.RaceReports(c.Scratch + "/race-c10")
	c.R.Count("race_reports", nr)
	for _, r := range reps {
		c.R.Violate("err/race", "race", firstLines(r, 3), map[string]any{"report": r})
	}
	c.R.Sample(map[string]any{"case": "err/go-server/rule-nested/json/hook=none", "request": "POST /err/do {\"name\":\"valid-name\",\"qty\":5,\"inner\":{\"email\":\"not-an-email\"}}", "expected": "400 application/json {violations:[{field:\"inner.email\",…}]}; handler not entered"})
}

func scriptWithCustom(s map[string]any, customWire []byte) map[string]any {
	if s == nil {
		return map[string]any{}
	}
	out := map[string]any{}
	for k, v := range s {
		out[k] = v
	}
	if e, ok := out["err"].(map[string]any); ok && strings.HasSuffix(fmt.Sprint(e["kind"]), "custom") {
		e2 := map[string]any{}
		for k, v := range e {
			e2[k] = v
		}
		e2["wire"] = b64(customWire)
		out["err"] = e2
	}
	return out
}

func sameSet(a, b []string) bool {
	x, y := append([]string{}, a...), append([]string{}, b...)
	sort.Strings(x)
	sort.Strings(y)
	return strings.Join(x, "\x00") == strings.Join(y, "\x00")
}

func c10judge(c *Ctx, caseID string, sc errScenario, hook string, isProto bool, resp *rawResp, rp map[string]any, customWire []byte, lookupMD protoreflect.MessageDescriptor) {
	wantStatus := sc.Status
	switch hook {
	case "status":
		wantStatus = 418
	case "status-msg":
		wantStatus = 422
	case "body":
		wantStatus = 409
	}
	if resp.Status != wantStatus {
		c.R.Violate(caseID, "status", fmt.Sprintf("st%d-want-st%d", resp.Status, wantStatus), rp)
	}
	if hook == "body" {
		if string(resp.Body) != "hook wrote this" {
			c.R.Violate(caseID, "hook-body-not-honoured", "", rp)
		}
		return
	}
	if hook == "headers" {
		if resp.Header.Get("X-Hook") != "seen" || resp.Header.Get("Retry-After") != "7" {
			c.R.Violate(caseID, "hook-headers-not-honoured", "", rp)
		}
	}
	if hook == "inspect" {
		want := "error"
		if sc.Fields != nil || sc.AnyViolation {
			want = "validation:"
		} else if sc.Custom && !sc.Either {
			want = "other"
		} else if sc.Custom {
			want = ""
		}
		got := resp.Header.Get("X-Hook-Kind")
		if want != "" && !strings.HasPrefix(got, want) {
			rp["hook_saw"] = got
			c.R.Violate(caseID, "hook-errors-as", "want "+want, rp)
		}
	}
	// content type follows the request's (not asserted when the hook called WriteHeader first)
	hookWroteHeader := hook == "status" || hook == "status-msg"
	if !hookWroteHeader {
		wantCT := "application/json"
		if isProto {
			wantCT = "application/x-protobuf"
		}
		if got := resp.Header.Get("Content-Type"); !strings.HasPrefix(got, wantCT) {
			c.R.Violate(caseID, "content-type", orNone(got), rp)
		}
	}
	decode := func(m proto.Message) error {
		if isProto {
			return proto.Unmarshal(resp.Body, m)
		}
		return protojson.Unmarshal(resp.Body, m)
	}
	// body
	if hook == "msg" || hook == "status-msg" {
		e := &sebufhttp.Error{}
		if err := decode(e); err != nil {
			c.R.Violate(caseID, "body-undecodable", "hook message", rp)
			return
		}
		want := "hook422"
		if hook == "msg" {
			want = "hook:"
		}
		if !strings.HasPrefix(e.GetMessage(), want) {
			c.R.Violate(caseID, "hook-message-not-honoured", "", rp)
		}
		return
	}
	switch {
	case sc.Fields != nil || sc.AnyViolation:
		ve := &sebufhttp.ValidationError{}
		if err := decode(ve); err != nil {
			c.R.Violate(caseID, "body-undecodable", "ValidationError", rp)
			return
		}
		var got []string
		for _, v := range ve.GetViolations() {
			got = append(got, v.GetField())
			if v.GetDescription() == "" {
				c.R.Violate(caseID, "violation-without-description", "", rp)
			}
		}
		if sc.AnyViolation {
			if len(got) == 0 {
				c.R.Violate(caseID, "no-violations", "", rp)
			}
		} else if !sameSet(got, sc.Fields) {
			rp["violation_fields"] = got
			rp["expected_fields"] = sc.Fields
			c.R.Violate(caseID, "violation-fields-differ", "", rp)
		}
	case sc.Custom:
		got := dynamicpb.NewMessage(lookupMD)
		var derr error
		if isProto {
			derr = proto.Unmarshal(resp.Body, got)
		} else {
			derr = protojson.UnmarshalOptions{DiscardUnknown: false}.Unmarshal(resp.Body, got)
		}
		want := dynamicpb.NewMessage(lookupMD)
		_ = proto.Unmarshal(customWire, want)
		if derr == nil && proto.Equal(got, want) {
			return
		}
		if sc.Either {
			e := &sebufhttp.Error{}
			if decode(e) == nil && strings.Contains(e.GetMessage(), "E_LOOKUP") {
				return
			}
		}
		c.R.Violate(caseID, "custom-error-not-serialized-with-all-fields", "", rp)
	default:
		e := &sebufhttp.Error{}
		if err := decode(e); err != nil {
			c.R.Violate(caseID, "body-undecodable", "Error", rp)
			return
		}
		if strings.HasPrefix(sc.Message, "~") {
			// wrapped error: the body carries the handler error's own message (wrapping text included)
			if !strings.Contains(e.GetMessage(), strings.TrimPrefix(sc.Message, "~")) {
				rp["message"] = e.GetMessage()
				c.R.Violate(caseID, "error-message-differs", "", rp)
			}
		} else if sc.Message != "" && e.GetMessage() != sc.Message {
			rp["message"] = e.GetMessage()
			c.R.Violate(caseID, "error-message-differs", "", rp)
		}
	}
}

// c10ts: the generated TS server surfaces errors as documented (400 violations, 500 message, onError).
func c10ts(c *Ctx, node *lab.Child, tsServer, protoText string) {
	for _, on := range []string{"default", "custom"} {
		extra := map[string]any{}
		if on == "custom" {
			extra["onError"] = "custom"
		}
		ts, err := serveTS(node, tsServer, "createErrServiceRoutes", extra)
		if err != nil {
			c.R.Inconclusive("err/ts-server/all", "ts-serve:"+err.Error())
			return
		}
		type tsc struct {
			Src    string
			Script map[string]any
			NoKey  bool
			Status int
			Fields []string
			Msg    string
		}
		for _, s := range []tsc{
			{"header-missing", nil, true, 400, []string{"X-Key"}, ""},
			{"handler-throws-validation", map[string]any{"throw": map[string]any{"kind": "validation", "violations": []map[string]string{{"field": "a.b", "description": "d"}}}}, false, 400, []string{"a.b"}, ""},
			{"handler-throws-error", map[string]any{"throw": map[string]any{"kind": "error", "message": "boom ü"}}, false, 500, nil, "boom ü"},
			{"handler-throws-string", map[string]any{"throw": map[string]any{"kind": "string", "message": "plain string"}}, false, 500, nil, "plain string"},
			// errors of other classes that merely look like the generated ones: still handler failures (500 / hook)
			{"handler-throws-foreign-validation-error", map[string]any{"throw": map[string]any{"kind": "foreign-validation-error", "message": "foreign validation failed"}}, false, 500, nil, "foreign validation failed"},
			{"handler-throws-error-named-api-error", map[string]any{"throw": map[string]any{"kind": "named-like-api-error", "message": "looks like an ApiError"}}, false, 500, nil, "looks like an ApiError"},
			{"handler-throws-type-error", map[string]any{"throw": map[string]any{"kind": "type-error", "message": "x is not a function"}}, false, 500, nil, "x is not a function"},
		} {
			caseID := fmt.Sprintf("err/ts-server/%s/onError=%s", s.Src, on)
			if !c.Want(caseID) {
				continue
			}
			if s.Script != nil {
				ts.Script("", s.Script)
			} else {
				ts.Script("", map[string]any{})
			}
			hdr := [][2]string{{"Content-Type", "application/json"}}
			if !s.NoKey {
				hdr = append(hdr, [2]string{"X-Key", "k"})
			}
			resp, err := rawHTTP("POST", ts.URL, "/err/do", hdr, []byte(`{"name":"valid-name","qty":5}`))
			c.R.Eval(1)
			_, _ = syncEvents(node)
			if err != nil {
				c.R.Inconclusive(caseID, "http")
				continue
			}
			rp := map[string]any{"proto": protoText, "status": resp.Status, "response_body": string(resp.Body), "response_headers": resp.Header}
			wantStatus := s.Status
			if on == "custom" && s.Fields == nil {
				wantStatus = 418
			}
			if resp.Status != wantStatus {
				c.R.Violate(caseID, "status", fmt.Sprintf("st%d-want-st%d", resp.Status, wantStatus), rp)
				c.R.Decided(caseID)
				continue
			}
			t, perr := jsonmap.Parse(resp.Body)
			if perr != nil {
				c.R.Violate(caseID, "body-undecodable", "", rp)
				c.R.Decided(caseID)
				continue
			}
			switch {
			case s.Fields != nil:
				var got []string
				for _, v := range oas.L(oas.M(t)["violations"]) {
					got = append(got, oas.S(oas.M(v)["field"]))
				}
				if !sameSet(got, s.Fields) {
					c.R.Violate(caseID, "violation-fields-differ", "", rp)
				}
			case on == "custom":
				if resp.Header.Get("X-Hook") != "seen" || !strings.Contains(fmt.Sprint(oas.M(t)["hooked"]), s.Msg) {
					c.R.Violate(caseID, "hook-not-honoured", "", rp)
				}
			default:
				if oas.S(oas.M(t)["message"]) != s.Msg {
					c.R.Violate(caseID, "error-message-differs", "", rp)
				}
			}
			c.R.Decided(caseID)
		}
		ts.Stop()
	}
}
