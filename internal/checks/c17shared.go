package checks

import (
	"bytes"
	"encoding/json"
	"fmt"
	"strings"
	"time"

	"verif/internal/corpus"
	"verif/internal/lab"
	"verif/internal/values"
)

// c17shared: one message object used by several calls at once. A request message handed to
// concurrent client calls, or a cached response returned by concurrent handler invocations, is
// only ever *read* by the caller's code, so the emitted codecs must not write to it. Every codec
// feature is built (go-http-only and go-client-only package), one populated object per message type
// is marshalled from several goroutines through the entry points the emitted server and client
// use, and the same JSON bytes are decoded into fresh messages by the same goroutines.
// Monitors: race detector on the child, distinct outputs (must be one), wire form of the shared
// object before/after (must be equal).
func c17shared(c *Ctx) {
	feats := corpus.Features()
	fl, err := buildFeatureLab(c, "c17s", feats, []variant{{Tag: "h", Plugins: []string{"go-http"}}, {Tag: "c", Plugins: []string{"go-client"}}}, false, nil, true)
	if err != nil {
		c.R.Harness(err.Error())
		return
	}
	par, rounds := 8, 12
	if c.Thorough() {
		par, rounds = 16, 40
	}
	raceLog := c.Scratch + "/race-c17s"
	// one child per (feature, variant): a race report then names its case by the log it is in
	ids := sortedFeatIDs(fl.Units)
	type item struct {
		id string
		u  *featUnit
	}
	var items []item
	byGoName := map[string]string{}
	for _, id := range ids {
		for _, u := range fl.Units[id] {
			byGoName[u.FP.File.GoName] = id + "/" + u.V.Tag
			if u.OK() {
				items = append(items, item{id, u})
			}
		}
	}
	p, err := startPool(fl.Bin, 8, raceLog)
	if err != nil {
		c.R.Harness("cannot start lab: " + err.Error())
		return
	}
	sampled := 0
	p.Each(len(items), func(ch *lab.Child, i int) {
		it := items[i]
		caseID := "conc/shared-message/" + it.id + "/" + it.u.V.Tag
		if !c.Want(caseID) {
			return
		}
		md := it.u.Msg(it.u.FP.Root)
		if md == nil {
			c.R.Harness("descriptor missing for " + it.id)
			return
		}
		g := &values.Gen{R: c.Rng("vals:" + it.id)}
		decided := false
		for v := 0; v < 2; v++ {
			M := g.Full(md, v, 3)
			w := wire(M)
			_, ev, e := ch.Do(map[string]any{"op": "codecburst", "id": newID("cb"), "type": it.u.FP.Root, "in": b64(w), "parallel": par, "rounds": rounds}, 120*time.Second, "codecburst_out")
			if e != nil {
				c.R.Inconclusive(caseID, "lab-child:"+e.Error())
				return
			}
			if h := ev.Str("harness"); h != "" {
				c.R.Harness("codecburst: " + h)
				return
			}
			ops, _ := ev["ops"].(float64)
			c.R.Eval(int(ops))
			rp := map[string]any{"proto": it.u.FP.File.Proto(), "type": it.u.FP.Root, "plugins": it.u.V.Plugins, "value_wire_b64": b64(w), "value_text": fmt.Sprint(M), "parallel": par, "rounds": rounds, "event": ev}
			if pn := ev.Str("panic"); pn != "" {
				c.R.Violate(caseID, "panic", firstLines(pn, 1), rp)
				continue
			}
			if ev.Str("first_err") != "" {
				// a value this codec cannot encode at all is C04's business; nothing concurrent to judge
				continue
			}
			if !bytes.Equal(unb64(ev.Str("before")), unb64(ev.Str("after"))) {
				c.R.Violate(caseID, "marshal-changed-shared-message", "", rp)
			}
			if n, _ := ev["n_out"].(float64); n != 1 {
				// byte-different outputs may still be the same JSON value (protojson's deliberate instability is per process, but be safe)
				if !sameJSONAll(ev["outs"]) {
					c.R.Violate(caseID, "concurrent-marshal-output-varies", "", rp)
				}
			}
			if n, _ := ev["n_dec"].(float64); n > 1 {
				c.R.Violate(caseID, "concurrent-unmarshal-result-varies", "", rp)
			}
			decided = true
			if sampled < 2 && ev["custom"] == true {
				sampled++
				c.R.Sample(map[string]any{"case": caseID, "type": it.u.FP.Root, "goroutines": par, "marshal_calls_on_one_object": ops, "distinct_outputs": ev["n_out"], "distinct_decodes": ev["n_dec"], "json": string(unb64(ev.Str("first")))})
			}
		}
		if decided {
			c.R.Decided(caseID)
			c.R.Count("shared_message_types", 1)
		}
	})
	p.Close()
	for _, pn := range p.Panics {
		c.R.Harness("driver panic in work item: " + firstLines(pn, 12))
	}
	n, reports := lab.RaceReports(raceLog)
	c.R.Count("race_reports", n)
	seen := map[string]bool{}
	for _, r := range reports {
		if !strings.Contains(r, "lab/gen/") {
			c.R.Harness("race outside emitted code (shared-message burst): " + firstLines(r, 14))
			continue
		}
		sum := raceSummary(r)
		fam := raceFeature(r)
		if f, ok := byGoName[fam]; ok {
			fam = f
		}
		if seen[fam+sum] {
			continue
		}
		seen[fam+sum] = true
		c.R.Violate("conc/shared-message/"+fam, "race", sum, map[string]any{"report": r})
	}
}

// raceFeature names the feature package a race report's emitted frames lie in (lab/gen/<pkg>/...).
func raceFeature(r string) string {
	i := strings.Index(r, "lab/gen/")
	if i < 0 {
		return "unknown"
	}
	rest := r[i+len("lab/gen/"):]
	if j := strings.IndexAny(rest, "/."); j > 0 {
		return rest[:j]
	}
	return "unknown"
}

func sameJSONAll(v any) bool {
	l, _ := v.([]any)
	var first any
	for i, x := range l {
		s, _ := x.(string)
		raw := string(unb64(s))
		if !strings.HasPrefix(raw, "ok:") {
			return false
		}
		var t any
		d := json.NewDecoder(strings.NewReader(raw[3:]))
		d.UseNumber()
		if err := d.Decode(&t); err != nil {
			return false
		}
		if i == 0 {
			first = t
		} else if fmt.Sprint(first) != fmt.Sprint(t) {
			return false
		}
	}
	return true
}
