package checks

import (
	"fmt"
	"strings"

	"verif/internal/corpus"
	"verif/internal/plugin"
	"verif/internal/spec"
)

func init() { Registry["C12"] = c12 }

// misuse is one documented annotation rule with a minimal offending construct.
type misuse struct {
	Rule    string
	Client  bool // go-client must refuse as well (every JSON-mapping rule except unwrap)
	Service bool // the rule concerns an RPC (needs a service; placements do not apply)
	// Build returns the offending message(s); Offender names that the error must mention (any).
	Build func(pkg string) (msgs []*spec.Message, enums []*spec.EnumDef, offenders []string)
	// Svc builds the offending service for Service rules.
	Svc func(pkg string) (msgs []*spec.Message, svc *spec.Service, offenders []string)
}

func kid(pkg string) (*spec.Message, string) {
	return &spec.Message{Name: "BadKid", Fields: []*spec.Field{spec.F("street", 1, spec.String), spec.F("zip", 2, spec.String)}}, "." + pkg + ".BadKid"
}

func misuses() []misuse {
	one := func(rule string, client bool, offenders []string, fields func(pkg string) ([]*spec.Field, []*spec.Message, []*spec.EnumDef, []*spec.Oneof)) misuse {
		return misuse{Rule: rule, Client: client, Build: func(pkg string) ([]*spec.Message, []*spec.EnumDef, []string) {
			fs, extra, enums, oneofs := fields(pkg)
			m := &spec.Message{Name: "Offender", Fields: fs, Oneofs: oneofs}
			return append(extra, m), enums, append([]string{"Offender"}, offenders...)
		}}
	}
	noX := func(fs ...*spec.Field) func(string) ([]*spec.Field, []*spec.Message, []*spec.EnumDef, []*spec.Oneof) {
		return func(string) ([]*spec.Field, []*spec.Message, []*spec.EnumDef, []*spec.Oneof) { return fs, nil, nil, nil }
	}
	var out []misuse
	out = append(out,
		one("unwrap-non-repeated", false, []string{"bad_field"}, noX(spec.F("bad_field", 1, spec.String).With(func(a *spec.Ann) { a.Unwrap = true }))),
		one("unwrap-twice", false, []string{"bad_field", "other_list"}, noX(spec.F("other_list", 1, spec.String).Rep().With(func(a *spec.Ann) { a.Unwrap = true }), spec.F("bad_field", 2, spec.Int32).Rep().With(func(a *spec.Ann) { a.Unwrap = true }))),
		one("map-unwrap-beside-fields", false, []string{"bad_field"}, noX(spec.F("bad_field", 1, spec.Int32).MapOf(spec.String).With(func(a *spec.Ann) { a.Unwrap = true }), spec.F("other", 2, spec.String))),
		one("nullable-non-optional", true, []string{"bad_field"}, noX(spec.F("bad_field", 1, spec.String).With(func(a *spec.Ann) { a.Nullable = spec.B(true) }))),
		one("nullable-message", true, []string{"bad_field"}, func(pkg string) ([]*spec.Field, []*spec.Message, []*spec.EnumDef, []*spec.Oneof) {
			k, fq := kid(pkg)
			return []*spec.Field{spec.FM("bad_field", 1, fq).Opt().With(func(a *spec.Ann) { a.Nullable = spec.B(true) })}, []*spec.Message{k}, nil, nil
		}),
		one("nullable-oneof-member", true, []string{"bad_field"}, func(pkg string) ([]*spec.Field, []*spec.Message, []*spec.EnumDef, []*spec.Oneof) {
			return []*spec.Field{spec.F("bad_field", 1, spec.String).In(1).With(func(a *spec.Ann) { a.Nullable = spec.B(true) }), spec.F("alt", 2, spec.Int32).In(1)}, nil, nil, []*spec.Oneof{{Name: "pick"}}
		}),
		one("nullable-repeated", true, []string{"bad_field"}, noX(spec.F("bad_field", 1, spec.String).Rep().With(func(a *spec.Ann) { a.Nullable = spec.B(true) }))),
		one("nullable-map", true, []string{"bad_field"}, noX(spec.F("bad_field", 1, spec.String).MapOf(spec.String).With(func(a *spec.Ann) { a.Nullable = spec.B(true) }))),
		one("nullable-optional-message", true, []string{"bad_field"}, func(pkg string) ([]*spec.Field, []*spec.Message, []*spec.EnumDef, []*spec.Oneof) {
			k, fq := kid(pkg)
			return []*spec.Field{spec.FM("bad_field", 1, fq).In(1).With(func(a *spec.Ann) { a.Nullable = spec.B(true) }), spec.F("alt", 2, spec.Int32).In(1)}, []*spec.Message{k}, nil, []*spec.Oneof{{Name: "pick"}}
		}),
		one("empty_behavior-scalar", true, []string{"bad_field"}, noX(spec.F("bad_field", 1, spec.String).With(func(a *spec.Ann) { a.EmptyBehavior = 2 }))),
		one("empty_behavior-repeated", true, []string{"bad_field"}, func(pkg string) ([]*spec.Field, []*spec.Message, []*spec.EnumDef, []*spec.Oneof) {
			k, fq := kid(pkg)
			return []*spec.Field{spec.FM("bad_field", 1, fq).Rep().With(func(a *spec.Ann) { a.EmptyBehavior = 3 })}, []*spec.Message{k}, nil, nil
		}),
		one("empty_behavior-map", true, []string{"bad_field"}, func(pkg string) ([]*spec.Field, []*spec.Message, []*spec.EnumDef, []*spec.Oneof) {
			k, fq := kid(pkg)
			return []*spec.Field{spec.FM("bad_field", 1, fq).MapOf(spec.String).With(func(a *spec.Ann) { a.EmptyBehavior = 1 })}, []*spec.Message{k}, nil, nil
		}),
		one("timestamp_format-string", true, []string{"bad_field"}, noX(spec.F("bad_field", 1, spec.String).With(func(a *spec.Ann) { a.TSFormat = 2 }))),
		one("timestamp_format-other-message", true, []string{"bad_field"}, func(pkg string) ([]*spec.Field, []*spec.Message, []*spec.EnumDef, []*spec.Oneof) {
			k, fq := kid(pkg)
			return []*spec.Field{spec.FM("bad_field", 1, fq).With(func(a *spec.Ann) { a.TSFormat = 4 })}, []*spec.Message{k}, nil, nil
		}),
		one("timestamp_format-duration", true, []string{"bad_field"}, noX(spec.FM("bad_field", 1, spec.Duration).With(func(a *spec.Ann) { a.TSFormat = 3 }))),
		one("bytes_encoding-string", true, []string{"bad_field"}, noX(spec.F("bad_field", 1, spec.String).With(func(a *spec.Ann) { a.BytesEnc = 5 }))),
		one("bytes_encoding-int", true, []string{"bad_field"}, noX(spec.F("bad_field", 1, spec.Int64).With(func(a *spec.Ann) { a.BytesEnc = 3 }))),
		// every value of the annotation on a wrong field type, including the value that spells the default out
		one("timestamp_format-string/value=rfc3339", true, []string{"bad_field"}, noX(spec.F("bad_field", 1, spec.String).With(func(a *spec.Ann) { a.TSFormat = 1 }))),
		one("timestamp_format-int64/value=rfc3339", true, []string{"bad_field"}, noX(spec.F("bad_field", 1, spec.Int64).With(func(a *spec.Ann) { a.TSFormat = 1 }))),
		one("timestamp_format-string/value=unix-millis", true, []string{"bad_field"}, noX(spec.F("bad_field", 1, spec.String).With(func(a *spec.Ann) { a.TSFormat = 3 }))),
		one("timestamp_format-string/value=date", true, []string{"bad_field"}, noX(spec.F("bad_field", 1, spec.String).With(func(a *spec.Ann) { a.TSFormat = 4 }))),
		one("bytes_encoding-string/value=base64", true, []string{"bad_field"}, noX(spec.F("bad_field", 1, spec.String).With(func(a *spec.Ann) { a.BytesEnc = 1 }))),
		one("bytes_encoding-timestamp/value=base64", true, []string{"bad_field"}, noX(spec.FM("bad_field", 1, spec.Timestamp).With(func(a *spec.Ann) { a.BytesEnc = 1 }))),
		one("bytes_encoding-string/value=base64-raw", true, []string{"bad_field"}, noX(spec.F("bad_field", 1, spec.String).With(func(a *spec.Ann) { a.BytesEnc = 2 }))),
		one("bytes_encoding-string/value=base64url", true, []string{"bad_field"}, noX(spec.F("bad_field", 1, spec.String).With(func(a *spec.Ann) { a.BytesEnc = 3 }))),
		one("bytes_encoding-string/value=base64url-raw", true, []string{"bad_field"}, noX(spec.F("bad_field", 1, spec.String).With(func(a *spec.Ann) { a.BytesEnc = 4 }))),
		one("empty_behavior-scalar/value=preserve", true, []string{"bad_field"}, noX(spec.F("bad_field", 1, spec.String).With(func(a *spec.Ann) { a.EmptyBehavior = 1 }))),
		one("empty_behavior-scalar/value=omit", true, []string{"bad_field"}, noX(spec.F("bad_field", 1, spec.String).With(func(a *spec.Ann) { a.EmptyBehavior = 3 }))),
		one("flatten-repeated", true, []string{"bad_field"}, func(pkg string) ([]*spec.Field, []*spec.Message, []*spec.EnumDef, []*spec.Oneof) {
			k, fq := kid(pkg)
			return []*spec.Field{spec.FM("bad_field", 1, fq).Rep().With(func(a *spec.Ann) { a.Flatten = spec.B(true) })}, []*spec.Message{k}, nil, nil
		}),
		one("flatten-map", true, []string{"bad_field"}, func(pkg string) ([]*spec.Field, []*spec.Message, []*spec.EnumDef, []*spec.Oneof) {
			k, fq := kid(pkg)
			return []*spec.Field{spec.FM("bad_field", 1, fq).MapOf(spec.String).With(func(a *spec.Ann) { a.Flatten = spec.B(true) })}, []*spec.Message{k}, nil, nil
		}),
		one("flatten-scalar", true, []string{"bad_field"}, noX(spec.F("bad_field", 1, spec.String).With(func(a *spec.Ann) { a.Flatten = spec.B(true) }))),
		one("flatten-oneof-member", true, []string{"bad_field"}, func(pkg string) ([]*spec.Field, []*spec.Message, []*spec.EnumDef, []*spec.Oneof) {
			k, fq := kid(pkg)
			return []*spec.Field{spec.FM("bad_field", 1, fq).In(1).With(func(a *spec.Ann) { a.Flatten = spec.B(true) }), spec.F("alt", 2, spec.String).In(1)}, []*spec.Message{k}, nil, []*spec.Oneof{{Name: "pick"}}
		}),
		one("flatten-collision-parent", true, []string{"bad_field", "street"}, func(pkg string) ([]*spec.Field, []*spec.Message, []*spec.EnumDef, []*spec.Oneof) {
			k, fq := kid(pkg)
			return []*spec.Field{spec.F("street", 1, spec.String), spec.FM("bad_field", 2, fq).With(func(a *spec.Ann) { a.Flatten = spec.B(true) })}, []*spec.Message{k}, nil, nil
		}),
		one("flatten-collision-siblings", true, []string{"bad_field", "first", "street"}, func(pkg string) ([]*spec.Field, []*spec.Message, []*spec.EnumDef, []*spec.Oneof) {
			k, fq := kid(pkg)
			return []*spec.Field{spec.FM("first", 1, fq).With(func(a *spec.Ann) { a.Flatten = spec.B(true) }), spec.FM("bad_field", 2, fq).With(func(a *spec.Ann) { a.Flatten = spec.B(true) })}, []*spec.Message{k}, nil, nil
		}),
		one("flatten-collision-prefixed", true, []string{"bad_field", "pstreet"}, func(pkg string) ([]*spec.Field, []*spec.Message, []*spec.EnumDef, []*spec.Oneof) {
			k, fq := kid(pkg)
			return []*spec.Field{spec.F("pstreet", 1, spec.String), spec.FM("bad_field", 2, fq).With(func(a *spec.Ann) { a.Flatten = spec.B(true); a.FlattenPrefix = spec.S("p") })}, []*spec.Message{k}, nil, nil
		}),
		// two flattened fields whose prefixes DIFFER and whose promoted keys still coincide (the key is prefix + child name)
		one("flatten-collision-prefixed-vs-unprefixed", true, []string{"bad_field", "first", "pstreet"}, func(pkg string) ([]*spec.Field, []*spec.Message, []*spec.EnumDef, []*spec.Oneof) {
			k, fq := kid(pkg)
			o := &spec.Message{Name: "OtherKid", Fields: []*spec.Field{spec.F("pstreet", 1, spec.String), spec.F("plan", 2, spec.String)}}
			return []*spec.Field{spec.FM("first", 1, fq).With(func(a *spec.Ann) { a.Flatten = spec.B(true); a.FlattenPrefix = spec.S("p") }), spec.FM("bad_field", 2, "."+pkg+".OtherKid").With(func(a *spec.Ann) { a.Flatten = spec.B(true) })}, []*spec.Message{k, o}, nil, nil
		}),
		one("flatten-collision-unprefixed-vs-prefixed", true, []string{"bad_field", "first", "pstreet"}, func(pkg string) ([]*spec.Field, []*spec.Message, []*spec.EnumDef, []*spec.Oneof) {
			k, fq := kid(pkg)
			o := &spec.Message{Name: "OtherKid", Fields: []*spec.Field{spec.F("pstreet", 1, spec.String), spec.F("plan", 2, spec.String)}}
			return []*spec.Field{spec.FM("first", 1, "."+pkg+".OtherKid").With(func(a *spec.Ann) { a.Flatten = spec.B(true) }), spec.FM("bad_field", 2, fq).With(func(a *spec.Ann) { a.Flatten = spec.B(true); a.FlattenPrefix = spec.S("p") })}, []*spec.Message{k, o}, nil, nil
		}),
		one("flatten-collision-two-different-prefixes", true, []string{"bad_field", "first", "abstreet"}, func(pkg string) ([]*spec.Field, []*spec.Message, []*spec.EnumDef, []*spec.Oneof) {
			k, fq := kid(pkg)
			o := &spec.Message{Name: "OtherKid", Fields: []*spec.Field{spec.F("bstreet", 1, spec.String)}}
			return []*spec.Field{spec.FM("first", 1, fq).With(func(a *spec.Ann) { a.Flatten = spec.B(true); a.FlattenPrefix = spec.S("ab") }), spec.FM("bad_field", 2, "."+pkg+".OtherKid").With(func(a *spec.Ann) { a.Flatten = spec.B(true); a.FlattenPrefix = spec.S("a") })}, []*spec.Message{k, o}, nil, nil
		}),
		one("prefix-without-flatten", true, []string{"bad_field"}, func(pkg string) ([]*spec.Field, []*spec.Message, []*spec.EnumDef, []*spec.Oneof) {
			k, fq := kid(pkg)
			return []*spec.Field{spec.FM("bad_field", 1, fq).With(func(a *spec.Ann) { a.FlattenPrefix = spec.S("x_") })}, []*spec.Message{k}, nil, nil
		}),
		one("discriminator-collision", true, []string{"pick", "kind"}, func(pkg string) ([]*spec.Field, []*spec.Message, []*spec.EnumDef, []*spec.Oneof) {
			k, fq := kid(pkg)
			return []*spec.Field{spec.F("kind", 1, spec.String), spec.FM("a_val", 2, fq).In(1), spec.F("b_val", 3, spec.String).In(1)}, []*spec.Message{k}, nil, []*spec.Oneof{{Name: "pick", HasConfig: true, Discriminator: "kind"}}
		}),
		one("oneof-flatten-scalar-variant", true, []string{"pick", "b_val"}, func(pkg string) ([]*spec.Field, []*spec.Message, []*spec.EnumDef, []*spec.Oneof) {
			k, fq := kid(pkg)
			return []*spec.Field{spec.FM("a_val", 2, fq).In(1), spec.F("b_val", 3, spec.String).In(1)}, []*spec.Message{k}, nil, []*spec.Oneof{{Name: "pick", HasConfig: true, Discriminator: "kind", Flatten: true}}
		}),
		one("oneof-flatten-child-collides-parent", true, []string{"pick", "street", "a_val"}, func(pkg string) ([]*spec.Field, []*spec.Message, []*spec.EnumDef, []*spec.Oneof) {
			k, fq := kid(pkg)
			return []*spec.Field{spec.F("street", 1, spec.String), spec.FM("a_val", 2, fq).In(1)}, []*spec.Message{k}, nil, []*spec.Oneof{{Name: "pick", HasConfig: true, Discriminator: "kind", Flatten: true}}
		}),
		one("oneof-flatten-child-collides-discriminator", true, []string{"pick", "zip", "a_val"}, func(pkg string) ([]*spec.Field, []*spec.Message, []*spec.EnumDef, []*spec.Oneof) {
			k, fq := kid(pkg)
			return []*spec.Field{spec.FM("a_val", 2, fq).In(1)}, []*spec.Message{k}, nil, []*spec.Oneof{{Name: "pick", HasConfig: true, Discriminator: "zip", Flatten: true}}
		}),
		// the colliding sibling may itself sit in a (synthetic or real) oneof
		one("discriminator-collision-optional-sibling", true, []string{"pick", "kind"}, func(pkg string) ([]*spec.Field, []*spec.Message, []*spec.EnumDef, []*spec.Oneof) {
			k, fq := kid(pkg)
			return []*spec.Field{spec.F("kind", 1, spec.String).Opt(), spec.FM("a_val", 2, fq).In(1), spec.F("b_val", 3, spec.String).In(1)}, []*spec.Message{k}, nil, []*spec.Oneof{{Name: "pick", HasConfig: true, Discriminator: "kind"}}
		}),
		one("discriminator-collision-other-oneof-member", true, []string{"pick", "kind"}, func(pkg string) ([]*spec.Field, []*spec.Message, []*spec.EnumDef, []*spec.Oneof) {
			k, fq := kid(pkg)
			return []*spec.Field{spec.FM("a_val", 2, fq).In(1), spec.F("b_val", 3, spec.String).In(1), spec.F("kind", 4, spec.String).In(2), spec.F("other_alt", 5, spec.Int32).In(2)}, []*spec.Message{k}, nil, []*spec.Oneof{{Name: "pick", HasConfig: true, Discriminator: "kind"}, {Name: "second"}}
		}),
		one("oneof-flatten-child-collides-optional-parent", true, []string{"pick", "street", "a_val"}, func(pkg string) ([]*spec.Field, []*spec.Message, []*spec.EnumDef, []*spec.Oneof) {
			k, fq := kid(pkg)
			return []*spec.Field{spec.F("street", 1, spec.String).Opt(), spec.FM("a_val", 2, fq).In(1)}, []*spec.Message{k}, nil, []*spec.Oneof{{Name: "pick", HasConfig: true, Discriminator: "kind", Flatten: true}}
		}),
		one("oneof-flatten-child-collides-other-oneof-member", true, []string{"pick", "street", "a_val"}, func(pkg string) ([]*spec.Field, []*spec.Message, []*spec.EnumDef, []*spec.Oneof) {
			k, fq := kid(pkg)
			return []*spec.Field{spec.FM("a_val", 2, fq).In(1), spec.F("street", 4, spec.String).In(2), spec.F("other_alt", 5, spec.Int32).In(2)}, []*spec.Message{k}, nil, []*spec.Oneof{{Name: "pick", HasConfig: true, Discriminator: "kind", Flatten: true}, {Name: "second"}}
		}),
		one("flatten-collision-optional-parent", true, []string{"bad_field", "street"}, func(pkg string) ([]*spec.Field, []*spec.Message, []*spec.EnumDef, []*spec.Oneof) {
			k, fq := kid(pkg)
			return []*spec.Field{spec.F("street", 1, spec.String).Opt(), spec.FM("bad_field", 2, fq).With(func(a *spec.Ann) { a.Flatten = spec.B(true) })}, []*spec.Message{k}, nil, nil
		}),
		one("flatten-collision-oneof-member-parent", true, []string{"bad_field", "street"}, func(pkg string) ([]*spec.Field, []*spec.Message, []*spec.EnumDef, []*spec.Oneof) {
			k, fq := kid(pkg)
			return []*spec.Field{spec.F("street", 1, spec.String).In(1), spec.F("alt", 3, spec.Int32).In(1), spec.FM("bad_field", 2, fq).With(func(a *spec.Ann) { a.Flatten = spec.B(true) })}, []*spec.Message{k}, nil, []*spec.Oneof{{Name: "second"}}
		}),
		one("enum-number-with-custom-values", true, []string{"bad_field", "BadEnum"}, func(pkg string) ([]*spec.Field, []*spec.Message, []*spec.EnumDef, []*spec.Oneof) {
			e := &spec.EnumDef{Name: "BadEnum", Values: []spec.EnumValue{{Name: "BAD_ENUM_UNSPECIFIED", Num: 0}, {Name: "BAD_ENUM_ONE", Num: 1, JSON: spec.S("one")}}}
			return []*spec.Field{spec.FE("bad_field", 1, "."+pkg+".BadEnum").With(func(a *spec.Ann) { a.EnumEnc = 2 })}, nil, []*spec.EnumDef{e}, nil
		}),
	)
	svcRule := func(rule string, offenders []string, path string, verb int32, fields ...*spec.Field) misuse {
		return misuse{Rule: rule, Service: true, Svc: func(pkg string) ([]*spec.Message, *spec.Service, []string) {
			k, _ := kid(pkg)
			req := &spec.Message{Name: "BadReq", Fields: fields}
			resp := &spec.Message{Name: "BadResp", Fields: []*spec.Field{spec.F("ok", 1, spec.Bool)}}
			s := &spec.Service{Name: "BadService", Methods: []*spec.Method{{Name: "BadCall", In: "." + pkg + ".BadReq", Out: "." + pkg + ".BadResp", HTTP: &spec.HTTP{Path: path, Verb: verb}}}}
			return []*spec.Message{k, req, resp}, s, append([]string{"BadCall", "BadReq"}, offenders...)
		}}
	}
	out = append(out,
		svcRule("path-var-no-field", []string{"nope"}, "/x/{nope}", 2, spec.F("id", 1, spec.String)),
		svcRule("path-var-message", []string{"bad_field"}, "/x/{bad_field}", 2, spec.FM("bad_field", 1, spec.Timestamp)),
		svcRule("path-var-bytes", []string{"bad_field"}, "/x/{bad_field}", 2, spec.F("bad_field", 1, spec.Bytes)),
		misuse{Rule: "path-var-enum", Service: true, Svc: func(pkg string) ([]*spec.Message, *spec.Service, []string) {
			req := &spec.Message{Name: "BadReq", Fields: []*spec.Field{spec.FE("bad_field", 1, "."+pkg+".BadReq.Mode")}, Enums: []*spec.EnumDef{{Name: "Mode", Values: []spec.EnumValue{{Name: "MODE_UNSPECIFIED", Num: 0}, {Name: "MODE_ON", Num: 1}}}}}
			resp := &spec.Message{Name: "BadResp", Fields: []*spec.Field{spec.F("ok", 1, spec.Bool)}}
			s := &spec.Service{Name: "BadService", Methods: []*spec.Method{{Name: "BadCall", In: "." + pkg + ".BadReq", Out: "." + pkg + ".BadResp", HTTP: &spec.HTTP{Path: "/x/{bad_field}", Verb: 2}}}}
			return []*spec.Message{req, resp}, s, []string{"BadCall", "BadReq", "bad_field"}
		}},
		svcRule("path-and-query", []string{"bad_field"}, "/x/{bad_field}", 1, spec.F("bad_field", 1, spec.String).Q("bad_field")),
		svcRule("get-unbound-field", []string{"bad_field"}, "/x/{id}", 1, spec.F("id", 1, spec.String), spec.F("bad_field", 2, spec.String)),
		// the same path rules where the variable shares its segment with literal text
		svcRule("path-var-no-field/inside-a-segment/suffix", []string{"nope"}, "/x/{nope}.json", 2, spec.F("id", 1, spec.String)),
		svcRule("path-var-no-field/inside-a-segment/colon-verb", []string{"nope"}, "/x/{nope}:cancel", 2, spec.F("id", 1, spec.String)),
		svcRule("path-var-no-field/inside-a-segment/prefix", []string{"nope"}, "/v{nope}/x", 2, spec.F("id", 1, spec.String)),
		svcRule("path-var-message/inside-a-segment/suffix", []string{"bad_field"}, "/x/{bad_field}.json", 2, spec.FM("bad_field", 1, spec.Timestamp)),
		svcRule("path-and-query/inside-a-segment/suffix", []string{"bad_field"}, "/x/{bad_field}.json", 1, spec.F("bad_field", 1, spec.String).Q("bad_field")),
		svcRule("path-and-query/inside-a-segment/prefix", []string{"bad_field"}, "/v{bad_field}/x", 1, spec.F("bad_field", 1, spec.String).Q("bad_field")),
		svcRule("delete-unbound-field", []string{"bad_field"}, "/x", 4, spec.F("bad_field", 2, spec.String)),
		// the same unbound field, in an RPC declared AFTER valid RPCs whose routes have a path variable of that
		// very name (a rule is judged per RPC; nothing carries over from the RPC before)
		misuse{Rule: "get-unbound-field/after-route-with-that-variable", Service: true, Svc: func(pkg string) ([]*spec.Message, *spec.Service, []string) {
			ok := &spec.Message{Name: "PriorReq", Fields: []*spec.Field{spec.F("bad_field", 1, spec.String)}}
			req := &spec.Message{Name: "BadReq", Fields: []*spec.Field{spec.F("bad_field", 1, spec.String)}}
			resp := &spec.Message{Name: "BadResp", Fields: []*spec.Field{spec.F("ok", 1, spec.Bool)}}
			s := &spec.Service{Name: "BadService", Methods: []*spec.Method{
				{Name: "Fine", In: "." + pkg + ".PriorReq", Out: "." + pkg + ".BadResp", HTTP: &spec.HTTP{Path: "/x/{bad_field}", Verb: 1}},
				{Name: "AlsoFine", In: "." + pkg + ".PriorReq", Out: "." + pkg + ".BadResp", HTTP: &spec.HTTP{Path: "/y/{bad_field}", Verb: 4}},
				{Name: "BadCall", In: "." + pkg + ".BadReq", Out: "." + pkg + ".BadResp", HTTP: &spec.HTTP{Path: "/z", Verb: 1}},
			}}
			return []*spec.Message{ok, req, resp}, s, []string{"BadCall", "BadReq", "bad_field"}
		}},
		misuse{Rule: "path-and-query/after-route-with-that-query-parameter", Service: true, Svc: func(pkg string) ([]*spec.Message, *spec.Service, []string) {
			ok := &spec.Message{Name: "PriorReq", Fields: []*spec.Field{spec.F("bad_field", 1, spec.String).Q("bad_field")}}
			req := &spec.Message{Name: "BadReq", Fields: []*spec.Field{spec.F("bad_field", 1, spec.String).Q("bad_field")}}
			resp := &spec.Message{Name: "BadResp", Fields: []*spec.Field{spec.F("ok", 1, spec.Bool)}}
			s := &spec.Service{Name: "BadService", Methods: []*spec.Method{
				{Name: "Fine", In: "." + pkg + ".PriorReq", Out: "." + pkg + ".BadResp", HTTP: &spec.HTTP{Path: "/x", Verb: 1}},
				{Name: "BadCall", In: "." + pkg + ".BadReq", Out: "." + pkg + ".BadResp", HTTP: &spec.HTTP{Path: "/z/{bad_field}", Verb: 1}},
			}}
			return []*spec.Message{ok, req, resp}, s, []string{"BadCall", "BadReq", "bad_field"}
		}},
	)
	return out
}

var misusePlacements = []string{"top", "nested", "service-less-file", "imported-used", "helpers-other-file", "helpers-imported", "via-public-import"}

// umbrellaFile re-exports the sebuf annotation files with `import public`: a definition that imports
// only the umbrella uses the annotations exactly as if it imported them itself.
func umbrellaFile(path string) *spec.File {
	return &spec.File{Path: path, Package: "c12.umbrella", GoImport: "lab/gen/c12umbrella", GoName: "c12umbrella", Public: []string{spec.AnnotationsPath, spec.HeadersPath}}
}

// c12: misused annotations stop generation; valid definitions are never refused.
func c12(c *Ctx) {
	c.R.Rule = "abstract case = (documented rule x placement of the offending construct {top-level, nested message, service-less file of the same run, imported-but-used file} x surrounding valid content {none, valid annotated messages + service}) for refusal; " +
		"(valid schema of the shared corpus x plugin) for acceptance; non-trivial = the plugin process ran and its CodeGeneratorResponse (error/files) was inspected"
	c.R.Assume("descriptors are built directly (no protoc); only descriptor sets that protodesc links are submitted")
	names := corpus.NewNames(c.Rng("c12"))
	run := func(caseID string, files []*spec.File, gen []string, offenders []string, wantClient bool, isUnwrap bool) {
		if !c.Want(caseID) {
			return
		}
		req, err := spec.Request(files, gen, "")
		if err != nil {
			c.R.Harness(caseID + ": " + err.Error())
			return
		}
		var protos []string
		for _, f := range files {
			protos = append(protos, f.Proto())
		}
		for _, p := range []string{"go-http", "go-client"} {
			res := c.TB.Run(p, req, plugin.RunOpt{})
			c.R.Eval(1)
			id := caseID + "/" + p
			rp := map[string]any{"protos": protos, "generate": gen, "plugin": p, "error": res.Error, "files": res.Names(), "stderr": res.Stderr}
			if res.Crash != "" {
				c.R.Violate(id, "crash", res.Crash, rp)
				continue
			}
			mustRefuse := p == "go-http" || wantClient
			if !mustRefuse {
				c.R.Decided(id)
				continue
			}
			if !res.HasError {
				c.R.Violate(id, "accepted-misuse", "", rp)
				continue
			}
			if len(res.Files) > 0 {
				c.R.Violate(id, "files-emitted-with-error", "", rp)
			}
			named := false
			for _, o := range offenders {
				if strings.Contains(res.Error, o) {
					named = true
				}
			}
			if !named {
				c.R.Violate(id, "error-does-not-name-offender", "", rp)
			}
			c.R.Decided(id)
			c.R.Count("refusals_observed", 1)
		}
	}
	valid := func(pkg, path, goName string) *spec.File {
		// surrounding valid content: an annotated message and a service
		b := &corpus.B{Pkg: pkg, N: names}
		feats := corpus.Features()
		for _, f := range feats {
			if f.ID == "int64_number/int64/singular" || f.ID == "flatten/prefix/child=word" {
				b.Prefix = "V" + fmt.Sprint(len(b.Msgs))
				f.Build(b)
			}
		}
		f := &spec.File{Path: path, Package: pkg, GoImport: "lab/gen/" + goName, GoName: goName, Messages: b.Msgs, Enums: b.Enums}
		f.Messages = append(f.Messages, &spec.Message{Name: "OkReq", Fields: []*spec.Field{spec.F("id", 1, spec.String)}}, &spec.Message{Name: "OkResp", Fields: []*spec.Field{spec.F("ok", 1, spec.Bool)}})
		f.Services = []*spec.Service{{Name: "OkService", Methods: []*spec.Method{{Name: "OkCall", In: "." + pkg + ".OkReq", Out: "." + pkg + ".OkResp", HTTP: &spec.HTTP{Path: "/ok/{id}", Verb: 2}}}}}
		return f
	}
	ms := misuses()
	for i, m := range ms {
		if m.Service {
			for _, sur := range []string{"none", "valid"} {
				pkg := fmt.Sprintf("c12.s%02d%s", i, sur)
				msgs, svc, offenders := m.Svc(pkg)
				f := &spec.File{Path: fmt.Sprintf("c12/s%02d%s.proto", i, sur), Package: pkg, GoImport: "lab/gen/c12s", GoName: "c12s", Messages: msgs, Services: []*spec.Service{svc}}
				if sur == "valid" {
					v := valid(pkg, "", "")
					f.Messages = append(v.Messages, f.Messages...)
					f.Enums = v.Enums
					f.Services = append(v.Services, f.Services...)
				}
				run(fmt.Sprintf("misuse/%s/service/%s", m.Rule, sur), []*spec.File{f}, nil, offenders, false, false)
				if sur == "none" {
					g := f.Clone()
					um := umbrellaFile(fmt.Sprintf("c12/s%02d/options.proto", i))
					g.Via = um.Path
					run(fmt.Sprintf("misuse/%s/service/via-public-import", m.Rule), []*spec.File{um, g}, []string{g.Path}, offenders, false, false)
				}
			}
			continue
		}
		for _, pl := range misusePlacements {
			for _, sur := range []string{"none", "valid"} {
				if !c.Thorough() && sur == "valid" && (i+int(c.Seed))%3 != 0 {
					continue // quick: surrounding-content variant for a seed-rotating third of the rules
				}
				pkg := fmt.Sprintf("c12.m%02d", i)
				msgs, enums, offenders := m.Build(pkg)
				caseID := fmt.Sprintf("misuse/%s/%s/%s", m.Rule, pl, sur)
				mainF := &spec.File{Path: fmt.Sprintf("c12/m%02d/main.proto", i), Package: pkg, GoImport: "lab/gen/c12m", GoName: "c12m"}
				if sur == "valid" {
					v := valid(pkg, "", "")
					mainF.Messages, mainF.Enums, mainF.Services = v.Messages, v.Enums, v.Services
				}
				switch pl {
				case "top":
					mainF.Messages = append(mainF.Messages, msgs...)
					mainF.Enums = append(mainF.Enums, enums...)
					run(caseID, []*spec.File{mainF}, nil, offenders, m.Client, false)
				case "via-public-import":
					// as "top", but the file reaches the annotations through an umbrella file's public import
					um := umbrellaFile(fmt.Sprintf("c12/m%02d/options.proto", i))
					mainF.Via = um.Path
					mainF.Messages = append(mainF.Messages, msgs...)
					mainF.Enums = append(mainF.Enums, enums...)
					run(caseID, []*spec.File{um, mainF}, []string{mainF.Path}, offenders, m.Client, false)
				case "nested":
					// the offending message (and its helpers) nested inside a wrapper message
					wrapPkg := pkg
					wmsgs, wenums, _ := m.Build(wrapPkg + ".Wrapper")
					w := &spec.Message{Name: "Wrapper", Nested: wmsgs, Enums: wenums, Fields: []*spec.Field{spec.F("note", 1, spec.String)}}
					mainF.Messages = append(mainF.Messages, w)
					run(caseID, []*spec.File{mainF}, nil, offenders, m.Client, false)
				case "service-less-file":
					other := &spec.File{Path: fmt.Sprintf("c12/m%02d/types.proto", i), Package: pkg, GoImport: "lab/gen/c12m", GoName: "c12m", Messages: msgs, Enums: enums}
					if len(mainF.Messages) == 0 {
						mainF.Messages = []*spec.Message{{Name: "Plain", Fields: []*spec.Field{spec.F("x", 1, spec.String)}}}
					}
					run(caseID, []*spec.File{other, mainF}, nil, offenders, m.Client, false)
				case "helpers-other-file", "helpers-imported":
					// the offending message is in the generated file, the types its misused annotation
					// refers to (enum with custom values, flattened child, oneof variants…) are declared in
					// another file of the same proto package — generated in the same run, or only imported.
					// A rule that looks at "the declarations of this file" misses them.
					off, helpers := msgs[len(msgs)-1], msgs[:len(msgs)-1]
					if len(helpers) == 0 && len(enums) == 0 {
						continue // the rule involves no second declaration
					}
					other := &spec.File{Path: fmt.Sprintf("c12/m%02d/helpers.proto", i), Package: pkg, GoImport: "lab/gen/c12m", GoName: "c12m", Messages: helpers, Enums: enums}
					mainF.Imports = []string{other.Path}
					mainF.Messages = append(mainF.Messages, off)
					var gen []string
					if pl == "helpers-imported" {
						gen = []string{mainF.Path}
					}
					run(caseID, []*spec.File{other, mainF}, gen, offenders, m.Client, false)
				case "imported-used":
					// offending message lives in an imported file that is NOT generated in this run
					// but is used by a generated message
					other := &spec.File{Path: fmt.Sprintf("c12/m%02d/dep.proto", i), Package: pkg + "dep", GoImport: "lab/gen/c12dep", GoName: "c12dep"}
					dmsgs, denums, _ := m.Build(pkg + "dep")
					other.Messages, other.Enums = dmsgs, denums
					mainF.Imports = []string{other.Path}
					mainF.Messages = append(mainF.Messages, &spec.Message{Name: "User", Fields: []*spec.Field{spec.FM("uses", 1, "."+pkg+"dep.Offender")}})
					// documented rules concern definitions being generated; an imported, non-generated
					// file is generated by its own run, so refusal is not demanded here: only
					// "no crash" and the response shape are checked (mustRefuse=false for both).
					if c.Want(caseID) {
						req, err := spec.Request([]*spec.File{other, mainF}, []string{mainF.Path}, "")
						if err != nil {
							c.R.Harness(caseID + ": " + err.Error())
							continue
						}
						for _, p := range []string{"go-http", "go-client"} {
							res := c.TB.Run(p, req, plugin.RunOpt{})
							c.R.Eval(1)
							if res.Crash != "" {
								c.R.Violate(caseID+"/"+p, "crash", res.Crash, map[string]any{"protos": []string{other.Proto(), mainF.Proto()}, "stderr": res.Stderr})
							} else if res.HasError && len(res.Files) > 0 {
								c.R.Violate(caseID+"/"+p, "files-emitted-with-error", "", map[string]any{"protos": []string{other.Proto(), mainF.Proto()}, "error": res.Error})
							}
							c.R.Decided(caseID + "/" + p)
						}
					}
				}
			}
		}
	}
	// converse: the valid corpus is accepted by all five plugins
	feats := corpus.Features()
	plugin.Parallel(len(feats), 16, func(i int) {
		f := feats[i]
		for _, withSvc := range []bool{false, true} {
			if !c.Thorough() && !withSvc && (i+int(c.Seed))%2 == 0 {
				continue
			}
			fp := corpus.BuildFeaturePkg(f, i, "c12v", map[bool]string{true: "s", false: "n"}[withSvc], corpus.NewNames(c.Rng("names:"+f.ID)), withSvc, corpus.Contexts)
			req, err := spec.Request([]*spec.File{fp.File}, nil, "")
			if err != nil {
				c.R.Harness("valid corpus does not link: " + f.ID + ": " + err.Error())
				continue
			}
			if withSvc && (c.Thorough() || (i+int(c.Seed))%3 == 0) {
				// the same definition reaching the annotations through an umbrella file's public import
				g := fp.File.Clone()
				um := umbrellaFile("c12v/options.proto")
				g.Via = um.Path
				if vreq, err := spec.Request([]*spec.File{um, g}, []string{g.Path}, ""); err != nil {
					c.R.Harness("valid corpus (public import) does not link: " + f.ID + ": " + err.Error())
				} else {
					for _, p := range plugin.Sebuf {
						caseID := fmt.Sprintf("accept/%s/via-public-import/%s", f.ID, p)
						if !c.Want(caseID) {
							continue
						}
						res := c.TB.Run(p, vreq, plugin.RunOpt{})
						c.R.Eval(1)
						rp := map[string]any{"protos": []string{um.Proto(), g.Proto()}, "plugin": p, "error": res.Error, "stderr": res.Stderr}
						switch {
						case res.Crash != "":
							c.R.Violate(caseID, "crash", res.Crash, rp)
						case res.HasError:
							c.R.Violate(caseID, "refused-valid", res.Error, rp)
						default:
							c.R.Decided(caseID)
							c.R.Count("acceptances_observed", 1)
						}
					}
				}
			}
			for _, p := range plugin.Sebuf {
				caseID := fmt.Sprintf("accept/%s/svc=%v/%s", f.ID, withSvc, p)
				if !c.Want(caseID) {
					continue
				}
				res := c.TB.Run(p, req, plugin.RunOpt{})
				c.R.Eval(1)
				rp := map[string]any{"proto": fp.File.Proto(), "plugin": p, "error": res.Error, "stderr": res.Stderr}
				switch {
				case res.Crash != "":
					c.R.Violate(caseID, "crash", res.Crash, rp)
				case res.HasError:
					c.R.Violate(caseID, "refused-valid", res.Error, rp)
				default:
					c.R.Decided(caseID)
					c.R.Count("acceptances_observed", 1)
				}
			}
		}
	})
	// definitions that come close to a rule without breaking it (the rule is per message / per oneof / per field)
	for _, nm := range nearMisses() {
		req, err := spec.Request([]*spec.File{nm.f}, nil, "")
		if err != nil {
			c.R.Harness("near-miss definition does not link: " + nm.id + ": " + err.Error())
			continue
		}
		for _, p := range plugin.Sebuf {
			caseID := fmt.Sprintf("accept/near-miss/%s/%s", nm.id, p)
			if !c.Want(caseID) {
				continue
			}
			res := c.TB.Run(p, req, plugin.RunOpt{})
			c.R.Eval(1)
			rp := map[string]any{"proto": nm.f.Proto(), "plugin": p, "error": res.Error, "stderr": res.Stderr}
			switch {
			case res.Crash != "":
				c.R.Violate(caseID, "crash", res.Crash, rp)
			case res.HasError:
				c.R.Violate(caseID, "refused-valid", res.Error, rp)
			default:
				c.R.Decided(caseID)
				c.R.Count("acceptances_observed", 1)
			}
		}
	}
	// the structural corpus shared with C14/C15/C18 (many headers/types, header counts, shared request
	// messages, multi-file packages, enum layouts, two API versions in one run) as acceptance probes
	for _, rc := range l1Corpus(c, "c12l", 1000) {
		if strings.HasPrefix(rc.ID, "feat") || strings.HasPrefix(rc.ID, "routes/") {
			continue // covered above / below with their own ids
		}
		req, err := spec.Request(rc.Files, rc.Gen, "")
		if err != nil {
			c.R.Harness(rc.ID + ": " + err.Error())
			continue
		}
		var protos []string
		for _, f := range rc.Files {
			protos = append(protos, f.Proto())
		}
		for _, p := range plugin.Sebuf {
			caseID := fmt.Sprintf("accept/%s/%s", rc.ID, p)
			if !c.Want(caseID) {
				continue
			}
			res := c.TB.Run(p, req, plugin.RunOpt{})
			c.R.Eval(1)
			if res.Crash != "" {
				c.R.Violate(caseID, "crash", res.Crash, map[string]any{"protos": protos, "stderr": res.Stderr})
			} else if res.HasError {
				c.R.Violate(caseID, "refused-valid", res.Error, map[string]any{"protos": protos, "error": res.Error})
			} else {
				c.R.Decided(caseID)
				c.R.Count("acceptances_observed", 1)
			}
		}
	}
	// routing corpus as acceptance probes
	lit := 0
	for bi := range corpus.BaseVariants {
		for _, sub := range []string{"main", "noslash", "pathquery", "bodyquery", "bodymap", "shared"} {
			f, _ := corpus.RoutingFile(bi, sub, fmt.Sprintf("c12r.b%d%s", bi, sub), "lab/gen/c12r", "c12r", &lit, false)
			req, err := spec.Request([]*spec.File{f}, nil, "")
			if err != nil {
				c.R.Harness(err.Error())
				continue
			}
			for _, p := range plugin.Sebuf {
				caseID := fmt.Sprintf("accept/routes/base=%s/%s/%s", corpus.BaseVariants[bi].Label, sub, p)
				res := c.TB.Run(p, req, plugin.RunOpt{})
				c.R.Eval(1)
				if res.Crash != "" {
					c.R.Violate(caseID, "crash", res.Crash, map[string]any{"proto": f.Proto(), "stderr": res.Stderr})
				} else if res.HasError {
					c.R.Violate(caseID, "refused-valid", res.Error, map[string]any{"proto": f.Proto(), "error": res.Error})
				} else {
					c.R.Decided(caseID)
				}
			}
		}
	}
	c.R.Sample(map[string]any{"case": "misuse/nullable-non-optional/top/none", "construct": "message Offender { string bad_field = 1 [(sebuf.http.nullable) = true]; }", "expect": "go-http and go-client answer with CodeGeneratorResponse.error naming bad_field/Offender and no files"})
}


type nearMiss struct {
	id string
	f  *spec.File
}

// nearMisses: valid definitions in which something a rule forbids within ONE message / oneof / field happens
// across two of them.
func nearMisses() []nearMiss {
	var out []nearMiss
	mk := func(id string, build func(pkg string, f *spec.File)) {
		pkg := "c12.near." + strings.NewReplacer("-", "_", "/", "_").Replace(id)
		f := &spec.File{Path: strings.ReplaceAll(pkg, ".", "/") + ".proto", Package: pkg, GoImport: "lab/gen/c12near", GoName: "c12near"}
		build(pkg, f)
		root := f.Messages[len(f.Messages)-1].Name
		if f.Services == nil {
			f.Services = []*spec.Service{{Name: "NearService", Methods: []*spec.Method{{Name: "Call", In: "." + pkg + "." + root, Out: "." + pkg + "." + root, HTTP: &spec.HTTP{Path: "/near", Verb: 2}}}}}
		}
		out = append(out, nearMiss{id, f})
	}
	in := func(pkg, m string) string { return "." + pkg + "." + m }
	varMsgs := func(f *spec.File) {
		f.Messages = append(f.Messages, &spec.Message{Name: "VarA", Fields: []*spec.Field{spec.F("text", 1, spec.String)}}, &spec.Message{Name: "VarB", Fields: []*spec.Field{spec.F("num", 1, spec.Int32)}})
	}
	// a path variable that shares its segment with literal text is still a path variable: a GET/DELETE
	// request whose only field is bound through it has no unbound field
	for _, sh := range []struct{ id, path string }{{"suffix", "/reports/{report_id}.pdf"}, {"colon-verb", "/jobs/{report_id}:cancel"}, {"prefix", "/v{report_id}/files"}, {"two-in-one-segment", "/r/{report_id}-{rev}"}} {
		sh := sh
		for _, verb := range []int32{1, 4, 2} {
			verb := verb
			mk("path-variable-inside-a-segment/"+sh.id+"/"+spec.VerbName(verb), func(pkg string, f *spec.File) {
				req := &spec.Message{Name: "ReportReq", Fields: []*spec.Field{spec.F("report_id", 1, spec.String)}}
				if strings.Contains(sh.path, "{rev}") {
					req.Fields = append(req.Fields, spec.F("rev", 2, spec.Int32))
				}
				f.Messages = []*spec.Message{{Name: "ReportResp", Fields: []*spec.Field{spec.F("ok", 1, spec.Bool)}}, req}
				f.Services = []*spec.Service{{Name: "NearService", Methods: []*spec.Method{{Name: "Call", In: "." + pkg + ".ReportReq", Out: "." + pkg + ".ReportResp", HTTP: &spec.HTTP{Path: sh.path, Verb: verb}}}}}
			})
		}
	}
	mk("two-discriminated-oneofs/same-oneof_value-in-both", func(pkg string, f *spec.File) {
		varMsgs(f)
		f.Messages = append(f.Messages, &spec.Message{Name: "Notification",
			Oneofs: []*spec.Oneof{{Name: "primary", HasConfig: true, Discriminator: "primaryChannel"}, {Name: "fallback", HasConfig: true, Discriminator: "fallbackChannel"}},
			Fields: []*spec.Field{spec.F("id", 1, spec.String),
				spec.FM("email", 2, in(pkg, "VarA")).In(1).With(func(a *spec.Ann) { a.OneofValue = spec.S("email") }), spec.FM("sms", 3, in(pkg, "VarB")).In(1),
				spec.FM("fallback_email", 4, in(pkg, "VarA")).In(2).With(func(a *spec.Ann) { a.OneofValue = spec.S("email") }), spec.FM("fallback_sms", 5, in(pkg, "VarB")).In(2).With(func(a *spec.Ann) { a.OneofValue = spec.S("sms") })}})
	})
	mk("same-oneof_value-in-two-messages", func(pkg string, f *spec.File) {
		varMsgs(f)
		one := func(name string) *spec.Message {
			return &spec.Message{Name: name, Oneofs: []*spec.Oneof{{Name: "kind", HasConfig: true, Discriminator: "type"}},
				Fields: []*spec.Field{spec.F("id", 1, spec.String), spec.FM("a", 2, in(pkg, "VarA")).In(1).With(func(a *spec.Ann) { a.OneofValue = spec.S("alpha") }), spec.FM("b", 3, in(pkg, "VarB")).In(1)}}
		}
		f.Messages = append(f.Messages, one("First"), one("Second"), &spec.Message{Name: "Both", Fields: []*spec.Field{spec.FM("first", 1, in(pkg, "First")), spec.FM("second", 2, in(pkg, "Second"))}})
	})
	mk("discriminator-equals-field-of-another-message", func(pkg string, f *spec.File) {
		varMsgs(f)
		f.Messages = append(f.Messages, &spec.Message{Name: "Other", Fields: []*spec.Field{spec.F("type", 1, spec.String), spec.F("text", 2, spec.String)}},
			&spec.Message{Name: "Holder", Oneofs: []*spec.Oneof{{Name: "kind", HasConfig: true, Discriminator: "type", Flatten: true}},
				Fields: []*spec.Field{spec.F("id", 1, spec.String), spec.FM("a", 2, in(pkg, "VarA")).In(1), spec.FM("b", 3, in(pkg, "VarB")).In(1), spec.FM("other", 4, in(pkg, "Other"))}})
	})
	mk("flatten-prefix-makes-keys-of-a-sibling-message", func(pkg string, f *spec.File) {
		f.Messages = append(f.Messages, &spec.Message{Name: "Addr", Fields: []*spec.Field{spec.F("street", 1, spec.String)}},
			&spec.Message{Name: "Sibling", Fields: []*spec.Field{spec.F("ship_street", 1, spec.String)}},
			&spec.Message{Name: "Order", Fields: []*spec.Field{spec.F("id", 1, spec.String), spec.FM("shipping", 2, in(pkg, "Addr")).With(func(a *spec.Ann) { a.Flatten = spec.B(true); a.FlattenPrefix = spec.S("ship_") }), spec.FM("sibling", 3, in(pkg, "Sibling"))}})
	})
	mk("unwrap-in-two-messages-and-twice-used", func(pkg string, f *spec.File) {
		f.Messages = append(f.Messages, &spec.Message{Name: "ListA", Fields: []*spec.Field{spec.F("values", 1, spec.String).Rep().With(func(a *spec.Ann) { a.Unwrap = true })}},
			&spec.Message{Name: "ListB", Fields: []*spec.Field{spec.F("values", 1, spec.Int32).Rep().With(func(a *spec.Ann) { a.Unwrap = true })}},
			&spec.Message{Name: "Uses", Fields: []*spec.Field{spec.FM("a", 1, in(pkg, "ListA")).MapOf(spec.String), spec.FM("a2", 2, in(pkg, "ListA")).MapOf(spec.String), spec.FM("b", 3, in(pkg, "ListB")).MapOf(spec.String)}})
	})
	return out
}
