package checks

import (
	"fmt"
	"os"
	"path/filepath"
	"strings"

	"google.golang.org/protobuf/proto"
	"google.golang.org/protobuf/reflect/protoreflect"
	"google.golang.org/protobuf/types/dynamicpb"

	"verif/internal/corpus"
	"verif/internal/lab"
	"verif/internal/model/jsonmap"
	"verif/internal/plugin"
	"verif/internal/spec"
	"verif/internal/values"
)

// c08placement: the TS client against the Go server over the placement catalogue — one field of every
// kind and cardinality (singular, optional, repeated; 64-bit with NUMBER encoding; enum; every query-name
// spelling) in the path or the query string of bodiless verbs. The routing catalogue cannot carry the
// optional / repeated / enum query fields because the Go *client* does not compile for them (recorded
// under C13); here the Go package is written by go-http alone, so the TS client is the only caller.
func c08placement(c *Ctx, node *lab.Child) {
	if node == nil {
		return
	}
	l, err := lab.New(c.TB, "c08p")
	if err != nil {
		c.R.Harness(err.Error())
		return
	}
	type unit struct {
		f        *spec.File
		cases    []*corpus.PlaceCase
		reg      interface{ FindDescriptorByName(protoreflect.FullName) (protoreflect.Descriptor, error) }
		dir      string
		tsClient string
		refused  string
	}
	var units []*unit
	tsDir := filepath.Join(l.Dir, "ts")
	for _, g := range corpus.PlacementGroups() {
		pkg := "c08.p" + g.Label
		goName := "c08p" + g.Label
		f, cases := corpus.PlacementFileG(pkg, goName, g)
		req, err := spec.Request([]*spec.File{f}, nil, "")
		if err != nil {
			c.R.Harness(err.Error())
			return
		}
		reg, _ := spec.Files(req)
		ad, err := l.Add(req, lab.PkgOpt{Plugins: []string{"go-http"}, Tag: pkg})
		if err != nil {
			c.R.Harness(err.Error())
			return
		}
		u := &unit{f: f, cases: cases, reg: reg, dir: "gen/" + goName, refused: ad.Refused}
		res := lab.RunDecoy(c.TB, "ts-client", req, plugin.RunOpt{})
		c.R.Eval(1)
		if res.OK() {
			for name, content := range res.Files {
				dst := filepath.Join(tsDir, goName, filepath.Base(name))
				_ = os.MkdirAll(filepath.Dir(dst), 0o755)
				_ = os.WriteFile(dst, []byte(content), 0o644)
				u.tsClient = dst
			}
		}
		units = append(units, u)
	}
	if un := l.CompileAll(false); un != "" {
		c.R.Harness("unattributed build output: " + firstLines(un, 10))
		return
	}
	bin, err := l.BuildBinary(false)
	if err != nil {
		c.R.Harness(err.Error())
		return
	}
	ch, err := lab.Start(bin, "")
	if err != nil {
		c.R.Harness(err.Error())
		return
	}
	defer ch.Quit()
	enc := &jsonmap.Encoder{}
	for _, u := range units {
		if u.refused != "" || len(l.Failed[u.dir]) > 0 || u.tsClient == "" {
			continue // build problems are C13's subject; the Go server half is judged in C02
		}
		gs, err := serveGo(ch, []string{u.cases[0].Svc}, "none", false)
		if err != nil {
			c.R.Harness("cannot serve: " + err.Error())
			continue
		}
		protoText := u.f.Proto()
		for _, pc := range u.cases {
			if pc.Verb != "GET" && pc.Verb != "DELETE" {
				continue // body verbs with URL-bound fields: generators disagree on their placement (recorded under C03)
			}
			d, _ := u.reg.FindDescriptorByName(protoreflect.FullName(pc.In))
			md := d.(protoreflect.MessageDescriptor)
			fd := md.Fields().ByName(protoreflect.Name(pc.Field))
			od, _ := u.reg.FindDescriptorByName(protoreflect.FullName(pc.Out))
			resp := dynamicpb.NewMessage(od.(protoreflect.MessageDescriptor))
			var vals []values.Labeled
			for _, lv := range values.Scalars(fd, values.Opt{URLSafe: true, NoLong: true, NoNaN: true, NoControl: true}) {
				zeroLike := lv.Class == "zero" || lv.Class == "false" || lv.Class == "enum-zero" || lv.Class == "empty"
				if lv.Class == "dot-segments" || (pc.Where == "path" && zeroLike) {
					continue
				}
				if fd.HasPresence() && zeroLike {
					continue // clients leave default values out of the URL: explicit presence of a default cannot travel there (not asserted)
				}
				if strings.Contains(pc.Kind, "+number") && (lv.Class == "max" || lv.Class == "min" || lv.Class == "gt2p53" || lv.Class == "lt-2p53" || lv.Class == "gt-int64") {
					continue // int64_encoding=NUMBER documents the loss of precision beyond 2^53 in JavaScript
				}
				vals = append(vals, lv)
			}
			if !c.Thorough() && len(vals) > 3 {
				k := 1 + int(c.Seed)%(len(vals)-2)
				vals = []values.Labeled{vals[0], vals[k], vals[len(vals)-1]}
			}
			for _, lv := range vals {
				m := dynamicpb.NewMessage(md)
				switch {
				case fd.IsList():
					m.Mutable(fd).List().Append(lv.V)
					m.Mutable(fd).List().Append(lv.V)
				default:
					m.Set(fd, lv.V)
				}
				// every other path-bound field of the message needs a value too
				for i := 0; i < md.Fields().Len(); i++ {
					o := md.Fields().Get(i)
					if o != fd && strings.Contains(pc.Template, "{"+string(o.Name())+"}") && o.Kind() == protoreflect.StringKind {
						m.Set(o, protoreflect.ValueOfString("pv"))
					}
				}
				caseID := fmt.Sprintf("interop/ts-client->go-server/%s@%s", pc.ID, lv.Class)
				if !c.Want(caseID) {
					continue
				}
				tree, err := enc.Message(m)
				if err != nil {
					continue
				}
				reqObj := jsonmap.Resolve(tree)
				gs.Script(pc.Svc+"."+pc.Method, map[string]any{"resp": b64(wire(resp))})
				svcSimple := pc.Svc[strings.LastIndex(pc.Svc, ".")+1:]
				ret, err := callTS(node, u.tsClient, svcSimple+"Client", gs.URL, lowerFirst(pc.Method), reqObj, nil)
				c.R.Eval(1)
				evs, _ := syncEvents(ch)
				rp := map[string]any{"proto": protoText, "rpc": pc.Svc + "." + pc.Method, "request_object": reqObj, "client_return": ret}
				if err != nil {
					c.R.Violate(caseID, "ts-client-unusable", firstLines(err.Error(), 1), rp)
					continue
				}
				var hs []lab.Event
				for _, e := range evs {
					if e.Str("ev") == "handler" {
						hs = append(hs, e)
					}
					if e.Str("ev") == "wire" {
						rp["wire"] = map[string]any{"method": e["method"], "uri": e["uri"], "status": e["status"]}
					}
				}
				if len(hs) != 1 || hs[0].Str("rpc") != pc.Svc+"."+pc.Method {
					c.R.Violate(caseID, "handler-not-reached", fmt.Sprintf("entries=%d", len(hs)), rp)
					c.R.Decided(caseID)
					continue
				}
				got := dynamicpb.NewMessage(md)
				_ = proto.Unmarshal(unb64(hs[0].Str("req")), got)
				if !proto.Equal(got, m) {
					rp["handler_saw"] = fmt.Sprint(got)
					c.R.Violate(caseID, "request-changed", diffFields(m, got), rp)
				}
				c.R.Decided(caseID)
				c.R.Count("ts_client_placement_calls", 1)
			}
		}
		gs.Stop()
	}
}
