package checks

import (
	"fmt"
	"regexp"
	"sort"
	"strings"
	"time"

	"google.golang.org/protobuf/proto"
	"google.golang.org/protobuf/reflect/protoreflect"
	"google.golang.org/protobuf/types/dynamicpb"

	"verif/internal/corpus"
	"verif/internal/lab"
	"verif/internal/model/jsonmap"
	"verif/internal/oas"
	"verif/internal/spec"
)

func init() { Registry["C08"] = c08 }

// treeLoose compares two JSON trees modulo proto3 defaults (absent == default) and JS typing
// of scalars ("5" == 5); used on the TS side where strict typing is C07's question.
func treeLoose(want, got any) bool {
	switch w := want.(type) {
	case map[string]any:
		g, ok := got.(map[string]any)
		if !ok {
			return got == nil && len(w) == 0
		}
		for k, wv := range w {
			gv, present := g[k]
			if !present {
				if !defaultLike(wv) {
					return false
				}
				continue
			}
			if !treeLoose(wv, gv) {
				return false
			}
		}
		for k, gv := range g {
			if _, ok := w[k]; !ok && !defaultLike(gv) {
				return false
			}
		}
		return true
	case []any:
		g, ok := got.([]any)
		if !ok {
			return len(w) == 0 && defaultLike(got)
		}
		if len(w) != len(g) {
			return false
		}
		for i := range w {
			if !treeLoose(w[i], g[i]) {
				return false
			}
		}
		return true
	case nil:
		return defaultLike(got)
	}
	if got == nil {
		return defaultLike(want)
	}
	return looseEqual(want, got)
}

var (
	reCtorHelper = regexp.MustCompile(`options\?\.(\w+)\)\s*\{?\s*this\.defaultHeaders\["([^"]+)"\]`)
	reCallHelper = regexp.MustCompile(`options\?\.(\w+)\)\s*headers\["([^"]+)"\]`)
)

// c08: generated TypeScript clients and servers interoperate with the Go ones.
func c08(c *Ctx) {
	c.R.Rule = "abstract case = (RPC of the routing catalogue with explicit paths incl. path+query combinations and body verbs with query fields, two services per run) x language pair {TS client -> Go server, Go client -> TS server, TS client -> TS server} x value class (sentinels, non-ASCII, URL-reserved characters in path/query) + module load + header helper options {Go client-level/per-call helper, TS client-level/per-call typed option} x header-name shape; " +
		"non-trivial = the call was executed across the language boundary (node bridge <-> lab child over loopback HTTP), the handler log showed which RPC was entered with which request, and the caller's return value was compared with the handler's response"
	c.R.Assume("Node 22 (type stripping, global fetch/Request/Response) is the standards-compliant runtime; TS-side request equality is modulo proto3 defaults and scalar JS typing (strict typing is C07)")
	node, err := lab.StartNode()
	if err != nil {
		c.R.Inconclusive("interop/all", "node-unavailable:"+err.Error())
		c.R.Harness("node 22 not available: TS interop cannot be observed")
		return
	}
	defer node.Quit()
	l, err := lab.New(c.TB, "c08")
	if err != nil {
		c.R.Harness(err.Error())
		return
	}
	bases := []int{0, 1, 2, 3, 4} // every base_path class in both tiers (quick thins values, not bases)
	var units []*routeUnit
	lit := 0
	// reuse C03's unit builder but keep explicit-path sub-catalogues
	us, err := buildRouteUnits(c, l, "c08", bases, c.Thorough())
	if err != nil {
		c.R.Harness(err.Error())
		return
	}
	_ = lit
	units = us
	type hunit struct {
		u    *routeUnit
		decl []c08hdr
		mode string
	}
	var hus []hunit
	for _, mode := range []string{"required", "optional", "mixed"} {
		hu, hdecl := c08headerUnit(c, l, mode)
		hus = append(hus, hunit{hu, hdecl, mode})
	}
	if un := l.CompileAll(false); un != "" {
		c.R.Harness("unattributed build output: " + firstLines(un, 10))
		return
	}
	bin, err := l.BuildBinary(false)
	if err != nil {
		c.R.Harness(err.Error())
		return
	}
	ch, err := lab.Start(bin, "")
	if err != nil {
		c.R.Harness(err.Error())
		return
	}
	defer ch.Quit()
	enc := &jsonmap.Encoder{}
	for _, u := range units {
		u.Diags = l.Failed[u.Dir]
		c08unit(c, u, ch, node, enc)
	}
	for _, h := range hus {
		if h.u != nil {
			h.u.Diags = l.Failed[h.u.Dir]
			c08headers(c, h.u, h.decl, h.mode, ch, node)
		}
	}
	// the TS client over the placement catalogue (every kind and cardinality in path and query)
	c08placement(c, node)
}

func c08values(md protoreflect.MessageDescriptor, rc *corpus.RouteCase) []struct {
	Class string
	M     *dynamicpb.Message
} {
	type lv = struct {
		Class string
		M     *dynamicpb.Message
	}
	out := []lv{{"sentinel", sentinelReq(md)}}
	strs := []struct{ c, v string }{{"nonascii", "héllo wörld 日本"}, {"url-reserved", "a/b?c#d&e=f+g h;i%"}, {"astral", "a😀b"},
		// text that a client building the URL with a replace function or a template engine could mangle
		{"replace-patterns", "a$&b$'c$`d$$e$1${x}"}, {"template-braces", "{id}{user_id}{}x"}, {"dot-like", "..a.."}, {"pct-looking", "x%2Fy%20z"}}
	for _, s := range strs {
		m := sentinelReq(md)
		fds := md.Fields()
		for i := 0; i < fds.Len(); i++ {
			if fds.Get(i).Kind() == protoreflect.StringKind {
				m.Set(fds.Get(i), protoreflect.ValueOfString(s.v+fmt.Sprint(i)))
			}
		}
		out = append(out, lv{s.c, m})
	}
	// string-keyed maps in the body: keys spelled like field names of the definition (both spellings) are data
	hasMap := false
	for i := 0; i < md.Fields().Len(); i++ {
		hasMap = hasMap || md.Fields().Get(i).IsMap()
	}
	if hasMap {
		for _, mc := range []struct {
			c    string
			keys []string
		}{{"map-keys-like-field-names", []string{"display_name", "displayName", "extra_attrs", "full_name", "note", "rank_no", "by_name"}}, {"map-plain-keys", []string{"k1", "key two", "ключ", ""}}} {
			m := sentinelReq(md)
			fds := md.Fields()
			for i := 0; i < fds.Len(); i++ {
				fd := fds.Get(i)
				switch {
				case fd.IsMap() && fd.MapValue().Kind() == protoreflect.StringKind:
					for j, k := range mc.keys {
						m.Mutable(fd).Map().Set(protoreflect.ValueOfString(k).MapKey(), protoreflect.ValueOfString(fmt.Sprintf("v%d-%s", j, k)))
					}
				case fd.IsMap() && fd.MapValue().Message() != nil:
					for j, k := range mc.keys {
						v := m.Mutable(fd).Map().NewValue()
						vm := v.Message()
						vfs := vm.Descriptor().Fields()
						for x := 0; x < vfs.Len(); x++ {
							vf := vfs.Get(x)
							switch {
							case vf.IsMap() && vf.MapValue().Kind() == protoreflect.StringKind:
								vm.Mutable(vf).Map().Set(protoreflect.ValueOfString(mc.keys[(j+1)%len(mc.keys)]).MapKey(), protoreflect.ValueOfString("inner-"+k))
							case vf.Kind() == protoreflect.StringKind && !vf.IsList():
								vm.Set(vf, protoreflect.ValueOfString("leaf-"+k))
							case vf.Kind() == protoreflect.Int32Kind && !vf.IsList():
								vm.Set(vf, protoreflect.ValueOfInt32(int32(j+1)))
							}
						}
						m.Mutable(fd).Map().Set(protoreflect.ValueOfString(k).MapKey(), v)
					}
				case fd.Message() != nil && !fd.IsList():
					vm := m.Mutable(fd).Message()
					vfs := vm.Descriptor().Fields()
					for x := 0; x < vfs.Len(); x++ {
						vf := vfs.Get(x)
						if vf.IsMap() && vf.MapValue().Kind() == protoreflect.StringKind {
							for j, k := range mc.keys {
								vm.Mutable(vf).Map().Set(protoreflect.ValueOfString(k).MapKey(), protoreflect.ValueOfString(fmt.Sprintf("n%d", j)))
							}
						} else if vf.Kind() == protoreflect.StringKind {
							vm.Set(vf, protoreflect.ValueOfString("main"))
						}
					}
				}
			}
			out = append(out, lv{mc.c, m})
		}
	}
	// last on every route, after the calls above have carried values in every field: a request that
	// leaves everything but the path variables at its default (clients omit defaults from query and body,
	// so whatever a server keeps from an earlier request of the route would show here), twice
	pathVar := map[string]bool{}
	for _, v := range rc.PathVars {
		pathVar[v] = true
	}
	for _, cl := range []string{"defaults-after-values", "defaults-again"} {
		m := dynamicpb.NewMessage(md)
		full := sentinelReq(md)
		fds := md.Fields()
		for i := 0; i < fds.Len(); i++ {
			if pathVar[string(fds.Get(i).Name())] {
				m.Set(fds.Get(i), full.Get(fds.Get(i)))
			}
		}
		out = append(out, lv{cl, m})
	}
	return out
}

func c08unit(c *Ctx, u *routeUnit, ch, node *lab.Child, enc *jsonmap.Encoder) {
	if len(u.Cases) == 0 {
		return
	}
	svcFull := u.Cases[0].Svc
	svcSimple := svcFull[strings.LastIndex(svcFull, ".")+1:]
	protoText := u.File.Proto()
	// (a) modules load
	for kind, file := range map[string]string{"ts-client": u.TSClient, "ts-server": u.TSServer} {
		caseID := fmt.Sprintf("interop/load/base=%s/cfg=%s/%s", u.Cases[0].Base, subOf(u), kind)
		if file == "" {
			continue
		}
		id := newID("l")
		_, ev, err := node.Do(map[string]any{"op": "load", "id": id, "file": file}, 30*time.Second, "loaded", "load_error")
		c.R.Eval(1)
		if err != nil {
			c.R.Inconclusive(caseID, "bridge")
			continue
		}
		if ev.Str("ev") != "loaded" {
			msg := ev.Str("err") + ev.Str("value")
			c.R.Violate(caseID, "ts-load", msg, map[string]any{"proto": protoText, "error": msg})
		}
		c.R.Decided(caseID)
	}
	if d := emittedDiag(u.Diags); d != nil {
		for _, rc := range u.Cases {
			c.R.Violate("interop/go/"+rc.ID, "compile", d.Msg, map[string]any{"proto": protoText})
		}
		return
	}
	gs, err := serveGo(ch, []string{svcFull}, "none", false)
	if err != nil {
		c.R.Violate("interop/go-server/"+u.Cases[0].ID, "server-start", err.Error(), map[string]any{"proto": protoText})
		return
	}
	defer gs.Stop()
	var ts *srv
	if u.TSServer != "" {
		ts, err = serveTS(node, u.TSServer, "create"+svcSimple+"Routes", nil)
		if err != nil {
			ts = nil
		} else {
			defer ts.Stop()
		}
	}
	for _, rc := range u.Cases {
		if rc.CfgPath == "" {
			continue // default paths are C03's subject
		}
		d, _ := u.Reg.FindDescriptorByName(protoreflect.FullName(rc.In))
		md := d.(protoreflect.MessageDescriptor)
		od, _ := u.Reg.FindDescriptorByName(protoreflect.FullName(rc.Out))
		omd := od.(protoreflect.MessageDescriptor)
		resp := dynamicpb.NewMessage(omd)
		resp.Set(omd.Fields().ByName("echo"), protoreflect.ValueOfString("réponse ✓"))
		resp.Set(omd.Fields().ByName("num_val"), protoreflect.ValueOfInt64(1<<53+1))
		respTree, _ := enc.Message(resp)
		for _, lv := range c08values(md, rc) {
			reqTree, _ := enc.Message(lv.M)
			reqObj := jsonmap.Resolve(reqTree)
			rp := func(extra map[string]any) map[string]any {
				m := map[string]any{"proto": protoText, "rpc": rc.Svc + "." + rc.Method, "request": fmt.Sprint(lv.M), "request_object": reqObj}
				for k, v := range extra {
					m[k] = v
				}
				return m
			}
			// ---- TS client -> Go server ----
			if u.TSClient != "" {
				caseID := "interop/ts-client->go-server/" + rc.ID + "@" + lv.Class
				if c.Want(caseID) {
					gs.Script(rc.Svc+"."+rc.Method, map[string]any{"resp": b64(wire(resp))})
					ret, err := callTS(node, u.TSClient, svcSimple+"Client", gs.URL, lowerFirst(rc.Method), reqObj, nil)
					c.R.Eval(1)
					evs, _ := syncEvents(ch)
					if err != nil {
						c.R.Violate(caseID, "ts-client-unusable", err.Error(), rp(nil))
					} else {
						var hs []lab.Event
						var wireBody string
						for _, e := range evs {
							if e.Str("ev") == "handler" {
								hs = append(hs, e)
							}
							if e.Str("ev") == "wire" {
								wireBody = string(unb64(e.Str("resp_body")))
							}
						}
						switch {
						case len(hs) != 1 || hs[0].Str("rpc") != rc.Svc+"."+rc.Method:
							c.R.Violate(caseID, "handler-not-reached", fmt.Sprintf("entries=%d", len(hs)), rp(map[string]any{"client_return": ret}))
						default:
							got := dynamicpb.NewMessage(md)
							_ = proto.Unmarshal(unb64(hs[0].Str("req")), got)
							if !proto.Equal(got, lv.M) {
								c.R.Violate(caseID, "request-changed", diffFields(lv.M, got), rp(map[string]any{"handler_saw": fmt.Sprint(got)}))
							}
							if ret["err"] != nil {
								c.R.Violate(caseID, "client-error", "", rp(map[string]any{"client_error": ret["err"]}))
							} else if wt, perr := jsonmap.Parse([]byte(wireBody)); perr == nil {
								gt, _ := jsonmap.Parse([]byte(ret.Str("resp_json")))
								if len(jsonmap.Diff(wt, gt)) > 0 {
									c.R.Violate(caseID, "response-changed", "", rp(map[string]any{"wire": wireBody, "client_got": ret.Str("resp_json")}))
								}
							}
						}
						c.R.Decided(caseID)
					}
				}
			}
			if ts == nil {
				if u.TSServer != "" {
					c.R.Violate("interop/go-client->ts-server/"+rc.ID, "ts-server-unusable", "module does not load / factory failed", rp(nil))
				}
				continue
			}
			// ---- Go client -> TS server ----
			caseID := "interop/go-client->ts-server/" + rc.ID + "@" + lv.Class
			if c.Want(caseID) {
				ts.Script(lowerFirst(rc.Method), map[string]any{"resp": jsonmap.Resolve(respTree)})
				out, err := callGo(ch, rc.Svc, ts.URL, rc.Method, rc.In, wire(lv.M), map[string]any{"ct": "application/json"})
				c.R.Eval(1)
				tevs, _ := syncEvents(node)
				if err != nil {
					c.R.Inconclusive(caseID, "call:"+err.Error())
				} else {
					var hs []lab.Event
					for _, e := range tevs {
						if e.Str("ev") == "handler" {
							hs = append(hs, e)
						}
					}
					switch {
					case len(hs) != 1 || hs[0].Str("rpc") != lowerFirst(rc.Method):
						c.R.Violate(caseID, "handler-not-reached", fmt.Sprintf("entries=%d", len(hs)), rp(map[string]any{"client_return": out.Ret}))
					default:
						if !treeLoose(reqObj, hs[0]["req"]) {
							c.R.Violate(caseID, "request-changed", "", rp(map[string]any{"handler_saw": hs[0]["req"]}))
						}
						if out.Ret["err"] != nil {
							c.R.Violate(caseID, "client-error", "", rp(map[string]any{"client_error": out.Ret["err"]}))
						} else {
							back := dynamicpb.NewMessage(omd)
							_ = proto.Unmarshal(unb64(out.Ret.Str("resp")), back)
							if !proto.Equal(back, resp) {
								c.R.Violate(caseID, "response-changed", diffFields(resp, back), rp(map[string]any{"client_got": fmt.Sprint(back)}))
							}
						}
					}
					c.R.Decided(caseID)
				}
			}
			// ---- TS client -> TS server ----
			if u.TSClient != "" {
				caseID := "interop/ts-client->ts-server/" + rc.ID + "@" + lv.Class
				if c.Want(caseID) {
					ts.Script(lowerFirst(rc.Method), map[string]any{"resp": jsonmap.Resolve(respTree)})
					ret, tevs, err := callTSEv(node, u.TSClient, svcSimple+"Client", ts.URL, lowerFirst(rc.Method), reqObj, nil)
					c.R.Eval(1)
					if err != nil {
						c.R.Violate(caseID, "ts-client-unusable", err.Error(), rp(nil))
						continue
					}
					var hs []lab.Event
					for _, e := range tevs {
						if e.Str("ev") == "handler" {
							hs = append(hs, e)
						}
					}
					if len(hs) != 1 || hs[0].Str("rpc") != lowerFirst(rc.Method) {
						c.R.Violate(caseID, "handler-not-reached", fmt.Sprintf("entries=%d", len(hs)), rp(map[string]any{"client_return": ret}))
					} else if !treeLoose(reqObj, hs[0]["req"]) {
						c.R.Violate(caseID, "request-changed", "", rp(map[string]any{"handler_saw": hs[0]["req"]}))
					}
					if ret["err"] != nil {
						c.R.Violate(caseID, "client-error", "", rp(map[string]any{"client_error": ret["err"]}))
					} else if !treeLoose(jsonmap.Resolve(respTree), ret["resp"]) {
						c.R.Violate(caseID, "response-changed", "", rp(map[string]any{"client_got": ret["resp"]}))
					}
					c.R.Decided(caseID)
				}
			}
		}
	}
}

func subOf(u *routeUnit) string {
	p := u.File.Package
	for _, s := range []string{"main", "noslash", "pathquery", "bodyquery", "bodymap", "shared"} {
		if strings.HasSuffix(p, s) {
			return s
		}
	}
	return "x"
}

type c08hdr struct {
	Name     string
	Level    string // service | method
	Required bool
	Format   string // "" | "uuid"
}

// c08hdrValue: the value a test sends for a declared header; a uuid-format header set through a typed
// helper carries UPPER- and mixed-case hex digits (RFC 4122 readers accept them; both servers must agree)
func c08hdrValue(h c08hdr, viaHelper bool) string {
	if h.Format == "uuid" {
		if viaHelper {
			return "123E4567-E89B-12D3-A456-426614174ABc"
		}
		return "123e4567-e89b-12d3-a456-426614174000"
	}
	if viaHelper {
		return "helper-value"
	}
	return "v-" + strings.ToLower(h.Name)
}

// c08headerUnit declares the same five headers with different requiredness: "required" (all),
// "optional" (none: a file whose servers have nothing to enforce), "mixed" (optional first).
func c08headerUnit(c *Ctx, l *lab.Lab, mode string) (*routeUnit, []c08hdr) {
	sfx := map[string]string{"required": "", "optional": "o", "mixed": "m"}[mode]
	pkg := "c08.hdr" + sfx
	f := &spec.File{Path: "c08/hdr" + sfx + ".proto", Package: pkg, GoImport: "lab/gen/c08hdr" + sfx, GoName: "c08hdr" + sfx}
	f.Messages = []*spec.Message{{Name: "HReq", Fields: []*spec.Field{spec.F("id", 1, spec.String)}}, {Name: "HResp", Fields: []*spec.Field{spec.F("echo", 1, spec.String), spec.F("num_val", 2, spec.Int64)}}}
	decl := []c08hdr{{"X-API-Key", "service", true, ""}, {"Authorization", "service", true, ""}, {"X-Request-ID", "method", true, "uuid"}, {"x-lower", "method", true, ""}, {"X-Multi-Word-Name", "method", true, ""}, {"X-Trace-ID", "service", true, "uuid"}}
	for i := range decl {
		switch mode {
		case "optional":
			decl[i].Required = false
		case "mixed":
			decl[i].Required = i%2 == 1
		}
	}
	svc := &spec.Service{Name: "HelperService", BasePath: spec.S("/hh")}
	m := &spec.Method{Name: "Ping", In: "." + pkg + ".HReq", Out: "." + pkg + ".HResp", HTTP: &spec.HTTP{Path: "/ping", Verb: 2}}
	for _, d := range decl {
		h := spec.Header{Name: d.Name, Type: "string", Required: d.Required, Format: d.Format}
		if d.Level == "service" {
			svc.Headers = append(svc.Headers, h)
		} else {
			m.Headers = append(m.Headers, h)
		}
	}
	svc.Methods = []*spec.Method{m}
	f.Services = []*spec.Service{svc}
	us, err := buildUnitFromFile(c, l, f)
	if err != nil {
		c.R.Harness(err.Error())
		return nil, nil
	}
	return us, decl
}

// c08headers: a header set only through a typed helper option arrives under exactly the name
// the servers validate (all other required headers are supplied as plain headers).
func c08headers(c *Ctx, u *routeUnit, decl []c08hdr, mode string, ch, node *lab.Child) {
	protoText := u.File.Proto()
	msfx := ""
	if mode != "required" {
		msfx = "/decl=" + mode
	}
	pkg := u.File.Package
	if d := emittedDiag(u.Diags); d != nil {
		c.R.Violate("interop/helpers/all"+msfx, "compile", d.Msg, map[string]any{"proto": protoText})
		return
	}
	svcFull := pkg + ".HelperService"
	gs, err := serveGo(ch, []string{svcFull}, "none", false)
	if err != nil {
		c.R.Harness("cannot serve helper service: " + err.Error())
		return
	}
	defer gs.Stop()
	ts, _ := serveTS(node, u.TSServer, "createHelperServiceRoutes", nil)
	if ts != nil {
		defer ts.Stop()
	}
	src := ""
	if b, err := readFile(u.TSClient); err == nil {
		src = b
	}
	ctor := map[string]string{}
	for _, m := range reCtorHelper.FindAllStringSubmatch(src, -1) {
		ctor[m[2]] = m[1]
	}
	call := map[string]string{}
	for _, m := range reCallHelper.FindAllStringSubmatch(src, -1) {
		call[m[2]] = m[1]
	}
	d, _ := u.Reg.FindDescriptorByName(protoreflect.FullName(pkg + ".HReq"))
	md := d.(protoreflect.MessageDescriptor)
	req := dynamicpb.NewMessage(md)
	req.Set(md.Fields().ByName("id"), protoreflect.ValueOfString("x"))
	for _, target := range []struct {
		Name string
		S    *srv
		Ch   *lab.Child
	}{{"go-server", gs, ch}, {"ts-server", ts, node}} {
		if target.S == nil {
			continue
		}
		for _, h := range decl {
			others := func() []map[string]string {
				var kv []map[string]string
				for _, o := range decl {
					if o.Name != h.Name && o.Required {
						kv = append(kv, map[string]string{"K": o.Name, "V": c08hdrValue(o, false)})
					}
				}
				return kv
			}
			othersObj := func() map[string]string {
				m := map[string]string{}
				for _, o := range decl {
					if o.Name != h.Name && o.Required {
						m[o.Name] = c08hdrValue(o, false)
					}
				}
				return m
			}
			shape := strings.ToLower(h.Name) + msfx
			type variant struct {
				Label string
				Go    map[string]any
				TS    map[string]any
			}
			var vs []variant
			val := c08hdrValue(h, true)
			vs = append(vs, variant{Label: "go-client/per-call-helper", Go: map[string]any{"defhdr": others(), "helpers": []map[string]string{{"K": h.Name, "V": val}}}})
			if h.Level == "service" {
				vs = append(vs, variant{Label: "go-client/client-helper", Go: map[string]any{"defhdr": others(), "chelpers": []map[string]string{{"K": h.Name, "V": val}}}})
			}
			if opt, ok := call[h.Name]; ok {
				vs = append(vs, variant{Label: "ts-client/per-call-option", TS: map[string]any{"copts": map[string]any{"defaultHeaders": othersObj()}, "opts": map[string]any{opt: val}}})
			} else {
				c.R.Violate("interop/helpers/"+target.Name+"/ts-client/per-call-option/header="+shape, "no-typed-option-for-declared-header", "", map[string]any{"proto": protoText, "header": h.Name, "call_options_found": call})
			}
			if h.Level == "service" {
				if opt, ok := ctor[h.Name]; ok {
					vs = append(vs, variant{Label: "ts-client/client-option", TS: map[string]any{"copts": map[string]any{"defaultHeaders": othersObj(), opt: val}}})
				} else {
					c.R.Violate("interop/helpers/"+target.Name+"/ts-client/client-option/header="+shape, "no-typed-option-for-declared-header", "", map[string]any{"proto": protoText, "header": h.Name, "client_options_found": ctor})
				}
			}
			for _, v := range vs {
				caseID := fmt.Sprintf("interop/helpers/%s/%s/header=%s", target.Name, v.Label, shape)
				if !c.Want(caseID) {
					continue
				}
				var retErr any
				var pre []lab.Event
				if v.Go != nil {
					opts := map[string]any{"ct": "application/json"}
					for k, x := range v.Go {
						opts[k] = x
					}
					out, err := callGo(ch, svcFull, target.S.URL, "Ping", pkg+".HReq", wire(req), opts)
					c.R.Eval(1)
					if err != nil {
						c.R.Inconclusive(caseID, "call")
						continue
					}
					retErr = out.Ret["err"]
					if target.Name == "go-server" {
						// events were consumed by callGo
						entered := len(out.byKind("handler"))
						sent := map[string]bool{}
						for _, e := range out.byKind("wire") {
							for k := range oas.M(e["headers"]) {
								sent[k] = true
							}
						}
						c08helperVerdict(c, caseID, h.Name, val, entered, sent, retErr, protoText)
						continue
					}
				} else {
					ret, sameProc, err := callTSEv(node, u.TSClient, "HelperServiceClient", target.S.URL, "ping", map[string]any{"id": "x"}, v.TS)
					c.R.Eval(1)
					if err != nil {
						c.R.Violate(caseID, "ts-client-unusable", err.Error(), map[string]any{"proto": protoText})
						continue
					}
					retErr = ret["err"]
					if target.Name == "ts-server" {
						pre = sameProc
					}
				}
				evs, _ := syncEvents(target.Ch)
				evs = append(pre, evs...)
				entered := 0
				sent := map[string]bool{}
				for _, e := range evs {
					if e.Str("ev") == "handler" {
						entered++
					}
					if e.Str("ev") == "wire" {
						for k := range oas.M(e["headers"]) {
							sent[k] = true
						}
					}
				}
				c08helperVerdict(c, caseID, h.Name, val, entered, sent, retErr, protoText)
			}
		}
		if mode == "optional" {
			c08sequence(c, u, decl, msfx, target.Name, target.S, target.Ch, ch, node, call)
		}
	}
}

// c08sequence: two calls on ONE client object. The first passes per-call headers (a typed helper
// and a generic one), the second passes none: the second request must not carry them, and the
// client-level default header must still have its constructor value.
func c08sequence(c *Ctx, u *routeUnit, decl []c08hdr, msfx string, targetName string, target *srv, targetCh, ch, node *lab.Child, call map[string]string) {
	pkg := u.File.Package
	svcFull := pkg + ".HelperService"
	var methodHdr, svcHdr *c08hdr
	for i := range decl {
		if decl[i].Level == "method" && methodHdr == nil {
			methodHdr = &decl[i]
		}
		if decl[i].Level == "service" && svcHdr == nil {
			svcHdr = &decl[i]
		}
	}
	if methodHdr == nil || svcHdr == nil {
		return
	}
	d, _ := u.Reg.FindDescriptorByName(protoreflect.FullName(pkg + ".HReq"))
	md := d.(protoreflect.MessageDescriptor)
	req := dynamicpb.NewMessage(md)
	req.Set(md.Fields().ByName("id"), protoreflect.ValueOfString("x"))
	headersOf := func(evs []lab.Event) map[string]string {
		out := map[string]string{}
		for _, e := range evs {
			if e.Str("ev") == "wire" {
				for k, v := range oas.M(e["headers"]) {
					out[strings.ToLower(k)] = fmt.Sprint(v)
				}
			}
		}
		return out
	}
	for _, client := range []string{"go-client", "ts-client"} {
		caseID := fmt.Sprintf("interop/helpers/%s/%s/sequence%s", targetName, client, msfx)
		if !c.Want(caseID) {
			continue
		}
		key := newID("seq")
		var second map[string]string
		var firstErr, secondErr any
		if client == "go-client" {
			first, err := callGo(ch, svcFull, target.URL, "Ping", pkg+".HReq", wire(req), map[string]any{"ct": "application/json", "reuse": key,
				"chelpers": []map[string]string{{"K": svcHdr.Name, "V": "default-value"}},
				"helpers":  []map[string]string{{"K": methodHdr.Name, "V": "first-call-only"}, {"K": svcHdr.Name, "V": "first-call-override"}},
				"hdr":      []map[string]string{{"K": "X-Seq", "V": "first"}}})
			c.R.Eval(1)
			if err != nil {
				c.R.Inconclusive(caseID, "call")
				continue
			}
			firstErr = first.Ret["err"]
			if targetCh != ch {
				_, _ = syncEvents(targetCh)
			}
			out, err := callGo(ch, svcFull, target.URL, "Ping", pkg+".HReq", wire(req), map[string]any{"ct": "application/json", "reuse": key})
			c.R.Eval(1)
			if err != nil {
				c.R.Inconclusive(caseID, "call")
				continue
			}
			secondErr = out.Ret["err"]
			if targetCh == ch {
				second = headersOf(out.Events)
			} else {
				evs, _ := syncEvents(targetCh)
				second = headersOf(evs)
			}
		} else {
			opt, ok := call[methodHdr.Name]
			if !ok || node == nil {
				continue
			}
			copts := map[string]any{"defaultHeaders": map[string]string{svcHdr.Name: "default-value"}}
			first, pre, err := callTSEv(node, u.TSClient, "HelperServiceClient", target.URL, "ping", map[string]any{"id": "x"}, map[string]any{"reuse": key, "copts": copts, "opts": map[string]any{opt: "first-call-only", "headers": map[string]string{"X-Seq": "first"}}})
			c.R.Eval(1)
			if err != nil {
				c.R.Violate(caseID, "ts-client-unusable", err.Error(), map[string]any{"proto": u.File.Proto()})
				continue
			}
			firstErr = first["err"]
			_ = pre
			if targetCh != node {
				_, _ = syncEvents(targetCh)
			}
			ret, same, err := callTSEv(node, u.TSClient, "HelperServiceClient", target.URL, "ping", map[string]any{"id": "x"}, map[string]any{"reuse": key})
			c.R.Eval(1)
			if err != nil {
				c.R.Violate(caseID, "ts-client-unusable", err.Error(), map[string]any{"proto": u.File.Proto()})
				continue
			}
			secondErr = ret["err"]
			if targetCh == node {
				second = headersOf(same)
			} else {
				evs, _ := syncEvents(targetCh)
				second = headersOf(evs)
			}
		}
		rp := map[string]any{"proto": u.File.Proto(), "client": client, "server": targetName, "second_call_headers": second, "first_call_error": firstErr, "second_call_error": secondErr}
		switch {
		case len(second) == 0:
			c.R.Inconclusive(caseID, "second-call-not-observed")
			continue
		case second[strings.ToLower(methodHdr.Name)] != "" && strings.Contains(second[strings.ToLower(methodHdr.Name)], "first-call-only"):
			c.R.Violate(caseID, "per-call-header-sent-on-later-call", "typed helper", rp)
		case strings.Contains(second["x-seq"], "first"):
			c.R.Violate(caseID, "per-call-header-sent-on-later-call", "generic header", rp)
		case client == "go-client" && !strings.Contains(second[strings.ToLower(svcHdr.Name)], "default-value"):
			c.R.Violate(caseID, "client-default-header-changed-by-earlier-call", "", rp)
		}
		c.R.Decided(caseID)
	}
}

func c08helperVerdict(c *Ctx, caseID, header, val string, entered int, sent map[string]bool, retErr any, protoText string) {
	var names []string
	for k := range sent {
		names = append(names, k)
	}
	sort.Strings(names)
	rp := map[string]any{"proto": protoText, "header": header, "headers_on_the_wire": names, "handler_entries": entered, "client_error": retErr}
	found := false
	for k := range sent {
		if strings.EqualFold(k, header) {
			found = true
		}
	}
	if !found {
		c.R.Violate(caseID, "helper-header-not-on-wire", "", rp)
	} else if entered != 1 || retErr != nil {
		c.R.Violate(caseID, "helper-header-rejected-by-server", "", rp)
	}
	c.R.Decided(caseID)
}
