package checks

import (
	"encoding/json"
	"fmt"
	"math/rand"
	"os"

	"verif/internal/corpus"

	"verif/internal/plugin"
	"verif/internal/report"
	"verif/internal/spec"
)

func init() {
	Samples["basic"] = func() []*spec.File {
		f := &spec.File{Path: "basic/v1/basic.proto", Package: "basic.v1", GoImport: "lab/gen/basicv1", GoName: "basicv1"}
		f.Enums = []*spec.EnumDef{{Name: "Color", Values: []spec.EnumValue{{Name: "COLOR_UNSPECIFIED", Num: 0}, {Name: "COLOR_RED", Num: 1, JSON: spec.S("red")}}}}
		f.Messages = []*spec.Message{
			{Name: "GetReq", Fields: []*spec.Field{spec.F("user_id", 1, spec.String), spec.F("limit", 2, spec.Int32).Q("limit")}},
			{Name: "PutReq", Fields: []*spec.Field{spec.F("user_id", 1, spec.String), spec.F("name", 2, spec.String), spec.F("big", 3, spec.Int64).With(func(a *spec.Ann) { a.Int64Enc = 2 })}},
			{Name: "Resp", Fields: []*spec.Field{spec.F("id", 1, spec.String), spec.FE("color", 2, ".basic.v1.Color"), spec.FM("at", 3, spec.Timestamp)}},
		}
		f.Services = []*spec.Service{{Name: "UserService", BasePath: spec.S("/api/v1"),
			Headers: []spec.Header{{Name: "X-API-Key", Type: "string", Required: true}},
			Methods: []*spec.Method{
				{Name: "GetUser", In: ".basic.v1.GetReq", Out: ".basic.v1.Resp", HTTP: &spec.HTTP{Path: "/users/{user_id}", Verb: 1}},
				{Name: "PutUser", In: ".basic.v1.PutReq", Out: ".basic.v1.Resp", HTTP: &spec.HTTP{Path: "/users/{user_id}", Verb: 3}},
				{Name: "Plain", In: ".basic.v1.PutReq", Out: ".basic.v1.Resp"},
			}}}
		return []*spec.File{f}
	}
}

func replayFile(tb *plugin.Toolbox, path string, seed int64) int {
	b, err := os.ReadFile(path)
	if err != nil {
		fmt.Println("HARNESS-ERROR cannot read replay:", err)
		return 2
	}
	var rp struct {
		Property string `json:"property"`
		Case     string `json:"case"`
		Tier     string `json:"tier"`
		Seed     int64  `json:"seed"`
	}
	if err := json.Unmarshal(b, &rp); err != nil {
		fmt.Println("HARNESS-ERROR bad replay file:", err)
		return 2
	}
	fn, ok := Registry[rp.Property]
	if !ok {
		fmt.Println("HARNESS-ERROR unknown property in replay:", rp.Property)
		return 2
	}
	r := report.New(rp.Property, rp.Tier, rp.Seed)
	c := &Ctx{TB: tb, R: r, Tier: rp.Tier, Seed: rp.Seed, Scratch: tb.Scratch, Only: rp.Case, Full: FullInQuick[rp.Property]}
	fn(c)
	return r.Finish()
}

func init() {
	Samples["tsfeatures"] = func() []*spec.File {
		var files []*spec.File
		feats := corpus.Features()
		want := map[string]bool{"oneof_flatten/message/oneof_value": true, "oneof_nested/message/default-values": true, "flatten/prefix/child=word": true, "unwrap/map-value/message": true,
			"unwrap/root-list/message": true, "nullable/int64/optional": true, "empty_null/message/singular": true, "ts_unix_millis/timestamp/singular": true, "none/oneof/plain": true, "none/messages/mixed": true, "int64_number/int64/repeated": true, "enum_number/enum/singular": true}
		for i, f := range feats {
			if want[f.ID] {
				fp := corpus.BuildFeaturePkg(f, i, "ts", "", corpus.NewNames(rand.New(rand.NewSource(1))), true, []string{"top"})
				files = append(files, fp.File)
			}
		}
		return files
	}
}
