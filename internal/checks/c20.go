package checks

import (
	"fmt"

	validate "buf.build/gen/go/bufbuild/protovalidate/protocolbuffers/go/buf/validate"
	"google.golang.org/protobuf/encoding/protojson"
	"google.golang.org/protobuf/proto"
	"google.golang.org/protobuf/types/dynamicpb"
	"strconv"
	"strings"
	"sync"
	"time"

	"google.golang.org/protobuf/reflect/protoreflect"
	"google.golang.org/protobuf/reflect/protoregistry"

	"verif/internal/lab"
	"verif/internal/model/jsonmap"
	"verif/internal/oas"
	"verif/internal/plugin"
	"verif/internal/spec"
)

func init() { Registry["C20"] = c20 }

type mockCase struct {
	ID       string
	Build    func(pkg string) *spec.File // services named MockSvc…; method Call…
	Examples map[string][]string         // response json field name -> declared examples (as text)
	ExKind   map[string]string           // json field name -> kind for parsing
	// Seq, when set, replaces the 50 identical valid requests: these bodies are sent in order to ONE mock
	// server over HTTP and to ONE mock object directly (only the answers to valid ones are judged)
	Seq []mockReq
	// Deps: further files of the request (other proto and Go packages) that Build's file imports
	Deps func(pkg string) []*spec.File
}

type mockReq struct {
	JSON  string
	Valid bool
}

func mockFile(pkg string, respFields []*spec.Field, extra ...*spec.Message) *spec.File {
	f := &spec.File{}
	f.Messages = append(f.Messages, &spec.Message{Name: "MReq", Fields: []*spec.Field{spec.F("id", 1, spec.String)}}, &spec.Message{Name: "MResp", Fields: respFields})
	f.Messages = append(f.Messages, extra...)
	f.Services = []*spec.Service{{Name: "MockedService", BasePath: spec.S("/mock"), Methods: []*spec.Method{{Name: "Call", In: "." + pkg + ".MReq", Out: "." + pkg + ".MResp", HTTP: &spec.HTTP{Path: "/call", Verb: 2}}}}}
	return f
}

func mockCatalogue() []mockCase {
	var out []mockCase
	kinds := append(append([]spec.T{}, spec.ScalarKinds...), spec.Enum, spec.Msg)
	for _, k := range kinds {
		for _, cd := range []spec.Card{spec.Singular, spec.Optional, spec.Repeated} {
			k, cd := k, cd
			kn := spec.KindName(k)
			out = append(out, mockCase{ID: fmt.Sprintf("mock/field/%s/%s/examples=none", kn, cd), Build: func(pkg string) *spec.File {
				var fld *spec.Field
				var extra []*spec.Message
				f := &spec.File{}
				switch k {
				case spec.Enum:
					fld = spec.FE("the_value", 1, "."+pkg+".MEnum")
				case spec.Msg:
					fld = spec.FM("the_value", 1, "."+pkg+".MKid")
					extra = append(extra, &spec.Message{Name: "MKid", Fields: []*spec.Field{spec.F("title", 1, spec.String), spec.F("ok", 2, spec.Bool)}})
				default:
					fld = spec.F("the_value", 1, k)
				}
				switch cd {
				case spec.Optional:
					fld.Opt()
				case spec.Repeated:
					fld.Rep()
				}
				f = mockFile(pkg, []*spec.Field{fld, spec.F("name", 2, spec.String)}, extra...)
				if k == spec.Enum {
					f.Enums = []*spec.EnumDef{{Name: "MEnum", Values: []spec.EnumValue{{Name: "M_ENUM_UNSPECIFIED", Num: 0}, {Name: "M_ENUM_A", Num: 1}}}}
				}
				return f
			}})
		}
	}
	for _, key := range []spec.T{spec.String, spec.Int32, spec.Int64, spec.Uint32, spec.Bool} {
		for _, val := range []string{"string", "int32", "message", "double"} {
			key, val := key, val
			out = append(out, mockCase{ID: fmt.Sprintf("mock/map/key=%s/value=%s", spec.KindName(key), val), Build: func(pkg string) *spec.File {
				var fld *spec.Field
				var extra []*spec.Message
				switch val {
				case "string":
					fld = spec.F("entries", 1, spec.String).MapOf(key)
				case "int32":
					fld = spec.F("entries", 1, spec.Int32).MapOf(key)
				case "double":
					fld = spec.F("entries", 1, spec.Double).MapOf(key)
				default:
					fld = spec.FM("entries", 1, "."+pkg+".MKid").MapOf(key)
					extra = append(extra, &spec.Message{Name: "MKid", Fields: []*spec.Field{spec.F("title", 1, spec.String)}})
				}
				return mockFile(pkg, []*spec.Field{fld}, extra...)
			}})
		}
	}
	out = append(out, mockCase{ID: "mock/nested/depth2", Build: func(pkg string) *spec.File {
		return mockFile(pkg, []*spec.Field{spec.FM("outer", 1, "."+pkg+".MOuter"), spec.F("name", 2, spec.String)},
			&spec.Message{Name: "MOuter", Fields: []*spec.Field{spec.F("label", 1, spec.String), spec.FM("inner", 2, "."+pkg+".MInner")}},
			&spec.Message{Name: "MInner", Fields: []*spec.Field{spec.F("deep", 1, spec.String), spec.F("flag", 2, spec.Bool), spec.F("ratio", 3, spec.Double)}})
	}})
	out = append(out, mockCase{ID: "mock/nested-type-declaration", Build: func(pkg string) *spec.File {
		f := mockFile(pkg, []*spec.Field{spec.FM("inner", 1, "."+pkg+".MResp.Inner")})
		f.Messages[1].Nested = []*spec.Message{{Name: "Inner", Fields: []*spec.Field{spec.F("v", 1, spec.String)}}}
		return f
	}})
	for _, via := range []string{"singular", "map-value", "oneof"} {
		via := via
		out = append(out, mockCase{ID: "mock/recursive/" + via, Build: func(pkg string) *spec.File {
			f := mockFile(pkg, []*spec.Field{spec.F("label", 1, spec.String)})
			r := f.Messages[1]
			switch via {
			case "singular":
				r.Fields = append(r.Fields, spec.FM("next", 2, "."+pkg+".MResp"))
			case "map-value":
				r.Fields = append(r.Fields, spec.FM("by_name", 2, "."+pkg+".MResp").MapOf(spec.String))
			case "oneof":
				r.Oneofs = []*spec.Oneof{{Name: "kind"}}
				r.Fields = append(r.Fields, spec.FM("sub", 2, "."+pkg+".MResp").In(1), spec.F("leaf", 3, spec.String).In(1))
			}
			return f
		}})
	}
	out = append(out, mockCase{ID: "mock/wkt/timestamp", Build: func(pkg string) *spec.File {
		return mockFile(pkg, []*spec.Field{spec.FM("at", 1, spec.Timestamp), spec.F("name", 2, spec.String)})
	}})
	out = append(out, mockCase{ID: "mock/two-services", Build: func(pkg string) *spec.File {
		f := mockFile(pkg, []*spec.Field{spec.F("name", 1, spec.String), spec.F("ok", 2, spec.Bool)})
		f.Services = append(f.Services, &spec.Service{Name: "SecondMockedService", BasePath: spec.S("/mock2"), Methods: []*spec.Method{{Name: "Other", In: "." + pkg + ".MReq", Out: "." + pkg + ".MResp", HTTP: &spec.HTTP{Path: "/other", Verb: 2}}}})
		return f
	}})
	out = append(out, mockCase{ID: "mock/get-with-path-and-query", Build: func(pkg string) *spec.File {
		f := mockFile(pkg, []*spec.Field{spec.F("name", 1, spec.String)})
		f.Messages[0].Fields = []*spec.Field{spec.F("id", 1, spec.String), spec.F("q", 2, spec.String).Q("q")}
		f.Services[0].Methods[0].HTTP = &spec.HTTP{Path: "/items/{id}", Verb: 1}
		return f
	}})
	// examples
	ex := func(id string, k spec.T, kindName string, examples []string, parsable bool) {
		out = append(out, mockCase{ID: "mock/examples/" + id, Examples: map[string][]string{"theValue": examples}, ExKind: map[string]string{"theValue": kindName}, Build: func(pkg string) *spec.File {
			fld := spec.F("the_value", 1, k).With(func(a *spec.Ann) { a.Examples = examples })
			return mockFile(pkg, []*spec.Field{fld, spec.F("name", 2, spec.String)})
		}})
		_ = parsable
	}
	ex("string/valid", spec.String, "string", []string{"alpha", "beta gamma", "δ"}, true)
	ex("int64/valid", spec.Int64, "int", []string{"1", "-22", "9007199254740993"}, true)
	ex("int32/valid", spec.Int32, "int", []string{"7", "8"}, true)
	ex("bool/valid", spec.Bool, "bool", []string{"true"}, true)
	ex("double/valid", spec.Double, "float", []string{"1.5", "-2.25"}, true)
	ex("float/valid", spec.Float, "float", []string{"0.5"}, true)
	ex("int64/unparsable", spec.Int64, "int-unparsable", []string{"abc", "1.5"}, false)
	ex("bool/unparsable", spec.Bool, "bool-unparsable", []string{"maybe"}, false)
	ex("double/unparsable", spec.Double, "float-unparsable", []string{"x"}, false)
	out = append(out, mockCase{ID: "mock/examples/nested-string/valid", Examples: map[string][]string{"kid.title": {"t1", "t2"}}, ExKind: map[string]string{"kid.title": "string"}, Build: func(pkg string) *spec.File {
		return mockFile(pkg, []*spec.Field{spec.FM("kid", 1, "."+pkg+".MKid")}, &spec.Message{Name: "MKid", Fields: []*spec.Field{spec.F("title", 1, spec.String).With(func(a *spec.Ann) { a.Examples = []string{"t1", "t2"} })}})
	}})
	out = append(out, mockCase{ID: "mock/examples/same-field-name-two-messages", Examples: map[string][]string{"title": {"top-a", "top-b"}, "kid.title": {"kid-a"}}, ExKind: map[string]string{"title": "string", "kid.title": "string"}, Build: func(pkg string) *spec.File {
		return mockFile(pkg, []*spec.Field{spec.F("title", 1, spec.String).With(func(a *spec.Ann) { a.Examples = []string{"top-a", "top-b"} }), spec.FM("kid", 2, "."+pkg+".MKid")},
			&spec.Message{Name: "MKid", Fields: []*spec.Field{spec.F("title", 1, spec.String).With(func(a *spec.Ann) { a.Examples = []string{"kid-a"} })}})
	}})
	// one message type reached along several non-recursive paths of one response
	out = append(out, mockCase{ID: "mock/examples/same-type-several-paths", Examples: map[string][]string{"owner.title": {"t1", "t2"}, "editor.title": {"t1", "t2"}, "reviewers.*.title": {"t1", "t2"}, "watchers.*.title": {"t1", "t2"}, "owner.age": {"31", "47"}, "editor.age": {"31", "47"}, "box.inner.title": {"t1", "t2"}},
		ExKind: map[string]string{"owner.title": "string", "editor.title": "string", "reviewers.*.title": "string", "watchers.*.title": "string", "owner.age": "int", "editor.age": "int", "box.inner.title": "string"}, Build: func(pkg string) *spec.File {
			kid := &spec.Message{Name: "MKid", Fields: []*spec.Field{spec.F("title", 1, spec.String).With(func(a *spec.Ann) { a.Examples = []string{"t1", "t2"} }), spec.F("age", 2, spec.Int64).With(func(a *spec.Ann) { a.Examples = []string{"31", "47"} })}}
			box := &spec.Message{Name: "MBox", Fields: []*spec.Field{spec.FM("inner", 1, "."+pkg+".MKid")}}
			return mockFile(pkg, []*spec.Field{spec.FM("owner", 1, "."+pkg+".MKid"), spec.FM("editor", 2, "."+pkg+".MKid"), spec.FM("reviewers", 3, "."+pkg+".MKid").MapOf(spec.String), spec.FM("watchers", 4, "."+pkg+".MKid").Rep(), spec.FM("box", 5, "."+pkg+".MBox")}, kid, box)
		}})
	out = append(out, mockCase{ID: "mock/examples/same-type-two-rpcs", Examples: map[string][]string{"kid.title": {"t1"}}, ExKind: map[string]string{"kid.title": "string"}, Build: func(pkg string) *spec.File {
		f := mockFile(pkg, []*spec.Field{spec.FM("kid", 1, "."+pkg+".MKid")}, &spec.Message{Name: "MKid", Fields: []*spec.Field{spec.F("title", 1, spec.String).With(func(a *spec.Ann) { a.Examples = []string{"t1"} })}})
		m0 := f.Services[0].Methods[0]
		f.Services[0].Methods = append([]*spec.Method{{Name: "Before", In: m0.In, Out: m0.Out, HTTP: &spec.HTTP{Path: "/before", Verb: 2}}}, f.Services[0].Methods...)
		return f
	}})
	// a message that is the request of one RPC and the response of others
	out = append(out, mockCase{ID: "mock/examples/request-type-also-response", Examples: map[string][]string{"title": {"alpha", "beta"}, "revision": {"7"}, "score": {"2.5"}}, ExKind: map[string]string{"title": "string", "revision": "int", "score": "float"}, Build: func(pkg string) *spec.File {
		f := &spec.File{}
		note := &spec.Message{Name: "Note", Fields: []*spec.Field{spec.F("title", 1, spec.String).With(func(a *spec.Ann) { a.Examples = []string{"alpha", "beta"} }),
			spec.F("revision", 2, spec.Int64).With(func(a *spec.Ann) { a.Examples = []string{"7"} }), spec.F("score", 3, spec.Double).With(func(a *spec.Ann) { a.Examples = []string{"2.5"} })}}
		f.Messages = []*spec.Message{{Name: "MReq", Fields: []*spec.Field{spec.F("id", 1, spec.String)}}, note}
		f.Services = []*spec.Service{{Name: "MockedService", BasePath: spec.S("/mock"), Methods: []*spec.Method{
			{Name: "GetNote", In: "." + pkg + ".MReq", Out: "." + pkg + ".Note", HTTP: &spec.HTTP{Path: "/get", Verb: 2}},
			{Name: "UpdateNote", In: "." + pkg + ".Note", Out: "." + pkg + ".Note", HTTP: &spec.HTTP{Path: "/update", Verb: 2}}}}}
		return f
	}})
	// the same short message name in different scopes, same field names, different examples
	exs := func(v ...string) func(a *spec.Ann) { return func(a *spec.Ann) { a.Examples = v } }
	out = append(out, mockCase{ID: "mock/examples/same-short-name/nested-in-two-parents", Examples: map[string][]string{"mine.id": {"m1", "m2"}, "other.item.id": {"o1"}, "others.*.item.id": {"o1"}},
		ExKind: map[string]string{"mine.id": "string", "other.item.id": "string", "others.*.item.id": "string"}, Build: func(pkg string) *spec.File {
			f := mockFile(pkg, []*spec.Field{spec.FM("mine", 1, "."+pkg+".MResp.Item"), spec.FM("other", 2, "."+pkg+".MOther"), spec.FM("others", 3, "."+pkg+".MOther").Rep()},
				&spec.Message{Name: "MOther", Nested: []*spec.Message{{Name: "Item", Fields: []*spec.Field{spec.F("id", 1, spec.String).With(exs("o1")), spec.F("label", 2, spec.String)}}}, Fields: []*spec.Field{spec.FM("item", 1, "."+pkg+".MOther.Item")}})
			f.Messages[1].Nested = []*spec.Message{{Name: "Item", Fields: []*spec.Field{spec.F("id", 1, spec.String).With(exs("m1", "m2")), spec.F("label", 2, spec.String)}}}
			return f
		}})
	out = append(out, mockCase{ID: "mock/examples/same-short-name/top-and-nested", Examples: map[string][]string{"top.id": {"t1"}, "inner.id": {"n1", "n2"}}, ExKind: map[string]string{"top.id": "string", "inner.id": "string"}, Build: func(pkg string) *spec.File {
		f := mockFile(pkg, []*spec.Field{spec.FM("top", 1, "."+pkg+".Item"), spec.FM("inner", 2, "."+pkg+".MResp.Item")}, &spec.Message{Name: "Item", Fields: []*spec.Field{spec.F("id", 1, spec.String).With(exs("t1"))}})
		f.Messages[1].Nested = []*spec.Message{{Name: "Item", Fields: []*spec.Field{spec.F("id", 1, spec.String).With(exs("n1", "n2"))}}}
		return f
	}})
	// a nested type used from a message OTHER than the one that encloses it (a sibling nested type, an
	// unrelated top-level message, a map value): its examples belong to the type, wherever it is used
	out = append(out, mockCase{ID: "mock/examples/nested-type-used-from-sibling-nested-type",
		Examples: map[string][]string{"line.price.currency": {"EUR", "USD"}, "line.price.units": {"7", "9"}, "line.label": {"first"}},
		ExKind:   map[string]string{"line.price.currency": "string", "line.price.units": "int", "line.label": "string"}, Build: func(pkg string) *spec.File {
			f := mockFile(pkg, []*spec.Field{spec.FM("line", 1, "."+pkg+".MResp.Line"), spec.F("name", 2, spec.String)})
			f.Messages[1].Nested = []*spec.Message{
				{Name: "Money", Fields: []*spec.Field{spec.F("currency", 1, spec.String).With(exs("EUR", "USD")), spec.F("units", 2, spec.Int64).With(exs("7", "9"))}},
				{Name: "Line", Fields: []*spec.Field{spec.FM("price", 1, "."+pkg+".MResp.Money"), spec.F("label", 2, spec.String).With(exs("first"))}},
			}
			return f
		}})
	out = append(out, mockCase{ID: "mock/examples/nested-type-of-another-message",
		Examples: map[string][]string{"first.sku": {"sku-1", "sku-2"}, "first.inStock": {"false"}, "bySku.*.sku": {"sku-1", "sku-2"}, "bySku.*.inStock": {"false"}, "wrapped.item.sku": {"sku-1", "sku-2"}},
		ExKind:   map[string]string{"first.sku": "string", "first.inStock": "bool", "bySku.*.sku": "string", "bySku.*.inStock": "bool", "wrapped.item.sku": "string"}, Build: func(pkg string) *spec.File {
			item := "." + pkg + ".Catalog.Item"
			f := mockFile(pkg, []*spec.Field{spec.FM("first", 1, item), spec.FM("by_sku", 2, item).MapOf(spec.String), spec.FM("wrapped", 3, "."+pkg+".Wrapper")},
				&spec.Message{Name: "Catalog", Fields: []*spec.Field{spec.F("title", 1, spec.String)}, Nested: []*spec.Message{
					{Name: "Item", Fields: []*spec.Field{spec.F("sku", 1, spec.String).With(exs("sku-1", "sku-2")), spec.F("in_stock", 2, spec.Bool).With(exs("false"))}}}},
				&spec.Message{Name: "Wrapper", Fields: []*spec.Field{spec.FM("item", 1, item)}})
			return f
		}})
	// message types of ANOTHER Go package in the response: singular, as a map value, as list elements
	out = append(out, mockCase{ID: "mock/imported-message-types/other-go-package",
		Examples: map[string][]string{"grandTotal.currency": {"EUR", "USD"}, "totals.*.currency": {"EUR", "USD"}, "lines.*.sku": {"sku-1"}},
		ExKind:   map[string]string{"grandTotal.currency": "string", "totals.*.currency": "string", "lines.*.sku": "string"},
		Deps: func(pkg string) []*spec.File {
			return []*spec.File{{Path: "c20/common/" + strings.ReplaceAll(pkg, ".", "_") + ".proto", Package: pkg + ".common", GoImport: "lab/gen/" + strings.ReplaceAll(pkg, ".", "") + "common", GoName: strings.ReplaceAll(pkg, ".", "") + "common",
				Messages: []*spec.Message{{Name: "Money", Fields: []*spec.Field{spec.F("currency", 1, spec.String).With(exs("EUR", "USD")), spec.F("units", 2, spec.Int64)}}}}}
		},
		Build: func(pkg string) *spec.File {
			money := "." + pkg + ".common.Money"
			f := mockFile(pkg, []*spec.Field{spec.FM("grand_total", 1, money), spec.FM("totals", 2, money).MapOf(spec.String), spec.FM("lines", 3, "."+pkg+".Line").MapOf(spec.String), spec.F("name", 4, spec.String)},
				&spec.Message{Name: "Line", Fields: []*spec.Field{spec.F("sku", 1, spec.String).With(exs("sku-1")), spec.FM("price", 2, money)}})
			f.Imports = []string{"c20/common/" + strings.ReplaceAll(pkg, ".", "_") + ".proto"}
			return f
		}})
	// examples on fields that also carry validation rules which every example satisfies (lengths count characters)
	strRules := func(r *validate.StringRules) *validate.FieldRules {
		return &validate.FieldRules{Type: &validate.FieldRules_String_{String_: r}}
	}
	for _, rc := range []struct {
		id    string
		rules *validate.FieldRules
		ex    []string
	}{
		{"ascii/max_len", strRules(&validate.StringRules{MaxLen: proto.Uint64(5)}), []string{"abcde", "ab"}},
		{"non-ascii/max_len", strRules(&validate.StringRules{MaxLen: proto.Uint64(2)}), []string{"€", "zł", "日本"}},
		{"non-ascii/max_len-longer", strRules(&validate.StringRules{MaxLen: proto.Uint64(14)}), []string{"Müller & Söhne", "Ünïcödé strïng"}},
		{"astral/max_len", strRules(&validate.StringRules{MaxLen: proto.Uint64(3)}), []string{"😀😀😀", "a😀"}},
		{"non-ascii/min_len", strRules(&validate.StringRules{MinLen: proto.Uint64(2)}), []string{"€€", "日本語"}},
		{"non-ascii/len", strRules(&validate.StringRules{Len: proto.Uint64(3)}), []string{"日本語", "añb"}},
		{"non-ascii/max_bytes", strRules(&validate.StringRules{MaxBytes: proto.Uint64(6)}), []string{"€€", "abc"}},
		{"pattern", strRules(&validate.StringRules{Pattern: proto.String("^[a-z]+-[0-9]+$")}), []string{"ab-12", "x-0"}},
		{"in", strRules(&validate.StringRules{In: []string{"red", "grün"}}), []string{"red", "grün"}},
	} {
		rc := rc
		out = append(out, mockCase{ID: "mock/examples/string-rules/" + rc.id, Examples: map[string][]string{"label": rc.ex}, ExKind: map[string]string{"label": "string"}, Build: func(pkg string) *spec.File {
			return mockFile(pkg, []*spec.Field{spec.F("label", 1, spec.String).With(func(a *spec.Ann) { a.Examples = rc.ex; a.Rules = rc.rules }), spec.F("name", 2, spec.String)})
		}})
	}
	out = append(out, mockCase{ID: "mock/examples/int-rules/range", Examples: map[string][]string{"level": {"3", "9"}}, ExKind: map[string]string{"level": "int"}, Build: func(pkg string) *spec.File {
		r := &validate.FieldRules{Type: &validate.FieldRules_Int64{Int64: &validate.Int64Rules{GreaterThan: &validate.Int64Rules_Gte{Gte: 3}, LessThan: &validate.Int64Rules_Lte{Lte: 9}}}}
		return mockFile(pkg, []*spec.Field{spec.F("level", 1, spec.Int64).With(func(a *spec.Ann) { a.Examples = []string{"3", "9"}; a.Rules = r })})
	}})
	out = append(out, mockCase{ID: "mock/examples/int-rules/in+int64number", Examples: map[string][]string{"tier_limit": {"1024", "4096"}, "level": {"7"}}, ExKind: map[string]string{"tier_limit": "int", "level": "int"}, Build: func(pkg string) *spec.File {
		in := &validate.FieldRules{Type: &validate.FieldRules_Int64{Int64: &validate.Int64Rules{In: []int64{1024, 4096}}}}
		cn := &validate.FieldRules{Type: &validate.FieldRules_Int64{Int64: &validate.Int64Rules{Const: proto.Int64(7)}}}
		return mockFile(pkg, []*spec.Field{spec.F("tier_limit", 1, spec.Int64).JSONAs("tier_limit").With(func(a *spec.Ann) { a.Examples = []string{"1024", "4096"}; a.Rules = in; a.Int64Enc = 2 }),
			spec.F("level", 2, spec.Int64).With(func(a *spec.Ann) { a.Examples = []string{"7"}; a.Rules = cn; a.Int64Enc = 2 }), spec.F("name", 3, spec.String)})
	}})
	// a request type with rules: rejected requests followed by valid ones on the same mock
	out = append(out, mockCase{ID: "mock/request-rules/invalid-then-valid", Examples: map[string][]string{"title": {"t1", "t2"}}, ExKind: map[string]string{"title": "string"},
		Seq: []mockReq{{`{"id":"a"}`, false}, {`{"id":"abcd"}`, true}, {`{"id":""}`, false}, {`{"id":"wxyz"}`, true}, {`{"id":"abcd"}`, true}},
		Build: func(pkg string) *spec.File {
			f := mockFile(pkg, []*spec.Field{spec.F("title", 1, spec.String).With(exs("t1", "t2")), spec.F("name", 2, spec.String)})
			f.Messages[0].Fields[0].Ann.Rules = strRules(&validate.StringRules{MinLen: proto.Uint64(3)})
			return f
		}})
	out = append(out, mockCase{ID: "mock/request-rules/valid-then-invalid-then-valid", Examples: map[string][]string{"title": {"t1", "t2"}}, ExKind: map[string]string{"title": "string"},
		Seq: []mockReq{{`{"id":"abcd"}`, true}, {`{"id":"a"}`, false}, {`{"id":"abcd"}`, true}, {`{"id":"zzzz"}`, true}},
		Build: func(pkg string) *spec.File {
			f := mockFile(pkg, []*spec.Field{spec.F("title", 1, spec.String).With(exs("t1", "t2")), spec.F("name", 2, spec.String)})
			f.Messages[0].Fields[0].Ann.Rules = strRules(&validate.StringRules{MinLen: proto.Uint64(3)})
			return f
		}})
	// response fields named and typed like request fields, with rules of their OWN that differ from the
	// request's: whatever the request carried, the answer must satisfy the response's published schema
	out = append(out, mockCase{ID: "mock/response-rules/fields-named-like-request-fields",
		Seq: []mockReq{{`{"id":"A-1001","customerName":"Al","count":"5000","ratio":99.5,"note":"x"}`, true}, {`{"id":"abc"}`, true}, {`{}`, true},
			{`{"id":"zz","customerName":"Bo","count":"-7","ratio":-2.5}`, true}, {`{"id":"A-1001","customerName":"Al","count":"5000","ratio":99.5}`, true}},
		Build: func(pkg string) *spec.File {
			idRule := strRules(&validate.StringRules{Pattern: proto.String("^[0-9a-f]{8}-[0-9a-f]{4}-[0-9a-f]{4}-[0-9a-f]{4}-[0-9a-f]{12}$")})
			nameRule := strRules(&validate.StringRules{MinLen: proto.Uint64(3)})
			countRule := &validate.FieldRules{Type: &validate.FieldRules_Int64{Int64: &validate.Int64Rules{GreaterThan: &validate.Int64Rules_Gte{Gte: 1}, LessThan: &validate.Int64Rules_Lte{Lte: 100}}}}
			ratioRule := &validate.FieldRules{Type: &validate.FieldRules_Double{Double: &validate.DoubleRules{GreaterThan: &validate.DoubleRules_Gte{Gte: 1}, LessThan: &validate.DoubleRules_Lte{Lte: 5}}}}
			rule := func(r *validate.FieldRules) func(a *spec.Ann) { return func(a *spec.Ann) { a.Rules = r } }
			f := mockFile(pkg, []*spec.Field{spec.F("id", 1, spec.String).With(rule(idRule)), spec.F("customer_name", 2, spec.String).With(rule(nameRule)),
				spec.F("count", 3, spec.Int64).With(rule(countRule)), spec.F("ratio", 4, spec.Double).With(rule(ratioRule)), spec.FM("order", 5, "."+pkg+".Order")},
				&spec.Message{Name: "Order", Fields: []*spec.Field{spec.F("id", 1, spec.String).With(rule(proto.Clone(idRule).(*validate.FieldRules))), spec.F("customer_name", 2, spec.String).With(rule(proto.Clone(nameRule).(*validate.FieldRules)))}})
			f.Messages[0].Fields = []*spec.Field{spec.F("id", 1, spec.String), spec.F("customer_name", 2, spec.String), spec.F("count", 3, spec.Int64), spec.F("ratio", 4, spec.Double), spec.F("note", 5, spec.String)}
			return f
		}})
	return out
}

// c20: the optional mock server builds and answers with contract-conformant examples.
func c20(c *Ctx) {
	c.R.Rule = "abstract case = (response field kind x cardinality, map key/value kinds, nested, recursive, well-known type, two services, examples {none, valid, unparsable, nested, same field name in two messages}) with generate_mock=true; one package per case; " +
		"non-trivial = the package (incl. *_http_mock.pb.go) was compiled and vetted; the generated server backed by NewMock<Svc>Server() answered 50 valid requests over HTTP; each 200 body was validated by python-jsonschema against the response schema of the same request's OpenAPI document and example membership was checked"
	c.R.Assume("python-jsonschema 4.26 (Draft 2020-12); examples are compared after parsing to the field's kind; unparsable examples: the mock must still answer with a schema-conformant value")
	cat := mockCatalogue()
	if !c.Thorough() {
		var keep []mockCase
		for i, mc := range cat {
			if !strings.HasPrefix(mc.ID, "mock/field/") && !strings.HasPrefix(mc.ID, "mock/map/") || (i+int(c.Seed))%2 == 0 {
				keep = append(keep, mc)
			}
		}
		cat = keep
	}
	l, err := lab.New(c.TB, "c20")
	if err != nil {
		c.R.Harness(err.Error())
		return
	}
	type unit struct {
		mc      mockCase
		f       *spec.File
		reg     *protoregistry.Files
		dir     string
		refused string
		doc     map[string]*oas.Doc
		crash   string
	}
	units := make([]*unit, len(cat))
	var mu sync.Mutex
	docs := map[string]any{}
	plugin.Parallel(len(cat), 8, func(i int) {
		mc := cat[i]
		pkg := fmt.Sprintf("c20.m%03d", i)
		goName := fmt.Sprintf("c20m%03d", i)
		f := mc.Build(pkg)
		f.Path, f.Package, f.GoImport, f.GoName = fmt.Sprintf("c20/m%03d.proto", i), pkg, "lab/gen/"+goName, goName
		u := &unit{mc: mc, f: f, dir: "gen/" + goName, doc: map[string]*oas.Doc{}}
		units[i] = u
		files := []*spec.File{f}
		if mc.Deps != nil {
			files = append(mc.Deps(pkg), f)
		}
		req, err := spec.Request(files, nil, "")
		if err != nil {
			c.R.Harness(mc.ID + ": " + err.Error())
			return
		}
		u.reg, _ = spec.Files(req)
		// the mock run may explode on recursive types: run it alone first under a 2 GiB cap
		rq2 := *req
		param := "generate_mock=true"
		rq2.Parameter = &param
		probe := c.TB.Run("go-http", &rq2, plugin.RunOpt{MemKB: 2 * 1024 * 1024})
		c.R.Eval(1)
		if probe.Crash != "" {
			u.crash = probe.Crash
			return
		}
		ad, err := l.Add(req, lab.PkgOpt{Plugins: []string{"go-http"}, Mock: true, Tag: mc.ID})
		if err != nil {
			c.R.Harness(mc.ID + ": " + err.Error())
			return
		}
		u.refused = ad.Refused
		rj, _ := spec.Request(files, []string{f.Path}, "format=json")
		res := lab.RunDecoy(c.TB, "openapiv3", rj, plugin.RunOpt{})
		c.R.Eval(1)
		if res.OK() {
			for n, ct := range res.Files {
				if d, err := oas.Parse(n, ct); err == nil {
					svc := strings.TrimSuffix(n, ".openapi.json")
					u.doc[svc] = &oas.Doc{Name: n, Root: oas.Strictify(d.Root)}
					mu.Lock()
					docs[pkg+"/"+svc] = u.doc[svc].Root
					mu.Unlock()
				}
			}
		}
	})
	if un := l.CompileAll(true); un != "" {
		c.R.Harness("unattributed build output: " + firstLines(un, 10))
		return
	}
	bin, err := l.BuildBinary(true)
	if err != nil {
		c.R.Harness(err.Error())
		return
	}
	ch, err := lab.Start(bin, c.Scratch+"/race-c20")
	if err != nil {
		c.R.Harness(err.Error())
		return
	}
	defer ch.Quit()
	var samples []wireSample
	for _, u := range units {
		if u == nil {
			continue
		}
		caseID := u.mc.ID
		if !c.Want(caseID) {
			continue
		}
		protoText := u.f.Proto()
		if u.crash != "" {
			c.R.Violate(caseID, "generator-"+u.crash, "", map[string]any{"proto": protoText})
			continue
		}
		if u.refused != "" {
			c.R.Violate(caseID, "refused", u.refused, map[string]any{"proto": protoText})
			continue
		}
		if diags := l.Failed[u.dir]; len(diags) > 0 {
			d := diags[0]
			for _, x := range diags {
				if strings.Contains(x.File, "_http_mock") {
					d = x
					break
				}
			}
			c.R.Violate(caseID, d.Tool, fileKind(d.File)+": "+d.Msg, map[string]any{"proto": protoText, "file": d.File, "line": d.Line, "message": d.Msg})
			continue
		}
		for _, svc := range u.f.Services {
			gs, err := serveGo(ch, []string{u.f.Package + "." + svc.Name}, "none", true)
			if err != nil {
				c.R.Violate(caseID, "mock-server-start", err.Error(), map[string]any{"proto": protoText})
				continue
			}
			for _, m := range svc.Methods {
				verb := "POST"
				target := *svc.BasePath + m.HTTP.Path
				var body []byte = []byte(`{"id":"abc"}`)
				if !strings.HasSuffix(m.In, ".MReq") {
					body = []byte(`{}`)
				}
				if m.HTTP.Verb == 1 {
					verb, body = "GET", nil
					target = strings.Replace(target, "{id}", "abc", 1) + "?q=z"
				}
				var op oas.Op
				if d := u.doc[svc.Name]; d != nil {
					for _, o := range d.Ops() {
						if o.OperationID == m.Name {
							op = o
						}
					}
				}
				seen := map[string]map[string]bool{}
				okAll := true
				reqSeq := make([]mockReq, 50)
				for i := range reqSeq {
					reqSeq[i] = mockReq{string(body), true}
				}
				if u.mc.Seq != nil && strings.HasSuffix(m.In, ".MReq") && verb == "POST" {
					reqSeq = u.mc.Seq
				}
				for n, rq := range reqSeq {
					var rqBody []byte
					if body != nil {
						rqBody = []byte(rq.JSON)
					}
					resp, err := rawHTTP(verb, gs.URL, target, [][2]string{{"Content-Type", "application/json"}}, rqBody)
					c.R.Eval(1)
					if err == nil && !rq.Valid {
						// nothing is promised for a request the rules reject, except that the server survives it
						evs, _ := syncEvents(ch)
						for _, e := range evs {
							if e.Str("ev") == "panic" {
								c.R.Violate(caseID, "panic", e.Str("value"), map[string]any{"proto": protoText, "stack": e.Str("stack")})
								okAll = false
							}
						}
						continue
					}
					if err != nil {
						c.R.Violate(caseID, "mock-no-response", err.Error(), map[string]any{"proto": protoText})
						okAll = false
						break
					}
					evs, _ := syncEvents(ch)
					for _, e := range evs {
						if e.Str("ev") == "panic" {
							c.R.Violate(caseID, "panic", e.Str("value"), map[string]any{"proto": protoText, "stack": e.Str("stack")})
							okAll = false
						}
					}
					if resp.Status != 200 {
						c.R.Violate(caseID, "mock-status", fmt.Sprintf("st%d", resp.Status), map[string]any{"proto": protoText, "response_body": string(resp.Body)})
						okAll = false
						break
					}
					t, perr := jsonmap.Parse(resp.Body)
					if perr != nil {
						c.R.Violate(caseID, "mock-invalid-json", "", map[string]any{"proto": protoText, "response_body": string(resp.Body)})
						okAll = false
						break
					}
					if (n < 3 || u.mc.Seq != nil) && op.Responses != nil {
						samples = append(samples, wireSample{caseID: caseID, docKey: u.f.Package + "/" + svc.Name, schema: closed(op.Responses["200"]), inst: t, what: "mock 200 response", proto: protoText, raw: string(resp.Body)})
					}
					for path := range u.mc.Examples {
						if seen[path] == nil {
							seen[path] = map[string]bool{}
						}
						for _, v := range lookupPath(t, path) {
							seen[path][fmt.Sprint(v)] = true
						}
					}
				}
				if !okAll {
					continue
				}
				for path, exs := range u.mc.Examples {
					kind := u.mc.ExKind[path]
					if strings.HasSuffix(kind, "-unparsable") {
						continue // only "answers + schema-conformant" is asserted
					}
					allowed := map[string]bool{}
					for _, e := range exs {
						allowed[normExample(e, kind)] = true
					}
					for got := range seen[path] {
						if !allowed[normExample(got, kind)] {
							c.R.Violate(caseID, "value-outside-declared-examples", kind, map[string]any{"proto": protoText, "field": path, "declared": exs, "observed": keysOf(seen[path])})
							break
						}
					}
					c.R.Count("example_fields_checked", 1)
				}
				// concurrent requests to the same mock server (the race detector watches; every answer must be a 200)
				if okAll && (len(u.mc.Examples) > 0 || strings.HasPrefix(caseID, "mock/nested") || strings.HasPrefix(caseID, "mock/two-services")) {
					var calls []map[string]any
					for k := 0; k < 48; k++ {
						rc := map[string]any{"method": verb, "target": target, "hdr": []map[string]string{{"K": "Content-Type", "V": "application/json"}}}
						if body != nil {
							rc["body"] = b64(body)
						}
						calls = append(calls, map[string]any{"raw": rc})
					}
					_, bev, berr := ch.Do(map[string]any{"op": "burst", "id": newID("mb"), "burst": map[string]any{"url": gs.URL, "srv": gs.ID, "calls": calls, "parallel": 16, "timeout_ms": 30000}}, 2*time.Minute, "burst_done")
					c.R.Eval(len(calls))
					if berr != nil {
						c.R.Violate(caseID, "mock-burst-failed", firstLines(berr.Error(), 1), map[string]any{"proto": protoText, "stderr": firstLines(ch.Stderr(), 30)})
						break
					}
					if bev.Str("ev") != "burst_done" || len(oas.L(bev["results"])) != len(calls) {
						c.R.Harness(fmt.Sprintf("mock burst did not run: %v %v", bev["ev"], bev["err"]))
						break
					}
					bad := 0
					for _, r := range oas.L(bev["results"]) {
						rm := oas.M(r)
						if rm["panic"] != nil || rm["err"] != nil || fmt.Sprint(rm["status"]) != "200" {
							bad++
						}
					}
					if bad > 0 {
						c.R.Violate(caseID, "mock-concurrent-requests-failed", fmt.Sprintf("%d of %d", bad, len(calls)), map[string]any{"proto": protoText, "results": bev["results"]})
					}
					c.R.Count("concurrent_mock_requests", len(calls))
				}
				// the same requests to ONE mock object called directly, the way Go code embeds the mock
				if verb == "POST" {
					inMD, outMD := msgDesc(u.reg, strings.TrimPrefix(m.In, ".")), msgDesc(u.reg, strings.TrimPrefix(m.Out, "."))
					direct := reqSeq
					if len(direct) > 6 {
						direct = direct[:6]
					}
					for n, rq := range direct {
						rm := dynamicpb.NewMessage(inMD)
						if err := protojson.Unmarshal([]byte(rq.JSON), rm); err != nil {
							c.R.Harness("c20 direct request does not parse: " + err.Error())
							break
						}
						_, ev, err := ch.Do(map[string]any{"op": "mockdirect", "id": newID("md"), "client": u.f.Package + "." + svc.Name, "reuse": caseID + "/" + m.Name, "rpc": m.Name, "req_type": strings.TrimPrefix(m.In, "."), "req": b64(wire(rm))}, 30*time.Second, "mock_out")
						c.R.Eval(1)
						if err != nil {
							c.R.Inconclusive(caseID, "lab-child:"+err.Error())
							break
						}
						if h := ev.Str("harness"); h != "" {
							c.R.Harness("mockdirect: " + h)
							break
						}
						rp := map[string]any{"proto": protoText, "rpc": m.Name, "request": rq.JSON, "call_index": n, "sequence": direct, "event": ev}
						if pn := ev.Str("panic"); pn != "" {
							c.R.Violate(caseID, "panic", "direct call: "+firstLines(pn, 1), rp)
							break
						}
						if !rq.Valid {
							continue
						}
						if ev["err"] != nil || ev["has_resp"] != true {
							c.R.Violate(caseID, "mock-direct-call-failed", "valid request answered with an error or no response", rp)
							break
						}
						om := dynamicpb.NewMessage(outMD)
						if err := proto.Unmarshal(unb64(ev.Str("resp")), om); err != nil {
							c.R.Harness("mockdirect response: " + err.Error())
							break
						}
						js, _ := protojson.Marshal(om)
						t, _ := jsonmap.Parse(js)
						for path, exs := range u.mc.Examples {
							kind := u.mc.ExKind[path]
							if strings.HasSuffix(kind, "-unparsable") {
								continue
							}
							allowed := map[string]bool{}
							for _, e := range exs {
								allowed[normExample(e, kind)] = true
							}
							for _, v := range lookupPath(t, path) {
								if !allowed[normExample(fmt.Sprint(v), kind)] {
									c.R.Violate(caseID, "value-outside-declared-examples", kind, map[string]any{"proto": protoText, "field": path, "declared": exs, "observed": fmt.Sprint(v), "via": "direct call on the mock object"})
								}
							}
						}
						c.R.Count("direct_mock_calls_judged", 1)
					}
				}
			}
			gs.Stop()
		}
		c.R.Decided(caseID)
	}
	var jobs []pyJob
	for i, s := range samples {
		jobs = append(jobs, pyJob{ID: fmt.Sprint(i), Schema: s.schema, Instance: s.inst, Doc: s.docKey})
	}
	if len(jobs) > 0 {
		results, validator, err := pyValidate(jobs, docs)
		if err != nil {
			c.R.Harness("schema validator unavailable: " + err.Error())
			return
		}
		c.R.Set("schema_validator", validator)
		for i, s := range samples {
			r := results[fmt.Sprint(i)]
			if r.Valid == nil {
				c.R.Inconclusive(s.caseID, "validator:"+r.SchemaError)
				continue
			}
			c.R.Count("mock_responses_validated", 1)
			if !*r.Valid {
				c.R.Violate(s.caseID, "mock-response-violates-openapi", r.Keyword, map[string]any{"proto": s.proto, "response": s.raw, "validator_error": r.Error})
			}
		}
	}
	nr, reps := lab.RaceReports(c.Scratch + "/race-c20")
	c.R.Count("race_reports", nr)
	for _, r := range reps {
		c.R.Violate("mock/race", "race", firstLines(r, 3), map[string]any{"report": r})
	}
	c.R.Sample(map[string]any{"case": "mock/examples/string/valid", "definition": "string the_value = 1 [(sebuf.http.field_examples) = {values: [\"alpha\", \"beta gamma\", \"δ\"]}]", "invocations": 50})
}

// lookupPath returns every value a dotted path addresses; "*" stands for every list element /
// map value. An absent singular field yields nil; an absent or empty container yields nothing.
func lookupPath(t any, path string) []any {
	cur := []any{t}
	segs := strings.Split(path, ".")
	for si, p := range segs {
		containerNext := si+1 < len(segs) && segs[si+1] == "*" // an absent/empty list or map has no elements to judge
		var next []any
		for _, x := range cur {
			switch v := x.(type) {
			case map[string]any:
				if p == "*" {
					for _, e := range v {
						next = append(next, e)
					}
				} else if e, ok := v[p]; ok {
					next = append(next, e)
				} else if !containerNext {
					next = append(next, nil)
				}
			case []any:
				if p == "*" {
					next = append(next, v...)
				} else {
					next = append(next, nil)
				}
			default:
				next = append(next, nil)
			}
		}
		cur = next
	}
	return cur
}

func normExample(s, kind string) string {
	if s == "<nil>" {
		// absent from the JSON object: proto3 JSON omits a field that holds its default value
		switch kind {
		case "int", "float":
			return "0"
		case "bool":
			return "false"
		}
		return ""
	}
	switch kind {
	case "int":
		if n, err := strconv.ParseInt(strings.Trim(s, `"`), 10, 64); err == nil {
			return strconv.FormatInt(n, 10)
		}
	case "float":
		if f, err := strconv.ParseFloat(strings.Trim(s, `"`), 64); err == nil {
			return strconv.FormatFloat(f, 'g', -1, 64)
		}
	case "bool":
		return strings.ToLower(s)
	}
	return s
}

func keysOf(m map[string]bool) []string {
	var ks []string
	for k := range m {
		ks = append(ks, k)
	}
	return ks
}

var _ protoreflect.FullName
