package checks

import (
	"fmt"
	"strings"

	validate "buf.build/gen/go/bufbuild/protovalidate/protocolbuffers/go/buf/validate"
	"buf.build/go/protovalidate"
	"google.golang.org/protobuf/reflect/protoreflect"
	"google.golang.org/protobuf/types/dynamicpb"

	"verif/internal/lab"
	"verif/internal/oas"
	"verif/internal/plugin"
	"verif/internal/spec"
	"verif/internal/values"
)

// c06rules: bodies of messages whose fields carry buf.validate rules. The document publishes the
// rules as schema keywords, so a body that satisfies the rules (the server's validator lets it
// through to the handler) must still validate against the operation's schema, on the wire, in
// both directions. One service over the C19 rule catalogue, one POST RPC per rule case (the message
// travels as the RPC's top-level message); every probe value that the rules accept is sent and echoed.
func c06rules(c *Ctx, add func(wireSample), docs map[string]any) {
	cat := ruleCatalogue()
	if !c.Thorough() {
		var keep []ruleCase
		for i, rc := range cat {
			if !strings.HasPrefix(rc.ID, "rules/numeric-") || (i+int(c.Seed))%6 == 0 {
				keep = append(keep, rc)
			}
		}
		cat = keep
	}
	pkg := "c06.rules"
	u := buildRuleUnitX(pkg, "c06rules", "RuleBodyService", cat, true)
	structural := addStructuralRuleCases(u.f, pkg)
	l, err := lab.New(c.TB, "c06r")
	if err != nil {
		c.R.Harness(err.Error())
		return
	}
	req, err := spec.Request([]*spec.File{u.f}, nil, "")
	if err != nil {
		c.R.Harness(err.Error())
		return
	}
	reg, _ := spec.Files(req)
	ad, err := l.Add(req, lab.PkgOpt{Plugins: []string{"go-http", "go-client"}})
	if err != nil {
		c.R.Harness(err.Error())
		return
	}
	if ad.Refused != "" {
		c.R.Violate("oasjson/rules/all", "refused", ad.Refused, nil)
		return
	}
	reqJSON, _ := spec.Request([]*spec.File{u.f}, nil, "format=json")
	res := lab.RunDecoy(c.TB, "openapiv3", reqJSON, plugin.RunOpt{})
	c.R.Eval(1)
	if !res.OK() {
		c.R.Violate("oasjson/rules/all", "no-document", res.Crash+res.Error, nil)
		return
	}
	var doc *oas.Doc
	for n, ct := range res.Files {
		d, err := oas.Parse(n, ct)
		if err != nil {
			c.R.Violate("oasjson/rules/all", "unparsable", err.Error(), nil)
			return
		}
		doc = &oas.Doc{Name: d.Name, Root: oas.Strictify(d.Root)}
	}
	if doc == nil {
		c.R.Violate("oasjson/rules/all", "no-document", "no file emitted", nil)
		return
	}
	docs[pkg] = doc.Root
	if un := l.CompileAll(false); un != "" {
		c.R.Harness("unattributed build output: " + firstLines(un, 10))
		return
	}
	if d := emittedDiag(l.Failed["gen/c06rules"]); d != nil {
		c.R.Violate("oasjson/rules/all", "compile", d.Msg, nil)
		return
	}
	bin, err := l.BuildBinary(false)
	if err != nil {
		c.R.Harness(err.Error())
		return
	}
	ch, err := lab.Start(bin, "")
	if err != nil {
		c.R.Harness(err.Error())
		return
	}
	defer ch.Quit()
	svc := pkg + ".RuleBodyService"
	gs, err := serveGo(ch, []string{svc}, "none", false)
	if err != nil {
		c.R.Harness(err.Error())
		return
	}
	defer gs.Stop()
	ops := map[string]oas.Op{}
	for _, op := range doc.Ops() {
		ops[op.OperationID] = op
	}
	v, _ := protovalidate.New()
	calls := 0
	for i, rc := range cat {
		mn := fmt.Sprintf("R%03d", i)
		rpc := fmt.Sprintf("Check%03d", i)
		md := msgDesc(reg, pkg+"."+mn)
		op, ok := ops[rpc]
		if md == nil || !ok {
			c.R.Violate("oasjson/"+rc.ID, "operation-missing", "", nil)
			continue
		}
		fd := md.Fields().ByName("val")
		protoFrag := fmt.Sprintf("message %s (rule case %s) in package %s", mn, rc.ID, pkg)
		type okProbe struct {
			p ruleProbe
			m *dynamicpb.Message
		}
		var oks []okProbe
		for _, p := range rc.Probes {
			m := dynamicpb.NewMessage(md)
			p.Set(m, fd)
			if rc.SkipZero && !m.Has(fd) {
				continue
			}
			if v.Validate(m) != nil {
				continue // the rules reject it: the server would answer 400
			}
			oks = append(oks, okProbe{p, m})
		}
		if !c.Thorough() && len(oks) > 3 {
			// quick: first, last and one seed-chosen accepted probe in between
			mid := 1 + int(c.Seed+int64(i))%(len(oks)-2)
			oks = []okProbe{oks[0], oks[mid], oks[len(oks)-1]}
		}
		for _, ok := range oks {
			p, m := ok.p, ok.m
			gs.Script(svc+"."+rpc, map[string]any{"resp": b64(wire(m))})
			out, err := callGo(ch, svc, gs.URL, rpc, pkg+"."+mn, wire(m), map[string]any{"ct": "application/json"})
			c.R.Eval(1)
			calls++
			if err != nil {
				c.R.Inconclusive("oasjson/"+rc.ID, "lab-child:"+err.Error())
				return
			}
			for _, e := range out.byKind("wire") {
				if e.Int("status") != 200 {
					c.R.Inconclusive(fmt.Sprintf("oasjson/%s@%s", rc.ID, p.Class), fmt.Sprintf("server answered %d to a body the rule model accepts", e.Int("status")))
					continue
				}
				c06collect(add, e, op, pkg, "oasjson/"+rc.ID, p.Class, protoFrag, md)
			}
		}
	}
	// rules on fields that sit inside a JSON-mapping construct (flattened child, oneof variant, list and map
	// elements, optional scalar): the construct present and absent
	for _, sc := range structural {
		md := msgDesc(reg, pkg+"."+sc.msg)
		op, ok := ops[sc.rpc]
		if md == nil || !ok {
			c.R.Violate("oasjson/rules-in/"+sc.id, "operation-missing", "", nil)
			continue
		}
		for _, val := range sc.values(md) {
			if err := v.Validate(val.M); err != nil {
				c.R.Harness("c06rules structural value rejected by the rule model: " + sc.id + "@" + val.Class + ": " + firstLines(err.Error(), 2))
				continue
			}
			gs.Script(svc+"."+sc.rpc, map[string]any{"resp": b64(wire(val.M))})
			out, err := callGo(ch, svc, gs.URL, sc.rpc, pkg+"."+sc.msg, wire(val.M), map[string]any{"ct": "application/json"})
			c.R.Eval(1)
			calls++
			if err != nil {
				c.R.Inconclusive("oasjson/rules-in/"+sc.id, "lab-child:"+err.Error())
				return
			}
			for _, e := range out.byKind("wire") {
				if e.Int("status") != 200 {
					c.R.Inconclusive(fmt.Sprintf("oasjson/rules-in/%s@%s", sc.id, val.Class), fmt.Sprintf("server answered %d to a body the rule model accepts", e.Int("status")))
					continue
				}
				c06collect(add, e, op, pkg, "oasjson/rules-in/"+sc.id, val.Class, "message "+sc.msg+" of "+pkg, md)
			}
		}
	}
	c.R.Count("rule_body_calls", calls)
}

type structuralRuleCase struct {
	id, msg, rpc string
	values       func(md protoreflect.MessageDescriptor) []values.LMsg
}

// addStructuralRuleCases declares messages whose rule-carrying fields sit inside JSON-mapping constructs
// and one POST RPC per message. Child field names are single words and strings, so the recorded codec
// defects of flatten/oneof children (snake_case keys, numbers for 64-bit) stay out of the picture.
func addStructuralRuleCases(f *spec.File, pkg string) []structuralRuleCase {
	req := true
	strRule := func(minLen uint64, required bool) *validate.FieldRules {
		r := &validate.FieldRules{Type: &validate.FieldRules_String_{String_: &validate.StringRules{MinLen: &minLen}}}
		if required {
			r.Required = &req
		}
		return r
	}
	in := func(m string) string { return "." + pkg + "." + m }
	addr := &spec.Message{Name: "SAddr", Fields: []*spec.Field{spec.F("street", 1, spec.String).With(func(a *spec.Ann) { a.Rules = strRule(2, true) }), spec.F("city", 2, spec.String)}}
	varA := &spec.Message{Name: "SVarA", Fields: []*spec.Field{spec.F("text", 1, spec.String).With(func(a *spec.Ann) { a.Rules = strRule(2, true) })}}
	varB := &spec.Message{Name: "SVarB", Fields: []*spec.Field{spec.F("label", 1, spec.String).With(func(a *spec.Ann) { a.Rules = strRule(1, true) }), spec.F("extra", 2, spec.String)}}
	f.Messages = append(f.Messages, addr, varA, varB)
	var out []structuralRuleCase
	n := 0
	add := func(id string, m *spec.Message, vals func(md protoreflect.MessageDescriptor) []values.LMsg) {
		n++
		m.Name = fmt.Sprintf("S%02d", n)
		rpc := fmt.Sprintf("Struct%02d", n)
		f.Messages = append(f.Messages, m)
		f.Services[0].Methods = append(f.Services[0].Methods, &spec.Method{Name: rpc, In: in(m.Name), Out: in(m.Name), HTTP: &spec.HTTP{Path: fmt.Sprintf("/struct/%02d", n), Verb: 2}})
		out = append(out, structuralRuleCase{id: id, msg: m.Name, rpc: rpc, values: vals})
	}
	setStr := func(m protoreflect.Message, name, val string) {
		m.Set(m.Descriptor().Fields().ByName(protoreflect.Name(name)), protoreflect.ValueOfString(val))
	}
	// absent / present values of a message with one singular message field `child`
	childVals := func(field string, fill func(child protoreflect.Message)) func(md protoreflect.MessageDescriptor) []values.LMsg {
		return func(md protoreflect.MessageDescriptor) []values.LMsg {
			absent := dynamicpb.NewMessage(md)
			setStr(absent, "id", "only-id")
			present := dynamicpb.NewMessage(md)
			setStr(present, "id", "with-child")
			fd := md.Fields().ByName(protoreflect.Name(field))
			switch {
			case fd.IsList():
				for i := 0; i < 2; i++ {
					e := present.Mutable(fd).List().NewElement()
					fill(e.Message())
					present.Mutable(fd).List().Append(e)
				}
			case fd.IsMap():
				e := present.Mutable(fd).Map().NewValue()
				fill(e.Message())
				present.Mutable(fd).Map().Set(protoreflect.ValueOfString("k1").MapKey(), e)
			default:
				fill(present.Mutable(fd).Message())
			}
			return []values.LMsg{{Class: "construct-absent", M: absent}, {Class: "default", M: dynamicpb.NewMessage(md)}, {Class: "construct-present", M: present}}
		}
	}
	fillAddr := func(m protoreflect.Message) { setStr(m, "street", "Main St"); setStr(m, "city", "Ulm") }
	idf := func() *spec.Field { return spec.F("id", 1, spec.String) }
	add("flatten-child+prefix/required", &spec.Message{Fields: []*spec.Field{idf(), spec.FM("child", 2, in("SAddr")).With(func(a *spec.Ann) { a.Flatten = spec.B(true); a.FlattenPrefix = spec.S("ship_") }), spec.F("note", 3, spec.String)}}, childVals("child", fillAddr))
	add("flatten-child/required", &spec.Message{Fields: []*spec.Field{idf(), spec.FM("child", 2, in("SAddr")).With(func(a *spec.Ann) { a.Flatten = spec.B(true) }), spec.F("note", 3, spec.String)}}, childVals("child", fillAddr))
	add("message-field/required", &spec.Message{Fields: []*spec.Field{idf(), spec.FM("child", 2, in("SAddr"))}}, childVals("child", fillAddr))
	add("optional-message-field/required", &spec.Message{Fields: []*spec.Field{idf(), spec.FM("child", 2, in("SAddr")).Opt()}}, childVals("child", fillAddr))
	add("repeated-message/required", &spec.Message{Fields: []*spec.Field{idf(), spec.FM("child", 2, in("SAddr")).Rep()}}, childVals("child", fillAddr))
	add("map-message/required", &spec.Message{Fields: []*spec.Field{idf(), spec.FM("child", 2, in("SAddr")).MapOf(spec.String)}}, childVals("child", fillAddr))
	for _, flat := range []bool{true, false} {
		label := map[bool]string{true: "oneof-flatten-variant/required", false: "oneof-nested-variant/required"}[flat]
		add(label, &spec.Message{Oneofs: []*spec.Oneof{{Name: "kind", HasConfig: true, Discriminator: "type", Flatten: flat}},
			Fields: []*spec.Field{idf(), spec.FM("a", 2, in("SVarA")).In(1), spec.FM("b", 3, in("SVarB")).In(1)}},
			func(md protoreflect.MessageDescriptor) []values.LMsg {
				none := dynamicpb.NewMessage(md)
				setStr(none, "id", "no-variant")
				a := dynamicpb.NewMessage(md)
				setStr(a, "id", "variant-a")
				setStr(a.Mutable(md.Fields().ByName("a")).Message(), "text", "hello")
				b := dynamicpb.NewMessage(md)
				setStr(b, "id", "variant-b")
				setStr(b.Mutable(md.Fields().ByName("b")).Message(), "label", "L")
				return []values.LMsg{{Class: "no-variant", M: none}, {Class: "default", M: dynamicpb.NewMessage(md)}, {Class: "variant-a", M: a}, {Class: "variant-b", M: b}}
			})
	}
	add("optional-scalar/min_len", &spec.Message{Fields: []*spec.Field{idf(), spec.F("nick", 2, spec.String).Opt().With(func(a *spec.Ann) { a.Rules = strRule(3, false) })}},
		func(md protoreflect.MessageDescriptor) []values.LMsg {
			unset := dynamicpb.NewMessage(md)
			setStr(unset, "id", "no-nick")
			set := dynamicpb.NewMessage(md)
			setStr(set, "id", "nick")
			setStr(set, "nick", "abcd")
			return []values.LMsg{{Class: "unset", M: unset}, {Class: "set", M: set}}
		})
	add("nullable-scalar/min_len", &spec.Message{Fields: []*spec.Field{idf(), spec.F("nick", 2, spec.String).Opt().With(func(a *spec.Ann) { a.Rules = strRule(3, false); a.Nullable = spec.B(true) })}},
		func(md protoreflect.MessageDescriptor) []values.LMsg {
			unset := dynamicpb.NewMessage(md)
			setStr(unset, "id", "no-nick")
			set := dynamicpb.NewMessage(md)
			setStr(set, "id", "nick")
			setStr(set, "nick", "abcd")
			return []values.LMsg{{Class: "unset", M: unset}, {Class: "set", M: set}}
		})
	return out
}
