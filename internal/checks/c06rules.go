package checks

import (
	"fmt"
	"strings"

	"buf.build/go/protovalidate"
	"google.golang.org/protobuf/types/dynamicpb"

	"verif/internal/lab"
	"verif/internal/oas"
	"verif/internal/plugin"
	"verif/internal/spec"
)

// c06rules: bodies of messages whose fields carry buf.validate rules. The document publishes the
// rules as schema keywords, so a body that satisfies the rules (the server's validator lets it
// through to the handler) must still validate against the operation's schema, on the wire, in
// both directions. One service over the C19 rule catalogue, one POST RPC per rule case (the message
// travels as the RPC's top-level message); every probe value that the rules accept is sent and echoed.
func c06rules(c *Ctx, add func(wireSample), docs map[string]any) {
	cat := ruleCatalogue()
	if !c.Thorough() {
		var keep []ruleCase
		for i, rc := range cat {
			if !strings.HasPrefix(rc.ID, "rules/numeric-") || (i+int(c.Seed))%6 == 0 {
				keep = append(keep, rc)
			}
		}
		cat = keep
	}
	pkg := "c06.rules"
	u := buildRuleUnitX(pkg, "c06rules", "RuleBodyService", cat, true)
	l, err := lab.New(c.TB, "c06r")
	if err != nil {
		c.R.Harness(err.Error())
		return
	}
	req, err := spec.Request([]*spec.File{u.f}, nil, "")
	if err != nil {
		c.R.Harness(err.Error())
		return
	}
	reg, _ := spec.Files(req)
	ad, err := l.Add(req, lab.PkgOpt{Plugins: []string{"go-http", "go-client"}})
	if err != nil {
		c.R.Harness(err.Error())
		return
	}
	if ad.Refused != "" {
		c.R.Violate("oasjson/rules/all", "refused", ad.Refused, nil)
		return
	}
	reqJSON, _ := spec.Request([]*spec.File{u.f}, nil, "format=json")
	res := lab.RunDecoy(c.TB, "openapiv3", reqJSON, plugin.RunOpt{})
	c.R.Eval(1)
	if !res.OK() {
		c.R.Violate("oasjson/rules/all", "no-document", res.Crash+res.Error, nil)
		return
	}
	var doc *oas.Doc
	for n, ct := range res.Files {
		d, err := oas.Parse(n, ct)
		if err != nil {
			c.R.Violate("oasjson/rules/all", "unparsable", err.Error(), nil)
			return
		}
		doc = &oas.Doc{Name: d.Name, Root: oas.Strictify(d.Root)}
	}
	if doc == nil {
		c.R.Violate("oasjson/rules/all", "no-document", "no file emitted", nil)
		return
	}
	docs[pkg] = doc.Root
	if un := l.CompileAll(false); un != "" {
		c.R.Harness("unattributed build output: " + firstLines(un, 10))
		return
	}
	if d := emittedDiag(l.Failed["gen/c06rules"]); d != nil {
		c.R.Violate("oasjson/rules/all", "compile", d.Msg, nil)
		return
	}
	bin, err := l.BuildBinary(false)
	if err != nil {
		c.R.Harness(err.Error())
		return
	}
	ch, err := lab.Start(bin, "")
	if err != nil {
		c.R.Harness(err.Error())
		return
	}
	defer ch.Quit()
	svc := pkg + ".RuleBodyService"
	gs, err := serveGo(ch, []string{svc}, "none", false)
	if err != nil {
		c.R.Harness(err.Error())
		return
	}
	defer gs.Stop()
	ops := map[string]oas.Op{}
	for _, op := range doc.Ops() {
		ops[op.OperationID] = op
	}
	v, _ := protovalidate.New()
	calls := 0
	for i, rc := range cat {
		mn := fmt.Sprintf("R%03d", i)
		rpc := fmt.Sprintf("Check%03d", i)
		md := msgDesc(reg, pkg+"."+mn)
		op, ok := ops[rpc]
		if md == nil || !ok {
			c.R.Violate("oasjson/"+rc.ID, "operation-missing", "", nil)
			continue
		}
		fd := md.Fields().ByName("val")
		protoFrag := fmt.Sprintf("message %s (rule case %s) in package %s", mn, rc.ID, pkg)
		type okProbe struct {
			p ruleProbe
			m *dynamicpb.Message
		}
		var oks []okProbe
		for _, p := range rc.Probes {
			m := dynamicpb.NewMessage(md)
			p.Set(m, fd)
			if rc.SkipZero && !m.Has(fd) {
				continue
			}
			if v.Validate(m) != nil {
				continue // the rules reject it: the server would answer 400
			}
			oks = append(oks, okProbe{p, m})
		}
		if !c.Thorough() && len(oks) > 3 {
			// quick: first, last and one seed-chosen accepted probe in between
			mid := 1 + int(c.Seed+int64(i))%(len(oks)-2)
			oks = []okProbe{oks[0], oks[mid], oks[len(oks)-1]}
		}
		for _, ok := range oks {
			p, m := ok.p, ok.m
			gs.Script(svc+"."+rpc, map[string]any{"resp": b64(wire(m))})
			out, err := callGo(ch, svc, gs.URL, rpc, pkg+"."+mn, wire(m), map[string]any{"ct": "application/json"})
			c.R.Eval(1)
			calls++
			if err != nil {
				c.R.Inconclusive("oasjson/"+rc.ID, "lab-child:"+err.Error())
				return
			}
			for _, e := range out.byKind("wire") {
				if e.Int("status") != 200 {
					c.R.Inconclusive(fmt.Sprintf("oasjson/%s@%s", rc.ID, p.Class), fmt.Sprintf("server answered %d to a body the rule model accepts", e.Int("status")))
					continue
				}
				c06collect(add, e, op, pkg, "oasjson/"+rc.ID, p.Class, protoFrag, md)
			}
		}
	}
	c.R.Count("rule_body_calls", calls)
}
