package checks

import (
	"fmt"
	"strings"

	"google.golang.org/protobuf/proto"
	"google.golang.org/protobuf/reflect/protoreflect"
	"google.golang.org/protobuf/types/dynamicpb"

	"verif/internal/lab"
	"verif/internal/spec"
)

// c02seq: URL binding over SEQUENCES of requests on one route of one server process. The value a
// handler sees for a URL-bound field is a function of the request's own URL: not of what an
// earlier request on the route carried, whether that one was accepted, rejected half-way through
// binding (an early parameter fine, a later one not convertible) or rejected for its body.
//
// Routes have several URL-bound fields of different kinds and cardinalities (repeated ones
// accumulate visibly), two routes share one request message under path-variable sets of
// different size. Every sequence is replayed several times on the same server (an object reused
// between requests is not reused deterministically).
type c02seqUnit struct {
	pkg     string
	f       *spec.File
	reg     interface{ FindDescriptorByName(protoreflect.FullName) (protoreflect.Descriptor, error) }
	refused string
}

type c02seqRoute struct {
	rpc, verb, tmpl, in string
	pathVars           []string
}

func c02seqRoutes() []c02seqRoute {
	return []c02seqRoute{
		{"Search", "GET", "/seq/search", "SearchReq", nil},
		{"Purge", "DELETE", "/seq/search", "SearchReq", nil},
		{"Submit", "POST", "/seq/search", "SubmitReq", nil},
		{"PutItem", "PUT", "/seq/orgs/{org_id}/items/{item_id}", "ItemReq", []string{"org_id", "item_id"}},
		{"PatchItem", "PATCH", "/seq/items/{item_id}", "ItemReq", []string{"item_id"}},
	}
}

func c02seqAdd(c *Ctx, l *lab.Lab) *c02seqUnit {
	pkg := "c02.seq"
	f := &spec.File{Path: "c02/seq.proto", Package: pkg, GoImport: "lab/gen/c02seq", GoName: "c02seq"}
	f.Messages = []*spec.Message{
		{Name: "SearchReq", Fields: []*spec.Field{spec.F("tag", 1, spec.String).Rep().Q("tag"), spec.F("q", 2, spec.String).Q("q"), spec.F("ref", 3, spec.Int64).Rep().Q("ref"),
			spec.F("flag", 4, spec.Bool).Q("flag"), spec.F("limit", 5, spec.Int32).Q("limit")}},
		{Name: "SubmitReq", Fields: []*spec.Field{spec.F("tag", 1, spec.String).Rep().Q("tag"), spec.F("q", 2, spec.String).Q("q"), spec.F("ref", 3, spec.Int64).Rep().Q("ref"),
			spec.F("flag", 4, spec.Bool).Q("flag"), spec.F("limit", 5, spec.Int32).Q("limit"), spec.F("note", 6, spec.String)}},
		{Name: "ItemReq", Fields: []*spec.Field{spec.F("org_id", 1, spec.String), spec.F("item_id", 2, spec.String), spec.F("tag", 3, spec.String).Rep().Q("tag"),
			spec.F("limit", 4, spec.Int32).Q("limit"), spec.F("note", 5, spec.String)}},
		{Name: "SeqResp", Fields: []*spec.Field{spec.F("ok", 1, spec.Bool)}},
	}
	svc := &spec.Service{Name: "SeqService", BasePath: spec.S("/seq")}
	for _, rt := range c02seqRoutes() {
		svc.Methods = append(svc.Methods, &spec.Method{Name: rt.rpc, In: "." + pkg + "." + rt.in, Out: "." + pkg + ".SeqResp", HTTP: &spec.HTTP{Path: strings.TrimPrefix(rt.tmpl, "/seq"), Verb: spec.Verb(rt.verb)}})
	}
	f.Services = []*spec.Service{svc}
	req, err := spec.Request([]*spec.File{f}, nil, "")
	if err != nil {
		c.R.Harness(err.Error())
		return nil
	}
	reg, _ := spec.Files(req)
	ad, err := l.Add(req, lab.PkgOpt{Plugins: []string{"go-http"}, Tag: pkg})
	if err != nil {
		c.R.Harness(err.Error())
		return nil
	}
	return &c02seqUnit{pkg: pkg, f: f, reg: reg, refused: ad.Refused}
}

// c02seqReq is one request of a sequence: URL values per field (in URL order), body variant.
type c02seqReq struct {
	query   [][2]string       // key, raw value (query parameters in this order)
	path    map[string]string // path variable -> value
	body    string            // "absent" | "empty" | "protobuf-note" | "json-note" | "json-malformed"
	invalid bool              // the server must answer 400 and not enter the handler
}

func (u *c02seqUnit) run(c *Ctx, l *lab.Lab, ch *lab.Child) {
	if u == nil {
		return
	}
	protoText := u.f.Proto()
	if u.refused != "" || len(l.Failed["gen/c02seq"]) > 0 {
		if d := emittedDiag(l.Failed["gen/c02seq"]); d != nil {
			c.R.Violate("bind/go/sequence/all", "compile", d.Msg, map[string]any{"proto": protoText})
		} else {
			c.R.Violate("bind/go/sequence/all", "refused", u.refused, map[string]any{"proto": protoText})
		}
		return
	}
	gs, err := serveGo(ch, []string{u.pkg + ".SeqService"}, "none", false)
	if err != nil {
		c.R.Harness("cannot serve: " + err.Error())
		return
	}
	defer gs.Stop()
	reps := 6
	if c.Thorough() {
		reps = 24
	}
	for _, rt := range c02seqRoutes() {
		d, _ := u.reg.FindDescriptorByName(protoreflect.FullName(u.pkg + "." + rt.in))
		md := d.(protoreflect.MessageDescriptor)
		bodyVerb := rt.verb == "POST" || rt.verb == "PUT" || rt.verb == "PATCH"
		full := c02seqReq{path: map[string]string{"org_id": "acme", "item_id": "i-11"}}
		fewer := c02seqReq{path: map[string]string{"org_id": "zeta", "item_id": "i-13"}}
		if rt.in != "ItemReq" {
			full.query = [][2]string{{"tag", "red"}, {"tag", "blue"}, {"q", "lamp"}, {"ref", "11"}, {"ref", "12"}, {"flag", "true"}, {"limit", "50"}}
			fewer.query = [][2]string{{"tag", "green"}, {"ref", "13"}}
		} else {
			full.query = [][2]string{{"tag", "red"}, {"tag", "blue"}, {"limit", "50"}}
			fewer.query = [][2]string{{"tag", "green"}}
		}
		// the same URL with its LAST bound parameter not convertible: everything before it binds first
		halfBound := full
		halfBound.query = append(append([][2]string{}, full.query[:len(full.query)-1]...), [2]string{"limit", "many"})
		halfBound.invalid = true
		badBody := full
		badBody.body, badBody.invalid = "json-malformed", true
		type seq struct {
			id    string
			first c02seqReq
		}
		seqs := []seq{{"half-bound-rejected-then-fewer", halfBound}, {"accepted-then-fewer", full}}
		if bodyVerb {
			seqs = append(seqs, seq{"body-rejected-then-fewer", badBody})
		}
		// second requests carry no body content: with a non-empty body the Go server loses URL-bound fields on
		// the unchanged tree (recorded: body-bind-resets-url-fields), which would hide what this sequence is about
		variants := []string{"absent", "empty"}
		for _, sq := range seqs {
			for _, bv := range variants {
				caseID := fmt.Sprintf("bind/go/sequence/%s-%s/%s/second-body=%s", rt.verb, rt.rpc, sq.id, bv)
				if !c.Want(caseID) {
					continue
				}
				second := fewer
				second.body = bv
				ok := true
				for rep := 0; rep < reps && ok; rep++ {
					if !u.send(c, ch, gs, rt, md, sq.first, caseID+"#first", protoText, nil) {
						ok = false
						break
					}
					ok = u.send(c, ch, gs, rt, md, second, caseID, protoText, &sq.first)
				}
				if ok {
					c.R.Decided(caseID)
				}
			}
		}
	}
}

func (u *c02seqUnit) send(c *Ctx, ch *lab.Child, gs *srv, rt c02seqRoute, md protoreflect.MessageDescriptor, rq c02seqReq, caseID, protoText string, earlier *c02seqReq) bool {
	uri := rt.tmpl
	for _, pv := range rt.pathVars {
		uri = strings.Replace(uri, "{"+pv+"}", rq.path[pv], 1)
	}
	var qs []string
	for _, kv := range rq.query {
		qs = append(qs, kv[0]+"="+kv[1])
	}
	if len(qs) > 0 {
		uri += "?" + strings.Join(qs, "&")
	}
	// model of the handler-visible message
	want := dynamicpb.NewMessage(md)
	for _, pv := range rt.pathVars {
		want.Set(md.Fields().ByName(protoreflect.Name(pv)), protoreflect.ValueOfString(rq.path[pv]))
	}
	for _, kv := range rq.query {
		fd := md.Fields().ByName(protoreflect.Name(kv[0]))
		var v protoreflect.Value
		switch fd.Kind() {
		case protoreflect.StringKind:
			v = protoreflect.ValueOfString(kv[1])
		case protoreflect.BoolKind:
			v = protoreflect.ValueOfBool(kv[1] == "true")
		case protoreflect.Int32Kind:
			var n int32
			if _, err := fmt.Sscan(kv[1], &n); err != nil {
				continue
			}
			v = protoreflect.ValueOfInt32(n)
		case protoreflect.Int64Kind:
			var n int64
			fmt.Sscan(kv[1], &n)
			v = protoreflect.ValueOfInt64(n)
		}
		if fd.IsList() {
			want.Mutable(fd).List().Append(v)
		} else {
			want.Set(fd, v)
		}
	}
	var hdr [][2]string
	var body []byte
	bodyVerb := rt.verb == "POST" || rt.verb == "PUT" || rt.verb == "PATCH"
	note := md.Fields().ByName("note")
	switch rq.body {
	case "empty":
		hdr = append(hdr, [2]string{"Content-Type", "application/json"})
		body = []byte{}
	case "protobuf-note":
		o := dynamicpb.NewMessage(md)
		o.Set(note, protoreflect.ValueOfString("from-body"))
		hdr = append(hdr, [2]string{"Content-Type", "application/x-protobuf"})
		body = wire(o)
		want.Set(note, protoreflect.ValueOfString("from-body"))
	case "json-note":
		hdr = append(hdr, [2]string{"Content-Type", "application/json"})
		body = []byte(`{"note":"from-body"}`)
		want.Set(note, protoreflect.ValueOfString("from-body"))
	case "json-malformed":
		hdr = append(hdr, [2]string{"Content-Type", "application/json"})
		body = []byte(`{"note": "unterminated`)
	}
	_ = bodyVerb
	resp, err := rawHTTP(rt.verb, gs.URL, uri, hdr, body)
	c.R.Eval(1)
	if err != nil {
		transportFailure(c, ch, nil, caseID, err, map[string]any{"uri": uri})
		return false
	}
	evs, serr := syncEvents(ch)
	if serr != nil {
		c.R.Inconclusive(caseID, "sync:"+serr.Error())
		return false
	}
	var handlers []lab.Event
	for _, e := range evs {
		switch e.Str("ev") {
		case "handler":
			handlers = append(handlers, e)
		case "panic":
			c.R.Violate(caseID, "panic", e.Str("value"), map[string]any{"proto": protoText, "request": rt.verb + " " + uri, "stack": e.Str("stack")})
			return false
		}
	}
	rp := map[string]any{"proto": protoText, "request": rt.verb + " " + uri, "request_headers": hdr, "request_body": string(body), "status": resp.Status, "response_body": string(resp.Body)}
	if earlier != nil {
		var qs []string
		for _, kv := range earlier.query {
			qs = append(qs, kv[0]+"="+kv[1])
		}
		rp["earlier_request_on_the_route"] = map[string]any{"query": strings.Join(qs, "&"), "path": earlier.path, "body": earlier.body, "rejected": earlier.invalid}
	}
	if rq.invalid {
		if len(handlers) > 0 {
			c.R.Violate(caseID, "handler-reached-with-invalid-request", "", rp)
			return false
		}
		if resp.Status != 400 {
			c.R.Violate(caseID, "status", fmt.Sprintf("st%d", resp.Status), rp)
			return false
		}
		return true
	}
	if len(handlers) != 1 {
		c.R.Violate(caseID, "handler-not-reached", fmt.Sprintf("st%d", resp.Status), rp)
		return false
	}
	got := dynamicpb.NewMessage(md)
	if err := proto.Unmarshal(unb64(handlers[0].Str("req")), got); err != nil {
		c.R.Harness("bad handler wire")
		return false
	}
	if !proto.Equal(got, want) {
		// name the first field that differs
		which := ""
		for i := 0; i < md.Fields().Len(); i++ {
			fd := md.Fields().Get(i)
			a, b := dynamicpb.NewMessage(md), dynamicpb.NewMessage(md)
			if got.Has(fd) {
				a.Set(fd, got.Get(fd))
			}
			if want.Has(fd) {
				b.Set(fd, want.Get(fd))
			}
			if !proto.Equal(a, b) {
				which = string(fd.Name())
				break
			}
		}
		rp["handler_saw"] = fmt.Sprint(got)
		rp["expected"] = fmt.Sprint(want)
		c.R.Violate(caseID, "url-value-not-delivered", which, rp)
		return false
	}
	return true
}
