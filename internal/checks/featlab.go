package checks

import (
	"encoding/base64"
	"fmt"
	"path/filepath"
	"runtime/debug"
	"sort"
	"strings"
	"sync"
	"time"

	"google.golang.org/protobuf/proto"
	"google.golang.org/protobuf/reflect/protoreflect"
	"google.golang.org/protobuf/reflect/protoregistry"
	"google.golang.org/protobuf/types/pluginpb"

	"verif/internal/corpus"
	"verif/internal/lab"
	"verif/internal/plugin"
	"verif/internal/spec"
)

// variant of a feature package: which plugins write into it.
type variant struct {
	Tag     string
	Plugins []string
	Mock    bool
}

// featUnit is one (feature, variant) package.
type featUnit struct {
	FP      *corpus.FeaturePkg
	V       variant
	Req     *pluginpb.CodeGeneratorRequest
	Reg     *protoregistry.Files
	Added   *lab.Added
	Dir     string
	Refused string // plugin refused/crashed
	Diags   []lab.BuildError
}

func (u *featUnit) OK() bool { return u.Refused == "" && len(u.Diags) == 0 }

// Msg finds a message descriptor in the unit's registry.
func (u *featUnit) Msg(full string) protoreflect.MessageDescriptor {
	d, err := u.Reg.FindDescriptorByName(protoreflect.FullName(full))
	if err != nil {
		return nil
	}
	md, _ := d.(protoreflect.MessageDescriptor)
	return md
}

type featLab struct {
	L     *lab.Lab
	Units map[string][]*featUnit // feature id -> units in variant order
	Feats []corpus.Feature
	Bin   string
}

// buildFeatureLab concretises features into packages (one per feature and variant), runs
// plugins, compiles, and builds the lab binary from the packages that compile.
func buildFeatureLab(c *Ctx, family string, feats []corpus.Feature, variants []variant, withSvc bool, contexts []string, race bool) (*featLab, error) {
	l, err := lab.New(c.TB, family)
	if err != nil {
		return nil, err
	}
	fl := &featLab{L: l, Units: map[string][]*featUnit{}, Feats: feats}
	type job struct {
		u *featUnit
	}
	var jobs []job
	for i, f := range feats {
		// same names for all variants of a feature: derive the name rng from the feature id
		base := corpus.BuildFeaturePkg(f, i, family, variants[0].Tag, corpus.NewNames(c.Rng("names:"+f.ID)), withSvc, contexts)
		for vi, v := range variants {
			fp := base
			if vi > 0 {
				fp = corpus.BuildFeaturePkg(f, i, family, v.Tag, corpus.NewNames(c.Rng("names:"+f.ID)), withSvc, contexts)
			}
			u := &featUnit{FP: fp, V: v}
			fl.Units[f.ID] = append(fl.Units[f.ID], u)
			jobs = append(jobs, job{u})
		}
	}
	var mu sync.Mutex
	var firstErr error
	plugin.Parallel(len(jobs), 16, func(i int) {
		u := jobs[i].u
		req, err := spec.Request([]*spec.File{u.FP.File}, nil, "")
		if err == nil {
			u.Req = req
			u.Reg, err = spec.Files(req)
		}
		if err == nil {
			u.Added, err = l.Add(req, lab.PkgOpt{Plugins: u.V.Plugins, Mock: u.V.Mock, Tag: u.FP.Feat.ID + "#" + u.V.Tag})
		}
		if err != nil {
			mu.Lock()
			if firstErr == nil {
				firstErr = fmt.Errorf("feature %s: %w", u.FP.Feat.ID, err)
			}
			mu.Unlock()
			return
		}
		u.Refused = u.Added.Refused
		u.Dir = filepath.Join("gen", u.FP.File.GoName)
	})
	if firstErr != nil {
		return nil, firstErr
	}
	c.R.Eval(len(jobs))
	if un := l.CompileAll(false); un != "" {
		return nil, fmt.Errorf("unattributed build output: %s", firstLines(un, 12))
	}
	for dir, diags := range l.Failed {
		for _, d := range diags {
			if strings.HasSuffix(d.File, "_zz_glue.go") || strings.HasPrefix(d.File, "labrt/") {
				// might be a follow-up of an error in emitted code (e.g. missing type); only a
				// glue-only failure is a harness fault
				continue
			}
		}
		_ = dir
	}
	for _, us := range fl.Units {
		for _, u := range us {
			u.Diags = l.Failed[u.Dir]
			if len(u.Diags) > 0 {
				onlyGlue := true
				for _, d := range u.Diags {
					if !strings.HasSuffix(d.File, "_zz_glue.go") {
						onlyGlue = false
					}
				}
				if onlyGlue {
					return nil, fmt.Errorf("glue does not compile for %s: %s", u.FP.Feat.ID, u.Diags[0].Msg)
				}
			}
		}
	}
	bin, err := l.BuildBinary(race)
	if err != nil {
		return nil, err
	}
	fl.Bin = bin
	return fl, nil
}

func firstLines(s string, n int) string {
	ls := strings.Split(s, "\n")
	if len(ls) > n {
		ls = ls[:n]
	}
	return strings.Join(ls, "\n")
}

// emittedDiag returns the first diagnostic located in a plugin-emitted file.
func emittedDiag(diags []lab.BuildError) *lab.BuildError {
	for i := range diags {
		if !strings.HasSuffix(diags[i].File, "_zz_glue.go") && !strings.HasSuffix(diags[i].File, ".pb.go") {
			continue
		}
		if strings.HasSuffix(diags[i].File, "_zz_glue.go") {
			continue
		}
		return &diags[i]
	}
	if len(diags) > 0 {
		return &diags[0]
	}
	return nil
}

// pool runs work items over n children of the lab binary.
type pool struct {
	children []*lab.Child
	raceLog  string
	mu       sync.Mutex
	Panics   []string // driver-side panics in work items (harness faults)
}

func startPool(bin string, n int, raceLog string, env ...string) (*pool, error) {
	p := &pool{raceLog: raceLog}
	for i := 0; i < n; i++ {
		ch, err := lab.Start(bin, raceLog, env...)
		if err != nil {
			p.Close()
			return nil, err
		}
		p.children = append(p.children, ch)
	}
	return p, nil
}

func (p *pool) Close() {
	for _, ch := range p.children {
		ch.Quit()
	}
}

// Each distributes items over children; fn gets the child and item index. If a child dies,
// fn's error ErrDead is surfaced to the caller via died().
func (p *pool) Each(n int, fn func(ch *lab.Child, i int)) {
	var wg sync.WaitGroup
	next := make(chan int)
	for _, ch := range p.children {
		wg.Add(1)
		go func(ch *lab.Child) {
			defer wg.Done()
			for i := range next {
				func() {
					defer func() {
						if r := recover(); r != nil {
							p.mu.Lock()
							p.Panics = append(p.Panics, fmt.Sprintf("%v\n%s", r, debug.Stack()))
							p.mu.Unlock()
						}
					}()
					fn(ch, i)
				}()
			}
		}(ch)
	}
	for i := 0; i < n; i++ {
		next <- i
	}
	close(next)
	wg.Wait()
}

func b64(b []byte) string { return base64.StdEncoding.EncodeToString(b) }
func unb64(s string) []byte {
	b, _ := base64.StdEncoding.DecodeString(s)
	return b
}

var idSeq struct {
	sync.Mutex
	n int
}

func newID(prefix string) string {
	idSeq.Lock()
	idSeq.n++
	n := idSeq.n
	idSeq.Unlock()
	return fmt.Sprintf("%s%d", prefix, n)
}

// codec runs one codec op in a child.
func codec(ch *lab.Child, typ, dir string, in []byte) (out []byte, errText string, custom bool, panicked string, err error) {
	id := newID("k")
	_, ev, e := ch.Do(map[string]any{"op": "codec", "id": id, "type": typ, "dir": dir, "in": b64(in)}, 30*time.Second, "codec_out")
	if e != nil {
		return nil, "", false, "", e
	}
	if h := ev.Str("harness"); h != "" {
		return nil, "", false, "", fmt.Errorf("harness: %s", h)
	}
	custom, _ = ev["custom"].(bool)
	if p := ev.Str("panic"); p != "" {
		return nil, "", custom, p + "\n" + ev.Str("stack"), nil
	}
	if s := ev.Str("err"); s != "" {
		return nil, s, custom, "", nil
	}
	if ev.Str("ev") == "error" {
		return nil, "", custom, "", fmt.Errorf("child error: %s", ev.Str("err"))
	}
	return unb64(ev.Str("out")), "", custom, "", nil
}

func wire(m proto.Message) []byte {
	b, _ := proto.MarshalOptions{Deterministic: true}.Marshal(m)
	return b
}

func sortedFeatIDs(m map[string][]*featUnit) []string {
	var ids []string
	for id := range m {
		ids = append(ids, id)
	}
	sort.Strings(ids)
	return ids
}
