package checks

import (
	validate "buf.build/gen/go/bufbuild/protovalidate/protocolbuffers/go/buf/validate"
	"fmt"
	"sort"
	"strings"

	"google.golang.org/protobuf/proto"
	"google.golang.org/protobuf/reflect/protoreflect"
	"google.golang.org/protobuf/types/pluginpb"

	sebufhttp "github.com/SebastienMelki/sebuf/http"

	"verif/internal/corpus"
	"verif/internal/model/jsonmap"
	"verif/internal/oas"
	"verif/internal/plugin"
	"verif/internal/spec"
)

func init() { Registry["C18"] = c18 }

// reachable collects messages reachable from a service's RPC request/response types.
// A reachable message must have a component schema unless the document legitimately inlines
// it: well-known types (rendered as primitives), map entries, messages that only occur as
// flatten children / flattened oneof variants are still referenced by name somewhere in the
// property's sense ("every message reachable from the service's RPCs has a component
// schema"), so they are required too; WKT scalars-as-JSON (Timestamp, Duration, wrappers,
// Struct/Value/…/Any/Empty/FieldMask) are exempt.
func reachable(sd protoreflect.ServiceDescriptor) map[protoreflect.FullName]protoreflect.MessageDescriptor {
	out := map[protoreflect.FullName]protoreflect.MessageDescriptor{}
	var walk func(md protoreflect.MessageDescriptor)
	walk = func(md protoreflect.MessageDescriptor) {
		if md.IsMapEntry() {
			if v := md.Fields().ByNumber(2); v.Message() != nil {
				walk(v.Message())
			}
			return
		}
		if md.ParentFile().Package() == "google.protobuf" {
			return
		}
		if _, ok := out[md.FullName()]; ok {
			return
		}
		out[md.FullName()] = md
		for i := 0; i < md.Fields().Len(); i++ {
			if m := md.Fields().Get(i).Message(); m != nil {
				walk(m)
			}
		}
	}
	for i := 0; i < sd.Methods().Len(); i++ {
		walk(sd.Methods().Get(i).Input())
		walk(sd.Methods().Get(i).Output())
	}
	return out
}

// structural OAS 3.1 rules for the parts sebuf emits.
func oasStructure(d *oas.Doc) []string {
	var bad []string
	ver := oas.S(d.Root["openapi"])
	if !strings.HasPrefix(ver, "3.1.") {
		bad = append(bad, "openapi-version")
	}
	info := oas.M(d.Root["info"])
	if info == nil || oas.S(info["title"]) == "" || oas.S(info["version"]) == "" {
		bad = append(bad, "info-title-version")
	}
	if d.Root["paths"] == nil && d.Root["components"] == nil && d.Root["webhooks"] == nil {
		bad = append(bad, "no-paths-components-webhooks")
	}
	for p := range oas.M(d.Root["paths"]) {
		if !strings.HasPrefix(p, "/") {
			bad = append(bad, "path-key-without-leading-slash")
		}
	}
	for _, op := range d.Ops() {
		resps := oas.M(op.Raw["responses"])
		if len(resps) == 0 {
			bad = append(bad, "operation-without-responses")
		}
		for st, r := range resps {
			if st != "default" && !(len(st) == 3 && st[0] >= '1' && st[0] <= '5') {
				bad = append(bad, "bad-status-key")
			}
			if rm := oas.M(d.Deref(r)); rm == nil || oas.S(rm["description"]) == "" {
				bad = append(bad, "response-without-description")
			}
		}
		for _, p := range op.Params {
			if p.Name == "" || (p.In != "path" && p.In != "query" && p.In != "header" && p.In != "cookie") {
				bad = append(bad, "parameter-name-or-in")
			}
			if p.Schema == nil && p.Raw["content"] == nil {
				bad = append(bad, "parameter-without-schema")
			}
			if p.In == "path" && !p.Required {
				bad = append(bad, "path-parameter-not-required")
			}
		}
		if rb := oas.M(d.Deref(op.Raw["requestBody"])); rb != nil && len(oas.M(rb["content"])) == 0 {
			bad = append(bad, "requestbody-without-content")
		}
	}
	// schema objects: "type" must be a string or array of strings; properties an object; required a list of strings present in properties or allOf
	var walk func(v any, path string)
	walk = func(v any, path string) {
		m := oas.M(v)
		if m == nil {
			return
		}
		if t, ok := m["type"]; ok {
			switch tt := t.(type) {
			case string:
				if !validType(tt) {
					bad = append(bad, "schema-type-unknown")
				}
			case []any:
				for _, x := range tt {
					if s, ok := x.(string); !ok || !validType(s) {
						bad = append(bad, "schema-type-unknown")
					}
				}
			default:
				bad = append(bad, "schema-type-not-string")
			}
		}
		if req, ok := m["required"]; ok {
			if l, isList := req.([]any); isList {
				props := oas.M(m["properties"])
				for _, r := range l {
					rs, isStr := r.(string)
					if !isStr {
						bad = append(bad, "required-entry-not-string")
						continue
					}
					if props != nil {
						if _, ok := props[rs]; !ok && m["allOf"] == nil && m["oneOf"] == nil {
							bad = append(bad, "required-names-undeclared-property")
						}
					}
				}
			}
		}
		if e, ok := m["enum"]; ok {
			if _, isList := e.([]any); !isList {
				bad = append(bad, "enum-not-list")
			}
		}
		for k, sub := range m {
			switch k {
			case "properties", "$defs", "patternProperties":
				for pk, pv := range oas.M(sub) {
					walk(pv, path+"/"+k+"/"+pk)
				}
			case "items", "additionalProperties", "not", "if", "then", "else", "contains", "propertyNames":
				walk(sub, path+"/"+k)
			case "allOf", "oneOf", "anyOf", "prefixItems":
				for i, e := range oas.L(sub) {
					walk(e, fmt.Sprintf("%s/%s/%d", path, k, i))
				}
			}
		}
	}
	for n, s := range d.Schemas() {
		walk(s, "/components/schemas/"+n)
	}
	sort.Strings(bad)
	return uniqStr(bad)
}

func validType(t string) bool {
	switch t {
	case "string", "number", "integer", "boolean", "array", "object", "null":
		return true
	}
	return false
}

// c18: each OpenAPI document is well-formed, complete and format-independent.
func c18(c *Ctx) {
	c.R.Rule = "abstract case = (request of the shared corpus + schema-shape probes {same-named nested types, recursive types, 1-3 services per file, imported-file messages, YAML-retyping enum/const strings}) x service x format {default, yaml, yml, json}; " +
		"non-trivial = the emitted document was parsed and walked: refs resolved, path variables vs path parameters matched, (name,in) and operationId uniqueness, reachable-message coverage, OAS 3.1 structure, JSON-vs-YAML tree equality, one document per service"
	c.R.Assume("YAML parsed with sigs.k8s.io/yaml and go.yaml.in/yaml/v4, JSON with encoding/json; OAS 3.1 structural rules hand-written for the subset sebuf emits (official meta-schema unavailable offline)")
	every := 3
	if c.Thorough() {
		every = 1
	}
	cases := l1Corpus(c, "c18", every)
	// extra shape probes
	for _, sc := range descriptorShapes() {
		switch {
		case sc.ID == "nested-types-and-enums", sc.ID == "maps-of-messages", sc.ID == "methods-sharing-types", sc.ID == "well-known-types", sc.ID == "service-without-methods",
			strings.HasPrefix(sc.ID, "recursive/both/") && strings.HasSuffix(sc.ID, "cycle2"), sc.ID == "no-proto-package", sc.ID == "wkt-as-request-response", sc.ID == "empty-messages":
			cases = append(cases, reqCase{ID: "shape/" + sc.ID, Files: sc.Files, Gen: sc.Gen})
		}
	}
	cases = append(cases, yamlRetypeCase(), importedMessagesCase(), threeServicesCase(), yaml11NamesCase(), sameShortNameCase("nested"), sameShortNameCase("top-vs-nested"), sameShortNameCase("imported"), discVariantTypesCase(false), discVariantTypesCase(true), pathVariableSpellingsCase(), paramNameInTwoLocationsCase())
	plugin.Parallel(len(cases), 16, func(i int) {
		rc := cases[i]
		base := "oas/" + rc.ID
		req, err := spec.Request(rc.Files, rc.Gen, "")
		if err != nil {
			c.R.Harness(rc.ID + ": " + err.Error())
			return
		}
		reg, _ := spec.Files(req)
		var protos []string
		for _, f := range rc.Files {
			pr := f.Proto()
			if len(pr) > 8000 {
				pr = pr[:8000] + "\n…"
			}
			protos = append(protos, pr)
		}
		// services of generated files
		var svcs []protoreflect.ServiceDescriptor
		gen := req.FileToGenerate
		for _, p := range gen {
			fd, err := reg.FindFileByPath(p)
			if err != nil {
				continue
			}
			for j := 0; j < fd.Services().Len(); j++ {
				svcs = append(svcs, fd.Services().Get(j))
			}
		}
		trees := map[string]map[string]any{} // format -> service -> tree
		for _, format := range []string{"", "yaml", "yml", "json"} {
			caseID := base + "/format=" + orDefault(format)
			if !c.Want(caseID) {
				continue
			}
			r := proto.Clone(req).(*pluginpb.CodeGeneratorRequest)
			if format != "" {
				r.Parameter = proto.String("format=" + format)
			}
			res := c.TB.Run("openapiv3", r, plugin.RunOpt{})
			c.R.Eval(1)
			rp := func(extra map[string]any) map[string]any {
				m := map[string]any{"protos": protos, "format": format, "files": res.Names()}
				for k, v := range extra {
					m[k] = v
				}
				return m
			}
			if !res.OK() {
				c.R.Violate(caseID, "no-document", res.Crash+res.Error, rp(map[string]any{"stderr": res.Stderr}))
				continue
			}
			// one document per service, distinct names
			for _, o := range res.Order {
				if strings.HasSuffix(o, "#dup") {
					c.R.Violate(caseID, "duplicate-file-name", "", rp(map[string]any{"order": res.Order}))
				}
			}
			if len(res.Files) != len(svcs) {
				c.R.Violate(caseID, "document-count", fmt.Sprintf("documents=%d services=%d", len(res.Files), len(svcs)), rp(nil))
			}
			trees[format] = map[string]any{}
			for name, content := range res.Files {
				wantExt := ".yaml"
				if format == "json" {
					wantExt = ".json"
				}
				if !strings.HasSuffix(name, wantExt) {
					c.R.Violate(caseID, "file-extension", name[strings.LastIndex(name, "."):], rp(nil))
				}
				d, err := oas.Parse(name, content)
				if err != nil {
					c.R.Violate(caseID, "unparsable", err.Error(), rp(map[string]any{"file": name, "content_head": firstLines(content, 30)}))
					continue
				}
				svcName := strings.TrimSuffix(strings.TrimSuffix(name[strings.LastIndex(name, "/")+1:], ".openapi.yaml"), ".openapi.json")
				trees[format][svcName] = d.Root
				if format != "json" {
					// informational: does a YAML 1.1 reader see the same tree? (not a verdict)
					if t11, err := oas.ParseYAML11(content); err != nil || len(jsonmap.Diff(any(d.Root), any(t11))) > 0 {
						c.R.Count("yaml11_readers_would_differ", 1)
					}
				}
				c18doc(c, caseID, d, svcName, svcs, rp)
				c.R.Count("documents_walked", 1)
			}
			c.R.Decided(caseID)
		}
		// JSON vs YAML renderings denote the same document
		for _, yf := range []string{"", "yaml", "yml"} {
			for svc, jt := range trees["json"] {
				yt, ok := trees[yf][svc]
				if !ok {
					continue
				}
				caseID := base + "/json-vs-" + orDefault(yf)
				if diffs := jsonmap.Diff(jt, yt); len(diffs) > 0 {
					c.R.Violate(caseID, "json-yaml-differ", diffs[0].Symptom, map[string]any{"protos": protos, "service": svc, "at": diffs[0].Path, "json": diffs[0].Want, "yaml": diffs[0].Got})
				}
				c.R.Decided(caseID)
			}
		}
		if rc.ID == "multifile/package" {
			c.R.Sample(map[string]any{"case": base, "services": len(svcs), "formats": []string{"default", "yaml", "yml", "json"}})
		}
	})
}

func orDefault(s string) string {
	if s == "" {
		return "default"
	}
	return s
}

func c18doc(c *Ctx, caseID string, d *oas.Doc, svcName string, svcs []protoreflect.ServiceDescriptor, rp func(map[string]any) map[string]any) {
	// refs resolve
	for ref, where := range d.Refs() {
		if _, err := d.Resolve(ref); err != nil {
			c.R.Violate(caseID, "unresolved-ref", refKind(ref), rp(map[string]any{"ref": ref, "at": where}))
		}
	}
	c.R.Count("refs_resolved", len(d.Refs()))
	opIDs := map[string]int{}
	for _, op := range d.Ops() {
		opIDs[op.OperationID]++
		vars := oas.TemplateVars(op.Path)
		seenVar := map[string]int{}
		for _, v := range vars {
			seenVar[v]++
		}
		for v, n := range seenVar {
			if n > 1 {
				c.R.Violate(caseID, "template-variable-repeated", "", rp(map[string]any{"path": op.Path, "var": v}))
			}
		}
		pathParams := map[string]int{}
		nameIn := map[string]int{}
		for _, p := range op.Params {
			nameIn[p.In+":"+p.Name]++
			if p.In == "path" {
				pathParams[p.Name]++
				if !p.Required {
					c.R.Violate(caseID, "path-parameter-not-required", "", rp(map[string]any{"path": op.Path, "param": p.Name}))
				}
			}
		}
		for k, n := range nameIn {
			if n > 1 {
				c.R.Violate(caseID, "duplicate-parameter", strings.SplitN(k, ":", 2)[0], rp(map[string]any{"path": op.Path, "param": k}))
			}
		}
		for v := range seenVar {
			if pathParams[v] != 1 {
				c.R.Violate(caseID, "template-variable-undeclared", fmt.Sprintf("declared %d times", pathParams[v]), rp(map[string]any{"path": op.Path, "var": v}))
			}
		}
		for pn := range pathParams {
			if seenVar[pn] == 0 {
				c.R.Violate(caseID, "path-parameter-not-in-template", "", rp(map[string]any{"path": op.Path, "param": pn}))
			}
		}
		c.R.Count("operations_walked", 1)
	}
	for id, n := range opIDs {
		if n > 1 || id == "" {
			c.R.Violate(caseID, "duplicate-operation-id", "", rp(map[string]any{"operationId": id}))
		}
	}
	for _, b := range oasStructure(d) {
		c.R.Violate(caseID, "oas-structure", b, rp(map[string]any{"document": d.Name}))
	}
	// completeness
	for _, sd := range svcs {
		if string(sd.Name()) != svcName {
			continue
		}
		if sd.Methods().Len() != len(d.Ops()) {
			c.R.Violate(caseID, "operation-count", fmt.Sprintf("rpcs=%d operations=%d", sd.Methods().Len(), len(d.Ops())), rp(map[string]any{"service": svcName}))
		}
		// every operation declares exactly the URL-bound parameters of its own RPC (explicit paths
		// and bodiless verbs only: default paths and query fields on body verbs are C03's findings)
		for i := 0; i < sd.Methods().Len(); i++ {
			m := sd.Methods().Get(i)
			cfg, _ := proto.GetExtension(m.Options(), sebufhttp.E_Config).(*sebufhttp.HttpConfig)
			if cfg == nil || cfg.GetPath() == "" {
				continue
			}
			verb := strings.TrimPrefix(cfg.GetMethod().String(), "HTTP_METHOD_")
			if verb == "UNSPECIFIED" {
				verb = "POST"
			}
			var base *string
			if sc, _ := proto.GetExtension(sd.Options(), sebufhttp.E_ServiceConfig).(*sebufhttp.ServiceConfig); sc != nil && sc.GetBasePath() != "" {
				b := sc.GetBasePath()
				base = &b
			}
			tmpl := corpus.JoinDoc(base, cfg.GetPath())
			wantQ := map[string]bool{}
			for j := 0; j < m.Input().Fields().Len(); j++ {
				if q, _ := proto.GetExtension(m.Input().Fields().Get(j).Options(), sebufhttp.E_Query).(*sebufhttp.QueryConfig); q != nil && q.GetName() != "" {
					wantQ[q.GetName()] = true
				}
			}
			for _, op := range d.Ops() {
				if op.Path != tmpl || op.Verb != verb {
					continue
				}
				if verb != "GET" && verb != "DELETE" {
					continue
				}
				gotQ := map[string]bool{}
				for _, p := range op.Params {
					if p.In == "query" {
						gotQ[p.Name] = true
					}
				}
				if strings.Join(spec.SortedKeys(gotQ), ",") != strings.Join(spec.SortedKeys(wantQ), ",") {
					c.R.Violate(caseID, "query-parameters-differ", "", rp(map[string]any{"rpc": string(m.FullName()), "path": op.Path, "declared_in_document": spec.SortedKeys(gotQ), "annotated_on_request_fields": spec.SortedKeys(wantQ)}))
				}
				c.R.Count("operations_matched_to_rpc", 1)
			}
		}
		schemas := d.Schemas()
		for full, md := range reachable(sd) {
			if _, ok := schemas[string(md.Name())]; ok {
				continue
			}
			// nested names may be qualified differently: accept any schema key that ends with the message name path
			found := false
			rel := strings.TrimPrefix(string(full), string(md.ParentFile().Package())+".")
			for k := range schemas {
				if k == rel || k == strings.ReplaceAll(rel, ".", "_") || k == string(full) || strings.HasSuffix(k, "."+rel) {
					found = true
				}
			}
			if !found {
				kind := "top-level"
				if _, nested := md.Parent().(protoreflect.MessageDescriptor); nested {
					kind = "nested"
				}
				c.R.Violate(caseID, "message-without-schema", kind, rp(map[string]any{"message": string(full), "schemas": spec.SortedKeys(schemas)}))
			}
		}
		// same-named messages (different scopes) must not share one component schema
		byShort := map[string][]string{}
		for full, md := range reachable(sd) {
			byShort[string(md.Name())] = append(byShort[string(md.Name())], string(full))
		}
		for short, fulls := range byShort {
			if len(fulls) > 1 {
				n := 0
				for k := range schemas {
					if k == short || strings.HasSuffix(k, "."+short) || strings.HasSuffix(k, "_"+short) {
						n++
					}
				}
				if n < len(fulls) {
					c.R.Violate(caseID, "same-named-messages-share-schema", "", rp(map[string]any{"short_name": short, "messages": fulls}))
				}
			}
		}
	}
}

func refKind(ref string) string {
	if strings.HasPrefix(ref, "#/components/schemas/") {
		return "schema"
	}
	return "other"
}

func yamlRetypeCase() reqCase {
	pkg := "c18.yamlretype"
	f := &spec.File{Path: "c18/yamlretype.proto", Package: pkg, GoImport: "lab/gen/c18y", GoName: "c18y"}
	vals := []string{"yes", "no", "null", "012", "1e3", "~", "true", "0x1F", "1_000", "on", ".inf", "2024-01-01", ""}
	e := &spec.EnumDef{Name: "Tricky"}
	for i, v := range vals {
		ev := spec.EnumValue{Name: fmt.Sprintf("TRICKY_%d", i), Num: int32(i)}
		if v != "" {
			ev.JSON = spec.S(v)
		}
		e.Values = append(e.Values, ev)
	}
	f.Enums = []*spec.EnumDef{e}
	f.Messages = []*spec.Message{{Name: "YReq", Comment: "yes: no # not a comment", Fields: []*spec.Field{
		spec.FE("tricky", 1, "."+pkg+".Tricky"),
		spec.F("code", 2, spec.String).With(func(a *spec.Ann) { a.Examples = []string{"012", "null", "yes", "1e3"} }),
	}}}
	f.Services = []*spec.Service{{Name: "YamlService", Comment: "key: value", Headers: []spec.Header{{Name: "X-Mode", Type: "string", Example: "yes", Description: "on: off"}},
		Methods: []*spec.Method{{Name: "Call", In: "." + pkg + ".YReq", Out: "." + pkg + ".YReq", HTTP: &spec.HTTP{Path: "/y", Verb: 2}, Comment: "- list item looking: [a, b]"}}}}
	return reqCase{ID: "yaml-retyping", Files: []*spec.File{f}}
}

// examplesByKindCases: field_examples texts that spell special values of the field's own kind (the
// proto3-JSON spellings of the non-finite floats, padded and signed numbers, boolean words, numbers
// beyond the kind's range) on singular, repeated, map-value and NUMBER-encoded fields of every scalar
// kind: both renderings must exist and denote the same document whatever the texts are.
func examplesByKindCases() []reqCase {
	groups := []struct {
		id    string
		texts []string
	}{
		{"non-finite-words", []string{"NaN", "Infinity", "-Infinity"}},
		{"non-finite-short-words", []string{"Inf", "+Inf", "-inf", "nan", "INFINITY"}},
		{"padded-and-signed-numbers", []string{" 12 ", "+5", "-0", "007", "1e2", "1.50"}},
		{"out-of-range-numbers", []string{"1e400", "-1e400", "99999999999999999999", "-99999999999999999999", "4294967296", "1e-400"}},
		{"boolean-words", []string{"TRUE", "t", "F", "1", "0", "True"}},
		// whole numbers between 2^63 and 2^64 that no double represents exactly (hashes, trace ids, the uint64 maximum)
		{"above-int64-integers", []string{"18446744073709551615", "9223372036854775808", "14695981039346656037", "17293822569102704643"}},
		{"int64-edges", []string{"9223372036854775807", "-9223372036854775808", "9007199254740993", "-9007199254740993"}},
		// digits with a leading zero: postal codes, phone prefixes, account numbers (not octal when they hold 8 or 9,
		// not an integer when longer than 64 bits)
		{"zero-led-digit-strings", []string{"08901", "0049", "0800", "0012345678901234567890", "09", "00", "0777"}},
		{"ordinary", []string{"1", "2.5", "true", "abc"}},
	}
	var out []reqCase
	for gi, g := range groups {
		pkg := fmt.Sprintf("c18.exk%d", gi)
		f := &spec.File{Path: fmt.Sprintf("c18/exk%d.proto", gi), Package: pkg, GoImport: fmt.Sprintf("lab/gen/c18exk%d", gi), GoName: fmt.Sprintf("c18exk%d", gi)}
		m := &spec.Message{Name: "Sample"}
		num := int32(1)
		for _, k := range spec.ScalarKinds {
			kn := strings.ToLower(spec.KindName(k))
			texts := g.texts
			add := func(fl *spec.Field) {
				fl.Ann.Examples = append([]string(nil), texts...)
				m.Fields = append(m.Fields, fl)
				num++
			}
			add(spec.F("one_"+kn, num, k))
			add(spec.F("many_"+kn, num, k).Rep())
			add(spec.F("by_key_"+kn, num, k).MapOf(spec.String))
			add(spec.F("maybe_"+kn, num, k).Opt())
			switch k {
			case spec.Int64, spec.Sint64, spec.Sfixed64, spec.Uint64, spec.Fixed64:
				add(spec.F("number_"+kn, num, k).With(func(a *spec.Ann) { a.Int64Enc = 2 }))
			}
		}
		// the same texts as a header example and as the members of a string `in` rule
		m.Fields = append(m.Fields, spec.F("picked", num, spec.String).With(func(a *spec.Ann) {
			a.Rules = &validate.FieldRules{Type: &validate.FieldRules_String_{String_: &validate.StringRules{In: append([]string(nil), g.texts...)}}}
		}))
		f.Messages = []*spec.Message{m}
		f.Services = []*spec.Service{{Name: fmt.Sprintf("ExampleKind%dService", gi), Headers: []spec.Header{{Name: "X-Sample", Type: "string", Example: g.texts[0], Description: "sample " + g.texts[0]}}, Methods: []*spec.Method{{Name: "Call", In: "." + pkg + ".Sample", Out: "." + pkg + ".Sample", HTTP: &spec.HTTP{Path: "/exk", Verb: 2}}}}}
		out = append(out, reqCase{ID: "examples-by-kind/" + g.id, Files: []*spec.File{f}})
	}
	return out
}

func importedMessagesCase() reqCase {
	dep := &spec.File{Path: "c18/dep/types.proto", Package: "c18.dep", GoImport: "lab/gen/c18dep", GoName: "c18dep"}
	dep.Messages = []*spec.Message{{Name: "Shared", Fields: []*spec.Field{spec.F("id", 1, spec.String), spec.FM("inner", 2, ".c18.dep.Shared.Inner")}, Nested: []*spec.Message{{Name: "Inner", Fields: []*spec.Field{spec.F("v", 1, spec.Int32)}}}}}
	main := &spec.File{Path: "c18/main/svc.proto", Package: "c18.main", GoImport: "lab/gen/c18main", GoName: "c18main", Imports: []string{dep.Path}}
	main.Messages = []*spec.Message{{Name: "Req", Fields: []*spec.Field{spec.FM("shared", 1, ".c18.dep.Shared")}}, {Name: "Shared", Fields: []*spec.Field{spec.F("local_only", 1, spec.Bool)}},
		{Name: "Resp", Fields: []*spec.Field{spec.FM("local", 1, ".c18.main.Shared"), spec.FM("remote", 2, ".c18.dep.Shared")}}}
	main.Services = []*spec.Service{{Name: "ImportService", Methods: []*spec.Method{{Name: "Call", In: ".c18.main.Req", Out: ".c18.main.Resp", HTTP: &spec.HTTP{Path: "/imp", Verb: 2}}}}}
	return reqCase{ID: "imported-messages", Files: []*spec.File{dep, main}, Gen: []string{main.Path}}
}

func threeServicesCase() reqCase {
	pkg := "c18.three"
	f := &spec.File{Path: "c18/three.proto", Package: pkg, GoImport: "lab/gen/c18three", GoName: "c18three"}
	f.Messages = []*spec.Message{{Name: "A", Fields: []*spec.Field{spec.F("id", 1, spec.String)}}, {Name: "B", Fields: []*spec.Field{spec.F("num", 1, spec.Int32)}}, {Name: "C", Fields: []*spec.Field{spec.FM("a", 1, "."+pkg+".A")}}}
	for i, n := range []string{"AlphaService", "BetaService", "GammaService"} {
		in := []string{"A", "B", "C"}[i]
		f.Services = append(f.Services, &spec.Service{Name: n, BasePath: spec.S("/" + strings.ToLower(n)), Methods: []*spec.Method{
			{Name: "Get", In: "." + pkg + "." + in, Out: "." + pkg + "." + in, HTTP: &spec.HTTP{Path: "/get/{" + map[string]string{"A": "id", "B": "num", "C": "a"}[in] + "}", Verb: 2}},
		}})
	}
	// C's path var {a} is a message -> invalid for go-http but openapi is a separate plugin; keep valid: use body-only for Gamma
	f.Services[2].Methods[0].HTTP.Path = "/get"
	return reqCase{ID: "three-services", Files: []*spec.File{f}}
}

// pathVariableSpellingsCase: the OpenAPI plugin also runs alone, on definitions the Go server plugin
// would refuse — path variables spelled like a field's JSON name, in another case, or naming no
// field at all. Whatever type the document gives such a parameter, the template and the declared
// path parameters must still name the same variables.
func pathVariableSpellingsCase() reqCase {
	pkg := "c18.pathvars"
	f := &spec.File{Path: "c18/pathvars.proto", Package: pkg, GoImport: "lab/gen/c18pv", GoName: "c18pv"}
	req := func(name string) *spec.Message {
		return &spec.Message{Name: name, Fields: []*spec.Field{spec.F("user_id", 1, spec.String), spec.F("post_id", 2, spec.Int64), spec.F("slug", 3, spec.String), spec.F("note", 4, spec.String)}}
	}
	f.Messages = []*spec.Message{req("ByProto"), req("ByJSON"), req("ByCase"), req("ByNone"), req("ByMixed"),
		{Name: "ByOptional", Fields: []*spec.Field{spec.F("doc_id", 1, spec.String).Opt(), spec.F("revision", 2, spec.Int32).Opt()}},
		{Name: "PVResp", Fields: []*spec.Field{spec.F("ok", 1, spec.Bool)}}}
	in := func(m string) string { return "." + pkg + "." + m }
	f.Services = []*spec.Service{{Name: "PathVarService", BasePath: spec.S("/api/v1"), Methods: []*spec.Method{
		{Name: "ByProto", In: in("ByProto"), Out: in("PVResp"), HTTP: &spec.HTTP{Path: "/a/{user_id}/posts/{post_id}", Verb: 2}},
		{Name: "ByJSON", In: in("ByJSON"), Out: in("PVResp"), HTTP: &spec.HTTP{Path: "/b/{userId}/posts/{postId}", Verb: 2}},
		{Name: "PutByJSON", In: in("ByJSON"), Out: in("PVResp"), HTTP: &spec.HTTP{Path: "/b/{userId}/posts/{postId}", Verb: 3}},
		{Name: "ByCase", In: in("ByCase"), Out: in("PVResp"), HTTP: &spec.HTTP{Path: "/c/{USER_ID}/{Slug}", Verb: 2}},
		{Name: "ByNone", In: in("ByNone"), Out: in("PVResp"), HTTP: &spec.HTTP{Path: "/d/{user-id}/{nope}", Verb: 2}},
		{Name: "ByMixed", In: in("ByMixed"), Out: in("PVResp"), HTTP: &spec.HTTP{Path: "/e/{user_id}/{postId}/{slug}", Verb: 2}},
		// path variables bound to proto3 optional fields (and a query parameter on one): a path parameter is required
		{Name: "ByOptional", In: in("ByOptional"), Out: in("PVResp"), HTTP: &spec.HTTP{Path: "/f/{doc_id}/revisions/{revision}", Verb: 1}},
		{Name: "PutByOptional", In: in("ByOptional"), Out: in("PVResp"), HTTP: &spec.HTTP{Path: "/f/{doc_id}/revisions/{revision}", Verb: 3}},
	}}}
	return reqCase{ID: "path-variable-spellings", Files: []*spec.File{f}}
}

// paramNameInTwoLocationsCase: one request message shared by a collection route and an item route; the field
// that the item route binds to its path variable is a query filter (same parameter NAME) on the collection
// route, and a header shares its name with a query parameter. A parameter is identified by (name, location).
func paramNameInTwoLocationsCase() reqCase {
	pkg := "c18.twoloc"
	f := &spec.File{Path: "c18/twoloc.proto", Package: pkg, GoImport: "lab/gen/c18tl", GoName: "c18tl"}
	f.Messages = []*spec.Message{
		{Name: "ItemRequest", Fields: []*spec.Field{spec.F("id", 1, spec.String).Q("id"), spec.F("owner", 2, spec.String).Q("owner"), spec.F("x_trace", 3, spec.String).Q("X-Trace")}},
		{Name: "Item", Fields: []*spec.Field{spec.F("id", 1, spec.String)}},
	}
	in, out := "."+pkg+".ItemRequest", "."+pkg+".Item"
	f.Services = []*spec.Service{{Name: "TwoLocationService", BasePath: spec.S("/api/v1"), Headers: []spec.Header{{Name: "X-Trace", Type: "string", Required: true}, {Name: "owner", Type: "string"}}, Methods: []*spec.Method{
		{Name: "ListItems", In: in, Out: out, HTTP: &spec.HTTP{Path: "/items", Verb: 1}},
		{Name: "GetItem", In: in, Out: out, HTTP: &spec.HTTP{Path: "/items/{id}", Verb: 1}},
		{Name: "DeleteItem", In: in, Out: out, HTTP: &spec.HTTP{Path: "/items/{id}/owner/{owner}", Verb: 4}},
	}}}
	return reqCase{ID: "param-name-in-two-locations", Files: []*spec.File{f}}
}

// yaml11NamesCase uses field / parameter names that YAML 1.1 readers resolve as booleans.
func yaml11NamesCase() reqCase {
	pkg := "c18.yaml11"
	f := &spec.File{Path: "c18/yaml11.proto", Package: pkg, GoImport: "lab/gen/c18y11", GoName: "c18y11"}
	f.Messages = []*spec.Message{{Name: "NReq", Fields: []*spec.Field{spec.F("n", 1, spec.Int32), spec.F("y", 2, spec.String).Q("on"), spec.F("no", 3, spec.Bool).Q("off")}}, {Name: "NResp", Fields: []*spec.Field{spec.F("yes", 1, spec.String)}}}
	f.Services = []*spec.Service{{Name: "Yaml11Service", Methods: []*spec.Method{{Name: "Get", In: "." + pkg + ".NReq", Out: "." + pkg + ".NResp", HTTP: &spec.HTTP{Path: "/n/{n}", Verb: 1}}}}}
	return reqCase{ID: "yaml11-names", Files: []*spec.File{f}}
}

// sameShortNameCase: two reachable messages share their short name, and each of them is the
// only way to reach some other message.
func sameShortNameCase(kind string) reqCase {
	pkg := "c18.short" + strings.ReplaceAll(kind, "-", "")
	f := &spec.File{Path: "c18/short_" + kind + ".proto", Package: pkg, GoImport: "lab/gen/c18short" + strings.ReplaceAll(kind, "-", ""), GoName: "c18short" + strings.ReplaceAll(kind, "-", "")}
	onlyA := &spec.Message{Name: "OnlyViaFirst", Fields: []*spec.Field{spec.F("a", 1, spec.String)}}
	onlyB := &spec.Message{Name: "OnlyViaSecond", Fields: []*spec.Field{spec.F("b", 1, spec.Int32), spec.FM("deeper", 2, "."+pkg+".Deeper")}}
	deeper := &spec.Message{Name: "Deeper", Fields: []*spec.Field{spec.F("z", 1, spec.Bool)}}
	files := []*spec.File{f}
	var gen []string
	switch kind {
	case "nested":
		itemA := &spec.Message{Name: "Item", Fields: []*spec.Field{spec.F("id", 1, spec.String), spec.FM("only", 2, "."+pkg+".OnlyViaFirst")}}
		itemB := &spec.Message{Name: "Item", Fields: []*spec.Field{spec.F("num", 1, spec.Int32), spec.FM("only", 2, "."+pkg+".OnlyViaSecond")}}
		f.Messages = []*spec.Message{onlyA, onlyB, deeper,
			{Name: "ListA", Nested: []*spec.Message{itemA}, Fields: []*spec.Field{spec.FM("items", 1, "."+pkg+".ListA.Item").Rep()}},
			{Name: "ListB", Nested: []*spec.Message{itemB}, Fields: []*spec.Field{spec.FM("items", 1, "."+pkg+".ListB.Item").MapOf(spec.String)}},
			{Name: "Req", Fields: []*spec.Field{spec.FM("a", 1, "."+pkg+".ListA"), spec.FM("b", 2, "."+pkg+".ListB")}}}
	case "top-vs-nested":
		itemTop := &spec.Message{Name: "Item", Fields: []*spec.Field{spec.F("id", 1, spec.String), spec.FM("only", 2, "."+pkg+".OnlyViaFirst")}}
		itemB := &spec.Message{Name: "Item", Fields: []*spec.Field{spec.F("num", 1, spec.Int32), spec.FM("only", 2, "."+pkg+".OnlyViaSecond")}}
		f.Messages = []*spec.Message{onlyA, onlyB, deeper, itemTop,
			{Name: "ListB", Nested: []*spec.Message{itemB}, Fields: []*spec.Field{spec.FM("items", 1, "."+pkg+".ListB.Item").Rep()}},
			{Name: "Req", Fields: []*spec.Field{spec.FM("a", 1, "."+pkg+".Item"), spec.FM("b", 2, "."+pkg+".ListB")}}}
	default: // imported
		dpkg := pkg + "dep"
		dep := &spec.File{Path: "c18/short_dep.proto", Package: dpkg, GoImport: "lab/gen/c18shortdep", GoName: "c18shortdep"}
		dep.Messages = []*spec.Message{{Name: "Item", Fields: []*spec.Field{spec.F("num", 1, spec.Int32), spec.FM("only", 2, "."+dpkg+".OnlyViaImport")}}, {Name: "OnlyViaImport", Fields: []*spec.Field{spec.F("q", 1, spec.String)}}}
		f.Imports = []string{dep.Path}
		itemTop := &spec.Message{Name: "Item", Fields: []*spec.Field{spec.F("id", 1, spec.String), spec.FM("only", 2, "."+pkg+".OnlyViaFirst")}}
		f.Messages = []*spec.Message{onlyA, itemTop, {Name: "Req", Fields: []*spec.Field{spec.FM("a", 1, "."+pkg+".Item"), spec.FM("b", 2, "."+dpkg+".Item")}}}
		files = []*spec.File{dep, f}
		gen = []string{f.Path}
	}
	f.Services = []*spec.Service{{Name: "ShortNameService", Methods: []*spec.Method{{Name: "Call", In: "." + pkg + ".Req", Out: "." + pkg + ".Req", HTTP: &spec.HTTP{Path: "/short", Verb: 2}}}}}
	return reqCase{ID: "same-short-name/" + kind, Files: files, Gen: gen}
}

// discVariantTypesCase: a discriminated oneof whose variant message types are nested
// declarations or have non-CamelCase names (Go identifier != proto short name).
func discVariantTypesCase(flatten bool) reqCase {
	sfx := "nested"
	if flatten {
		sfx = "flatten"
	}
	pkg := "c18.disc" + sfx
	f := &spec.File{Path: "c18/disc_" + sfx + ".proto", Package: pkg, GoImport: "lab/gen/c18disc" + sfx, GoName: "c18disc" + sfx}
	ev := &spec.Message{Name: "Event",
		Nested: []*spec.Message{
			{Name: "TextPayload", Fields: []*spec.Field{spec.F("body", 1, spec.String)}},
			{Name: "ImagePayload", Fields: []*spec.Field{spec.F("url", 1, spec.String), spec.F("width_px", 2, spec.Int32)}}},
		Fields: []*spec.Field{spec.F("id", 1, spec.String),
			spec.FM("text", 2, "."+pkg+".Event.TextPayload").In(1), spec.FM("image", 3, "."+pkg+".Event.ImagePayload").In(1),
			spec.FM("audio", 4, "."+pkg+".audio_clip").In(1), spec.FM("top", 5, "."+pkg+".TopLevel").In(1)},
		Oneofs: []*spec.Oneof{{Name: "content", HasConfig: true, Discriminator: "kind", Flatten: flatten}}}
	f.Messages = []*spec.Message{ev, {Name: "audio_clip", Fields: []*spec.Field{spec.F("codec", 1, spec.String)}}, {Name: "TopLevel", Fields: []*spec.Field{spec.F("note", 1, spec.String)}}}
	f.Services = []*spec.Service{{Name: "EventService", Methods: []*spec.Method{{Name: "Publish", In: "." + pkg + ".Event", Out: "." + pkg + ".Event", HTTP: &spec.HTTP{Path: "/events", Verb: 2}}}}}
	return reqCase{ID: "disc-variant-types/" + sfx, Files: []*spec.File{f}}
}
