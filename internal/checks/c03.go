package checks

import (
	"encoding/json"
	"fmt"
	"net/url"
	"os"
	"path/filepath"
	"reflect"
	"sort"
	"strings"

	"google.golang.org/protobuf/proto"
	"google.golang.org/protobuf/reflect/protoreflect"
	"google.golang.org/protobuf/types/dynamicpb"

	"verif/internal/corpus"
	"verif/internal/lab"
	"verif/internal/model/jsonmap"
	"verif/internal/oas"
	"verif/internal/plugin"
	"verif/internal/spec"
)

func init() { Registry["C03"] = c03 }

// routeUnit is one routing file with everything generated from it.
type routeUnit struct {
	File  *spec.File
	Cases []*corpus.RouteCase
	Reg   interface {
		FindDescriptorByName(protoreflect.FullName) (protoreflect.Descriptor, error)
	}
	TSClient string // path of emitted ts client file ("" if plugin failed)
	TSServer string
	Docs     map[string]*oas.Doc // service simple name -> doc
	Dir      string
	Diags    []lab.BuildError
	Refused  map[string]string
}

// sentinelSuffix is appended to every string sentinel: the hostile pass of C03 uses text that URL
// builders based on replace functions or template engines could mangle (checks run one unit at a time).
var sentinelSuffix string

// sentinelReq fills every field of the request with a distinctive sentinel value.
func sentinelReq(md protoreflect.MessageDescriptor) *dynamicpb.Message {
	m := dynamicpb.NewMessage(md)
	fds := md.Fields()
	for i := 0; i < fds.Len(); i++ {
		fd := fds.Get(i)
		switch fd.Kind() {
		case protoreflect.StringKind:
			m.Set(fd, protoreflect.ValueOfString("S"+strings.ReplaceAll(string(fd.Name()), "_", "")+sentinelSuffix))
		case protoreflect.Int32Kind:
			m.Set(fd, protoreflect.ValueOfInt32(int32(4000+int(fd.Number()))))
		case protoreflect.Int64Kind:
			m.Set(fd, protoreflect.ValueOfInt64(int64(8000+int(fd.Number()))))
		}
	}
	return m
}

func sentinelOf(fd protoreflect.FieldDescriptor) string {
	switch fd.Kind() {
	case protoreflect.StringKind:
		return "S" + strings.ReplaceAll(string(fd.Name()), "_", "") + sentinelSuffix
	case protoreflect.Int32Kind:
		return fmt.Sprint(4000 + int(fd.Number()))
	case protoreflect.Int64Kind:
		return fmt.Sprint(8000 + int(fd.Number()))
	}
	return "\x00none"
}

// observed is what one generator shows for an RPC.
type observed struct {
	Who      string
	Verb     string
	Template string            // path with {field} for variables
	Place    map[string]string // field name -> path|query|body
	Missing  string            // why nothing was observed
}

// locate derives template and placement from a concrete request line + JSON body.
func locate(md protoreflect.MessageDescriptor, method, uri string, body []byte) observed {
	o := observed{Verb: method, Place: map[string]string{}}
	p, q, _ := strings.Cut(uri, "?")
	segs := strings.Split(p, "/")
	fds := md.Fields()
	for i, s := range segs {
		us, err := url.PathUnescape(s)
		if err != nil {
			us = s
		}
		for j := 0; j < fds.Len(); j++ {
			if us == sentinelOf(fds.Get(j)) {
				segs[i] = "{" + string(fds.Get(j).Name()) + "}"
				o.Place[string(fds.Get(j).Name())] = "path"
			}
		}
	}
	o.Template = strings.Join(segs, "/")
	if vals, err := url.ParseQuery(q); err == nil {
		for _, vs := range vals {
			for _, v := range vs {
				for j := 0; j < fds.Len(); j++ {
					if v == sentinelOf(fds.Get(j)) {
						o.Place[string(fds.Get(j).Name())] = "query"
					}
				}
			}
		}
	}
	if len(body) > 0 {
		if t, err := jsonmap.Parse(body); err == nil {
			if obj, ok := t.(map[string]any); ok {
				for j := 0; j < fds.Len(); j++ {
					fd := fds.Get(j)
					if _, has := obj[fd.JSONName()]; has {
						if _, already := o.Place[string(fd.Name())]; !already {
							o.Place[string(fd.Name())] = "body"
						}
					}
				}
			}
		}
	}
	return o
}

func buildRouteUnits(c *Ctx, l *lab.Lab, family string, baseIdxs []int, full bool) ([]*routeUnit, error) {
	var units []*routeUnit
	lit := 0
	type bs struct {
		bi  int
		sub string
	}
	var list []bs
	for _, bi := range baseIdxs {
		for _, sub := range []string{"main", "noslash", "pathquery", "bodyquery", "bodymap", "shared"} {
			list = append(list, bs{bi, sub})
		}
	}
	for n, it := range list {
		bi := it.bi
		pkg := fmt.Sprintf("%s.r%d%s%s", family, n, corpus.BaseVariants[bi].Label, it.sub)
		goName := fmt.Sprintf("%sr%d", family, n)
		if (n/4)%2 == 1 {
			// go package name equal to the last element of the proto package
			goName = fmt.Sprintf("r%d%s%s", n, corpus.BaseVariants[bi].Label, it.sub)
		}
		f, cases := corpus.RoutingFile(bi, it.sub, pkg, "lab/gen/"+goName, goName, &lit, full)
		u, err := buildUnitFromFile(c, l, f)
		if err != nil {
			return nil, err
		}
		u.Cases = cases
		units = append(units, u)
	}
	return units, nil
}

func lowerFirst(s string) string {
	if s == "" {
		return s
	}
	return strings.ToLower(s[:1]) + s[1:]
}

// c03joint: the OpenAPI view of a route must not depend on how many services one plugin invocation
// describes or on the CPUs the plugin process may use: all routing files go through ONE openapiv3
// invocation under GOMAXPROCS 2, 3, 4 and 7 (the service count must not be a multiple of all of them), and every service's document must be the document its own
// invocation gave (which the route comparison below judges).
func c03joint(c *Ctx, units []*routeUnit) {
	var files []*spec.File
	seen := map[string]bool{}
	type own struct {
		svc string
		doc *oas.Doc
	}
	var owns []own
	for _, u := range units {
		dup := false
		for _, sv := range u.File.Services {
			dup = dup || seen[sv.Name]
		}
		if dup || len(u.Docs) == 0 {
			continue
		}
		for _, sv := range u.File.Services {
			seen[sv.Name] = true
			owns = append(owns, own{sv.Name, u.Docs[sv.Name]})
		}
		files = append(files, u.File)
	}
	if len(files) < 3 {
		return
	}
	req, err := spec.Request(files, nil, "")
	if err != nil {
		c.R.Harness("joint routing request: " + err.Error())
		return
	}
	for _, gmp := range []string{"2", "3", "4", "7"} {
		res := c.TB.Run("openapiv3", req, plugin.RunOpt{Env: []string{"GOMAXPROCS=" + gmp}})
		c.R.Eval(1)
		caseBase := "route/joint-openapi-invocation/gomaxprocs=" + gmp
		if !res.OK() {
			c.R.Violate(caseBase, "no-documents", res.Crash+res.Error, map[string]any{"services": len(owns), "stderr": firstLines(res.Stderr, 10)})
			continue
		}
		got := map[string]*oas.Doc{}
		for name, content := range res.Files {
			svc := strings.TrimSuffix(strings.TrimSuffix(filepath.Base(name), ".openapi.yaml"), ".openapi.json")
			if d, err := oas.Parse(name, content); err == nil {
				got[svc] = d
			}
		}
		bad := 0
		for _, o := range owns {
			if o.doc == nil {
				continue
			}
			d := got[o.svc]
			switch {
			case d == nil:
				c.R.Violate(caseBase, "document-missing-or-unparsable", "", map[string]any{"service": o.svc, "services_in_invocation": len(owns), "files_emitted": len(res.Files)})
				bad++
			case !reflect.DeepEqual(d.Root, o.doc.Root):
				c.R.Violate(caseBase, "document-differs-from-own-invocation", "", map[string]any{"service": o.svc, "services_in_invocation": len(owns)})
				bad++
			}
		}
		c.R.Count("joint_openapi_documents_compared", len(owns))
		if bad == 0 {
			c.R.Decided(caseBase)
		}
	}
}

// c03: all five generators agree on verb, path template and parameter placement.
func c03(c *Ctx) {
	c.R.Rule = "abstract case = RPC of the routing catalogue: base_path class x method-config class x verb x path shape x method-name shape (x go package name = / != proto package tail); " +
		"non-trivial = at least four of the five generators' views (Go server pattern, TS server route, Go client request line, TS client request line, OpenAPI operation) were observed for the RPC and compared"
	c.R.Assume("net/http ServeMux pattern matching and Node's fetch/Request are the transports' reference behaviour")
	l, err := lab.New(c.TB, "c03")
	if err != nil {
		c.R.Harness(err.Error())
		return
	}
	// all base_path classes in both tiers (cheap); thorough adds the full verb x shape matrix and a
	// second absent-base file whose go package name equals the proto package tail
	bases := []int{0, 1, 2, 3, 4}
	if c.Thorough() {
		bases = []int{0, 1, 2, 3, 4, 0}
	}
	units, err := buildRouteUnits(c, l, "c03", bases, c.Thorough())
	if err != nil {
		c.R.Harness(err.Error())
		return
	}
	c03joint(c, units)
	if un := l.CompileAll(false); un != "" {
		c.R.Harness("unattributed build output: " + firstLines(un, 10))
		return
	}
	for _, u := range units {
		u.Diags = l.Failed[u.Dir]
	}
	bin, err := l.BuildBinary(false)
	if err != nil {
		c.R.Harness(err.Error())
		return
	}
	ch, err := lab.Start(bin, "")
	if err != nil {
		c.R.Harness(err.Error())
		return
	}
	defer ch.Quit()
	node, nerr := lab.StartNode()
	if nerr == nil {
		defer node.Quit()
	} else {
		fmt.Println("NOTE node unavailable, TS views are inconclusive:", nerr)
	}
	for _, u := range units {
		c03unit(c, u, ch, node)
	}
	c03versions(c, units)
}

// c03versions: the agreement judged above was observed with one file per plugin invocation. The
// usual v1/v2 layout puts a second proto package with the same service and RPC names (other verbs
// and paths) into the same invocation; every generator must emit exactly the same routes for a
// file then, so the agreement carries over.
func c03versions(c *Ctx, units []*routeUnit) {
	for _, u := range units {
		if !strings.HasSuffix(u.File.Package, "main") && !strings.HasSuffix(u.File.Package, "shared") {
			continue
		}
		older := corpus.OlderVersion(u.File)
		alone, err1 := spec.Request([]*spec.File{u.File}, nil, "")
		both, err2 := spec.Request([]*spec.File{older, u.File}, nil, "")
		if err1 != nil || err2 != nil {
			c.R.Harness(fmt.Sprintf("versions: %v %v", err1, err2))
			continue
		}
		base := ""
		if len(u.Cases) > 0 {
			base = u.Cases[0].Base
		}
		for _, p := range []string{"go-http", "go-client", "ts-client", "ts-server"} {
			caseID := fmt.Sprintf("route/versions/base=%s/cfg=%s/%s", base, subOf(u), p)
			if !c.Want(caseID) {
				continue
			}
			a := c.TB.Run(p, alone, plugin.RunOpt{})
			b := c.TB.Run(p, both, plugin.RunOpt{})
			c.R.Eval(2)
			if !a.OK() {
				c.R.Inconclusive(caseID, "baseline-not-ok")
				continue
			}
			rp := map[string]any{"protos": []string{older.Proto(), u.File.Proto()}, "plugin": p}
			if !b.OK() {
				c.R.Violate(caseID, "route-depends-on-invocation", "refused or crashed with a same-named service of another package in the run", map[string]any{"protos": rp["protos"], "plugin": p, "error": b.Error, "crash": b.Crash})
				c.R.Decided(caseID)
				continue
			}
			for name, content := range a.Files {
				other, ok := b.Files[name]
				if !ok {
					c.R.Violate(caseID, "route-depends-on-invocation", "file missing", map[string]any{"protos": rp["protos"], "plugin": p, "file": name})
					continue
				}
				if other != content {
					d := firstDiff(content, other)
					c.R.Violate(caseID, "route-depends-on-invocation", "emitted code differs", map[string]any{"protos": rp["protos"], "plugin": p, "file": name, "alone": around(content, d), "with_other_version": around(other, d)})
				}
			}
			c.R.Decided(caseID)
		}
	}
}

func c03unit(c *Ctx, u *routeUnit, ch, node *lab.Child) {
	if len(u.Cases) == 0 {
		return
	}
	svcFull := u.Cases[0].Svc
	svcSimple := svcFull[strings.LastIndex(svcFull, ".")+1:]
	rp := func(rc *corpus.RouteCase, extra map[string]any) map[string]any {
		m := map[string]any{"proto": u.File.Proto(), "rpc": rc.Svc + "." + rc.Method, "documented_path_resolution": rc.DocTemplate}
		for k, v := range extra {
			m[k] = v
		}
		return m
	}
	if d := emittedDiag(u.Diags); d != nil {
		for _, rc := range u.Cases {
			c.R.Violate(rc.ID, "compile", d.Msg, rp(rc, map[string]any{"file": d.File, "line": d.Line}))
		}
		return
	}
	for p, why := range u.Refused {
		for _, rc := range u.Cases {
			c.R.Violate(rc.ID, "refused", p+": "+why, rp(rc, nil))
		}
	}
	if len(u.Refused) > 0 {
		return
	}
	gs, err := serveGo(ch, []string{svcFull}, "none", false)
	if err != nil {
		c.R.Harness("cannot serve " + svcFull + ": " + err.Error())
		return
	}
	defer gs.Stop()
	var ts *srv
	tsLoadErr := ""
	if node != nil && u.TSServer != "" {
		ts, err = serveTS(node, u.TSServer, "create"+svcSimple+"Routes", nil)
		if err != nil {
			// module does not load or factory failed: a C13/C08 matter; here the TS server view is missing
			tsLoadErr = err.Error()
			ts = nil
		} else {
			defer ts.Stop()
		}
	}
	doc := u.Docs[svcSimple]
	// operation count / uniqueness
	if doc != nil {
		ops := doc.Ops()
		ids := map[string]int{}
		for _, o := range ops {
			ids[o.OperationID]++
		}
		countCase := "route/base=" + u.Cases[0].Base + "/cfg=" + u.Cases[0].Cfg + "/opcount"
		c.R.Decided(countCase)
		if len(ops) != len(u.Cases) {
			c.R.Violate(countCase, "op-count", fmt.Sprintf("operations=%d rpcs=%d", len(ops), len(u.Cases)), map[string]any{"proto": u.File.Proto(), "operations": len(ops), "rpcs": len(u.Cases)})
		}
		for id, n := range ids {
			if n > 1 {
				c.R.Violate(countCase, "duplicate-operation-id", id, map[string]any{"proto": u.File.Proto()})
			}
		}
	}
	tsRoutes := map[string]string{} // "METHOD template" set
	if ts != nil {
		for _, r := range oas.L(ts.Ev["routes"]) {
			rm := oas.M(r)
			tsRoutes[oas.S(rm["method"])+" "+oas.S(rm["path"])] = "1"
		}
	}
	enc := &jsonmap.Encoder{}
	// two passes over the unit's routes: plain sentinels, then sentinels carrying text that is special
	// to replace functions, template engines and URL syntax (same routes, value class "hostile")
	type passCase struct {
		rc     *corpus.RouteCase
		suffix string
	}
	var todo []passCase
	for _, rc := range u.Cases {
		todo = append(todo, passCase{rc, ""})
	}
	for _, rc := range u.Cases {
		if len(rc.PathVars) == 0 && len(rc.Query) == 0 {
			continue
		}
		h := *rc
		h.ID = rc.ID + "@hostile"
		todo = append(todo, passCase{&h, "$&$'$`$$e$1${x}%2F{id}{}é /?#+;=&"})
	}
	defer func() { sentinelSuffix = "" }()
	for _, pc := range todo {
		rc := pc.rc
		sentinelSuffix = pc.suffix
		if !c.Want(rc.ID) {
			continue
		}
		d, _ := u.Reg.FindDescriptorByName(protoreflect.FullName(rc.In))
		md := d.(protoreflect.MessageDescriptor)
		req := sentinelReq(md)
		w := wire(req)
		views := map[string]observed{}

		// (1) Go client -> Go server: request line + acceptance
		out, err := callGo(ch, rc.Svc, gs.URL, rc.Method, rc.In, w, nil)
		c.R.Eval(1)
		if err != nil {
			c.R.Inconclusive(rc.ID, "go-call:"+err.Error())
			continue
		}
		goClientReached := ""
		for _, e := range out.byKind("wire") {
			o := locate(md, e.Str("method"), e.Str("uri"), unb64(e.Str("body")))
			o.Who = "go-client"
			views["go-client"] = o
			if pat := e.Str("pattern"); pat != "" {
				v, t, _ := strings.Cut(pat, " ")
				views["go-server"] = observed{Who: "go-server", Verb: v, Template: t}
			}
		}
		for _, e := range out.byKind("handler") {
			goClientReached = e.Str("rpc")
			got := dynamicpb.NewMessage(md)
			_ = proto.Unmarshal(unb64(e.Str("req")), got)
			if !proto.Equal(got, req) {
				c.R.Violate(rc.ID, "placement-mismatch", "go-client->go-server: "+diffFields(req, got), rp(rc, map[string]any{"sent": fmt.Sprint(req), "handler_saw": fmt.Sprint(got)}))
			}
		}
		// (2) TS client request line (record-only fetch)
		var tsLine struct {
			Method, URI string
			Body        []byte
		}
		if node != nil && u.TSClient != "" {
			tree, _ := enc.Message(req)
			ret, err := callTS(node, u.TSClient, svcSimple+"Client", "http://ts.invalid", lowerFirst(rc.Method), jsonmap.Resolve(tree), map[string]any{"inject": map[string]any{"status": 200, "body": "{}"}})
			c.R.Eval(1)
			if err != nil {
				views["ts-client"] = observed{Who: "ts-client", Missing: err.Error()}
			} else if caps := oas.L(ret["captured"]); len(caps) == 1 {
				cm := oas.M(caps[0])
				full := oas.S(cm["url"])
				uri := strings.TrimPrefix(full, "http://ts.invalid")
				body := []byte(oas.S(cm["body"]))
				o := locate(md, oas.S(cm["method"]), uri, body)
				o.Who = "ts-client"
				views["ts-client"] = o
				tsLine.Method, tsLine.URI, tsLine.Body = oas.S(cm["method"]), uri, body
			} else {
				views["ts-client"] = observed{Who: "ts-client", Missing: fmt.Sprintf("captured %d requests, err=%v", len(caps), ret["err"])}
			}
		}
		// (3) cross dispatch: TS client's request to the Go server; Go client's request to the TS server
		reach := map[string]string{"go-client->go-server": goClientReached}
		if tsLine.Method != "" {
			hdr := [][2]string{{"Content-Type", "application/json"}}
			var body []byte
			if len(tsLine.Body) > 0 {
				body = tsLine.Body
			}
			if _, err := rawHTTP(tsLine.Method, gs.URL, tsLine.URI, hdr, body); err == nil {
				evs, _ := syncEvents(ch)
				reach["ts-client->go-server"] = ""
				for _, e := range evs {
					if e.Str("ev") == "handler" {
						reach["ts-client->go-server"] = e.Str("rpc")
					}
					if e.Str("ev") == "wire" {
						if _, have := views["go-server"]; !have && e.Str("pattern") != "" {
							v, t, _ := strings.Cut(e.Str("pattern"), " ")
							views["go-server"] = observed{Who: "go-server", Verb: v, Template: t}
						}
					}
				}
			}
			c.R.Eval(1)
		}
		if ts != nil {
			if gv, ok := views["go-client"]; ok {
				for _, e := range out.byKind("wire") {
					hdr := [][2]string{{"Content-Type", "application/json"}}
					body := unb64(e.Str("body"))
					if len(body) == 0 {
						body = nil
					}
					if _, err := rawHTTP(gv.Verb, ts.URL, e.Str("uri"), hdr, body); err == nil {
						evs, _ := syncEvents(node)
						reach["go-client->ts-server"] = ""
						for _, te := range evs {
							if te.Str("ev") == "handler" {
								reach["go-client->ts-server"] = te.Str("rpc")
							}
							if te.Str("ev") == "wire" {
								if ms := oas.L(te["matched"]); len(ms) > 0 {
									v, t, _ := strings.Cut(oas.S(ms[0]), " ")
									views["ts-server"] = observed{Who: "ts-server", Verb: v, Template: t}
								}
							}
						}
					}
					c.R.Eval(1)
				}
			}
			if _, have := views["ts-server"]; !have && tsLine.Method != "" {
				hdr := [][2]string{{"Content-Type", "application/json"}}
				var body []byte
				if len(tsLine.Body) > 0 {
					body = tsLine.Body
				}
				if _, err := rawHTTP(tsLine.Method, ts.URL, tsLine.URI, hdr, body); err == nil {
					evs, _ := syncEvents(node)
					for _, te := range evs {
						if te.Str("ev") == "wire" {
							if ms := oas.L(te["matched"]); len(ms) > 0 {
								v, t, _ := strings.Cut(oas.S(ms[0]), " ")
								views["ts-server"] = observed{Who: "ts-server", Verb: v, Template: t}
							}
						}
					}
				}
			}
		} else if node != nil {
			views["ts-server"] = observed{Who: "ts-server", Missing: "module/factory unavailable: " + tsLoadErr}
		}
		// (4) OpenAPI operation
		if doc != nil {
			found := false
			for _, o := range doc.Ops() {
				if o.OperationID != rc.Method {
					continue
				}
				found = true
				ov := observed{Who: "openapi", Verb: o.Verb, Template: o.Path, Place: map[string]string{}}
				for _, p := range o.Params {
					switch p.In {
					case "path":
						ov.Place[p.Name] = "path"
					case "query":
						// map query param name back to field
						for fn, qn := range rc.Query {
							if qn == p.Name {
								ov.Place[fn] = "query"
							}
						}
					}
				}
				if o.HasBody {
					ov.Place["<body>"] = "body"
				}
				views["openapi"] = ov
			}
			if !found {
				views["openapi"] = observed{Who: "openapi", Missing: "no operation with operationId " + rc.Method}
				c.R.Violate(rc.ID, "operation-missing", "", rp(rc, nil))
			}
		}
		// ---- verdict ----
		names := make([]string, 0, len(views))
		for n := range views {
			names = append(names, n)
		}
		sort.Strings(names)
		seen := 0
		verbs, tmpls := map[string][]string{}, map[string][]string{}
		for _, n := range names {
			v := views[n]
			if v.Missing != "" || v.Template == "" {
				continue
			}
			seen++
			verbs[v.Verb] = append(verbs[v.Verb], n)
			tmpls[v.Template] = append(tmpls[v.Template], n)
		}
		dump := func() map[string]any {
			m := map[string]any{}
			for _, n := range names {
				v := views[n]
				m[n] = map[string]any{"verb": v.Verb, "template": v.Template, "placement": v.Place, "missing": v.Missing}
			}
			return rp(rc, map[string]any{"views": m, "dispatch": reach})
		}
		if len(verbs) > 1 {
			c.R.Violate(rc.ID, "verb-mismatch", partition(verbs), dump())
		}
		if len(tmpls) > 1 {
			c.R.Violate(rc.ID, "path-mismatch", partition(tmpls), dump())
		}
		for k, got := range reach {
			want := rc.Svc + "." + rc.Method
			if strings.HasSuffix(k, "ts-server") {
				want = lowerFirst(rc.Method)
			}
			if got != want {
				c.R.Violate(rc.ID, "handler-not-reached", k, dump())
			}
		}
		// placement agreement between the two clients and the document
		gc, okg := views["go-client"]
		tc, okt := views["ts-client"]
		if okg && okt && gc.Missing == "" && tc.Missing == "" {
			if !samePlace(gc.Place, tc.Place) {
				c.R.Violate(rc.ID, "placement-mismatch", "go-client vs ts-client", dump())
			}
		}
		if ov, ok := views["openapi"]; ok && ov.Missing == "" && okg && gc.Missing == "" {
			var bad []string
			for f, where := range gc.Place {
				switch where {
				case "path", "query":
					if ov.Place[f] != where {
						bad = append(bad, where+"-not-declared")
					}
				}
			}
			for f, where := range ov.Place {
				if f == "<body>" {
					continue
				}
				if gc.Place[f] != where {
					bad = append(bad, "declared-"+where+"-but-client-sends-"+orNone(gc.Place[f]))
				}
			}
			hasBody := false
			for _, where := range gc.Place {
				if where == "body" {
					hasBody = true
				}
			}
			if hasBody != (ov.Place["<body>"] == "body") {
				bad = append(bad, fmt.Sprintf("request-body:client=%v,openapi=%v", hasBody, ov.Place["<body>"] == "body"))
			}
			if len(bad) > 0 {
				sort.Strings(bad)
				c.R.Violate(rc.ID, "placement-mismatch", "openapi vs go-client: "+strings.Join(uniqStr(bad), ","), dump())
			}
		}
		for _, n := range names {
			if v := views[n]; v.Missing != "" && n != "openapi" {
				c.R.Violate(rc.ID, "view-missing", n+": "+v.Missing, dump())
			}
		}
		if seen >= 4 || (node == nil && seen >= 3) {
			c.R.Decided(rc.ID)
			c.R.Count("rpcs_compared", 1)
			c.R.Count("views_observed", seen)
		} else {
			c.R.Inconclusive(rc.ID, fmt.Sprintf("only-%d-views", seen))
		}
		if rc.Cfg == "both" && rc.PathShape == "2var-split" {
			b, _ := json.Marshal(dump()["views"])
			c.R.Sample(map[string]any{"case": rc.ID, "views": json.RawMessage(b)})
		}
	}
}

func orNone(s string) string {
	if s == "" {
		return "nowhere"
	}
	return s
}

func uniqStr(in []string) []string {
	var out []string
	for i, s := range in {
		if i == 0 || s != in[i-1] {
			out = append(out, s)
		}
	}
	return out
}

func samePlace(a, b map[string]string) bool {
	if len(a) != len(b) {
		return false
	}
	for k, v := range a {
		if b[k] != v {
			return false
		}
	}
	return true
}

// partition renders which generators share which value, with values abstracted away.
func partition(m map[string][]string) string {
	var groups []string
	for _, who := range m {
		sort.Strings(who)
		groups = append(groups, strings.Join(who, "="))
	}
	sort.Strings(groups)
	return strings.Join(groups, " != ")
}

// buildUnitFromFile runs every generator on one file: Go code into the lab, TS files and
// OpenAPI documents next to it.
func buildUnitFromFile(c *Ctx, l *lab.Lab, f *spec.File) (*routeUnit, error) {
	tsDir := filepath.Join(l.Dir, "ts")
	goName := f.GoName
	pkg := f.Package
	{
		u := &routeUnit{File: f, Docs: map[string]*oas.Doc{}, Refused: map[string]string{}}
		req, err := spec.Request([]*spec.File{f}, nil, "")
		if err != nil {
			return nil, err
		}
		reg, err := spec.Files(req)
		if err != nil {
			return nil, err
		}
		u.Reg = reg
		ad, err := l.Add(req, lab.PkgOpt{Plugins: []string{"go-http", "go-client"}, Tag: pkg, Helpers: true})
		if err != nil {
			return nil, err
		}
		if ad.Refused != "" {
			u.Refused["go"] = ad.Refused
		}
		u.Dir = filepath.Join("gen", goName)
		for _, p := range []string{"ts-client", "ts-server", "openapiv3"} {
			res := lab.RunDecoy(c.TB, p, req, plugin.RunOpt{})
			c.R.Eval(1)
			if !res.OK() {
				u.Refused[p] = fmt.Sprintf("crash=%s error=%s", res.Crash, res.Error)
				continue
			}
			for name, content := range res.Files {
				switch p {
				case "openapiv3":
					d, err := oas.Parse(name, content)
					if err != nil {
						u.Refused[p] = "unparsable document: " + err.Error()
						continue
					}
					svcName := strings.TrimSuffix(strings.TrimSuffix(filepath.Base(name), ".openapi.yaml"), ".openapi.json")
					u.Docs[svcName] = d
				default:
					dst := filepath.Join(tsDir, goName, filepath.Base(name))
					_ = os.MkdirAll(filepath.Dir(dst), 0o755)
					if err := os.WriteFile(dst, []byte(content), 0o644); err != nil {
						return nil, err
					}
					if p == "ts-client" {
						u.TSClient = dst
					} else {
						u.TSServer = dst
					}
				}
			}
		}
		return u, nil
	}
}

func readFile(p string) (string, error) {
	b, err := os.ReadFile(p)
	return string(b), err
}
