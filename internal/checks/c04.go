package checks

import (
	"fmt"
	"strings"

	"google.golang.org/protobuf/proto"
	"google.golang.org/protobuf/types/dynamicpb"

	"verif/internal/corpus"
	"verif/internal/lab"
	"verif/internal/model/jsonmap"
	"verif/internal/report"
	"verif/internal/values"
)

func init() { Registry["C04"] = c04 }

// sampleFeats takes a seed-stratified sample: every annotation family is kept, within a
// family every n-th feature is selected starting at a seed-dependent offset.
func sampleFeats(c *Ctx, feats []corpus.Feature, keepEvery int) []corpus.Feature {
	if c.Thorough() || keepEvery <= 1 {
		return feats
	}
	byAnn := map[string][]corpus.Feature{}
	var order []string
	for _, f := range feats {
		if _, ok := byAnn[f.Ann]; !ok {
			order = append(order, f.Ann)
		}
		byAnn[f.Ann] = append(byAnn[f.Ann], f)
	}
	known, _ := report.LoadKnown()
	named := func(f corpus.Feature) bool {
		fam := strings.SplitN(f.ID, "/", 2)[0]
		for _, k := range known {
			if k.Status == "open" && k.Property == c.R.Prop && (strings.Contains(k.Case, "/"+fam+"/") || strings.Contains(k.Case, ","+fam+",") || strings.Contains(k.Case, "{"+fam+",") || strings.Contains(k.Case, ","+fam+"}")) {
				return true
			}
		}
		return false
	}
	var out []corpus.Feature
	for _, a := range order {
		fs := byAnn[a]
		off := int(c.Seed) % keepEvery
		picked := false
		for i, f := range fs {
			if (i+off)%keepEvery == 0 || named(f) {
				out = append(out, f)
				picked = true
			}
		}
		if !picked {
			out = append(out, fs[0])
		}
	}
	return out
}

// c04: generated Go JSON codecs round-trip every message value; go-http and go-client agree.
func c04(c *Ctx) {
	c.R.Rule = "abstract case = (JSON-mapping feature: annotation x kind x cardinality x field-name shape) x (value class: empty, full variants, per-field boundary classes); " +
		"non-trivial = the codec of the concrete generated type was executed in both packages (go-http-only and go-client-only) on that value and all four oracles were evaluated " +
		"(own round trip, canonical-form decode, cross-plugin tree equality, cross-plugin decode equality)"
	c.R.Assume("protojson/proto of google.golang.org/protobuf are correct (definition of standard proto3 JSON and of message equality)")
	c.R.Assume("reference JSON model internal/model/jsonmap implements the documented mapping (DESIGN.md Appendix F)")
	feats := append(corpus.Features(), corpus.FeaturesNested(c.Thorough(), int(c.Seed))...)
	// All features are cheap here (no services): quick keeps them all but samples values.
	fl, err := buildFeatureLab(c, "c04", feats, []variant{{Tag: "h", Plugins: []string{"go-http"}}, {Tag: "c", Plugins: []string{"go-client"}}}, false, nil, true)
	if err != nil {
		c.R.Harness(err.Error())
		return
	}
	// the emitted timestamp codecs go through time.Time: the process's local zone must not matter.
	// Thorough runs everything under three zones; quick runs the features that mention a Timestamp
	// under the two non-UTC zones as well (one east, one west of Greenwich, both with a fractional offset)
	tzs := []string{"UTC", "Asia/Kolkata", "America/St_Johns"}
	for _, tz := range tzs {
		c04tzFilter = nil
		if !c.Thorough() && tz != "UTC" {
			c04tzFilter = func(f corpus.Feature) bool {
				return strings.HasPrefix(f.Ann, "ts_") || strings.Contains(f.ID, "timestamp") || f.ID == "none/messages/mixed"
			}
		}
		p, err := startPool(fl.Bin, 8, c.Scratch+"/race-c04", "TZ="+tz)
		if err != nil {
			c.R.Harness("cannot start lab: " + err.Error())
			return
		}
		c04run(c, fl, p, tz)
		c04tzFilter = nil
		p.Close()
		for _, pn := range p.Panics {
			c.R.Harness("driver panic in work item: " + firstLines(pn, 12))
		}
	}
	// helper types in an imported file (generated together / one invocation per file)
	c04split(c, "c04s", "codec-split")
	// enum types with enum_value strings: their own JSON methods, in every declaration scope
	c04enum(c, "c04e", "codec-enum")
	n, reps := lab.RaceReports(c.Scratch + "/race-c04")
	c.R.Count("race_reports", n)
	for _, r := range reps {
		c.R.Violate("codec/race", "race", firstLines(r, 3), map[string]any{"report": r})
	}
}

// c04cross is the L2 half of C14: client-only vs server-only package behaviour.
func c04cross(c *Ctx) {
	feats := corpus.Features()
	fl, err := buildFeatureLab(c, "c14", feats, []variant{{Tag: "h", Plugins: []string{"go-http"}}, {Tag: "c", Plugins: []string{"go-client"}}}, false, nil, false)
	if err != nil {
		c.R.Harness(err.Error())
		return
	}
	p, err := startPool(fl.Bin, 8, "")
	if err != nil {
		c.R.Harness("cannot start lab: " + err.Error())
		return
	}
	c04runMode(c, fl, p, "UTC", true)
	p.Close()
	for _, pn := range p.Panics {
		c.R.Harness("driver panic in work item: " + firstLines(pn, 12))
	}
}

func c04run(c *Ctx, fl *featLab, p *pool, tz string) { c04runMode(c, fl, p, tz, false) }

// c04tzFilter, when set, restricts a pass of c04runMode to the features it accepts.
var c04tzFilter func(corpus.Feature) bool

type violFn func(caseID, symptom, detail string, replay any)

func c04runMode(c *Ctx, fl *featLab, p *pool, tz string, crossOnly bool) {
	viol := violFn(c.R.Violate)
	if crossOnly {
		viol = func(caseID, symptom, detail string, replay any) {
			if symptom == "plugins-differ" {
				c.R.Violate(caseID, symptom, detail, replay)
			}
		}
	}
	ids := sortedFeatIDs(fl.Units)
	enc := &jsonmap.Encoder{}
	p.Each(len(ids), func(ch *lab.Child, i int) {
		id := ids[i]
		us := fl.Units[id]
		h, cl := us[0], us[1]
		if c04tzFilter != nil && !c04tzFilter(h.FP.Feat) {
			return
		}
		base := "codec/" + id
		if !c.Want(base) && c.Only != "" && len(c.Only) < len(base) {
			return
		}
		for _, u := range us {
			if u.Refused != "" {
				viol(base, "refused", u.V.Tag+": "+u.Refused, map[string]any{"proto": u.FP.File.Proto(), "plugins": u.V.Plugins})
			} else if d := emittedDiag(u.Diags); d != nil {
				viol(base, "compile", u.V.Tag+": "+d.Msg, map[string]any{"proto": u.FP.File.Proto(), "plugins": u.V.Plugins, "file": d.File, "line": d.Line, "msg": d.Msg})
			}
		}
		if !h.OK() || !cl.OK() {
			if crossOnly && h.OK() != cl.OK() && !strings.HasPrefix(h.FP.Feat.Ann, "unwrap") {
				c.R.Violate(base, "plugins-differ", "only one of the two packages builds", map[string]any{"proto": h.FP.File.Proto()})
			}
			return
		}
		md := h.Msg(h.FP.Root)
		mdc := cl.Msg(cl.FP.Root)
		if md == nil || mdc == nil {
			c.R.Harness("descriptor missing for " + id)
			return
		}
		g := &values.Gen{R: c.Rng("vals:" + id)}
		vals := g.All(md)
		if !c.Thorough() {
			// quick: keep empty, fulls and every 2nd boundary class (seed offset)
			var keep []values.LMsg
			for j, v := range vals {
				if j < 4 || (j+int(c.Seed))%2 == 0 || priorityClass(v.Class) {
					keep = append(keep, v)
				}
			}
			vals = keep
		}
		sampled := false
		for _, lv := range vals {
			caseID := base + "@" + lv.Class
			if !c.Want(caseID) {
				continue
			}
			c.R.Count("values", 1)
			M := lv.M
			w := wire(M)
			norm := jsonmap.Norm(M)
			rp := func(extra map[string]any) map[string]any {
				m := map[string]any{"proto": h.FP.File.Proto(), "type": h.FP.Root, "value_wire_b64": b64(w), "value_text": fmt.Sprint(M), "tz": tz}
				for k, v := range extra {
					m[k] = v
				}
				return m
			}
			// 1. encode with go-http package
			jh, eerr, custom, pan, err := codec(ch, h.FP.Root, "marshal", w)
			c.R.Eval(1)
			if err != nil {
				c.R.Inconclusive(caseID, "lab-child:"+err.Error())
				return
			}
			if custom {
				c.R.Count("custom_marshalers_exercised", 1)
			}
			if pan != "" {
				viol(caseID, "panic", "marshal: "+pan, rp(map[string]any{"stack": pan}))
				continue
			}
			if eerr != "" {
				viol(caseID, "encode-error", eerr, rp(map[string]any{"error": eerr}))
				continue
			}
			if _, perr := jsonmap.Parse(jh); perr != nil {
				viol(caseID, "encode-invalid-json", perr.Error(), rp(map[string]any{"json": string(jh)}))
				continue
			}
			// 2. decode own output
			back, derr, _, pan, err := codec(ch, h.FP.Root, "unmarshal", jh)
			c.R.Eval(1)
			if err != nil {
				c.R.Inconclusive(caseID, "lab-child:"+err.Error())
				return
			}
			switch {
			case pan != "":
				viol(caseID, "panic", "unmarshal own output: "+pan, rp(map[string]any{"json": string(jh), "stack": pan}))
			case derr != "":
				viol(caseID, "decode-own-output", derr, rp(map[string]any{"json": string(jh), "error": derr}))
			default:
				got := dynamicpb.NewMessage(md)
				if uerr := proto.Unmarshal(back, got); uerr != nil {
					c.R.Harness("cannot re-read decoded wire: " + uerr.Error())
				} else if !proto.Equal(jsonmap.Norm(got), norm) {
					viol(caseID, "roundtrip-changed", diffFields(norm, got), rp(map[string]any{"json": string(jh), "decoded": fmt.Sprint(got), "expected": fmt.Sprint(norm)}))
				}
			}
			// 3. same value through the go-client-only package (go-client does not implement
			// unwrap by design, so unwrap features are compared on the go-http side only)
			isUnwrap := strings.HasPrefix(h.FP.Feat.Ann, "unwrap")
			if isUnwrap {
				goto canon
			}
			{
			Mc := dynamicpb.NewMessage(mdc)
			if uerr := proto.Unmarshal(w, Mc); uerr != nil {
				c.R.Harness("variant descriptor mismatch: " + uerr.Error())
				continue
			}
			jc, eerr2, _, pan, err := codec(ch, cl.FP.Root, "marshal", w)
			c.R.Eval(1)
			if err != nil {
				c.R.Inconclusive(caseID, "lab-child:"+err.Error())
				return
			}
			if pan != "" || eerr2 != "" {
				viol(caseID, "plugins-differ", "go-client package fails to encode: "+eerr2+pan, rp(map[string]any{"http_json": string(jh)}))
			} else {
				th, _ := jsonmap.Parse(jh)
				tc, perr := jsonmap.Parse(jc)
				if perr != nil || len(jsonmap.Diff(th, tc)) > 0 {
					viol(caseID, "plugins-differ", "encode trees differ", rp(map[string]any{"http_json": string(jh), "client_json": string(jc)}))
				}
				backc, derrc, _, panc, err := codec(ch, cl.FP.Root, "unmarshal", jh)
				c.R.Eval(1)
				if err != nil {
					c.R.Inconclusive(caseID, "lab-child:"+err.Error())
					return
				}
				if (derrc != "") != (derr != "") || (panc != "") != false && pan == "" {
					viol(caseID, "plugins-differ", "decode outcome differs", rp(map[string]any{"json": string(jh), "http_err": derr, "client_err": derrc + panc}))
				} else if derrc == "" && derr == "" && string(backc) != string(back) {
					viol(caseID, "plugins-differ", "decoded messages differ", rp(map[string]any{"json": string(jh)}))
				}
			}
			}
		canon:
			// 4. canonical contract form (reference model) decodes to norm(M)
			tree, merr := enc.Message(M)
			if merr != nil {
				c.R.Harness("model cannot encode: " + merr.Error())
				continue
			}
			canon := jsonmap.Marshal(tree)
			for _, u := range []*featUnit{h, cl} {
				if u == cl && isUnwrap {
					continue
				}
				backk, derrk, _, pank, err := codec(ch, u.FP.Root, "unmarshal", canon)
				c.R.Eval(1)
				if err != nil {
					c.R.Inconclusive(caseID, "lab-child:"+err.Error())
					return
				}
				sfx := ""
				if u == cl {
					sfx = "(go-client pkg)"
				}
				switch {
				case pank != "":
					viol(caseID, "panic", "unmarshal canonical form"+sfx+": "+pank, rp(map[string]any{"canonical_json": string(canon), "stack": pank}))
				case derrk != "":
					viol(caseID, "canon-decode-error", sfx+derrk, rp(map[string]any{"canonical_json": string(canon), "error": derrk}))
				default:
					got := dynamicpb.NewMessage(md)
					_ = proto.Unmarshal(backk, got)
					if !proto.Equal(jsonmap.Norm(got), norm) {
						viol(caseID, "canon-changed", sfx+diffFields(norm, got), rp(map[string]any{"canonical_json": string(canon), "decoded": fmt.Sprint(got), "expected": fmt.Sprint(norm)}))
					}
				}
			}
			c.R.Decided(caseID)
			if !sampled && lv.Class == "full0" {
				sampled = true
				c.R.Sample(map[string]any{"case": caseID, "type": h.FP.Root, "value": fmt.Sprint(M), "go_http_json": string(jh), "canonical_json": string(canon), "tz": tz})
			}
		}
	})
}

// diffFields names the fields (by coordinates, not by concrete value) that differ.
func diffFields(want, got proto.Message) string {
	w, g := want.ProtoReflect(), got.ProtoReflect()
	fds := w.Descriptor().Fields()
	out := ""
	for i := 0; i < fds.Len(); i++ {
		fd := fds.Get(i)
		a := dynamicpb.NewMessage(w.Descriptor())
		b := dynamicpb.NewMessage(w.Descriptor())
		if w.Has(fd) {
			a.Set(fd, w.Get(fd))
		}
		gfd := g.Descriptor().Fields().ByNumber(fd.Number())
		if gfd != nil && g.Has(gfd) {
			bb, _ := proto.Marshal(got)
			tmp := dynamicpb.NewMessage(w.Descriptor())
			_ = proto.Unmarshal(bb, tmp)
			if tmp.Has(fd) {
				b.Set(fd, tmp.Get(fd))
			}
		}
		if !proto.Equal(a, b) {
			kind := fd.Kind().String()
			card := "singular"
			switch {
			case fd.IsMap():
				card = "map"
			case fd.IsList():
				card = "repeated"
			case fd.HasOptionalKeyword():
				card = "optional"
			}
			state := "changed"
			if w.Has(fd) && !b.Has(fd) {
				state = "lost"
			} else if !w.Has(fd) && b.Has(fd) {
				state = "appeared"
			}
			if out != "" {
				out += ","
			}
			out += fmt.Sprintf("%s:%s:%s", kind, card, state)
		}
	}
	if out == "" {
		out = "unknown-fields-or-order"
	}
	return "fields " + out
}
