package checks

import (
	"fmt"
	"path/filepath"
	"strconv"
	"time"

	"google.golang.org/protobuf/reflect/protoreflect"
	"google.golang.org/protobuf/reflect/protoregistry"

	"verif/internal/corpus"
	"verif/internal/lab"
	"verif/internal/model/jsonmap"
	"verif/internal/spec"
)

// enumCodec runs the generated JSON methods of an enum type in the lab child.
func enumCodec(ch *lab.Child, typ, dir string, num int32, in []byte) (out []byte, errText string, custom bool, panicked string, err error) {
	id := newID("e")
	_, ev, e := ch.Do(map[string]any{"op": "enumcodec", "id": id, "type": typ, "dir": dir, "num": num, "in": b64(in)}, 30*time.Second, "codec_out")
	if e != nil {
		return nil, "", false, "", e
	}
	if h := ev.Str("harness"); h != "" {
		return nil, "", false, "", fmt.Errorf("harness: %s", h)
	}
	custom, _ = ev["custom"].(bool)
	if p := ev.Str("panic"); p != "" {
		return nil, "", custom, p + "\n" + ev.Str("stack"), nil
	}
	if s := ev.Str("err"); s != "" {
		return nil, s, custom, "", nil
	}
	return unb64(ev.Str("out")), "", custom, "", nil
}

// allEnums walks a file's enums, nested ones included.
func allEnums(fd protoreflect.FileDescriptor) []protoreflect.EnumDescriptor {
	var out []protoreflect.EnumDescriptor
	for i := 0; i < fd.Enums().Len(); i++ {
		out = append(out, fd.Enums().Get(i))
	}
	var walk func(ms protoreflect.MessageDescriptors)
	walk = func(ms protoreflect.MessageDescriptors) {
		for i := 0; i < ms.Len(); i++ {
			m := ms.Get(i)
			for j := 0; j < m.Enums().Len(); j++ {
				out = append(out, m.Enums().Get(j))
			}
			walk(m.Messages())
		}
	}
	walk(fd.Messages())
	return out
}

// c04enum: every enum carrying enum_value strings gets JSON methods that write the declared
// string and read it back, wherever the enum is declared (top level, nested, same short name in
// several scopes, a file of its own), from go-http and from go-client alike.
func c04enum(c *Ctx, family, casePrefix string) {
	l, err := lab.New(c.TB, family)
	if err != nil {
		c.R.Harness(err.Error())
		return
	}
	type unit struct {
		shape   corpus.EnumShape
		plugin  string
		reg     *protoregistry.Files
		dir     string
		refused string
		files   []string
	}
	var units []*unit
	for _, plug := range []string{"go-http", "go-client"} {
		tag := map[string]string{"go-http": "h", "go-client": "c"}[plug]
		for _, sh := range corpus.EnumShapes(family+tag, family+tag) {
			u := &unit{shape: sh, plugin: plug, dir: filepath.Join("gen", sh.Files[0].GoName)}
			req, err := spec.Request(sh.Files, nil, "")
			if err != nil {
				c.R.Harness(sh.Label + ": " + err.Error())
				continue
			}
			u.reg, _ = spec.Files(req)
			for _, f := range sh.Files {
				u.files = append(u.files, f.Path)
			}
			ad, err := l.Add(req, lab.PkgOpt{Plugins: []string{plug}, NoGlue: true, Tag: sh.Label + "#" + plug})
			c.R.Eval(1)
			if err != nil {
				c.R.Harness(sh.Label + ": " + err.Error())
				continue
			}
			u.refused = ad.Refused
			units = append(units, u)
		}
	}
	if un := l.CompileAll(false); un != "" {
		c.R.Harness("unattributed build output: " + firstLines(un, 10))
		return
	}
	bin, err := l.BuildBinary(false)
	if err != nil {
		c.R.Harness(err.Error())
		return
	}
	ch, err := lab.Start(bin, "")
	if err != nil {
		c.R.Harness(err.Error())
		return
	}
	defer ch.Quit()
	for _, u := range units {
		var protos []string
		for _, f := range u.shape.Files {
			protos = append(protos, f.Proto())
		}
		base := fmt.Sprintf("%s/%s/%s", casePrefix, u.shape.Label, u.plugin)
		if u.refused != "" {
			c.R.Violate(base, "refused", u.refused, map[string]any{"protos": protos})
			continue
		}
		if d := emittedDiag(l.Failed[u.dir]); d != nil {
			c.R.Violate(base, "compile", fileKind(d.File)+": "+d.Msg, map[string]any{"protos": protos, "file": d.File, "line": d.Line})
			continue
		}
		for _, path := range u.files {
			fd, err := u.reg.FindFileByPath(path)
			if err != nil {
				continue
			}
			for _, ed := range allEnums(fd) {
				annotated := false
				for i := 0; i < ed.Values().Len(); i++ {
					if jsonmap.EnumJSON(ed.Values().Get(i)) != "" {
						annotated = true
					}
				}
				if !annotated {
					continue
				}
				scope := "top"
				if _, nested := ed.Parent().(protoreflect.MessageDescriptor); nested {
					scope = "nested"
				}
				caseID := fmt.Sprintf("%s/enum=%s-%s", base, scope, ed.Name())
				if !c.Want(caseID) {
					continue
				}
				rp := func(extra map[string]any) map[string]any {
					m := map[string]any{"protos": protos, "plugin": u.plugin, "enum": string(ed.FullName())}
					for k, v := range extra {
						m[k] = v
					}
					return m
				}
				for i := 0; i < ed.Values().Len(); i++ {
					vd := ed.Values().Get(i)
					want := jsonmap.EnumJSON(vd)
					if want == "" {
						want = string(vd.Name())
					}
					out, errText, custom, pn, err := enumCodec(ch, string(ed.FullName()), "marshal", int32(vd.Number()), nil)
					c.R.Eval(1)
					if err != nil {
						c.R.Inconclusive(caseID, "lab-child")
						break
					}
					switch {
					case pn != "":
						c.R.Violate(caseID, "panic", firstLines(pn, 1), rp(map[string]any{"value": string(vd.Name()), "stack": pn}))
					case !custom:
						c.R.Violate(caseID, "enum-without-json-methods", "marshal", rp(map[string]any{"value": string(vd.Name()), "encoded": string(out)}))
					case errText != "":
						c.R.Violate(caseID, "enum-encode-error", errText, rp(map[string]any{"value": string(vd.Name())}))
					case string(out) != strconv.Quote(want):
						c.R.Violate(caseID, "enum-json-differs", "", rp(map[string]any{"value": string(vd.Name()), "encoded": string(out), "declared": want}))
					}
					back, errText, custom, pn, err := enumCodec(ch, string(ed.FullName()), "unmarshal", 0, []byte(strconv.Quote(want)))
					c.R.Eval(1)
					if err != nil {
						c.R.Inconclusive(caseID, "lab-child")
						break
					}
					switch {
					case pn != "":
						c.R.Violate(caseID, "panic", firstLines(pn, 1), rp(map[string]any{"value": string(vd.Name()), "stack": pn}))
					case !custom:
						c.R.Violate(caseID, "enum-without-json-methods", "unmarshal", rp(map[string]any{"value": string(vd.Name())}))
					case errText != "":
						c.R.Violate(caseID, "enum-declared-string-rejected", "", rp(map[string]any{"value": string(vd.Name()), "json": want, "error": errText}))
					case string(back) != fmt.Sprint(int32(vd.Number())):
						c.R.Violate(caseID, "enum-decoded-to-other-value", "", rp(map[string]any{"value": string(vd.Name()), "json": want, "decoded_number": string(back)}))
					}
				}
				c.R.Decided(caseID)
			}
		}
	}
}
