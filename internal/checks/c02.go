package checks

import (
	"fmt"
	"math"
	"net/url"
	"os"
	"path/filepath"
	"strconv"
	"strings"

	"google.golang.org/protobuf/proto"
	"google.golang.org/protobuf/reflect/protoreflect"
	"google.golang.org/protobuf/types/dynamicpb"

	sebufhttp "github.com/SebastienMelki/sebuf/http"

	"verif/internal/corpus"
	"verif/internal/lab"
	"verif/internal/model/jsonmap"
	"verif/internal/oas"
	"verif/internal/plugin"
	"verif/internal/spec"
)

func init() { Registry["C02"] = c02 }

// urlValue is a URL spelling of a scalar with the value it must denote (or Invalid).
type urlValue struct {
	Class   string
	Raw     string // raw (already percent-encoded) text placed in the URL
	Invalid bool   // clearly not convertible to the kind
	V       protoreflect.Value
}

func enc(s string) string { return url.PathEscape(s) }

// urlValues lists clearly-valid and clearly-invalid spellings for a kind (DESIGN 3.3: ambiguous
// spellings such as +1, 0x10, 1e3 for ints, T/1 for bools are never used). Zero-padded decimals
// (089, 0123) are decimal under every published reading (OpenAPI integer, the documented
// "string -> integer" conversion) and are asserted.
func urlValues(k protoreflect.Kind, forPath bool) []urlValue {
	q := func(s string) string {
		if forPath {
			return url.PathEscape(s)
		}
		return url.QueryEscape(s)
	}
	var out []urlValue
	add := func(class, raw string, v protoreflect.Value) { out = append(out, urlValue{Class: class, Raw: raw, V: v}) }
	bad := func(class, raw string) { out = append(out, urlValue{Class: class, Raw: raw, Invalid: true}) }
	switch k {
	case protoreflect.StringKind:
		for _, s := range []struct{ c, v string }{{"ascii", "alpha-1"}, {"nonascii", "héllo wörld 日本"}, {"astral", "a😀b"}, {"reserved", "a/b?c#d&e=f+g h;i"}, {"pct-literal", "100%25 sure%2F"}, {"plus", "a+b"}, {"outer-spaces", " x y "}, {"newline", "a\nb"}, {"number-looking", "0042"}, {"bool-looking", "false"}} {
			add(s.c, q(s.v), protoreflect.ValueOfString(s.v))
		}
	case protoreflect.BoolKind:
		add("true", "true", protoreflect.ValueOfBool(true))
		add("false", "false", protoreflect.ValueOfBool(false))
		bad("word", "maybe")
		bad("number", "2")
	case protoreflect.Int32Kind, protoreflect.Sint32Kind, protoreflect.Sfixed32Kind:
		add("pos", "42", protoreflect.ValueOfInt32(42))
		add("neg", "-7", protoreflect.ValueOfInt32(-7))
		add("zero-padded", "089", protoreflect.ValueOfInt32(89))
		add("zero-padded-octal-looking", "0123", protoreflect.ValueOfInt32(123))
		add("max", "2147483647", protoreflect.ValueOfInt32(math.MaxInt32))
		add("min", "-2147483648", protoreflect.ValueOfInt32(math.MinInt32))
		bad("overflow", "2147483648")
		bad("word", "abc")
		bad("fraction", "1.5")
		bad("trailing", "12abc")
	case protoreflect.Int64Kind, protoreflect.Sint64Kind, protoreflect.Sfixed64Kind:
		add("pos", "42", protoreflect.ValueOfInt64(42))
		add("neg", "-7", protoreflect.ValueOfInt64(-7))
		add("zero-padded", "089", protoreflect.ValueOfInt64(89))
		add("zero-padded-octal-looking", "-0123", protoreflect.ValueOfInt64(-123))
		add("max", "9223372036854775807", protoreflect.ValueOfInt64(math.MaxInt64))
		add("min", "-9223372036854775808", protoreflect.ValueOfInt64(math.MinInt64))
		add("gt2p53", "9007199254740993", protoreflect.ValueOfInt64(1<<53+1))
		bad("overflow", "9223372036854775808")
		bad("word", "abc")
		bad("fraction", "1.5")
	case protoreflect.Uint32Kind, protoreflect.Fixed32Kind:
		add("pos", "42", protoreflect.ValueOfUint32(42))
		add("zero-padded", "089", protoreflect.ValueOfUint32(89))
		add("zero-padded-octal-looking", "0123", protoreflect.ValueOfUint32(123))
		add("max", "4294967295", protoreflect.ValueOfUint32(math.MaxUint32))
		bad("negative", "-1")
		bad("overflow", "4294967296")
		bad("word", "abc")
	case protoreflect.Uint64Kind, protoreflect.Fixed64Kind:
		add("pos", "42", protoreflect.ValueOfUint64(42))
		add("zero-padded", "089", protoreflect.ValueOfUint64(89))
		add("zero-padded-octal-looking", "0123", protoreflect.ValueOfUint64(123))
		add("max", "18446744073709551615", protoreflect.ValueOfUint64(math.MaxUint64))
		bad("negative", "-1")
		bad("overflow", "18446744073709551616")
		bad("word", "abc")
	case protoreflect.FloatKind:
		add("frac", "1.5", protoreflect.ValueOfFloat32(1.5))
		add("neg", "-2.25", protoreflect.ValueOfFloat32(-2.25))
		add("int", "3", protoreflect.ValueOfFloat32(3))
		add("exponent", "1e3", protoreflect.ValueOfFloat32(1000))
		add("neg-exponent", "25e-1", protoreflect.ValueOfFloat32(2.5))
		bad("word", "abc")
		bad("two-dots", "1.2.3")
	case protoreflect.DoubleKind:
		add("frac", "1.5", protoreflect.ValueOfFloat64(1.5))
		add("neg", "-2.25", protoreflect.ValueOfFloat64(-2.25))
		add("small", "0.000001", protoreflect.ValueOfFloat64(0.000001))
		add("exponent", "1e3", protoreflect.ValueOfFloat64(1000))
		add("neg-exponent", "25e-1", protoreflect.ValueOfFloat64(2.5))
		add("big", "1e100", protoreflect.ValueOfFloat64(1e100))
		bad("word", "abc")
		bad("two-dots", "1.2.3")
	}
	return out
}

// chunked-empty*: no body bytes, sent without a Content-Length (Transfer-Encoding: chunked, terminating chunk
// only) as streaming clients and proxies do: the declared length is unknown, the body is empty
var bodyVariants = []string{"absent", "empty", "empty-object", "other-fields", "protobuf-other-fields", "chunked-empty", "chunked-empty-protobuf"}

// c02: URL-carried fields reach the handler with the URL's value, for every verb.
func c02(c *Ctx) {
	c.R.Rule = "abstract case = (RPC with a path- or query-bound field: kind x cardinality x verb) x body variant {absent, empty, {}, object with other fields, protobuf body with other fields} x URL value class (clearly valid boundary spellings, clearly invalid spellings, percent-encoded, repeated occurrences, missing required); " +
		"servers: generated Go server (raw HTTP from the driver) and generated TS server (node bridge); non-trivial = the raw request was sent, the server's status/body and the handler log (entered or not, request bytes) were observed and compared with the binding model; OpenAPI: every query-annotated field is declared `in: query` for every verb"
	c.R.Assume("string->scalar conversion is judged only on clearly valid / clearly invalid spellings; repeated occurrences of a singular parameter: only membership is asserted")
	l, err := lab.New(c.TB, "c02")
	if err != nil {
		c.R.Harness(err.Error())
		return
	}
	type unit struct {
		f        *spec.File
		cases    []*corpus.PlaceCase
		reg      interface{ FindDescriptorByName(protoreflect.FullName) (protoreflect.Descriptor, error) }
		dir      string
		tsServer string
		doc      *oas.Doc
		refused  string
		reqd     *corpus.PlaceCase
	}
	var units []*unit
	tsDir := filepath.Join(l.Dir, "ts")
	for _, g := range corpus.PlacementGroups() {
		pkg := "c02.p" + g.Label
		f, cases := corpus.PlacementFileG(pkg, "c02p"+g.Label, g)
		if g.Label == "ok" {
			// add required-query RPCs
			svc := f.Services[0]
			for _, v := range []string{"GET", "POST"} {
				mn := "Req" + strings.Title(strings.ToLower(v))
				f.Messages = append(f.Messages, &spec.Message{Name: mn + "Req", Fields: []*spec.Field{spec.F("must_have", 1, spec.String).QReq("must"), spec.F("opt_num", 2, spec.Int32).Q("n")}})
				svc.Methods = append(svc.Methods, &spec.Method{Name: mn, In: "." + pkg + "." + mn + "Req", Out: "." + pkg + ".PlaceResp", HTTP: &spec.HTTP{Path: "/req" + strings.ToLower(v), Verb: spec.Verb(v)}})
				cases = append(cases, &corpus.PlaceCase{ID: "place/query-required/string/singular/" + v, Where: "query-required", Kind: "string", Card: "singular", Verb: v, Svc: pkg + ".PlaceService", Method: mn, In: pkg + "." + mn + "Req", Out: pkg + ".PlaceResp", Field: "must_have", QueryKey: "must", Template: "/pl/req" + strings.ToLower(v)})
			}
		}
		req, err := spec.Request([]*spec.File{f}, nil, "")
		if err != nil {
			c.R.Harness(err.Error())
			return
		}
		reg, _ := spec.Files(req)
		ad, err := l.Add(req, lab.PkgOpt{Plugins: []string{"go-http"}, Tag: pkg})
		if err != nil {
			c.R.Harness(err.Error())
			return
		}
		u := &unit{f: f, cases: cases, reg: reg, dir: "gen/c02p" + g.Label, refused: ad.Refused}
		for _, p := range []string{"ts-server", "openapiv3"} {
			res := lab.RunDecoy(c.TB, p, req, plugin.RunOpt{})
			c.R.Eval(1)
			if !res.OK() {
				continue
			}
			for name, content := range res.Files {
				if p == "openapiv3" {
					if d, err := oas.Parse(name, content); err == nil {
						u.doc = d
					}
				} else {
					dst := filepath.Join(tsDir, "c02p"+g.Label, filepath.Base(name))
					_ = os.MkdirAll(filepath.Dir(dst), 0o755)
					_ = os.WriteFile(dst, []byte(content), 0o644)
					u.tsServer = dst
				}
			}
		}
		units = append(units, u)
	}
	seqUnit := c02seqAdd(c, l)
	if un := l.CompileAll(false); un != "" {
		c.R.Harness("unattributed build output: " + firstLines(un, 10))
		return
	}
	bin, err := l.BuildBinary(true)
	if err != nil {
		c.R.Harness(err.Error())
		return
	}
	ch, err := lab.Start(bin, c.Scratch+"/race-c02")
	if err != nil {
		c.R.Harness(err.Error())
		return
	}
	defer ch.Quit()
	node, _ := lab.StartNode()
	if node != nil {
		defer node.Quit()
	}
	enc := &jsonmap.Encoder{}
	for _, u := range units {
		if u.refused != "" || len(l.Failed[u.dir]) > 0 {
			for _, pc := range u.cases {
				if d := emittedDiag(l.Failed[u.dir]); d != nil {
					c.R.Violate("bind/go/"+pc.ID, "compile", d.Msg, map[string]any{"proto": u.f.Proto()})
				} else {
					c.R.Violate("bind/go/"+pc.ID, "refused", u.refused, map[string]any{"proto": u.f.Proto()})
				}
			}
			continue
		}
		gs, err := serveGo(ch, []string{u.cases[0].Svc}, "none", false)
		if err != nil {
			c.R.Harness("cannot serve: " + err.Error())
			continue
		}
		var ts *srv
		if node != nil && u.tsServer != "" {
			ts, _ = serveTS(node, u.tsServer, "createPlaceServiceRoutes", nil)
		}
		protoText := u.f.Proto()
		for _, pc := range u.cases {
			d, _ := u.reg.FindDescriptorByName(protoreflect.FullName(pc.In))
			md := d.(protoreflect.MessageDescriptor)
			fd := md.Fields().ByName(protoreflect.Name(pc.Field))
			// OpenAPI: a path-bound field is declared as a path parameter of its own operation
			if u.doc != nil && pc.Where == "path" {
				caseID := "bind/openapi/" + pc.ID
				found, opSeen := false, false
				for _, op := range u.doc.Ops() {
					if op.OperationID != pc.Method {
						continue
					}
					opSeen = true
					for _, p := range op.Params {
						if p.In == "path" && p.Name == pc.Field {
							found = true
						}
					}
				}
				if opSeen && !found {
					c.R.Violate(caseID, "path-parameter-not-declared", "", map[string]any{"proto": protoText, "operation": pc.Method, "param": pc.Field})
				}
				c.R.Decided(caseID)
			}
			// OpenAPI: query-annotated field declared as a query parameter for every verb
			if u.doc != nil && strings.HasPrefix(pc.Where, "query") {
				caseID := "bind/openapi/" + pc.ID
				found := false
				for _, op := range u.doc.Ops() {
					if op.OperationID != pc.Method {
						continue
					}
					for _, p := range op.Params {
						if p.In == "query" && p.Name == pc.QueryKey {
							found = true
							if pc.Where == "query-required" && !p.Required {
								c.R.Violate(caseID, "required-query-not-required-in-openapi", "", map[string]any{"proto": protoText, "operation": pc.Method})
							}
						}
					}
				}
				if !found {
					c.R.Violate(caseID, "query-parameter-not-declared", "", map[string]any{"proto": protoText, "operation": pc.Method, "param": pc.QueryKey})
				}
				c.R.Decided(caseID)
			}
			bodyVerb := pc.Verb == "POST" || pc.Verb == "PUT" || pc.Verb == "PATCH"
			vals := urlValues(fd.Kind(), pc.Where == "path")
			if fd.Kind() == protoreflect.EnumKind || fd.Kind() == protoreflect.BytesKind {
				// the documentation does not define URL spellings of enums/bytes: nothing to assert
				// beyond "no crash" (C11); skip
				continue
			}
			for vi, uv := range vals {
				for bi, bv := range bodyVariants {
					if !c.Thorough() && (vi+bi+int(c.Seed))%2 == 1 && bv != "other-fields" {
						continue
					}
					for _, target := range []string{"go", "ts"} {
						if target == "ts" && (ts == nil || bv == "protobuf-other-fields" || bv == "chunked-empty-protobuf") {
							continue
						}
						caseID := fmt.Sprintf("bind/%s/%s/body=%s@%s", target, pc.ID, bv, uv.Class)
						if !c.Want(caseID) {
							continue
						}
						c02one(c, target, ch, node, gs, ts, pc, md, fd, uv, bv, bodyVerb, caseID, protoText, enc)
					}
				}
			}
			// repeated occurrences / missing required
			if strings.HasPrefix(pc.Where, "query") {
				c02multi(c, ch, gs, pc, md, fd, protoText)
			}
		}
		gs.Stop()
		if ts != nil {
			ts.Stop()
		}
	}
	seqUnit.run(c, l, ch)
	nr, reps := lab.RaceReports(c.Scratch + "/race-c02")
	c.R.Count("race_reports", nr)
	for _, r := range reps {
		c.R.Violate("bind/race", "race", firstLines(r, 3), map[string]any{"report": r})
	}
}

func buildTarget(pc *corpus.PlaceCase, raw string) string {
	switch pc.Where {
	case "path":
		return strings.Replace(pc.Template, "{"+pc.Field+"}", raw, 1)
	default:
		return pc.Template + "?" + pc.QueryKey + "=" + raw
	}
}

func c02one(c *Ctx, target string, ch, node *lab.Child, gs, ts *srv, pc *corpus.PlaceCase, md protoreflect.MessageDescriptor, fd protoreflect.FieldDescriptor,
	uv urlValue, bv string, bodyVerb bool, caseID, protoText string, enc *jsonmap.Encoder) {
	uri := buildTarget(pc, uv.Raw)
	hdr := [][2]string{}
	var body []byte
	other := dynamicpb.NewMessage(md)
	if nf := md.Fields().ByName("note"); nf != nil {
		other.Set(nf, protoreflect.ValueOfString("from-body"))
	}
	switch bv {
	case "absent":
	case "empty":
		hdr = append(hdr, [2]string{"Content-Type", "application/json"})
		body = []byte{}
	case "empty-object":
		hdr = append(hdr, [2]string{"Content-Type", "application/json"})
		body = []byte("{}")
	case "chunked-empty":
		hdr = append(hdr, [2]string{"Content-Type", "application/json"})
		body = []byte{}
	case "chunked-empty-protobuf":
		hdr = append(hdr, [2]string{"Content-Type", "application/x-protobuf"})
		body = []byte{}
	case "other-fields":
		hdr = append(hdr, [2]string{"Content-Type", "application/json"})
		t, _ := enc.Message(other)
		body = jsonmap.Marshal(t)
	case "protobuf-other-fields":
		hdr = append(hdr, [2]string{"Content-Type", "application/x-protobuf"})
		body = wire(other)
	}
	base := gs.URL
	child := ch
	if target == "ts" {
		base = ts.URL
		child = node
	}
	send := rawHTTP
	if strings.HasPrefix(bv, "chunked-") {
		send = rawHTTPChunkedWire
	}
	resp, err := send(pc.Verb, base, uri, hdr, body)
	c.R.Eval(1)
	if err != nil {
		transportFailure(c, child, nil, caseID, err, map[string]any{"target": target, "uri": uri})
		return
	}
	evs, serr := syncEvents(child)
	if serr != nil {
		c.R.Inconclusive(caseID, "sync:"+serr.Error())
		return
	}
	var handlers []lab.Event
	for _, e := range evs {
		switch e.Str("ev") {
		case "handler":
			handlers = append(handlers, e)
		case "panic":
			c.R.Violate(caseID, "panic", e.Str("value"), map[string]any{"proto": protoText, "request": pc.Verb + " " + uri, "stack": e.Str("stack")})
		}
	}
	rp := func(extra map[string]any) map[string]any {
		m := map[string]any{"proto": protoText, "server": target, "request": pc.Verb + " " + uri, "request_headers": hdr, "request_body": string(body), "status": resp.Status, "response_body": string(resp.Body)}
		for k, v := range extra {
			m[k] = v
		}
		return m
	}
	if uv.Invalid {
		if len(handlers) > 0 {
			c.R.Violate(caseID, "handler-reached-with-invalid-url-value", "", rp(nil))
			return
		}
		if resp.Status != 400 {
			c.R.Violate(caseID, "status", fmt.Sprintf("st%d", resp.Status), rp(nil))
			return
		}
		// violation must name the field
		named := false
		fields, _ := violationFields(resp.Body, resp.Header.Get("Content-Type"))
		for _, f := range fields {
			if f == pc.Field {
				named = true
			}
		}
		if !named {
			c.R.Violate(caseID, "violation-does-not-name-field", "", rp(nil))
		}
		c.R.Decided(caseID)
		return
	}
	if len(handlers) != 1 {
		c.R.Violate(caseID, "handler-not-reached", fmt.Sprintf("st%d", resp.Status), rp(nil))
		return
	}
	// expected handler-visible message: URL field + body fields (when the verb has a body)
	want := dynamicpb.NewMessage(md)
	if fd.IsList() {
		want.Mutable(fd).List().Append(uv.V)
	} else {
		want.Set(fd, uv.V)
	}
	if bodyVerb && (bv == "other-fields" || bv == "protobuf-other-fields") {
		if nf := md.Fields().ByName("note"); nf != nil {
			want.Set(nf, protoreflect.ValueOfString("from-body"))
		}
	}
	if target == "go" {
		got := dynamicpb.NewMessage(md)
		if err := proto.Unmarshal(unb64(handlers[0].Str("req")), got); err != nil {
			c.R.Harness("bad handler wire")
			return
		}
		// compare only the URL-bound field strictly (body fields are C01/C05 business) …
		gv, wv := dynamicpb.NewMessage(md), dynamicpb.NewMessage(md)
		if got.Has(fd) {
			gv.Set(fd, got.Get(fd))
		}
		wv.Set(fd, want.Get(fd))
		if !proto.Equal(gv, wv) {
			c.R.Violate(caseID, "url-value-not-delivered", stateOf(got, fd), rp(map[string]any{"handler_saw": fmt.Sprint(got), "expected_field": fmt.Sprint(wv)}))
		} else if !proto.Equal(got, want) {
			c.R.Count("body_field_mismatches_left_to_C01_C05", 1)
		}
	} else {
		// TS handler receives a JS object: the URL-bound property must denote the value (modulo
		// its JS type, which is C07's question)
		obj := oas.M(handlers[0]["req"])
		gotv, present := obj[fd.JSONName()]
		wantTree, _ := enc.Message(want)
		wantv, inModel := oas.M(jsonmap.Resolve(wantTree))[fd.JSONName()]
		if !inModel {
			// the value is the proto3 default (omitted by the mapping): any default-denoting value, or absence, is fine
			wantv = zeroJSON(fd)
			if !present {
				gotv = wantv
				present = true
			}
		}
		if !present || !looseEqual(gotv, wantv) {
			c.R.Violate(caseID, "url-value-not-delivered", "ts", rp(map[string]any{"handler_saw": obj, "expected_property": wantv}))
		}
	}
	c.R.Decided(caseID)
}

func zeroJSON(fd protoreflect.FieldDescriptor) any {
	switch fd.Kind() {
	case protoreflect.StringKind:
		return ""
	case protoreflect.BoolKind:
		return false
	}
	return 0
}

// violationFields extracts violation field names from a 400 body in the given content type.
func violationFields(body []byte, contentType string) ([]string, bool) {
	if strings.HasPrefix(contentType, "application/x-protobuf") || strings.HasPrefix(contentType, "application/octet-stream") {
		ve := &sebufhttp.ValidationError{}
		if err := proto.Unmarshal(body, ve); err != nil {
			return nil, false
		}
		var out []string
		for _, v := range ve.GetViolations() {
			out = append(out, v.GetField())
		}
		return out, true
	}
	t, err := jsonmap.Parse(body)
	if err != nil {
		return nil, false
	}
	vs, ok := oas.M(t)["violations"].([]any)
	if !ok {
		return nil, false
	}
	var out []string
	for _, v := range vs {
		out = append(out, oas.S(oas.M(v)["field"]))
	}
	return out, true
}

func stateOf(m *dynamicpb.Message, fd protoreflect.FieldDescriptor) string {
	if !m.Has(fd) {
		return "field reset/absent"
	}
	return "field changed"
}

// looseEqual compares a JS value with a model JSON value by denotation: "5" == 5, numbers by
// value, arrays element-wise.
func looseEqual(a, b any) bool {
	if la, ok := a.([]any); ok {
		lb, ok := b.([]any)
		if !ok || len(la) != len(lb) {
			return false
		}
		for i := range la {
			if !looseEqual(la[i], lb[i]) {
				return false
			}
		}
		return true
	}
	sa, sb := fmt.Sprint(a), fmt.Sprint(b)
	if sa == sb {
		return true
	}
	fa, ea := strconv.ParseFloat(sa, 64)
	fb, eb := strconv.ParseFloat(sb, 64)
	if ea == nil && eb == nil {
		if fa == fb {
			return true
		}
		// float32 spellings
		return float32(fa) == float32(fb)
	}
	return false
}

// c02multi: repeated occurrences and missing required parameters (Go server).
func c02multi(c *Ctx, ch *lab.Child, gs *srv, pc *corpus.PlaceCase, md protoreflect.MessageDescriptor, fd protoreflect.FieldDescriptor, protoText string) {
	vals := urlValues(fd.Kind(), false)
	var valid []urlValue
	for _, v := range vals {
		if !v.Invalid {
			valid = append(valid, v)
		}
	}
	send := func(uri string) (*rawResp, []lab.Event, bool) {
		resp, err := rawHTTP(pc.Verb, gs.URL, uri, nil, nil)
		c.R.Eval(1)
		if err != nil {
			return nil, nil, false
		}
		evs, err := syncEvents(ch)
		if err != nil {
			return nil, nil, false
		}
		var hs []lab.Event
		for _, e := range evs {
			if e.Str("ev") == "handler" {
				hs = append(hs, e)
			}
		}
		return resp, hs, true
	}
	if pc.Where == "query-required" {
		caseID := "bind/go/" + pc.ID + "/missing-required"
		resp, hs, ok := send(pc.Template)
		if ok {
			rp := map[string]any{"proto": protoText, "request": pc.Verb + " " + pc.Template, "status": resp.Status, "response_body": string(resp.Body)}
			if len(hs) > 0 {
				c.R.Violate(caseID, "handler-reached-without-required-query", "", rp)
			} else if resp.Status != 400 {
				c.R.Violate(caseID, "status", fmt.Sprintf("st%d", resp.Status), rp)
			} else {
				t, _ := jsonmap.Parse(resp.Body)
				named := false
				for _, v := range oas.L(oas.M(t)["violations"]) {
					if oas.S(oas.M(v)["field"]) == pc.Field {
						named = true
					}
				}
				if !named {
					c.R.Violate(caseID, "violation-does-not-name-field", "", rp)
				}
			}
			c.R.Decided(caseID)
		}
		return
	}
	if len(valid) < 2 {
		return
	}
	a, b := valid[0], valid[1]
	uri := pc.Template + "?" + pc.QueryKey + "=" + a.Raw + "&" + pc.QueryKey + "=" + b.Raw
	caseID := "bind/go/" + pc.ID + "/repeated-occurrences"
	resp, hs, ok := send(uri)
	if !ok {
		return
	}
	rp := map[string]any{"proto": protoText, "request": pc.Verb + " " + uri, "status": resp.Status, "response_body": string(resp.Body)}
	if len(hs) != 1 {
		c.R.Violate(caseID, "handler-not-reached", fmt.Sprintf("st%d", resp.Status), rp)
		return
	}
	got := dynamicpb.NewMessage(md)
	_ = proto.Unmarshal(unb64(hs[0].Str("req")), got)
	if fd.IsList() {
		l := got.Get(fd).List()
		if l.Len() != 2 || !valEq(fd, l.Get(0), a.V) || !valEq(fd, l.Get(1), b.V) {
			rp["handler_saw"] = fmt.Sprint(got)
			c.R.Violate(caseID, "url-value-not-delivered", "repeated: list differs", rp)
		}
	} else {
		v := got.Get(fd)
		if !got.Has(fd) || !(valEq(fd, v, a.V) || valEq(fd, v, b.V)) {
			rp["handler_saw"] = fmt.Sprint(got)
			c.R.Violate(caseID, "url-value-not-delivered", "singular given twice: value is neither occurrence", rp)
		}
	}
	c.R.Decided(caseID)
}

func valEq(fd protoreflect.FieldDescriptor, a, b protoreflect.Value) bool {
	switch fd.Kind() {
	case protoreflect.FloatKind, protoreflect.DoubleKind:
		return a.Float() == b.Float()
	case protoreflect.BytesKind:
		return string(a.Bytes()) == string(b.Bytes())
	}
	return a.Interface() == b.Interface()
}
