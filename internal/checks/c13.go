package checks

import (
	"fmt"
	"os"
	"path/filepath"
	"sort"
	"strings"
	"sync"
	"time"

	"verif/internal/corpus"
	"verif/internal/lab"
	"verif/internal/plugin"
	"verif/internal/report"
	"verif/internal/spec"
)

func init() { Registry["C13"] = c13 }

// buildCase is one package-sized abstract case of the build catalogue.
type buildCase struct {
	ID    string
	Files func(pkg, goName string) []*spec.File // all files share the Go package
	Mock  bool
	TS    bool // also load TS outputs
}

func oneFile(pkg, goName string, fill func(f *spec.File)) []*spec.File {
	f := &spec.File{Path: strings.ReplaceAll(pkg, ".", "/") + "/defs.proto", Package: pkg, GoImport: "lab/gen/" + goName, GoName: goName}
	fill(f)
	return []*spec.File{f}
}

func echoSvc(pkg, name, in, out string, verb int32, path string) *spec.Service {
	return &spec.Service{Name: name, BasePath: spec.S("/b"), Methods: []*spec.Method{{Name: "Call", In: "." + pkg + "." + in, Out: "." + pkg + "." + out, HTTP: &spec.HTTP{Path: path, Verb: verb}}}}
}

func buildCatalogue(c *Ctx) []buildCase {
	var out []buildCase
	feats := append(corpus.Features(), corpus.FeaturesNested(c.Thorough(), int(c.Seed))...)
	// 1. every JSON-mapping feature: bare, with service, with all contexts
	for i, f := range feats {
		i, f := i, f
		for _, shape := range []string{"bare", "svc", "ctx"} {
			shape := shape
			out = append(out, buildCase{ID: "feature/" + f.ID + "/" + shape, TS: shape != "bare", Files: func(pkg, goName string) []*spec.File {
				var ctxs []string
				switch shape {
				case "svc":
					ctxs = []string{"top"}
				case "ctx":
					ctxs = corpus.Contexts
				}
				fp := corpus.BuildFeaturePkg(f, i, "x", "", corpus.NewNames(c.Rng("names:"+f.ID)), shape != "bare", ctxs)
				return []*spec.File{fp.File.Rename(pkg, strings.ReplaceAll(pkg, ".", "/")+"/defs.proto", "lab/gen/"+goName)}
			}})
		}
	}
	// 2. two annotations on one message (all pairs)
	type ann struct {
		n string
		f func(pkg string, num int32) (*spec.Field, []*spec.Message, []*spec.EnumDef, *spec.Oneof)
	}
	kidMsg := func(pkg string) *spec.Message {
		return &spec.Message{Name: "PairKid", Fields: []*spec.Field{spec.F("street", 1, spec.String)}}
	}
	anns := []ann{
		{"int64_number", func(pkg string, n int32) (*spec.Field, []*spec.Message, []*spec.EnumDef, *spec.Oneof) {
			return spec.F(fmt.Sprintf("big_%d", n), n, spec.Int64).With(func(a *spec.Ann) { a.Int64Enc = 2 }), nil, nil, nil
		}},
		{"nullable", func(pkg string, n int32) (*spec.Field, []*spec.Message, []*spec.EnumDef, *spec.Oneof) {
			return spec.F(fmt.Sprintf("maybe_%d", n), n, spec.String).Opt().With(func(a *spec.Ann) { a.Nullable = spec.B(true) }), nil, nil, nil
		}},
		{"empty_behavior", func(pkg string, n int32) (*spec.Field, []*spec.Message, []*spec.EnumDef, *spec.Oneof) {
			return spec.FM(fmt.Sprintf("kid_%d", n), n, "."+pkg+".PairKid").With(func(a *spec.Ann) { a.EmptyBehavior = 2 }), nil, nil, nil
		}},
		{"timestamp_format", func(pkg string, n int32) (*spec.Field, []*spec.Message, []*spec.EnumDef, *spec.Oneof) {
			return spec.FM(fmt.Sprintf("at_%d", n), n, spec.Timestamp).With(func(a *spec.Ann) { a.TSFormat = 3 }), nil, nil, nil
		}},
		{"bytes_encoding", func(pkg string, n int32) (*spec.Field, []*spec.Message, []*spec.EnumDef, *spec.Oneof) {
			return spec.F(fmt.Sprintf("blob_%d", n), n, spec.Bytes).With(func(a *spec.Ann) { a.BytesEnc = 5 }), nil, nil, nil
		}},
		{"flatten", func(pkg string, n int32) (*spec.Field, []*spec.Message, []*spec.EnumDef, *spec.Oneof) {
			return spec.FM(fmt.Sprintf("flat_%d", n), n, "."+pkg+".PairKid").With(func(a *spec.Ann) { a.Flatten = spec.B(true); a.FlattenPrefix = spec.S(fmt.Sprintf("p%d_", n)) }), nil, nil, nil
		}},
		{"oneof_config", func(pkg string, n int32) (*spec.Field, []*spec.Message, []*spec.EnumDef, *spec.Oneof) {
			return spec.FM(fmt.Sprintf("variant_%d", n), n, "."+pkg+".PairKid"), nil, nil, &spec.Oneof{Name: fmt.Sprintf("pick_%d", n), HasConfig: true, Discriminator: fmt.Sprintf("kind%d", n)}
		}},
		{"enum_number", func(pkg string, n int32) (*spec.Field, []*spec.Message, []*spec.EnumDef, *spec.Oneof) {
			return spec.FE(fmt.Sprintf("mode_%d", n), n, "."+pkg+".PairEnum").With(func(a *spec.Ann) { a.EnumEnc = 2 }), nil, nil, nil
		}},
		{"unwrap_mapvalue", func(pkg string, n int32) (*spec.Field, []*spec.Message, []*spec.EnumDef, *spec.Oneof) {
			return spec.FM(fmt.Sprintf("lists_%d", n), n, "."+pkg+".PairList").MapOf(spec.String), nil, nil, nil
		}},
	}
	for i := 0; i < len(anns); i++ {
		for j := i + 1; j < len(anns); j++ {
			a1, a2 := anns[i], anns[j]
			out = append(out, buildCase{ID: "pair/" + a1.n + "+" + a2.n, Files: func(pkg, goName string) []*spec.File {
				return oneFile(pkg, goName, func(f *spec.File) {
					m := &spec.Message{Name: "Pair", Fields: []*spec.Field{spec.F("id", 1, spec.String)}}
					for k, a := range []ann{a1, a2} {
						fld, _, _, oo := a.f(pkg, int32(10+k))
						if oo != nil {
							m.Oneofs = append(m.Oneofs, oo)
							fld.Oneof = len(m.Oneofs)
						}
						m.Fields = append(m.Fields, fld)
					}
					f.Messages = []*spec.Message{kidMsg(pkg), {Name: "PairList", Fields: []*spec.Field{spec.F("values", 1, spec.Int32).Rep().With(func(a *spec.Ann) { a.Unwrap = true })}}, m}
					f.Enums = []*spec.EnumDef{{Name: "PairEnum", Values: []spec.EnumValue{{Name: "PAIR_ENUM_UNSPECIFIED", Num: 0}, {Name: "PAIR_ENUM_ON", Num: 1}}}}
					f.Services = []*spec.Service{echoSvc(pkg, "PairService", "Pair", "Pair", 2, "/pair")}
				})
			}})
		}
	}
	// 3. annotations on oneof members
	for _, a := range anns[:5] {
		a := a
		if a.n == "nullable" {
			continue // optional is not allowed inside oneof
		}
		out = append(out, buildCase{ID: "oneof-member/" + a.n, Files: func(pkg, goName string) []*spec.File {
			return oneFile(pkg, goName, func(f *spec.File) {
				fld, _, _, _ := a.f(pkg, 2)
				fld.Oneof = 1
				m := &spec.Message{Name: "Holder", Oneofs: []*spec.Oneof{{Name: "choice"}}, Fields: []*spec.Field{spec.F("id", 1, spec.String), fld, spec.F("alt", 3, spec.String).In(1)}}
				f.Messages = []*spec.Message{kidMsg(pkg), m}
				f.Services = []*spec.Service{echoSvc(pkg, "HolderService", "Holder", "Holder", 2, "/h")}
			})
		}})
	}
	// 4. query parameters x kind x cardinality; path parameters x kind
	qkinds := append(append([]spec.T{}, spec.ScalarKinds...), spec.Enum)
	for _, k := range qkinds {
		for _, cd := range []spec.Card{spec.Singular, spec.Optional, spec.Repeated} {
			k, cd := k, cd
			kn := spec.KindName(k)
			out = append(out, buildCase{ID: fmt.Sprintf("query/%s/%s", kn, cd), TS: true, Files: func(pkg, goName string) []*spec.File {
				return oneFile(pkg, goName, func(f *spec.File) {
					fld := spec.F("filter_value", 1, k)
					if k == spec.Enum {
						fld = spec.FE("filter_value", 1, "."+pkg+".QEnum")
						f.Enums = []*spec.EnumDef{{Name: "QEnum", Values: []spec.EnumValue{{Name: "Q_ENUM_UNSPECIFIED", Num: 0}, {Name: "Q_ENUM_A", Num: 1}}}}
					}
					switch cd {
					case spec.Optional:
						fld.Opt()
					case spec.Repeated:
						fld.Rep()
					}
					fld.Q("fv")
					f.Messages = []*spec.Message{{Name: "QReq", Fields: []*spec.Field{fld}}, {Name: "QResp", Fields: []*spec.Field{spec.F("ok", 1, spec.Bool)}}}
					f.Services = []*spec.Service{echoSvc(pkg, "QService", "QReq", "QResp", 1, "/q")}
				})
			}})
		}
	}
	for _, k := range spec.ScalarKinds {
		if k == spec.Bytes {
			continue
		}
		k := k
		for _, verb := range []int32{1, 2} {
			verb := verb
			out = append(out, buildCase{ID: fmt.Sprintf("pathvar/%s/%s", spec.KindName(k), spec.VerbName(verb)), TS: true, Files: func(pkg, goName string) []*spec.File {
				return oneFile(pkg, goName, func(f *spec.File) {
					f.Messages = []*spec.Message{{Name: "PReq", Fields: []*spec.Field{spec.F("item_key", 1, k)}}, {Name: "PResp", Fields: []*spec.Field{spec.F("ok", 1, spec.Bool)}}}
					f.Services = []*spec.Service{echoSvc(pkg, "PService", "PReq", "PResp", verb, "/p/{item_key}")}
				})
			}})
		}
	}
	// path variables bound to proto3 optional fields (pointers in the Go struct), alone and next to a plain one
	for _, k := range spec.ScalarKinds {
		if k == spec.Bytes {
			continue
		}
		k := k
		for _, verb := range []int32{1, 2} {
			verb := verb
			out = append(out, buildCase{ID: fmt.Sprintf("pathvar-optional/%s/%s", spec.KindName(k), spec.VerbName(verb)), TS: true, Files: func(pkg, goName string) []*spec.File {
				return oneFile(pkg, goName, func(f *spec.File) {
					f.Messages = []*spec.Message{{Name: "PReq", Fields: []*spec.Field{spec.F("item_key", 1, k).Opt(), spec.F("plain_key", 2, spec.String)}}, {Name: "PResp", Fields: []*spec.Field{spec.F("ok", 1, spec.Bool)}}}
					f.Services = []*spec.Service{echoSvc(pkg, "PService", "PReq", "PResp", verb, "/p/{plain_key}/o/{item_key}")}
				})
			}})
		}
	}
	// 4b. which helpers and imports a file needs depends on the MIX of RPC shapes in it: every single
	// shape alone and every pair (a conditional import decided by one shape and used by another)
	type rpcShape struct {
		label string
		verb  int32
		path  string
		req   func() []*spec.Field
	}
	rpcShapes := []rpcShape{
		{"get-plain", 1, "/g", func() []*spec.Field { return nil }},
		{"get-query", 1, "/gq", func() []*spec.Field { return []*spec.Field{spec.F("term", 1, spec.String).Q("term")} }},
		{"get-path", 1, "/gp/{item_id}", func() []*spec.Field { return []*spec.Field{spec.F("item_id", 1, spec.String)} }},
		{"delete-path", 4, "/dp/{item_id}", func() []*spec.Field { return []*spec.Field{spec.F("item_id", 1, spec.String)} }},
		{"post-body", 2, "/pb", func() []*spec.Field { return []*spec.Field{spec.F("name", 1, spec.String), spec.F("qty", 2, spec.Int64)} }},
		{"post-empty", 2, "/pe", func() []*spec.Field { return nil }},
		{"post-query", 2, "/pq", func() []*spec.Field { return []*spec.Field{spec.F("name", 1, spec.String), spec.F("dry_run", 2, spec.Bool).Q("dry_run")} }},
		{"put-path-body", 3, "/pp/{item_id}", func() []*spec.Field { return []*spec.Field{spec.F("item_id", 1, spec.String), spec.F("name", 2, spec.String)} }},
		{"patch-query-only", 5, "/pa", func() []*spec.Field { return []*spec.Field{spec.F("mask", 1, spec.String).Q("mask")} }},
		{"post-required-header", 2, "/ph", func() []*spec.Field { return []*spec.Field{spec.F("name", 1, spec.String)} }},
	}
	for i := range rpcShapes {
		for j := i; j < len(rpcShapes); j++ {
			a, b := rpcShapes[i], rpcShapes[j]
			id := "usage/" + a.label
			if j != i {
				id += "+" + b.label
			}
			out = append(out, buildCase{ID: id, TS: true, Files: func(pkg, goName string) []*spec.File {
				return oneFile(pkg, goName, func(f *spec.File) {
					svc := &spec.Service{Name: "MixService", BasePath: spec.S("/mix")}
					f.Messages = []*spec.Message{{Name: "MixResp", Fields: []*spec.Field{spec.F("ok", 1, spec.Bool)}}}
					shapes := []rpcShape{a}
					if j != i {
						shapes = append(shapes, b)
					}
					for k, sh := range shapes {
						rn := fmt.Sprintf("Op%c", 'A'+k)
						f.Messages = append(f.Messages, &spec.Message{Name: rn + "Req", Fields: sh.req()})
						m := &spec.Method{Name: rn, In: "." + pkg + "." + rn + "Req", Out: "." + pkg + ".MixResp", HTTP: &spec.HTTP{Path: sh.path, Verb: sh.verb}}
						if sh.label == "post-required-header" {
							m.Headers = []spec.Header{{Name: "X-Idem-Key", Type: "string", Required: true}}
						}
						svc.Methods = append(svc.Methods, m)
					}
					f.Services = []*spec.Service{svc}
				})
			}})
		}
	}
	// 5. header names -> option identifiers
	for _, hn := range []struct{ label, name string }{{"x-api-key", "X-API-Key"}, {"authorization", "Authorization"}, {"x-request-id", "X-Request-ID"}, {"lowercase", "x-lower"}, {"multi-word", "X-Multi-Word-Name"},
		{"leading-digit", "X-2FA-Code"}, {"underscore", "X_Under_Score"}, {"dot", "X-Dot.Name"}, {"if-none-match", "If-None-Match"}} {
		hn := hn
		for _, lvl := range []string{"service", "method", "both-levels"} {
			lvl := lvl
			out = append(out, buildCase{ID: "header-name/" + hn.label + "/" + lvl, TS: true, Files: func(pkg, goName string) []*spec.File {
				return oneFile(pkg, goName, func(f *spec.File) {
					f.Messages = []*spec.Message{{Name: "HReq", Fields: []*spec.Field{spec.F("id", 1, spec.String)}}, {Name: "HResp", Fields: []*spec.Field{spec.F("ok", 1, spec.Bool)}}}
					s := echoSvc(pkg, "HdrService", "HReq", "HResp", 2, "/h")
					h := spec.Header{Name: hn.name, Type: "string", Required: true}
					if lvl != "method" {
						s.Headers = []spec.Header{h}
					}
					if lvl != "service" {
						s.Methods[0].Headers = []spec.Header{h}
					}
					f.Services = []*spec.Service{s}
				})
			}})
		}
	}
	out = append(out, buildCase{ID: "header-name/two-that-collapse/service", TS: true, Files: func(pkg, goName string) []*spec.File {
		return oneFile(pkg, goName, func(f *spec.File) {
			f.Messages = []*spec.Message{{Name: "HReq", Fields: []*spec.Field{spec.F("id", 1, spec.String)}}, {Name: "HResp", Fields: []*spec.Field{spec.F("ok", 1, spec.Bool)}}}
			s := echoSvc(pkg, "HdrService", "HReq", "HResp", 2, "/h")
			s.Headers = []spec.Header{{Name: "X-API-Key", Type: "string", Required: true}, {Name: "API-Key", Type: "string"}}
			f.Services = []*spec.Service{s}
		})
	}})
	// 6. identifier spelling: field, method, message names
	for _, fn := range []struct{ label, name string }{{"digit-after-underscore", "foo_2bar"}, {"leading-underscore", "_hidden"}, {"trailing-underscore", "value_"}, {"double-underscore", "a__b"},
		{"camel-in-proto", "userId"}, {"upper-acronym", "HTTPServer"}, {"kw-type", "type"}, {"kw-func", "func"}, {"kw-string", "string"}, {"kw-range", "range"}, {"kw-default", "default"}, {"kw-class", "class"}, {"kw-delete", "delete"}, {"single-letter", "x"}} {
		fn := fn
		for _, place := range []string{"body", "path", "query"} {
			place := place
			if place == "path" && strings.HasPrefix(fn.name, "_") {
				// ok: still a legal variable name in a template
			}
			out = append(out, buildCase{ID: "field-name/" + fn.label + "/" + place, TS: true, Files: func(pkg, goName string) []*spec.File {
				return oneFile(pkg, goName, func(f *spec.File) {
					fld := spec.F(fn.name, 1, spec.String)
					verb, path := int32(2), "/n"
					switch place {
					case "path":
						path = "/n/{" + fn.name + "}"
					case "query":
						verb = 1
						fld.Q(fn.name)
					}
					f.Messages = []*spec.Message{{Name: "NReq", Fields: []*spec.Field{fld}}, {Name: "NResp", Fields: []*spec.Field{spec.F(fn.name, 1, spec.String)}}}
					f.Services = []*spec.Service{echoSvc(pkg, "NameService", "NReq", "NResp", verb, path)}
				})
			}})
		}
	}
	for _, mn := range []struct{ label, name string }{{"acronym", "GetHTTPUrl"}, {"digits", "ListV2Items"}, {"lower-start", "getThing"}, {"underscore", "Get_Thing"}, {"single", "X"}, {"go-method-clash-string", "String"}, {"go-method-clash-reset", "Reset"}} {
		mn := mn
		out = append(out, buildCase{ID: "method-name/" + mn.label, TS: true, Files: func(pkg, goName string) []*spec.File {
			return oneFile(pkg, goName, func(f *spec.File) {
				f.Messages = []*spec.Message{{Name: "MReq", Fields: []*spec.Field{spec.F("id", 1, spec.String)}}, {Name: "MResp", Fields: []*spec.Field{spec.F("ok", 1, spec.Bool)}}}
				s := echoSvc(pkg, "MethodService", "MReq", "MResp", 2, "/m")
				s.Methods[0].Name = mn.name
				f.Services = []*spec.Service{s}
			})
		}})
	}
	for _, tn := range []struct{ label, msg, svc string }{{"message-named-svc-server", "UserServiceServer", "UserService"}, {"message-named-svc-client", "UserServiceClient", "UserService"},
		{"message-named-error", "LookupError", "UserService"}, {"message-named-validation-error", "ValidationError", "UserService"}, {"message-named-server-option", "ServerOption", "UserService"},
		{"lowercase-message", "lower_msg", "UserService"}, {"service-lowercase", "Plain", "userService"}, {"service-acronym", "Plain", "HTTPApi"}} {
		tn := tn
		out = append(out, buildCase{ID: "type-name/" + tn.label, TS: true, Files: func(pkg, goName string) []*spec.File {
			return oneFile(pkg, goName, func(f *spec.File) {
				f.Messages = []*spec.Message{{Name: tn.msg, Fields: []*spec.Field{spec.F("id", 1, spec.String)}}, {Name: "TResp", Fields: []*spec.Field{spec.F("ok", 1, spec.Bool)}}}
				f.Services = []*spec.Service{echoSvc(pkg, tn.svc, tn.msg, "TResp", 2, "/t")}
			})
		}})
	}
	// 6a. free text that the generators copy into emitted code: header descriptions/examples and
	// proto comments containing comment terminators, template syntax, quotes, line breaks
	for _, tx := range []struct{ label, text string }{
		{"plain", "the tenant id"}, {"star-slash", "accepts application/json or */* for any"}, {"slash-star", "see /* legacy */ notes"}, {"line-comment", "// not a comment"},
		{"backtick-template", "use `${value}` here"}, {"quotes", `say "hi" and 'bye'`}, {"backslash", `C:\temp\new`}, {"newline", "first line\nsecond line"},
		{"crlf", "first\r\nsecond"}, {"line-separator", "a\u2028b\u2029c"}, {"html", "<b>&amp;</b> </script>"}, {"percent", "100%s %d %v"}, {"non-ascii", "идентификатор 😀"},
	} {
		tx := tx
		for _, where := range []string{"header-description", "header-example", "comments"} {
			where := where
			out = append(out, buildCase{ID: "text/" + where + "/" + tx.label, TS: true, Files: func(pkg, goName string) []*spec.File {
				return oneFile(pkg, goName, func(f *spec.File) {
					f.Messages = []*spec.Message{{Name: "TReq", Fields: []*spec.Field{spec.F("id", 1, spec.String), spec.F("q", 2, spec.String)}}, {Name: "TResp", Fields: []*spec.Field{spec.F("ok", 1, spec.Bool)}}}
					s := echoSvc(pkg, "TextService", "TReq", "TResp", 2, "/t")
					sh := spec.Header{Name: "X-Tenant", Type: "string", Required: true}
					mh := spec.Header{Name: "Accept-Kind", Type: "string"}
					switch where {
					case "header-description":
						sh.Description, mh.Description = tx.text, tx.text
					case "header-example":
						sh.Example, mh.Example = tx.text, tx.text
					case "comments":
						f.Messages[0].Comment, f.Messages[0].Fields[0].Comment, s.Comment, s.Methods[0].Comment = tx.text, tx.text, tx.text, tx.text
					}
					s.Headers = []spec.Header{sh}
					s.Methods[0].Headers = []spec.Header{mh}
					f.Services = []*spec.Service{s}
				})
			}})
		}
	}
	// 6b. the same short name in different scopes, each carrying annotations
	statusEnum := func() *spec.EnumDef {
		return &spec.EnumDef{Name: "Status", Values: []spec.EnumValue{{Name: "STATUS_UNSPECIFIED", Num: 0, JSON: spec.S("unknown")}, {Name: "STATUS_OK", Num: 1, JSON: spec.S("ok")}}}
	}
	itemMsg := func(kind string) *spec.Message {
		// one annotation per message: combinations on one message are section 2's subject
		m := &spec.Message{Name: "Item", Fields: []*spec.Field{spec.F("n", 1, spec.Int64).With(func(a *spec.Ann) { a.Int64Enc = 2 })}}
		if kind == "oneof" {
			m.Fields = []*spec.Field{spec.F("n", 1, spec.Int64), spec.F("a_txt", 3, spec.String).In(1), spec.F("b_num", 4, spec.Int32).In(1)}
			m.Oneofs = []*spec.Oneof{{Name: "pick", HasConfig: true, Discriminator: "kind"}}
		}
		return m
	}
	for _, sc := range []struct {
		label string
		fill  func(pkg string, f *spec.File)
	}{
		{"nested-enums-same-short-name", func(pkg string, f *spec.File) {
			f.Messages = []*spec.Message{
				{Name: "Order", Enums: []*spec.EnumDef{statusEnum()}, Fields: []*spec.Field{spec.FE("status", 1, "."+pkg+".Order.Status")}},
				{Name: "Shipment", Enums: []*spec.EnumDef{statusEnum()}, Fields: []*spec.Field{spec.FE("status", 1, "."+pkg+".Shipment.Status"), spec.FM("order", 2, "."+pkg+".Order")}}}
		}},
		{"top-and-nested-enum-same-short-name", func(pkg string, f *spec.File) {
			f.Enums = []*spec.EnumDef{statusEnum()}
			f.Messages = []*spec.Message{
				{Name: "Order", Enums: []*spec.EnumDef{statusEnum()}, Fields: []*spec.Field{spec.FE("status", 1, "."+pkg+".Order.Status"), spec.FE("top", 2, "."+pkg+".Status")}},
				{Name: "Shipment", Fields: []*spec.Field{spec.FM("order", 2, "."+pkg+".Order")}}}
		}},
		{"nested-messages-same-short-name", func(pkg string, f *spec.File) {
			f.Messages = []*spec.Message{
				{Name: "Order", Nested: []*spec.Message{itemMsg("")}, Fields: []*spec.Field{spec.FM("items", 1, "."+pkg+".Order.Item").Rep()}},
				{Name: "Shipment", Nested: []*spec.Message{itemMsg("")}, Fields: []*spec.Field{spec.FM("items", 1, "."+pkg+".Shipment.Item").Rep(), spec.FM("order", 2, "."+pkg+".Order")}}}
		}},
		{"nested-discriminated-oneofs-same-names", func(pkg string, f *spec.File) {
			f.Messages = []*spec.Message{
				{Name: "Order", Nested: []*spec.Message{itemMsg("oneof")}, Fields: []*spec.Field{spec.FM("item", 1, "."+pkg+".Order.Item")}},
				{Name: "Shipment", Nested: []*spec.Message{itemMsg("oneof")}, Fields: []*spec.Field{spec.FM("item", 1, "."+pkg+".Shipment.Item"), spec.FM("order", 2, "."+pkg+".Order")}}}
		}},
		{"nested-unwrap-wrappers-same-short-name", func(pkg string, f *spec.File) {
			w := func() *spec.Message {
				return &spec.Message{Name: "List", Fields: []*spec.Field{spec.F("vals", 1, spec.String).Rep().With(func(a *spec.Ann) { a.Unwrap = true })}}
			}
			f.Messages = []*spec.Message{
				{Name: "Order", Nested: []*spec.Message{w()}, Fields: []*spec.Field{spec.FM("by_key", 1, "."+pkg+".Order.List").MapOf(spec.String)}},
				{Name: "Shipment", Nested: []*spec.Message{w()}, Fields: []*spec.Field{spec.FM("by_key", 1, "."+pkg+".Shipment.List").MapOf(spec.String), spec.FM("order", 2, "."+pkg+".Order")}}}
		}},
	} {
		sc := sc
		for _, withSvc := range []bool{true, false} {
			withSvc := withSvc
			id := "scope/" + sc.label
			if !withSvc {
				id += "/types-only"
			}
			out = append(out, buildCase{ID: id, TS: withSvc, Files: func(pkg, goName string) []*spec.File {
				return oneFile(pkg, goName, func(f *spec.File) {
					sc.fill(pkg, f)
					if withSvc {
						f.Services = []*spec.Service{echoSvc(pkg, "ScopeService", "Shipment", "Shipment", 2, "/s")}
					}
				})
			}})
		}
	}
	// 7. package layouts
	out = append(out, buildCase{ID: "layout/two-services-one-file", TS: true, Files: func(pkg, goName string) []*spec.File {
		return oneFile(pkg, goName, func(f *spec.File) {
			f.Messages = []*spec.Message{{Name: "LReq", Fields: []*spec.Field{spec.F("id", 1, spec.String)}}, {Name: "LResp", Fields: []*spec.Field{spec.F("ok", 1, spec.Bool)}}}
			s1 := echoSvc(pkg, "FirstService", "LReq", "LResp", 2, "/one")
			s2 := echoSvc(pkg, "SecondService", "LReq", "LResp", 2, "/two")
			s2.Methods[0].Name = "Call" // same method name in both services
			s1.Headers = []spec.Header{{Name: "X-API-Key", Type: "string", Required: true}}
			s2.Headers = []spec.Header{{Name: "X-API-Key", Type: "string", Required: true}}
			f.Services = []*spec.Service{s1, s2}
		})
	}})
	out = append(out, buildCase{ID: "layout/two-service-files-one-package", Files: func(pkg, goName string) []*spec.File {
		mk := func(n string) *spec.File {
			f := &spec.File{Path: strings.ReplaceAll(pkg, ".", "/") + "/" + n + ".proto", Package: pkg, GoImport: "lab/gen/" + goName, GoName: goName}
			f.Messages = []*spec.Message{{Name: strings.Title(n) + "Req", Fields: []*spec.Field{spec.F("id", 1, spec.String)}}, {Name: strings.Title(n) + "Resp", Fields: []*spec.Field{spec.F("ok", 1, spec.Bool)}}}
			f.Services = []*spec.Service{echoSvc(pkg, strings.Title(n)+"Service", strings.Title(n)+"Req", strings.Title(n)+"Resp", 2, "/"+n)}
			f.Services[0].Methods[0].Name = strings.Title(n) + "Call"
			return f
		}
		return []*spec.File{mk("alpha"), mk("beta")}
	}})
	out = append(out, buildCase{ID: "layout/types-file-plus-service-file", TS: true, Files: func(pkg, goName string) []*spec.File {
		t, s, _ := corpus.MultiFilePackage(pkg, goName)
		return []*spec.File{t, s}
	}})
	out = append(out, buildCase{ID: "layout/two-annotated-type-files-one-package", Files: func(pkg, goName string) []*spec.File {
		mk := func(n string) *spec.File {
			f := &spec.File{Path: strings.ReplaceAll(pkg, ".", "/") + "/" + n + ".proto", Package: pkg, GoImport: "lab/gen/" + goName, GoName: goName}
			f.Messages = []*spec.Message{{Name: strings.Title(n) + "Msg", Fields: []*spec.Field{spec.F("big", 1, spec.Int64).With(func(a *spec.Ann) { a.Int64Enc = 2 })}}, {Name: strings.Title(n) + "Blob", Fields: []*spec.Field{spec.F("raw", 2, spec.Bytes).With(func(a *spec.Ann) { a.BytesEnc = 5 })}}}
			return f
		}
		return []*spec.File{mk("one"), mk("two")}
	}})
	out = append(out, buildCase{ID: "layout/cross-package-reference", TS: true, Files: func(pkg, goName string) []*spec.File {
		dep := &spec.File{Path: strings.ReplaceAll(pkg, ".", "/") + "/dep/dep.proto", Package: pkg + ".dep", GoImport: "lab/gen/" + goName + "dep", GoName: goName + "dep"}
		dep.Messages = []*spec.Message{{Name: "Shared", Fields: []*spec.Field{spec.F("id", 1, spec.String), spec.F("big", 2, spec.Int64).With(func(a *spec.Ann) { a.Int64Enc = 2 })}}}
		dep.Enums = []*spec.EnumDef{{Name: "SharedEnum", Values: []spec.EnumValue{{Name: "SHARED_ENUM_UNSPECIFIED", Num: 0}, {Name: "SHARED_ENUM_X", Num: 1, JSON: spec.S("x")}}}}
		m := &spec.File{Path: strings.ReplaceAll(pkg, ".", "/") + "/main.proto", Package: pkg, GoImport: "lab/gen/" + goName, GoName: goName, Imports: []string{dep.Path}}
		m.Messages = []*spec.Message{{Name: "XReq", Fields: []*spec.Field{spec.FM("shared", 1, "."+pkg+".dep.Shared"), spec.FE("e", 2, "."+pkg+".dep.SharedEnum")}},
			{Name: "XList", Fields: []*spec.Field{spec.FM("items", 1, "."+pkg+".dep.Shared").Rep().With(func(a *spec.Ann) { a.Unwrap = true })}},
			{Name: "XResp", Fields: []*spec.Field{spec.FM("by_key", 1, "."+pkg+".XList").MapOf(spec.String), spec.FM("flat", 2, "."+pkg+".dep.Shared").With(func(a *spec.Ann) { a.Flatten = spec.B(true); a.FlattenPrefix = spec.S("s_") })}}}
		m.Services = []*spec.Service{{Name: "CrossService", Methods: []*spec.Method{
			{Name: "Call", In: "." + pkg + ".XReq", Out: "." + pkg + ".XResp", HTTP: &spec.HTTP{Path: "/x", Verb: 2}},
			{Name: "Direct", In: "." + pkg + ".dep.Shared", Out: "." + pkg + ".dep.Shared", HTTP: &spec.HTTP{Path: "/d", Verb: 2}}}}}
		return []*spec.File{dep, m}
	}})
	out = append(out, buildCase{ID: "layout/service-without-methods", TS: true, Files: func(pkg, goName string) []*spec.File {
		return oneFile(pkg, goName, func(f *spec.File) {
			f.Messages = []*spec.Message{{Name: "P", Fields: []*spec.Field{spec.F("id", 1, spec.String)}}}
			f.Services = []*spec.Service{{Name: "EmptyService"}}
		})
	}})
	// streaming RPCs (valid protobuf; the HTTP generators have no streaming transport) in every position among unary ones
	for _, st := range []struct {
		label string
		pos   []int // positions of streaming RPCs among 3
	}{{"first", []int{0}}, {"middle", []int{1}}, {"last", []int{2}}, {"first-two", []int{0, 1}}, {"all", []int{0, 1, 2}}} {
		st := st
		out = append(out, buildCase{ID: "layout/streaming-rpc/" + st.label, TS: true, Files: func(pkg, goName string) []*spec.File {
			return oneFile(pkg, goName, func(f *spec.File) {
				f.Messages = []*spec.Message{{Name: "P", Fields: []*spec.Field{spec.F("id", 1, spec.String)}}, {Name: "R", Fields: []*spec.Field{spec.F("ok", 1, spec.Bool)}}}
				svc := &spec.Service{Name: "FeedService", BasePath: spec.S("/feed"), Headers: []spec.Header{{Name: "X-Feed", Type: "string", Required: true}}}
				for i := 0; i < 3; i++ {
					m := &spec.Method{Name: fmt.Sprintf("Call%d", i), In: "." + pkg + ".P", Out: "." + pkg + ".R", HTTP: &spec.HTTP{Path: fmt.Sprintf("/c%d", i), Verb: 2}, Headers: []spec.Header{{Name: fmt.Sprintf("X-M%d", i), Type: "string", Required: true}}}
					for _, p := range st.pos {
						if p == i {
							m.ServerStream = true
							m.ClientStream = i%2 == 1
						}
					}
					svc.Methods = append(svc.Methods, m)
				}
				f.Services = []*spec.Service{svc}
			})
		}})
	}
	out = append(out, buildCase{ID: "layout/no-config-at-all", TS: true, Files: func(pkg, goName string) []*spec.File {
		return oneFile(pkg, goName, func(f *spec.File) {
			f.Messages = []*spec.Message{{Name: "P", Fields: []*spec.Field{spec.F("id", 1, spec.String)}}}
			f.Services = []*spec.Service{{Name: "BareService", Methods: []*spec.Method{{Name: "DoThing", In: "." + pkg + ".P", Out: "." + pkg + ".P"}}}}
		})
	}})
	// 8. mock option with plain response kinds (deeper mock coverage lives in C20)
	out = append(out, buildCase{ID: "mock/string-bool-double-response", Mock: true, Files: func(pkg, goName string) []*spec.File {
		return oneFile(pkg, goName, func(f *spec.File) {
			f.Messages = []*spec.Message{{Name: "KReq", Fields: []*spec.Field{spec.F("id", 1, spec.String)}}, {Name: "KResp", Fields: []*spec.Field{spec.F("name", 1, spec.String), spec.F("ok", 2, spec.Bool), spec.F("score", 3, spec.Double), spec.F("total", 4, spec.Int64)}}}
			f.Services = []*spec.Service{echoSvc(pkg, "MockedService", "KReq", "KResp", 2, "/k")}
		})
	}})
	// 8b. mock option x declaration scopes x examples: the same short message name (and the same field
	// names) in several scopes, every one carrying field examples
	out = append(out, buildCase{ID: "mock/same-short-name-in-scopes-with-examples", Mock: true, Files: func(pkg, goName string) []*spec.File {
		return oneFile(pkg, goName, func(f *spec.File) {
			ex := func(v ...string) func(a *spec.Ann) { return func(a *spec.Ann) { a.Examples = v } }
			item := func(e ...string) *spec.Message {
				return &spec.Message{Name: "Item", Fields: []*spec.Field{spec.F("id", 1, spec.String).With(ex(e...)), spec.F("label", 2, spec.String).With(ex("l-" + e[0]))}}
			}
			f.Messages = []*spec.Message{item("top-1"),
				{Name: "Order", Nested: []*spec.Message{item("order-1", "order-2")}, Fields: []*spec.Field{spec.FM("item", 1, "."+pkg+".Order.Item"), spec.F("id", 2, spec.String).With(ex("o-1"))}},
				{Name: "KReq", Fields: []*spec.Field{spec.F("id", 1, spec.String).With(ex("req-1"))}},
				{Name: "KResp", Nested: []*spec.Message{item("resp-1")}, Fields: []*spec.Field{spec.FM("mine", 1, "."+pkg+".KResp.Item"), spec.FM("top", 2, "."+pkg+".Item"), spec.FM("order", 3, "."+pkg+".Order"), spec.F("id", 4, spec.String).With(ex("r-1", "r-2"))}}}
			f.Services = []*spec.Service{echoSvc(pkg, "MockedService", "KReq", "KResp", 2, "/k")}
		})
	}})
	out = append(out, buildCase{ID: "mock/two-files-one-package-with-examples", Mock: true, Files: func(pkg, goName string) []*spec.File {
		ex := func(v ...string) func(a *spec.Ann) { return func(a *spec.Ann) { a.Examples = v } }
		types := &spec.File{Path: strings.ReplaceAll(pkg, ".", "/") + "/types.proto", Package: pkg, GoImport: "lab/gen/" + goName, GoName: goName}
		types.Messages = []*spec.Message{{Name: "Product", Fields: []*spec.Field{spec.F("title", 1, spec.String).With(ex("t-1", "t-2")), spec.F("price", 2, spec.Double).With(ex("9.5"))}},
			{Name: "Audit", Fields: []*spec.Field{spec.F("title", 1, spec.String).With(ex("a-1")), spec.F("actor", 2, spec.String).With(ex("root"))}}}
		svc := &spec.File{Path: strings.ReplaceAll(pkg, ".", "/") + "/service.proto", Package: pkg, GoImport: "lab/gen/" + goName, GoName: goName, Imports: []string{types.Path}}
		svc.Messages = []*spec.Message{{Name: "KReq", Fields: []*spec.Field{spec.F("id", 1, spec.String)}}, {Name: "KResp", Fields: []*spec.Field{spec.FM("product", 1, "."+pkg+".Product"), spec.F("title", 2, spec.String).With(ex("k-1"))}}}
		svc.Services = []*spec.Service{echoSvc(pkg, "MockedService", "KReq", "KResp", 2, "/k")}
		return []*spec.File{types, svc}
	}})
	return out
}

var pluginSubsets = []struct {
	Label   string
	Plugins []string
}{
	{"http", []string{"go-http"}},
	{"client", []string{"go-client"}},
	{"http+client", []string{"go-http", "go-client"}},
	{"client+http", []string{"go-client", "go-http"}},
}

// c13: everything the generators emit builds: Go compiles and vets, TypeScript loads.
func c13(c *Ctx) {
	c.R.Rule = "abstract case = (build-catalogue entry: feature x {bare, +service, +all contexts}, annotation pairs, annotations on oneof members, query/path parameter kind x cardinality, header-name shapes, field/method/type-name shapes, package layouts, mock) x plugin subset {go-http, go-client, both in either order} + TS module load per TS plugin; " +
		"one tiny Go package per case; non-trivial = the plugins accepted the definition and the package was compiled (go build) and, if it compiled, vetted with the `go test` vet subset (go test -run ^$); TS modules were imported on Node 22"
	c.R.Assume("go1.24.7 compiler and vet (pinned toolchain); Node 22 type stripping as the TS loader (no tsc: type errors that are not syntax errors are not detected)")
	cat := buildCatalogue(c)
	if !c.Thorough() {
		// quick: every non-feature entry, and a seed-rotating third of the feature entries
		var keep []buildCase
		n := 0
		for _, bc := range cat {
			if strings.HasPrefix(bc.ID, "feature/") {
				n++
				if (n+int(c.Seed))%3 != 0 {
					continue
				}
			}
			keep = append(keep, bc)
		}
		cat = keep
	}
	l, err := lab.New(c.TB, "c13")
	if err != nil {
		c.R.Harness(err.Error())
		return
	}
	type unit struct {
		bc      buildCase
		subset  string
		caseID  string
		dirs    []string
		refused string
		protos  []string
	}
	type tsUnit struct {
		caseID string
		file   string
		protos []string
	}
	var units []*unit
	var tsUnits []*tsUnit
	var mu sync.Mutex
	type job struct {
		idx int
		bc  buildCase
		si  int
	}
	var jobs []job
	for i, bc := range cat {
		for si := range pluginSubsets {
			if !c.Thorough() && si == 3 && i%4 != int(c.Seed)%4 {
				continue // quick: reversed order for a rotating quarter
			}
			jobs = append(jobs, job{i, bc, si})
		}
	}
	tsDir := filepath.Join(l.Dir, "ts")
	plugin.Parallel(len(jobs), 16, func(k int) {
		j := jobs[k]
		ps := pluginSubsets[j.si]
		pkg := fmt.Sprintf("c13.p%04ds%d", j.idx, j.si)
		goName := fmt.Sprintf("p%04ds%d", j.idx, j.si)
		files := j.bc.Files(pkg, goName)
		u := &unit{bc: j.bc, subset: ps.Label, caseID: "gobuild/" + j.bc.ID + "/" + ps.Label}
		if !c.Want(u.caseID) && c.Only != "" && !strings.HasPrefix(c.Only, "tsload/"+j.bc.ID) {
			return
		}
		for _, f := range files {
			u.protos = append(u.protos, f.Proto())
		}
		req, err := spec.Request(files, nil, "")
		if err != nil {
			c.R.Harness(u.caseID + ": " + err.Error())
			return
		}
		ad, err := l.Add(req, lab.PkgOpt{Plugins: ps.Plugins, Mock: j.bc.Mock, NoGlue: true, Tag: u.caseID})
		c.R.Eval(1 + len(ps.Plugins))
		if err != nil {
			c.R.Harness(u.caseID + ": " + err.Error())
			return
		}
		u.dirs = ad.Dirs
		u.refused = ad.Refused
		mu.Lock()
		units = append(units, u)
		mu.Unlock()
		if j.bc.TS && j.si == 0 {
			for _, tp := range []string{"ts-client", "ts-server"} {
				res := lab.RunDecoy(c.TB, tp, req, plugin.RunOpt{})
				c.R.Eval(1)
				if !res.OK() {
					continue // acceptance is C12's matter
				}
				for name, content := range res.Files {
					dst := filepath.Join(tsDir, goName, filepath.Base(name))
					_ = os.MkdirAll(filepath.Dir(dst), 0o755)
					_ = os.WriteFile(dst, []byte(content), 0o644)
					mu.Lock()
					tsUnits = append(tsUnits, &tsUnit{caseID: "tsload/" + j.bc.ID + "/" + tp, file: dst, protos: u.protos})
					mu.Unlock()
				}
			}
		}
	})
	t0 := time.Now()
	if un := l.CompileAll(true); un != "" {
		// unattributed output usually means a package-level problem (e.g. two files declaring
		// different package names); attribute by directory mentioned
		attributed := false
		for _, line := range strings.Split(un, "\n") {
			for _, u := range units {
				for _, d := range u.dirs {
					if strings.Contains(line, d+"/") || strings.HasSuffix(strings.TrimSpace(line), d) {
						l.Failed[d] = append(l.Failed[d], lab.BuildError{File: d, Msg: strings.TrimSpace(line), Tool: "compile"})
						attributed = true
					}
				}
			}
		}
		if !attributed {
			c.R.Harness("unattributed build output: " + firstLines(un, 15))
		}
	}
	c.R.Set("go_build_and_vet_seconds", time.Since(t0).Seconds())
	sort.Slice(units, func(i, j int) bool { return units[i].caseID < units[j].caseID })
	built := 0
	for _, u := range units {
		rp := map[string]any{"protos": u.protos, "plugins": u.subset}
		if u.refused != "" {
			if i := strings.Index(u.refused, "unparsable Go source"); i >= 0 {
				// protogen formats what the generator emitted and gives up when it does not parse:
				// that is emitted Go code that does not build, not a decision about the definition
				msg := u.refused[i:]
				rp["plugin_error"] = u.refused
				c.R.Violate(u.caseID, "unparsable-go-source", firstLines(msg, 1), rp)
				c.R.Decided(u.caseID)
				continue
			}
			// a refusal is not a build failure; C12 decides whether refusing was right
			c.R.Inconclusive(u.caseID, "plugin-refused: "+report.Normalise(firstLines(u.refused, 1)))
			continue
		}
		var diags []lab.BuildError
		for _, d := range u.dirs {
			diags = append(diags, l.Failed[d]...)
		}
		if len(diags) == 0 {
			c.R.Decided(u.caseID)
			built++
			continue
		}
		seen := map[string]bool{}
		for _, d := range diags {
			if strings.Contains(d.Msg, "other declaration of") {
				continue
			}
			sym := d.Tool
			key := sym + d.Msg
			if seen[key] {
				continue
			}
			seen[key] = true
			rp2 := map[string]any{"protos": u.protos, "plugins": u.subset, "file": d.File, "line": d.Line, "message": d.Msg}
			c.R.Violate(u.caseID, sym, fileKind(d.File)+": "+d.Msg, rp2)
			if len(seen) >= 3 {
				break
			}
		}
		_ = rp
	}
	c.R.Count("go_packages_built_clean", built)
	c.R.Count("go_packages_total", len(units))
	// TS load
	if node, err := lab.StartNode(); err != nil {
		for _, t := range tsUnits {
			c.R.Inconclusive(t.caseID, "node-unavailable")
		}
	} else {
		defer node.Quit()
		sort.Slice(tsUnits, func(i, j int) bool { return tsUnits[i].caseID < tsUnits[j].caseID })
		for _, t := range tsUnits {
			if !c.Want(t.caseID) {
				continue
			}
			id := newID("l")
			_, ev, err := node.Do(map[string]any{"op": "load", "id": id, "file": t.file}, 30*time.Second, "loaded", "load_error")
			c.R.Eval(1)
			if err != nil {
				c.R.Inconclusive(t.caseID, "node-bridge:"+err.Error())
				continue
			}
			if ev.Str("ev") != "loaded" {
				msg := ev.Str("err")
				if msg == "" {
					msg = ev.Str("value")
				}
				c.R.Violate(t.caseID, "ts-load", msg, map[string]any{"protos": t.protos, "error": msg})
				continue
			}
			c.R.Decided(t.caseID)
			c.R.Count("ts_modules_loaded", 1)
		}
	}
	c.R.Sample(map[string]any{"case": "gobuild/pair/int64_number+nullable/http", "what": "message Pair { string id=1; int64 big_10=10 [int64_encoding=NUMBER]; optional string maybe_11=11 [nullable=true]; } + service; plugins: protoc-gen-go + protoc-gen-go-http; go build + go test -run ^$"})
}

func fileKind(f string) string {
	b := filepath.Base(f)
	if i := strings.Index(b, "_"); i >= 0 {
		return b[i:]
	}
	return b
}
