package checks

import (
	"encoding/json"
	"fmt"
	"strings"
	"sync"

	"google.golang.org/protobuf/proto"
	"google.golang.org/protobuf/reflect/protoreflect"
	"google.golang.org/protobuf/types/dynamicpb"

	"verif/internal/corpus"
	"verif/internal/lab"
	"verif/internal/model/jsonmap"
	"verif/internal/oas"
	"verif/internal/values"
)

func init() { Registry["C05"] = c05 }

// wrapInContext builds a value of the context message around root values.
func wrapInContext(ctxMD, rootMD protoreflect.MessageDescriptor, roots []*dynamicpb.Message) *dynamicpb.Message {
	if ctxMD.FullName() == rootMD.FullName() {
		return roots[0]
	}
	m := dynamicpb.NewMessage(ctxMD)
	fds := ctxMD.Fields()
	for i := 0; i < fds.Len(); i++ {
		fd := fds.Get(i)
		switch {
		case fd.IsMap() && fd.MapValue().Message() != nil && fd.MapValue().Message().FullName() == rootMD.FullName():
			mp := m.Mutable(fd).Map()
			for j, r := range roots {
				v := mp.NewValue()
				proto.Merge(v.Message().Interface(), r)
				mp.Set(protoreflect.ValueOfString(fmt.Sprintf("k%d", j)).MapKey(), v)
			}
		case fd.IsMap() && fd.MapValue().Message() != nil:
			// unwrap sibling map: map<string, IntList>
			mp := m.Mutable(fd).Map()
			v := mp.NewValue()
			lf := v.Message().Descriptor().Fields().Get(0)
			if lf.IsList() && lf.Kind() == protoreflect.Int32Kind {
				l := v.Message().Mutable(lf).List()
				l.Append(protoreflect.ValueOfInt32(3))
				l.Append(protoreflect.ValueOfInt32(-4))
			}
			mp.Set(protoreflect.ValueOfString("team").MapKey(), v)
		case fd.IsList() && fd.Message() != nil && fd.Message().FullName() == rootMD.FullName():
			l := m.Mutable(fd).List()
			for _, r := range roots {
				e := l.NewElement()
				proto.Merge(e.Message().Interface(), r)
				l.Append(e)
			}
		case fd.Message() != nil && fd.Message().FullName() == rootMD.FullName():
			proto.Merge(m.Mutable(fd).Message().Interface(), roots[0])
		case fd.Kind() == protoreflect.StringKind && fd.ContainingOneof() == nil:
			m.Set(fd, protoreflect.ValueOfString("ctx-note"))
		}
	}
	return m
}

// c05: server JSON follows the documented mapping wherever an annotated type occurs.
func c05(c *Ctx) {
	c.R.Rule = "abstract case = (JSON-mapping feature) x context {top-level, child of un-annotated parent, repeated element, map value, plain oneof variant, flatten child, discriminated-oneof variant nested/flattened, sibling of an unwrap map, root-unwrap element} x direction {request accepted, response sent} x value class; " +
		"non-trivial = real HTTP to the generated Go server: response body compared as a JSON tree, field by field, with the independent reference model of the documented mapping; request body = model.Encode(M) must reach the handler as norm(M)"
	c.R.Assume("reference model internal/model/jsonmap (written from annotations.proto comments, CLAUDE.md and docs/json-protobuf-compatibility.md); un-annotated fields: protojson is the definition")
	feats := append(corpus.Features(), corpus.FeaturesNested(c.Thorough(), int(c.Seed))...) // every feature in both tiers; quick thins values and contexts
	ctxs := corpus.Contexts
	fl, err := buildFeatureLab(c, "c05", feats, []variant{{Tag: "s", Plugins: []string{"go-http"}}}, true, ctxs, true)
	if err != nil {
		c.R.Harness(err.Error())
		return
	}
	p, err := startPool(fl.Bin, 8, c.Scratch+"/race-c05")
	if err != nil {
		c.R.Harness(err.Error())
		return
	}
	defer p.Close()
	ids := sortedFeatIDs(fl.Units)
	enc := &jsonmap.Encoder{LenientInt64InUnwrap: true}
	var sampleOnce sync.Once
	p.Each(len(ids), func(ch *lab.Child, i int) {
		u := fl.Units[ids[i]][0]
		base := "json/" + u.FP.Feat.ID
		if u.Refused != "" {
			c.R.Violate(base, "refused", u.Refused, map[string]any{"proto": u.FP.File.Proto()})
			return
		}
		if d := emittedDiag(u.Diags); d != nil {
			c.R.Violate(base, "compile", fileKind(d.File)+": "+d.Msg, map[string]any{"proto": u.FP.File.Proto(), "file": d.File, "line": d.Line})
			return
		}
		gs, err := serveGo(ch, []string{u.FP.Svc}, "none", false)
		if err != nil {
			c.R.Violate(base, "server-start", err.Error(), map[string]any{"proto": u.FP.File.Proto()})
			return
		}
		defer gs.Stop()
		rootMD := u.Msg(u.FP.Root)
		g := &values.Gen{R: c.Rng("c05:" + u.FP.Feat.ID)}
		rootVals := g.All(rootMD)
		if !c.Thorough() {
			rootVals = thin(rootVals, 3, int(c.Seed))
		}
		protoText := u.FP.File.Proto()
		for _, ctx := range ctxs {
			ctxFull, ok := u.FP.Ctx[ctx]
			if !ok {
				continue
			}
			ctxMD := u.Msg(ctxFull)
			rpc := u.FP.Svc + "." + u.FP.RPC[ctx]
			for vi, rv := range rootVals {
				if ctx != "top" && !c.Thorough() && vi%2 == 1 {
					continue
				}
				secondLV := rootVals[(vi+1)%len(rootVals)]
				second := secondLV.M
				M := wrapInContext(ctxMD, rootMD, []*dynamicpb.Message{rv.M, second})
				vclass := rv.Class
				if ctx == "repeated" || ctx == "map" || ctx == "root_list" {
					vclass += "+" + secondLV.Class
				}
				norm := jsonmap.Norm(M)
				wantTree, merr := enc.Message(M)
				if merr != nil {
					c.R.Harness("model cannot encode " + ctxFull + ": " + merr.Error())
					continue
				}
				// ---- response direction ----
				caseID := fmt.Sprintf("%s/ctx=%s/dir=resp@%s", base, ctx, vclass)
				if c.Want(caseID) {
					gs.Script(rpc, map[string]any{"resp": b64(wire(M))})
					emptyTree, _ := enc.Message(dynamicpb.NewMessage(ctxMD))
					resp, err := rawHTTP("POST", gs.URL, u.FP.Path[ctx], [][2]string{{"Content-Type", "application/json"}}, jsonmap.Marshal(emptyTree))
					c.R.Eval(1)
					evs, _ := syncEvents(ch)
					if err != nil {
						transportFailure(c, nil, evs, caseID, err, map[string]any{"proto": protoText, "rpc": rpc, "handler_returned": fmt.Sprint(M)})
					} else {
						rp := map[string]any{"proto": protoText, "rpc": rpc, "handler_returned": fmt.Sprint(M), "status": resp.Status, "server_json": string(resp.Body), "model_json": string(jsonmap.Marshal(wantTree))}
						for _, e := range evs {
							if e.Str("ev") == "panic" {
								c.R.Violate(caseID, "panic", e.Str("value"), rp)
							}
						}
						if resp.Status != 200 {
							c.R.Violate(caseID, "status", fmt.Sprintf("st%d", resp.Status), rp)
						} else if got, perr := jsonmap.Parse(resp.Body); perr != nil {
							c.R.Violate(caseID, "invalid-json", perr.Error(), rp)
						} else {
							diffs := jsonmap.Diff(wantTree, got)
							seen := map[string]bool{}
							for _, d := range diffs {
								if seen[d.Symptom] {
									continue
								}
								seen[d.Symptom] = true
								rp2 := map[string]any{}
								for k, v := range rp {
									rp2[k] = v
								}
								rp2["at"], rp2["model"], rp2["server"] = d.Path, d.Want, d.Got
								c.R.Violate(caseID, d.Symptom, "role:"+jsonmap.RolePath(ctxMD, d.Path), rp2)
							}
						}
						c.R.Decided(caseID)
						sampleOnce.Do(func() {
							c.R.Sample(map[string]any{"case": caseID, "rpc": rpc, "server_json": string(resp.Body), "model_json": string(jsonmap.Marshal(wantTree))})
						})
					}
				}
				// ---- response direction under other request content types: the JSON a client is
				// sent must not depend on how the request's Content-Type was spelled ----
				if ctx == "top" && (rv.Class == "full0" || rv.Class == "full1") {
					for _, alt := range altRequestCTs {
						caseID := fmt.Sprintf("%s/ctx=%s/dir=resp/ct=%s@%s", base, ctx, alt.Label, vclass)
						if !c.Want(caseID) {
							continue
						}
						gs.Script(rpc, map[string]any{"resp": b64(wire(M))})
						emptyTree, _ := enc.Message(dynamicpb.NewMessage(ctxMD))
						var hdr [][2]string
						if alt.CT != "" {
							hdr = [][2]string{{"Content-Type", alt.CT}}
						}
						resp, err := rawHTTP("POST", gs.URL, u.FP.Path[ctx], hdr, jsonmap.Marshal(emptyTree))
						c.R.Eval(1)
						evs, _ := syncEvents(ch)
						if err != nil {
							transportFailure(c, nil, evs, caseID, err, map[string]any{"proto": protoText, "rpc": rpc, "request_content_type": alt.CT})
							continue
						}
						rp := map[string]any{"proto": protoText, "rpc": rpc, "request_content_type": alt.CT, "handler_returned": fmt.Sprint(M), "status": resp.Status, "response_content_type": resp.Header.Get("Content-Type"), "server_json": string(resp.Body), "model_json": string(jsonmap.Marshal(wantTree))}
						if resp.Status != 200 {
							// whether such a request is accepted at all is C11's matter; nothing to compare
							c.R.Decided(caseID)
							continue
						}
						if rct := resp.Header.Get("Content-Type"); !strings.HasPrefix(rct, "application/json") {
							c.R.Decided(caseID) // answered in another format: not a JSON mapping question
							continue
						}
						if got, perr := jsonmap.Parse(resp.Body); perr != nil {
							c.R.Violate(caseID, "invalid-json", perr.Error(), rp)
						} else {
							seen := map[string]bool{}
							for _, d := range jsonmap.Diff(wantTree, got) {
								if seen[d.Symptom] {
									continue
								}
								seen[d.Symptom] = true
								rp2 := map[string]any{}
								for k, v := range rp {
									rp2[k] = v
								}
								rp2["at"], rp2["model"], rp2["server"] = d.Path, d.Want, d.Got
								c.R.Violate(caseID, d.Symptom, "role:"+jsonmap.RolePath(ctxMD, d.Path), rp2)
							}
						}
						c.R.Decided(caseID)
					}
				}
				// ---- request direction ----
				caseID = fmt.Sprintf("%s/ctx=%s/dir=req@%s", base, ctx, vclass)
				if c.Want(caseID) {
					gs.Script(rpc, map[string]any{})
					body := jsonmap.Marshal(wantTree)
					resp, err := rawHTTP("POST", gs.URL, u.FP.Path[ctx], [][2]string{{"Content-Type", "application/json"}}, body)
					c.R.Eval(1)
					evs, _ := syncEvents(ch)
					if err != nil {
						transportFailure(c, nil, evs, caseID, err, map[string]any{"proto": protoText, "rpc": rpc, "request_json": string(body)})
						continue
					}
					rp := map[string]any{"proto": protoText, "rpc": rpc, "request_json": string(body), "value": fmt.Sprint(M), "status": resp.Status, "response_body": string(resp.Body)}
					var hs []lab.Event
					for _, e := range evs {
						if e.Str("ev") == "handler" {
							hs = append(hs, e)
						}
						if e.Str("ev") == "panic" {
							c.R.Violate(caseID, "panic", e.Str("value"), rp)
						}
					}
					if len(hs) != 1 {
						c.R.Violate(caseID, "contract-form-rejected", fmt.Sprintf("st%d %s", resp.Status, rejectReason(resp.Body)), rp)
					} else {
						got := dynamicpb.NewMessage(ctxMD)
						_ = proto.Unmarshal(unb64(hs[0].Str("req")), got)
						if !proto.Equal(jsonmap.Norm(got), norm) {
							rp["handler_saw"] = fmt.Sprint(got)
							c.R.Violate(caseID, "request-changed", diffFields(norm, got), rp)
						}
					}
					c.R.Decided(caseID)
					// the same body with an explicit `null` for every top-level field the value leaves unset: proto3
					// JSON reads null as "absent" for every field kind, annotated or not
					if ctx == "top" {
						if obj, ok := jsonmap.Resolve(wantTree).(map[string]any); ok && !jsonmap.IsRootUnwrap(ctxMD) {
							withNulls := map[string]any{}
							for k, v := range obj {
								withNulls[k] = v
							}
							added := 0
							fds := ctxMD.Fields()
							for i := 0; i < fds.Len(); i++ {
								fd := fds.Get(i)
								if _, present := withNulls[fd.JSONName()]; !present && !M.Has(fd) && fd.ContainingOneof() == nil {
									withNulls[fd.JSONName()] = nil
									added++
								}
							}
							nullCase := fmt.Sprintf("%s/ctx=%s/dir=req/nulls-for-unset@%s", base, ctx, vclass)
							if added > 0 && c.Want(nullCase) {
								nb, _ := json.Marshal(withNulls)
								gs.Script(rpc, map[string]any{})
								resp, err := rawHTTP("POST", gs.URL, u.FP.Path[ctx], [][2]string{{"Content-Type", "application/json"}}, nb)
								c.R.Eval(1)
								evs, _ := syncEvents(ch)
								if err == nil {
									rp := map[string]any{"proto": protoText, "rpc": rpc, "request_json": string(nb), "value": fmt.Sprint(M), "status": resp.Status, "response_body": string(resp.Body)}
									var hs []lab.Event
									for _, e := range evs {
										if e.Str("ev") == "handler" {
											hs = append(hs, e)
										}
									}
									if len(hs) != 1 {
										c.R.Violate(nullCase, "contract-form-rejected", fmt.Sprintf("st%d %s", resp.Status, rejectReason(resp.Body)), rp)
									} else {
										got := dynamicpb.NewMessage(ctxMD)
										_ = proto.Unmarshal(unb64(hs[0].Str("req")), got)
										if !proto.Equal(jsonmap.Norm(got), norm) {
											rp["handler_saw"] = fmt.Sprint(got)
											c.R.Violate(nullCase, "request-changed", diffFields(norm, got), rp)
										}
									}
									c.R.Decided(nullCase)
								}
							}
						}
					}
				}
			}
		}
	})
	for _, pn := range p.Panics {
		c.R.Harness("driver panic in work item: " + firstLines(pn, 12))
	}
	// the same annotated types declared in an imported file (generated together or one invocation
	// per file) must produce the JSON of the single-file definition that was judged above
	c04split(c, "c05x", "json-split")
	nr, reps := lab.RaceReports(c.Scratch + "/race-c05")
	c.R.Count("race_reports", nr)
	for _, r := range reps {
		c.R.Violate("json/race", "race", firstLines(r, 3), map[string]any{"report": r})
	}
}

func depthOf(ptr string) string {
	return fmt.Sprintf("depth-%s", []string{"zero", "one", "two", "three", "four", "five+"}[min(strings.Count(ptr, "/"), 5)])
}

// altRequestCTs: request content types other than the canonical application/json under which a
// server still answers in JSON.
var altRequestCTs = []struct{ Label, CT string }{
	{"absent", ""}, {"json-charset", "application/json; charset=utf-8"}, {"json-upper", "Application/JSON"},
	{"text-plain", "text/plain;charset=UTF-8"}, {"form", "application/x-www-form-urlencoded"}, {"vendor-json", "application/vnd.api+json"},
}

// rejectReason extracts the decoder's reason from a 400 body (first violation description).
func rejectReason(body []byte) string {
	t, err := jsonmap.Parse(body)
	if err != nil {
		return ""
	}
	for _, v := range oas.L(oas.M(jsonmap.Resolve(t))["violations"]) {
		d := oas.S(oas.M(v)["description"])
		d = strings.TrimPrefix(d, "failed to parse request body: ")
		return d
	}
	return ""
}
