// Package checks holds one decision procedure per property (see DESIGN.md section 5).
package checks

import (
	"fmt"
	"math/rand"
	"os"
	"sort"

	"verif/internal/plugin"
	"verif/internal/report"
	"verif/internal/spec"
)

// Ctx is what every check receives.
type Ctx struct {
	TB      *plugin.Toolbox
	R       *report.Run
	Tier    string
	Seed    int64
	Scratch string
	Only    string // replay: restrict to this case id
	// Full makes the quick tier enumerate the whole catalogue of a check (set for the checks whose
	// complete catalogue costs well under a minute); the tiers then differ in the number of
	// value combinations per message and in the number of concretisation passes
	Full bool
}

// Want reports whether a case is selected (replay filter).
func (c *Ctx) Want(caseID string) bool { return c.Only == "" || c.Only == caseID }

// Thorough reports whether the thorough tier runs.
func (c *Ctx) Thorough() bool { return c.Tier == "thorough" || c.Full }

// FullInQuick lists the checks whose quick tier runs the complete catalogue.
var FullInQuick = map[string]bool{"C02": true, "C03": true, "C06": true, "C07": true, "C08": true, "C09": true, "C10": true, "C12": true, "C14": true, "C16": true, "C18": true, "C19": true, "C20": true}

// Rng returns a PRNG derived from the seed and a label (stable per label).
func (c *Ctx) Rng(label string) *rand.Rand {
	h := int64(1469598103934665603)
	for _, b := range []byte(label) {
		h ^= int64(b)
		h *= 1099511628211
	}
	return rand.New(rand.NewSource(c.Seed*1000003 + h))
}

// Registry maps property ids to checks.
var Registry = map[string]func(*Ctx){}

// Setup verifies tools needed by the checks exist.
func Setup(scratch string) error {
	return nil
}

// Probe dumps plugin output for a named sample (developer aid).
func Probe(tb *plugin.Toolbox, args []string) int {
	if len(args) == 0 {
		fmt.Println("probe <sample> [plugin] [param]")
		return 2
	}
	files, ok := Samples[args[0]]
	if !ok {
		var ns []string
		for n := range Samples {
			ns = append(ns, n)
		}
		sort.Strings(ns)
		fmt.Println("samples:", ns)
		return 2
	}
	fs := files()
	plugins := plugin.Sebuf
	if len(args) > 1 && args[1] != "all" {
		plugins = []string{args[1]}
	}
	param := ""
	if len(args) > 2 {
		param = args[2]
	}
	for _, f := range fs {
		fmt.Println("=====", f.Path)
		fmt.Println(f.Proto())
	}
	req, err := spec.Request(fs, nil, param)
	if err != nil {
		fmt.Println("request error:", err)
		return 2
	}
	for _, p := range plugins {
		res := tb.Run(p, req, plugin.RunOpt{})
		fmt.Printf("##### plugin=%s exit=%d crash=%q error=%q wall=%s rss=%dKB\n", p, res.Exit, res.Crash, res.Error, res.Wall, res.MaxRSSKB)
		if res.Stderr != "" {
			fmt.Println("stderr:", res.Stderr)
		}
		for _, n := range res.Order {
			fmt.Printf("----- %s (%d bytes)\n", n, len(res.Files[n]))
			if os.Getenv("PROBE_QUIET") == "" {
				fmt.Println(res.Files[n])
			}
		}
	}
	return 0
}

// Samples are named schemas for the probe command.
var Samples = map[string]func() []*spec.File{}

// Replay re-executes a replay file's case.
func Replay(tb *plugin.Toolbox, path string, seed int64) int {
	return replayFile(tb, path, seed)
}
