package checks

import (
	"encoding/base64"
	"fmt"
	"time"

	"google.golang.org/protobuf/proto"
	"google.golang.org/protobuf/reflect/protoreflect"
	"google.golang.org/protobuf/types/dynamicpb"

	"verif/internal/lab"
	"verif/internal/plugin"
	"verif/internal/spec"
)

// Smoke builds a lab for the basic sample and performs one call (developer aid).
func Smoke(tb *plugin.Toolbox) int {
	fs := Samples["basic"]()
	req, err := spec.Request(fs, nil, "")
	if err != nil {
		fmt.Println(err)
		return 2
	}
	l, err := lab.New(tb, "smoke")
	if err != nil {
		fmt.Println(err)
		return 2
	}
	t0 := time.Now()
	ad, err := l.Add(req, lab.PkgOpt{Plugins: []string{"go-http", "go-client"}, Helpers: true})
	fmt.Println("add:", err, ad, time.Since(t0))
	un := l.CompileAll(true)
	fmt.Println("compile:", un, l.Failed, time.Since(t0))
	bin, err := l.BuildBinary(true)
	fmt.Println("bin:", bin, err, time.Since(t0))
	if err != nil {
		return 2
	}
	ch, err := lab.Start(bin, tb.Scratch+"/race")
	if err != nil {
		fmt.Println(err)
		return 2
	}
	defer ch.Quit()
	_, ev, err := ch.Do(map[string]any{"op": "serve", "id": "s1", "svcs": []string{"basic.v1.UserService"}}, 10*time.Second, "serving")
	fmt.Println(ev, err)
	url := ev.Str("url")
	files, _ := spec.Files(req)
	d, _ := files.FindDescriptorByName("basic.v1.GetReq")
	m := dynamicpb.NewMessage(d.(protoreflect.MessageDescriptor))
	m.Set(m.Descriptor().Fields().ByName("user_id"), protoreflect.ValueOfString("a/b c"))
	m.Set(m.Descriptor().Fields().ByName("limit"), protoreflect.ValueOfInt32(7))
	w, _ := proto.Marshal(m)
	evs, ev, err := ch.Do(map[string]any{"op": "call", "id": "c1", "client": "basic.v1.UserService", "url": url, "rpc": "GetUser", "req_type": "basic.v1.GetReq",
		"req": base64.StdEncoding.EncodeToString(w), "chelpers": []map[string]string{{"K": "X-API-Key", "V": "k"}}}, 10*time.Second, "client_return")
	for _, e := range evs {
		fmt.Println("  ", e)
	}
	fmt.Println(ev, err)
	fmt.Println("stderr:", ch.Stderr())
	return 0
}
