package checks

import (
	"encoding/base64"
	"fmt"
	"os"
	"time"

	"google.golang.org/protobuf/proto"
	"google.golang.org/protobuf/reflect/protoreflect"
	"google.golang.org/protobuf/types/dynamicpb"

	"verif/internal/lab"
	"verif/internal/plugin"
	"verif/internal/spec"
	"verif/internal/tstype"
)

// Smoke builds a lab for the basic sample and performs one call (developer aid).
func Smoke(tb *plugin.Toolbox) int {
	fs := Samples["basic"]()
	req, err := spec.Request(fs, nil, "")
	if err != nil {
		fmt.Println(err)
		return 2
	}
	l, err := lab.New(tb, "smoke")
	if err != nil {
		fmt.Println(err)
		return 2
	}
	t0 := time.Now()
	ad, err := l.Add(req, lab.PkgOpt{Plugins: []string{"go-http", "go-client"}, Helpers: true})
	fmt.Println("add:", err, ad, time.Since(t0))
	un := l.CompileAll(true)
	fmt.Println("compile:", un, l.Failed, time.Since(t0))
	bin, err := l.BuildBinary(true)
	fmt.Println("bin:", bin, err, time.Since(t0))
	if err != nil {
		return 2
	}
	ch, err := lab.Start(bin, tb.Scratch+"/race")
	if err != nil {
		fmt.Println(err)
		return 2
	}
	defer ch.Quit()
	_, ev, err := ch.Do(map[string]any{"op": "serve", "id": "s1", "svcs": []string{"basic.v1.UserService"}}, 10*time.Second, "serving")
	fmt.Println(ev, err)
	url := ev.Str("url")
	files, _ := spec.Files(req)
	d, _ := files.FindDescriptorByName("basic.v1.GetReq")
	m := dynamicpb.NewMessage(d.(protoreflect.MessageDescriptor))
	m.Set(m.Descriptor().Fields().ByName("user_id"), protoreflect.ValueOfString("a/b c"))
	m.Set(m.Descriptor().Fields().ByName("limit"), protoreflect.ValueOfInt32(7))
	w, _ := proto.Marshal(m)
	evs, ev, err := ch.Do(map[string]any{"op": "call", "id": "c1", "client": "basic.v1.UserService", "url": url, "rpc": "GetUser", "req_type": "basic.v1.GetReq",
		"req": base64.StdEncoding.EncodeToString(w), "chelpers": []map[string]string{{"K": "X-API-Key", "V": "k"}}}, 10*time.Second, "client_return")
	for _, e := range evs {
		fmt.Println("  ", e)
	}
	fmt.Println(ev, err)
	fmt.Println("stderr:", ch.Stderr())
	return 0
}

// AltCmp runs the shared corpus through a plugin and an alternative binary of it and
// reports files whose bytes differ (developer aid for validating fix: commits).
func AltCmp(tb *plugin.Toolbox, args []string) int {
	if len(args) < 2 {
		fmt.Println("altcmp <plugin> <alt binary> [param]")
		return 2
	}
	p, alt := args[0], args[1]
	param := ""
	if len(args) > 2 {
		param = args[2]
	}
	c := &Ctx{TB: tb, Seed: 1, Tier: "thorough"}
	cases := l1Corpus(c, "alt", 1)
	cases = append(cases, yamlRetypeCase(), importedMessagesCase(), threeServicesCase(), yaml11NamesCase())
	// alternate toolbox pointing to the alt binary
	altDir := tb.Scratch + "/altbin"
	_ = os.MkdirAll(altDir, 0o755)
	b, err := os.ReadFile(alt)
	if err != nil {
		fmt.Println(err)
		return 2
	}
	_ = os.WriteFile(altDir+"/protoc-gen-"+p, b, 0o755)
	atb := &plugin.Toolbox{Scratch: tb.Scratch, Bin: altDir}
	same, diff := 0, 0
	for _, rc := range cases {
		req, err := spec.Request(rc.Files, rc.Gen, param)
		if err != nil {
			continue
		}
		a := tb.Run(p, req, plugin.RunOpt{})
		o := atb.Run(p, req, plugin.RunOpt{})
		if a.OK() != o.OK() {
			fmt.Println("OUTCOME DIFFERS", rc.ID, "new:", a.Crash, a.Error, "old:", o.Crash, o.Error)
			diff++
			continue
		}
		for n, ct := range a.Files {
			if o.Files[n] == ct {
				same++
			} else {
				diff++
				d := firstDiff(ct, o.Files[n])
				fmt.Printf("DIFF %s %s @%d\n  new: %q\n  old: %q\n", rc.ID, n, d, around(ct, d), around(o.Files[n], d))
			}
		}
	}
	fmt.Printf("altcmp %s: same=%d diff=%d\n", p, same, diff)
	return 0
}

// TSParse parses emitted TS files with the tstype reader and reports unparsed declarations.
func TSParse(files []string) int {
	bad := 0
	for _, f := range files {
		b, err := os.ReadFile(f)
		if err != nil {
			fmt.Println(err)
			continue
		}
		m := tstype.Parse(string(b))
		fmt.Printf("%s: types=%d methods=%d unparsed=%d\n", f, len(m.Types), len(m.Methods), len(m.Unparsed))
		for _, u := range m.Unparsed {
			fmt.Println("   UNPARSED", u)
			bad++
		}
	}
	if bad > 0 {
		return 1
	}
	return 0
}
