package checks

import (
	"fmt"
	"path/filepath"
	"strings"

	"google.golang.org/protobuf/reflect/protoreflect"
	"google.golang.org/protobuf/reflect/protoregistry"

	"verif/internal/corpus"
	"verif/internal/lab"
	"verif/internal/model/jsonmap"
	"verif/internal/spec"
	"verif/internal/values"
)

// splitFile moves every helper type (all messages but the root, all enums) of a feature file
// into a second file of the same proto and Go package that the main file imports.
func splitFile(f *spec.File, rootFull string) (types, main *spec.File) {
	rootName := rootFull[strings.LastIndex(rootFull, ".")+1:]
	types = &spec.File{Path: strings.TrimSuffix(f.Path, ".proto") + "_types.proto", Package: f.Package, GoImport: f.GoImport, GoName: f.GoName, Enums: f.Enums}
	main = &spec.File{Path: f.Path, Package: f.Package, GoImport: f.GoImport, GoName: f.GoName, Imports: []string{types.Path}, Services: f.Services}
	for _, m := range f.Messages {
		if m.Name == rootName {
			main.Messages = append(main.Messages, m)
		} else {
			types.Messages = append(types.Messages, m)
		}
	}
	return
}

// c04split: a message whose helper types (unwrap wrappers, flatten children, oneof variants,
// enums) live in an imported file must encode/decode exactly like the single-file definition,
// whether the two files are generated in one plugin invocation or one invocation per file.
func c04split(c *Ctx, familyPrefix, casePrefix string) {
	feats := corpus.Features()
	l, err := lab.New(c.TB, familyPrefix)
	if err != nil {
		c.R.Harness(err.Error())
		return
	}
	type arrangement struct {
		label   string
		plugin  string
		root    string
		reg     *protoregistry.Files
		dir     string
		refused string
	}
	type unit struct {
		f    corpus.Feature
		arrs []*arrangement
	}
	var units []*unit
	for i, ft := range feats {
		probe := corpus.BuildFeaturePkg(ft, i, familyPrefix, "p", corpus.NewNames(c.Rng("names:"+ft.ID)), false, nil)
		if len(probe.File.Messages) < 2 && len(probe.File.Enums) == 0 {
			continue // nothing to move into another file
		}
		u := &unit{f: ft}
		for _, a := range []struct{ label, plugin, mode string }{{"single", "go-http", "single"}, {"together", "go-http", "together"}, {"separate", "go-http", "separate"}, {"separate-client", "go-client", "separate"}} {
			if a.plugin == "go-client" && strings.HasPrefix(ft.Ann, "unwrap") {
				continue // go-client does not implement unwrap (by design)
			}
			tag := map[string]string{"single": "u", "together": "t", "separate": "s", "separate-client": "c"}[a.label]
			fp := corpus.BuildFeaturePkg(ft, i, familyPrefix, tag, corpus.NewNames(c.Rng("names:"+ft.ID)), false, nil)
			ar := &arrangement{label: a.label, plugin: a.plugin, root: fp.Root, dir: filepath.Join("gen", fp.File.GoName)}
			var reqFiles [][]*spec.File
			var gens [][]string
			switch a.mode {
			case "single":
				reqFiles, gens = [][]*spec.File{{fp.File}}, [][]string{nil}
			default:
				t, m := splitFile(fp.File, fp.Root)
				if a.mode == "together" {
					reqFiles, gens = [][]*spec.File{{t, m}}, [][]string{nil}
				} else {
					reqFiles, gens = [][]*spec.File{{t}, {t, m}}, [][]string{nil, {m.Path}}
				}
			}
			for k := range reqFiles {
				req, err := spec.Request(reqFiles[k], gens[k], "")
				if err != nil {
					c.R.Harness(ft.ID + ": " + err.Error())
					continue
				}
				if k == len(reqFiles)-1 {
					ar.reg, _ = spec.Files(req)
				}
				ad, err := l.Add(req, lab.PkgOpt{Plugins: []string{a.plugin}, NoGlue: true, Tag: ft.ID + "#" + a.label})
				c.R.Eval(2)
				if err != nil {
					c.R.Harness(ft.ID + ": " + err.Error())
					continue
				}
				if ad.Refused != "" {
					ar.refused = ad.Refused
				}
			}
			u.arrs = append(u.arrs, ar)
		}
		units = append(units, u)
	}
	if un := l.CompileAll(false); un != "" {
		c.R.Harness("unattributed build output: " + firstLines(un, 10))
		return
	}
	bin, err := l.BuildBinary(false)
	if err != nil {
		c.R.Harness(err.Error())
		return
	}
	p, err := startPool(bin, 8, "")
	if err != nil {
		c.R.Harness(err.Error())
		return
	}
	defer p.Close()
	enc := &jsonmap.Encoder{}
	p.Each(len(units), func(ch *lab.Child, i int) {
		u := units[i]
		ref := u.arrs[0]
		refBuilds := len(l.Failed[ref.dir]) == 0 && ref.refused == ""
		for _, ar := range u.arrs[1:] {
			caseID := fmt.Sprintf("%s/%s/files=%s", casePrefix, u.f.ID, ar.label)
			if !c.Want(caseID) {
				continue
			}
			builds := len(l.Failed[ar.dir]) == 0 && ar.refused == ""
			if builds != refBuilds {
				msg := ar.refused
				if d := emittedDiag(l.Failed[ar.dir]); d != nil {
					msg = d.Msg
				}
				c.R.Violate(caseID, "split-differs", "build outcome differs from the single-file definition", map[string]any{"feature": u.f.ID, "arrangement": ar.label, "diagnostic": msg})
				continue
			}
			if !builds {
				c.R.Decided(caseID) // both fail alike: the single-file verdict (C13/C04) covers it
				continue
			}
			d, err := ar.reg.FindDescriptorByName(protoreflect.FullName(ar.root))
			if err != nil {
				c.R.Harness("descriptor missing: " + ar.root)
				continue
			}
			md := d.(protoreflect.MessageDescriptor)
			g := &values.Gen{R: c.Rng("split:" + u.f.ID)}
			vals := g.All(md)
			if !c.Thorough() {
				vals = thin(vals, 5, int(c.Seed))
			}
			for _, lv := range vals {
				w := wire(lv.M)
				jr, er, _, pr, err1 := codec(ch, ref.root, "marshal", w)
				ja, ea, _, pa, err2 := codec(ch, ar.root, "marshal", w)
				c.R.Eval(2)
				if err1 != nil || err2 != nil {
					c.R.Inconclusive(caseID, "lab-child")
					return
				}
				rp := map[string]any{"feature": u.f.ID, "arrangement": ar.label, "plugin": ar.plugin, "value": fmt.Sprint(lv.M), "single_file_json": string(jr), "split_json": string(ja), "single_file_error": er + pr, "split_error": ea + pa}
				if (er+pr == "") != (ea+pa == "") {
					c.R.Violate(caseID+"@"+lv.Class, "split-differs", "encode outcome", rp)
					continue
				}
				if er+pr == "" {
					tr, _ := jsonmap.Parse(jr)
					ta, perr := jsonmap.Parse(ja)
					if perr != nil || len(jsonmap.Diff(tr, ta)) > 0 {
						c.R.Violate(caseID+"@"+lv.Class, "split-differs", "encoded JSON", rp)
						continue
					}
				}
				// canonical contract form must decode alike
				tree, merr := enc.Message(lv.M)
				if merr != nil {
					continue
				}
				canon := jsonmap.Marshal(tree)
				br, dr, _, pr2, err1 := codec(ch, ref.root, "unmarshal", canon)
				ba, da, _, pa2, err2 := codec(ch, ar.root, "unmarshal", canon)
				c.R.Eval(2)
				if err1 != nil || err2 != nil {
					c.R.Inconclusive(caseID, "lab-child")
					return
				}
				rp["canonical_json"] = string(canon)
				if (dr+pr2 == "") != (da+pa2 == "") {
					rp["single_file_decode_error"], rp["split_decode_error"] = dr+pr2, da+pa2
					c.R.Violate(caseID+"@"+lv.Class, "split-differs", "decode outcome", rp)
				} else if dr+pr2 == "" && string(br) != string(ba) {
					c.R.Violate(caseID+"@"+lv.Class, "split-differs", "decoded message", rp)
				}
				c.R.Decided(caseID + "@" + lv.Class)
			}
		}
	})
	for _, pn := range p.Panics {
		c.R.Harness("driver panic in work item: " + firstLines(pn, 12))
	}
}
