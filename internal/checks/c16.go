package checks

import (
	"fmt"
	"sort"
	"strings"
	"sync"
	"time"

	"verif/internal/plugin"
	"verif/internal/spec"
)

func init() { Registry["C16"] = c16 }

type shapeCase struct {
	ID    string
	Files []*spec.File
	Gen   []string
	Heavy bool // may explode: run narrow
}

func svcFor(pkg, in, out string) *spec.Service {
	return &spec.Service{Name: "ShapeService", BasePath: spec.S("/shape"), Methods: []*spec.Method{{Name: "Call", In: "." + pkg + "." + in, Out: "." + pkg + "." + out, HTTP: &spec.HTTP{Path: "/call", Verb: 2}}}}
}

func descriptorShapes() []shapeCase {
	var out []shapeCase
	mk := func(id string, build func(pkg string) *spec.File) {
		pkg := "c16." + strings.NewReplacer("/", "_", "-", "_", "=", "_").Replace(id)
		f := build(pkg)
		f.Path = strings.ReplaceAll(pkg, ".", "/") + ".proto"
		f.Package = pkg
		if f.GoImport == "" && !f.NoGoPkg {
			f.GoImport = "lab/gen/c16x"
			f.GoName = "c16x"
		}
		out = append(out, shapeCase{ID: id, Files: []*spec.File{f}, Heavy: strings.HasPrefix(id, "recursive")})
	}
	plain := func(name string) *spec.Message {
		return &spec.Message{Name: name, Fields: []*spec.Field{spec.F("id", 1, spec.String)}}
	}
	// recursion: where the cycle is entered from
	for _, where := range []string{"request", "response", "both"} {
		for _, via := range []string{"singular", "repeated", "map-value", "oneof", "optional", "flatten", "flatten-prefix", "unwrap-list", "unwrap-map-value", "disc-oneof", "disc-oneof-flatten"} {
			for _, cyc := range []int{1, 2, 3} {
				where, via, cyc := where, via, cyc
				mk(fmt.Sprintf("recursive/%s/%s/cycle%d", where, via, cyc), func(pkg string) *spec.File {
					var msgs []*spec.Message
					for i := 0; i < cyc; i++ {
						next := fmt.Sprintf(".%s.Node%d", pkg, (i+1)%cyc)
						m := &spec.Message{Name: fmt.Sprintf("Node%d", i), Fields: []*spec.Field{spec.F("label", 1, spec.String)}}
						switch via {
						case "singular":
							m.Fields = append(m.Fields, spec.FM("next", 2, next))
						case "optional":
							m.Fields = append(m.Fields, spec.FM("next", 2, next).Opt())
						case "repeated":
							m.Fields = append(m.Fields, spec.FM("children", 2, next).Rep())
						case "map-value":
							m.Fields = append(m.Fields, spec.FM("by_name", 2, next).MapOf(spec.String))
						case "oneof":
							m.Oneofs = []*spec.Oneof{{Name: "kind"}}
							m.Fields = append(m.Fields, spec.FM("sub", 2, next).In(1), spec.F("leaf", 3, spec.String).In(1))
						// cycles that run through a JSON-mapping annotation
						case "flatten":
							m.Fields = []*spec.Field{spec.F(fmt.Sprintf("label%d", i), 1, spec.String), spec.FM("next", 2, next).With(func(a *spec.Ann) { a.Flatten = spec.B(true) })}
						case "flatten-prefix":
							m.Fields = append(m.Fields, spec.FM("next", 2, next).With(func(a *spec.Ann) { a.Flatten = spec.B(true); a.FlattenPrefix = spec.S("next_") }))
						case "unwrap-list":
							m.Fields = []*spec.Field{spec.FM("children", 1, next).Rep().With(func(a *spec.Ann) { a.Unwrap = true })}
						case "unwrap-map-value":
							lst := &spec.Message{Name: fmt.Sprintf("List%d", i), Fields: []*spec.Field{spec.FM("items", 1, next).Rep().With(func(a *spec.Ann) { a.Unwrap = true })}}
							msgs = append(msgs, lst)
							m.Fields = append(m.Fields, spec.FM("by_name", 2, fmt.Sprintf(".%s.List%d", pkg, i)).MapOf(spec.String))
						case "disc-oneof", "disc-oneof-flatten":
							leaf := &spec.Message{Name: fmt.Sprintf("Leaf%d", i), Fields: []*spec.Field{spec.F("text", 1, spec.String)}}
							msgs = append(msgs, leaf)
							m.Oneofs = []*spec.Oneof{{Name: "kind", HasConfig: true, Discriminator: "type", Flatten: via == "disc-oneof-flatten"}}
							m.Fields = []*spec.Field{spec.F(fmt.Sprintf("tag%d", i), 1, spec.String), spec.FM("sub", 2, next).In(1), spec.FM("leaf", 3, fmt.Sprintf(".%s.Leaf%d", pkg, i)).In(1)}
						}
						msgs = append(msgs, m)
					}
					msgs = append(msgs, plain("Plain"))
					in, outm := "Plain", "Plain"
					if where == "request" || where == "both" {
						in = "Node0"
					}
					if where == "response" || where == "both" {
						outm = "Node0"
					}
					return &spec.File{Messages: msgs, Services: []*spec.Service{svcFor(pkg, in, outm)}}
				})
			}
		}
	}
	mk("deep-nesting/30", func(pkg string) *spec.File {
		// nested type declarations 30 deep, each referring to its child
		var build func(d int, scope string) *spec.Message
		build = func(d int, scope string) *spec.Message {
			m := &spec.Message{Name: fmt.Sprintf("L%d", d), Fields: []*spec.Field{spec.F("v", 1, spec.Int32)}}
			if d < 30 {
				child := build(d+1, scope+"."+m.Name)
				m.Nested = []*spec.Message{child}
				m.Fields = append(m.Fields, spec.FM("child", 2, scope+"."+m.Name+"."+child.Name))
			}
			return m
		}
		return &spec.File{Messages: []*spec.Message{build(0, "."+pkg)}, Services: []*spec.Service{svcFor(pkg, "L0", "L0")}}
	})
	mk("deep-chain/40", func(pkg string) *spec.File {
		var msgs []*spec.Message
		for i := 0; i < 40; i++ {
			m := &spec.Message{Name: fmt.Sprintf("C%d", i), Fields: []*spec.Field{spec.F("v", 1, spec.Int32)}}
			if i < 39 {
				m.Fields = append(m.Fields, spec.FM("next", 2, fmt.Sprintf(".%s.C%d", pkg, i+1)))
			}
			msgs = append(msgs, m)
		}
		return &spec.File{Messages: msgs, Services: []*spec.Service{svcFor(pkg, "C0", "C0")}}
	})
	mk("nested-types-and-enums", func(pkg string) *spec.File {
		m := &spec.Message{Name: "Outer", Enums: []*spec.EnumDef{{Name: "Kind", Values: []spec.EnumValue{{Name: "KIND_UNSPECIFIED", Num: 0}, {Name: "KIND_A", Num: 1}}}},
			Nested: []*spec.Message{{Name: "Inner", Fields: []*spec.Field{spec.FE("k", 1, "."+pkg+".Outer.Kind")}, Enums: []*spec.EnumDef{{Name: "Kind", Values: []spec.EnumValue{{Name: "INNER_KIND_UNSPECIFIED", Num: 0}}}}}},
			Fields: []*spec.Field{spec.FM("inner", 1, "."+pkg+".Outer.Inner"), spec.FE("kind", 2, "."+pkg+".Outer.Kind"), spec.FE("inner_kind", 3, "."+pkg+".Outer.Inner.Kind")}}
		other := &spec.Message{Name: "Other", Nested: []*spec.Message{{Name: "Inner", Fields: []*spec.Field{spec.F("different", 1, spec.Bool)}}}, Fields: []*spec.Field{spec.FM("inner", 1, "."+pkg+".Other.Inner")}}
		return &spec.File{Messages: []*spec.Message{m, other}, Services: []*spec.Service{svcFor(pkg, "Outer", "Other")}}
	})
	mk("maps-of-messages", func(pkg string) *spec.File {
		v := &spec.Message{Name: "Val", Fields: []*spec.Field{spec.F("n", 1, spec.Int64), spec.FM("more", 2, "."+pkg+".Val").MapOf(spec.Int32)}}
		r := &spec.Message{Name: "Holder", Fields: []*spec.Field{spec.FM("by_s", 1, "."+pkg+".Val").MapOf(spec.String), spec.FM("by_b", 2, "."+pkg+".Val").MapOf(spec.Bool), spec.FM("by_u", 3, "."+pkg+".Val").MapOf(spec.Uint64)}}
		return &spec.File{Messages: []*spec.Message{v, r}, Services: []*spec.Service{svcFor(pkg, "Holder", "Holder")}}
	})
	mk("proto3-optional-all-kinds", func(pkg string) *spec.File {
		m := &spec.Message{Name: "Opt"}
		for i, k := range spec.ScalarKinds {
			m.Fields = append(m.Fields, spec.F(fmt.Sprintf("f_%s", spec.KindName(k)), int32(i+1), k).Opt())
		}
		m.Fields = append(m.Fields, spec.FM("self", 40, "."+pkg+".Opt").Opt())
		return &spec.File{Messages: []*spec.Message{m}, Services: []*spec.Service{svcFor(pkg, "Opt", "Opt")}}
	})
	mk("well-known-types", func(pkg string) *spec.File {
		m := &spec.Message{Name: "Wkt", Fields: []*spec.Field{
			spec.FM("ts", 1, spec.Timestamp), spec.FM("dur", 2, spec.Duration), spec.FM("any", 3, ".google.protobuf.Any"), spec.FM("st", 4, ".google.protobuf.Struct"),
			spec.FM("val", 5, ".google.protobuf.Value"), spec.FM("lv", 6, ".google.protobuf.ListValue"), spec.FM("fm", 7, ".google.protobuf.FieldMask"), spec.FM("em", 8, ".google.protobuf.Empty"),
			spec.FM("w_str", 9, ".google.protobuf.StringValue"), spec.FM("w_i64", 10, ".google.protobuf.Int64Value"), spec.FM("w_bool", 11, ".google.protobuf.BoolValue"), spec.FM("w_bytes", 12, ".google.protobuf.BytesValue"),
			spec.FM("w_dbl", 13, ".google.protobuf.DoubleValue"), spec.FM("tss", 14, spec.Timestamp).Rep(), spec.FM("ts_map", 15, spec.Timestamp).MapOf(spec.String)}}
		return &spec.File{Messages: []*spec.Message{m}, Services: []*spec.Service{svcFor(pkg, "Wkt", "Wkt")}}
	})
	mk("wkt-as-request-response", func(pkg string) *spec.File {
		s := &spec.Service{Name: "ShapeService", Methods: []*spec.Method{{Name: "Call", In: ".google.protobuf.Empty", Out: ".google.protobuf.Timestamp", HTTP: &spec.HTTP{Path: "/call", Verb: 2}}}}
		return &spec.File{Imports: []string{"google/protobuf/empty.proto", "google/protobuf/timestamp.proto"}, Services: []*spec.Service{s}}
	})
	mk("empty-messages", func(pkg string) *spec.File {
		return &spec.File{Messages: []*spec.Message{{Name: "E1"}, {Name: "E2"}}, Services: []*spec.Service{svcFor(pkg, "E1", "E2")}}
	})
	mk("service-without-methods", func(pkg string) *spec.File {
		return &spec.File{Messages: []*spec.Message{plain("P")}, Services: []*spec.Service{{Name: "EmptyService"}, {Name: "AlsoEmptyService", BasePath: spec.S("/x")}}}
	})
	mk("file-without-services", func(pkg string) *spec.File {
		return &spec.File{Messages: []*spec.Message{plain("P")}}
	})
	mk("file-empty", func(pkg string) *spec.File { return &spec.File{} })
	mk("methods-sharing-types", func(pkg string) *spec.File {
		s := &spec.Service{Name: "ShapeService", BasePath: spec.S("/s")}
		for i := 0; i < 6; i++ {
			s.Methods = append(s.Methods, &spec.Method{Name: fmt.Sprintf("Op%d", i), In: "." + pkg + ".Shared", Out: "." + pkg + ".Shared", HTTP: &spec.HTTP{Path: fmt.Sprintf("/op%d", i), Verb: 2}})
		}
		s2 := &spec.Service{Name: "OtherService", BasePath: spec.S("/o"), Methods: []*spec.Method{{Name: "Op0", In: "." + pkg + ".Shared", Out: "." + pkg + ".Shared", HTTP: &spec.HTTP{Path: "/op0", Verb: 2}}}}
		return &spec.File{Messages: []*spec.Message{plain("Shared")}, Services: []*spec.Service{s, s2}}
	})
	for _, ns := range []int{2, 3, 9} {
		ns := ns
		mk(fmt.Sprintf("services-per-file/%d", ns), func(pkg string) *spec.File {
			f := &spec.File{Messages: []*spec.Message{plain("Req"), plain("Resp")}}
			for i := 0; i < ns; i++ {
				f.Services = append(f.Services, &spec.Service{Name: fmt.Sprintf("Svc%dService", i), BasePath: spec.S(fmt.Sprintf("/s%d", i)), Methods: []*spec.Method{
					{Name: fmt.Sprintf("Get%d", i), In: "." + pkg + ".Req", Out: "." + pkg + ".Resp", HTTP: &spec.HTTP{Path: "/items/{id}", Verb: 1}},
					{Name: fmt.Sprintf("Put%d", i), In: "." + pkg + ".Req", Out: "." + pkg + ".Resp", HTTP: &spec.HTTP{Path: "/items/{id}", Verb: 3}}}})
			}
			return f
		})
	}
	for _, sp := range []string{"first", "last", "only"} {
		sp := sp
		mk("streaming-rpc/"+sp, func(pkg string) *spec.File {
			f := &spec.File{Messages: []*spec.Message{plain("Req"), plain("Resp")}}
			svc := &spec.Service{Name: "StreamService", BasePath: spec.S("/st")}
			un := &spec.Method{Name: "Unary", In: "." + pkg + ".Req", Out: "." + pkg + ".Resp", HTTP: &spec.HTTP{Path: "/u", Verb: 2}}
			st := &spec.Method{Name: "Tail", In: "." + pkg + ".Req", Out: "." + pkg + ".Resp", HTTP: &spec.HTTP{Path: "/t", Verb: 2}, ServerStream: true}
			bi := &spec.Method{Name: "Chat", In: "." + pkg + ".Req", Out: "." + pkg + ".Resp", ClientStream: true, ServerStream: true}
			switch sp {
			case "first":
				svc.Methods = []*spec.Method{st, bi, un}
			case "last":
				svc.Methods = []*spec.Method{un, st, bi}
			default:
				svc.Methods = []*spec.Method{st, bi}
			}
			f.Services = []*spec.Service{svc}
			return f
		})
	}
	// identifier spellings protoc accepts but examples never use: underscores at the ends, doubled, next to digits,
	// a lone letter — as the name of a plain oneof, of a discriminated oneof (nested and flattened), and of the
	// fields next to it (the generators derive Go/TypeScript/schema names from these by splitting at underscores)
	for _, nm := range []string{"content_", "_content", "pay__load", "a", "x_1", "v2_", "kind__"} {
		nm := nm
		for _, via := range []string{"oneof", "disc-oneof", "disc-oneof-flatten", "field"} {
			via := via
			mk("ident-spelling/"+via+"/"+nm, func(pkg string) *spec.File {
				text := &spec.Message{Name: "TextPart", Fields: []*spec.Field{spec.F("text", 1, spec.String)}}
				img := &spec.Message{Name: "ImagePart", Fields: []*spec.Field{spec.F("url", 1, spec.String)}}
				m := &spec.Message{Name: "Holder"}
				switch via {
				case "field":
					m.Fields = []*spec.Field{spec.F(nm, 1, spec.String), spec.FM(nm+"m", 2, "."+pkg+".TextPart"), spec.F("r"+nm, 3, spec.Int64).Rep()}
				case "oneof":
					m.Oneofs = []*spec.Oneof{{Name: nm}}
					m.Fields = []*spec.Field{spec.F("tag", 1, spec.String), spec.FM("text_part", 2, "."+pkg+".TextPart").In(1), spec.FM("image_part", 3, "."+pkg+".ImagePart").In(1)}
				default:
					m.Oneofs = []*spec.Oneof{{Name: nm, HasConfig: true, Discriminator: "type", Flatten: via == "disc-oneof-flatten"}}
					m.Fields = []*spec.Field{spec.F("tag", 1, spec.String), spec.FM("text_part", 2, "."+pkg+".TextPart").In(1), spec.FM("image_part", 3, "."+pkg+".ImagePart").In(1)}
				}
				return &spec.File{Messages: []*spec.Message{text, img, m}, Services: []*spec.Service{svcFor(pkg, "Holder", "Holder")}}
			})
		}
	}
	// message names that coincide with names the generators use themselves (built-in OpenAPI components, emitted
	// TypeScript and Go declarations, JavaScript globals), as request/response, as a field type and nested
	for _, tn := range []string{"Error", "ValidationError", "FieldViolation", "ApiError", "Timestamp", "Empty", "Any", "Object", "Record", "Response", "Request", "Headers", "Date", "Map", "Promise", "Client", "Server", "Options", "Item_text"} {
		tn := tn
		for _, where := range []string{"top", "nested"} {
			where := where
			mk("type-names/"+tn+"/"+where, func(pkg string) *spec.File {
				named := &spec.Message{Name: tn, Fields: []*spec.Field{spec.F("message", 1, spec.String), spec.F("code", 2, spec.Int32)}}
				ref := "." + pkg + "." + tn
				f := &spec.File{Messages: []*spec.Message{plain("Req")}}
				if where == "top" {
					f.Messages = append(f.Messages, named)
				} else {
					ref = "." + pkg + ".Holder." + tn
					f.Messages = append(f.Messages, &spec.Message{Name: "Holder", Nested: []*spec.Message{named}, Fields: []*spec.Field{spec.F("id", 1, spec.String)}})
				}
				f.Messages = append(f.Messages, &spec.Message{Name: "Resp", Fields: []*spec.Field{spec.FM("first", 1, ref), spec.FM("many", 2, ref).Rep(), spec.FM("by_key", 3, ref).MapOf(spec.String)}})
				f.Services = []*spec.Service{{Name: "NamesService", BasePath: spec.S("/names"), Methods: []*spec.Method{
					{Name: "Get", In: "." + pkg + ".Req", Out: "." + pkg + ".Resp", HTTP: &spec.HTTP{Path: "/get/{id}", Verb: 1}},
					{Name: "Direct", In: ref, Out: ref, HTTP: &spec.HTTP{Path: "/direct", Verb: 2}}}}}
				return f
			})
		}
	}
	mk("long-names", func(pkg string) *spec.File {
		long := "Very" + strings.Repeat("LongName", 24)
		lf := "very_" + strings.Repeat("long_field_", 18) + "x"
		m := &spec.Message{Name: long, Fields: []*spec.Field{spec.F(lf, 1, spec.String), spec.F("id", 2, spec.String)}}
		s := &spec.Service{Name: long + "Service", Methods: []*spec.Method{{Name: long + "Method", In: "." + pkg + "." + long, Out: "." + pkg + "." + long, HTTP: &spec.HTTP{Path: "/" + strings.Repeat("seg/", 40) + "{id}", Verb: 2}}}}
		return &spec.File{Messages: []*spec.Message{m}, Services: []*spec.Service{s}}
	})
	mk("many-fields/300", func(pkg string) *spec.File {
		m := &spec.Message{Name: "Wide"}
		for i := 0; i < 300; i++ {
			m.Fields = append(m.Fields, spec.F(fmt.Sprintf("f_%03d", i), int32(i+1), spec.ScalarKinds[i%len(spec.ScalarKinds)]))
		}
		return &spec.File{Messages: []*spec.Message{m}, Services: []*spec.Service{svcFor(pkg, "Wide", "Wide")}}
	})
	mk("many-methods/150", func(pkg string) *spec.File {
		s := &spec.Service{Name: "BigService", BasePath: spec.S("/big")}
		for i := 0; i < 150; i++ {
			s.Methods = append(s.Methods, &spec.Method{Name: fmt.Sprintf("Method%03d", i), In: "." + pkg + ".P", Out: "." + pkg + ".P", HTTP: &spec.HTTP{Path: fmt.Sprintf("/m%03d/{id}", i), Verb: int32(1 + i%5)}})
		}
		return &spec.File{Messages: []*spec.Message{plain("P")}, Services: []*spec.Service{s}}
	})
	// odd (but descriptor-valid) strings in every annotation slot that a generator parses or copies:
	// any answer — files or an error message — is fine, a crash or a hang is not
	for _, slot := range textSlots {
		for _, tx := range oddTexts(slot) {
			slot, tx := slot, tx
			mk("text/"+slot+"/"+tx.label, func(pkg string) *spec.File { return textFile(pkg, slot, tx.text) })
		}
	}
	// definitions that break a documented annotation rule: the plugins that check the rule answer with
	// an error, the others with files — either way an answer. The error paths get edge-shaped
	// surroundings too: a request message with no field at all, or with no scalar field.
	for _, m := range misuses() {
		m := m
		if !m.Service {
			mk("misuse/"+m.Rule, func(pkg string) *spec.File {
				msgs, enums, _ := m.Build(pkg)
				f := &spec.File{Messages: msgs, Enums: enums}
				f.Services = []*spec.Service{svcFor(pkg, "Offender", "Offender")}
				return f
			})
			continue
		}
		for _, reqShape := range []string{"as-declared", "request-without-fields", "request-with-only-message-fields", "request-with-only-repeated-fields"} {
			reqShape := reqShape
			mk("misuse/"+m.Rule+"/"+reqShape, func(pkg string) *spec.File {
				msgs, svc, _ := m.Svc(pkg)
				for _, mm := range msgs {
					if mm.Name != "BadReq" || reqShape == "as-declared" {
						continue
					}
					switch reqShape {
					case "request-without-fields":
						mm.Fields = nil
					case "request-with-only-message-fields":
						mm.Fields = []*spec.Field{spec.FM("when", 1, spec.Timestamp), spec.FM("self", 2, "."+pkg+".BadReq")}
					case "request-with-only-repeated-fields":
						mm.Fields = []*spec.Field{spec.F("tags", 1, spec.String).Rep(), spec.F("counts", 2, spec.Int32).MapOf(spec.String)}
					}
				}
				return &spec.File{Messages: msgs, Services: []*spec.Service{svc}}
			})
		}
	}
	// no package / no go_package
	out = append(out, shapeCase{ID: "no-proto-package", Files: []*spec.File{{Path: "c16/nopkg.proto", Package: "", GoImport: "lab/gen/c16nopkg", GoName: "c16nopkg",
		Messages: []*spec.Message{plain("NoPkgMsg")}, Services: []*spec.Service{{Name: "NoPkgService", Methods: []*spec.Method{{Name: "Call", In: ".NoPkgMsg", Out: ".NoPkgMsg", HTTP: &spec.HTTP{Path: "/np", Verb: 2}}}}}}}})
	out = append(out, shapeCase{ID: "no-go-package", Files: []*spec.File{{Path: "c16/nogopkg.proto", Package: "c16.nogopkg", NoGoPkg: true,
		Messages: []*spec.Message{plain("M")}, Services: []*spec.Service{svcFor("c16.nogopkg", "M", "M")}}}})
	return out
}

var textSlots = []string{"path", "base-path", "header-name", "header-type", "header-format", "header-text", "query-name", "discriminator", "oneof-value", "enum-value", "flatten-prefix", "field-example", "comment"}

type oddText struct{ label, text string }

// oddTexts lists the string classes tried in a slot. Path-like slots get brace/slash structure,
// every slot gets the generic classes.
func oddTexts(slot string) []oddText {
	generic := []oddText{
		{"empty", ""}, {"space", " "}, {"quotes", `a"b'c`}, {"backtick", "a`b${c}"}, {"backslash", `a\b\n`}, {"newline", "a\nb"}, {"tab-cr", "a\tb\rc"},
		{"comment-end", "x */ y /* z"}, {"line-comment", "// x"}, {"percent-verbs", "%s%d%v%!%"}, {"percent-escape", "%2F%zz%"}, {"non-ascii", "naïve-名前-😀"}, {"rtl", "‮abc"},
		{"nul", "a\x00b"}, {"yaml-special", ": - # & * ! | > @ ` yes"}, {"yaml-doc", "---\nfoo: bar"}, {"json-special", `{"a":[1,2]}`}, {"long", strings.Repeat("lo-ng", 4000)},
		{"braces", "{}"}, {"dots", "a.b.c"}, {"dollar-ref", "#/components/schemas/X"}, {"keyword", "type"}, {"digit-start", "9lives"}, {"dash", "-"}, {"underscore", "_"},
	}
	if slot == "comment" {
		// leading comments the way protoc hands them over: every source line keeps its text after `//`
		// (usually one leading space), paragraphs are separated by empty lines, block comments keep
		// their stars; the lowering adds the first leading space and the final line break
		return append([]oddText{
			{"two-paragraphs", "First paragraph.\n\n Second paragraph."}, {"three-paragraphs", "One.\n\n Two.\n\n\n Three."}, {"leading-blank-line", "\n After a blank line."},
			{"trailing-blank-lines", "Before blank lines.\n\n"}, {"only-blank-lines", "\n\n"}, {"whitespace-only-line", "First.\n \n Second."}, {"indented-continuation", "List:\n   - one\n   - two\n back"},
			{"tab-indented", "First.\n\tTabbed.\n\n\tTabbed again."}, {"no-space-after-slashes", "First.\nSecond.\n\nThird."}, {"block-comment-stars", "*\n * First.\n *\n * Second.\n "},
			{"crlf-paragraphs", "First.\r\n\r\n Second.\r"}, {"markdown", "# Title\n\n ```\n code {x}\n ```\n\n | a | b |\n |---|---|"}, {"deep-indent-then-blank", "        deep\n\n shallow"},
		}, generic...)
	}
	if slot != "path" && slot != "base-path" {
		return generic
	}
	paths := []oddText{
		{"stray-close-before-var", "/posts}/{id}"}, {"double-close", "/users/{user_id}}/posts/{id}"}, {"close-then-var-adjacent", "/users/{user_id}/posts}{id}"},
		{"open-only", "/a/{id"}, {"close-only", "/a/id}"}, {"empty-var", "/a/{}"}, {"nested-braces", "/a/{{id}}"}, {"adjacent-vars", "/a/{id}{user_id}"},
		{"dotted-var", "/a/{sub.id}"}, {"star-var", "/a/{id=**}"}, {"spaced-var", "/a/{ id }"}, {"same-var-twice", "/a/{id}/b/{id}"}, {"var-only", "{id}"},
		{"no-leading-slash", "a/{id}"}, {"slash-only", "/"}, {"double-slash", "//a//{id}"}, {"trailing-slash", "/a/{id}/"}, {"query-in-path", "/a?x=1&id={id}"},
		{"fragment", "/a#frag"}, {"dot-segments", "/a/../b/./{id}"}, {"wildcard", "/a/*/{id...}"}, {"verb-prefix", "GET /a/{id}"}, {"host-prefix", "example.com/a/{id}"},
		{"unknown-var", "/a/{nope}"}, {"many-vars", "/{id}/{user_id}/{post_id}/{other}/{id}/{user_id}"}, {"reversed-braces", "/a/}id{"}, {"unicode-var", "/a/{идент}"},
	}
	return append(paths, generic...)
}

// textFile puts one odd string into one annotation slot of an otherwise ordinary definition.
func textFile(pkg, slot, text string) *spec.File {
	in := func(m string) string { return "." + pkg + "." + m }
	req := &spec.Message{Name: "TReq", Fields: []*spec.Field{spec.F("id", 1, spec.String), spec.F("user_id", 2, spec.String), spec.F("post_id", 3, spec.Int64), spec.F("other", 4, spec.String), spec.F("q", 5, spec.String)}}
	resp := &spec.Message{Name: "TResp", Fields: []*spec.Field{spec.F("ok", 1, spec.Bool)}}
	f := &spec.File{Messages: []*spec.Message{req, resp}}
	svc := &spec.Service{Name: "TextService", BasePath: spec.S("/text"), Methods: []*spec.Method{
		{Name: "Post", In: in("TReq"), Out: in("TResp"), HTTP: &spec.HTTP{Path: "/t/{id}", Verb: 2}},
		{Name: "Get", In: in("TGet"), Out: in("TResp"), HTTP: &spec.HTTP{Path: "/t/{id}", Verb: 1}},
	}}
	get := &spec.Message{Name: "TGet", Fields: []*spec.Field{spec.F("id", 1, spec.String), spec.F("user_id", 2, spec.String).Q("user_id"), spec.F("post_id", 3, spec.Int64).Q("post_id"), spec.F("other", 4, spec.String).Q("other")}}
	f.Messages = append(f.Messages, get)
	sh := spec.Header{Name: "X-Tenant", Type: "string", Required: true}
	mh := spec.Header{Name: "X-Mode", Type: "string"}
	switch slot {
	case "path":
		svc.Methods[0].HTTP.Path, svc.Methods[1].HTTP.Path = text, text
	case "base-path":
		svc.BasePath = spec.S(text)
	case "header-name":
		sh.Name, mh.Name = text, text+"2"
	case "header-type":
		sh.Type, mh.Type = text, text
	case "header-format":
		sh.Format, mh.Format = text, text
	case "header-text":
		sh.Description, sh.Example, mh.Description, mh.Example = text, text, text, text
	case "query-name":
		get.Fields[1].Ann.Query = &spec.Query{Name: text}
		get.Fields[2].Ann.Query = &spec.Query{Name: text + "2", Required: true}
	case "discriminator", "oneof-value":
		a := &spec.Message{Name: "VarA", Fields: []*spec.Field{spec.F("text", 1, spec.String)}}
		b := &spec.Message{Name: "VarB", Fields: []*spec.Field{spec.F("num", 1, spec.Int32)}}
		for _, flat := range []bool{false, true} {
			m := &spec.Message{Name: map[bool]string{false: "Nested", true: "Flat"}[flat], Fields: []*spec.Field{spec.F("id", 1, spec.String), spec.FM("a", 2, in("VarA")).In(1), spec.FM("b", 3, in("VarB")).In(1)}}
			o := &spec.Oneof{Name: "kind", HasConfig: true, Discriminator: "type", Flatten: flat}
			if slot == "discriminator" {
				o.Discriminator = text
			} else {
				m.Fields[1].Ann.OneofValue = spec.S(text)
			}
			m.Oneofs = []*spec.Oneof{o}
			f.Messages = append(f.Messages, m)
			resp.Fields = append(resp.Fields, spec.FM(strings.ToLower(m.Name), int32(10+len(resp.Fields)), in(m.Name)))
		}
		f.Messages = append(f.Messages, a, b)
	case "enum-value":
		f.Enums = []*spec.EnumDef{{Name: "Mood", Values: []spec.EnumValue{{Name: "MOOD_UNSPECIFIED", Num: 0, JSON: spec.S(text)}, {Name: "MOOD_OK", Num: 1, JSON: spec.S("ok")}, {Name: "MOOD_DUP", Num: 2, JSON: spec.S(text)}}}}
		resp.Fields = append(resp.Fields, spec.FE("mood", 2, in("Mood")), spec.FE("moods", 3, in("Mood")).Rep())
	case "flatten-prefix":
		ch := &spec.Message{Name: "Addr", Fields: []*spec.Field{spec.F("street", 1, spec.String), spec.F("zip_code", 2, spec.String)}}
		f.Messages = append(f.Messages, ch)
		resp.Fields = append(resp.Fields, spec.FM("addr", 2, in("Addr")).With(func(a *spec.Ann) { a.Flatten = spec.B(true); a.FlattenPrefix = spec.S(text) }))
	case "field-example":
		resp.Fields = append(resp.Fields, spec.F("name", 2, spec.String).With(func(a *spec.Ann) { a.Examples = []string{text, "plain"} }),
			spec.F("count", 3, spec.Int32).With(func(a *spec.Ann) { a.Examples = []string{text, "7"} }), spec.F("ratio", 4, spec.Double).With(func(a *spec.Ann) { a.Examples = []string{text} }),
			spec.F("flag", 5, spec.Bool).With(func(a *spec.Ann) { a.Examples = []string{text} }), spec.F("big", 6, spec.Uint64).With(func(a *spec.Ann) { a.Examples = []string{text, "18446744073709551615"} }))
	case "comment":
		req.Comment, req.Fields[0].Comment, resp.Comment, svc.Comment, svc.Methods[0].Comment, svc.Methods[1].Comment = text, text, text, text, text, text
		f.Enums = []*spec.EnumDef{{Name: "Mood", Comment: text, Values: []spec.EnumValue{{Name: "MOOD_UNSPECIFIED", Num: 0, Comment: text}, {Name: "MOOD_OK", Num: 1, Comment: text}}}}
		resp.Fields = append(resp.Fields, spec.FE("mood", 2, in("Mood")).Doc(text), spec.FM("nested", 3, in("TReq")).Doc(text))
		f.Comment = text
	}
	svc.Headers = []spec.Header{sh}
	svc.Methods[0].Headers = []spec.Header{mh}
	f.Services = []*spec.Service{svc}
	return f
}

// c16: every plugin terminates with an answer for every valid descriptor set.
func c16(c *Ctx) {
	c.R.Level = "fault_enumeration"
	c.R.Rule = "abstract case = (descriptor shape x plugin x parameter {none, generate_mock=true, format=json|yaml|yml|bogus, paths=source_relative, M-mapping}); " +
		"non-trivial = the plugin child process was executed under the 4 GiB (mock runs: 2 GiB) address-space cap and watchdog, and exit status, stderr, stdout framing, maxrss and wall time were inspected"
	c.R.Assume("bounded progress: a run that does not finish within the watchdog (30s, >1000x the typical 20ms) is first re-run alone with 4x the limit; only then it counts as non-termination")
	shapes := descriptorShapes()
	// the shared annotation corpus (every feature package, routing, header, enum-rule and multi-file
	// case the other properties run) also counts as descriptor shapes: each plugin must answer for it
	{
		every := 1
		if !c.Thorough() {
			every = 4
		}
		for _, rc := range l1Corpus(c, "c16l", every) {
			shapes = append(shapes, shapeCase{ID: "l1/" + rc.ID, Files: rc.Files, Gen: rc.Gen})
		}
	}
	type job struct {
		sc    shapeCase
		p     string
		param string
		env   string // "" or an environment setting of the plugin process (single-CPU runner)
	}
	var jobs, heavy []job
	textIdx := 0
	for _, sc := range shapes {
		if !c.Thorough() && strings.HasPrefix(sc.ID, "recursive/") {
			// quick: cycle length 1 and a seed-rotating other one
			if !strings.HasSuffix(sc.ID, "cycle1") && !strings.HasSuffix(sc.ID, fmt.Sprintf("cycle%d", 2+int(c.Seed)%2)) {
				continue
			}
		}
		if !c.Thorough() && strings.HasPrefix(sc.ID, "text/") && !strings.HasPrefix(sc.ID, "text/path/") && !strings.HasPrefix(sc.ID, "text/base-path/") {
			// quick: every path-like text, a seed-rotating third of the other slots' texts
			textIdx++
			if (textIdx+int(c.Seed))%3 != 0 {
				continue
			}
		}
		for _, p := range plugin.Sebuf {
			params := []string{""}
			switch p {
			case "go-http":
				params = append(params, "generate_mock=true", "paths=source_relative")
			case "openapiv3":
				params = append(params, "format=json", "format=yaml", "format=yml", "format=bogus")
			case "go-client":
				params = append(params, "paths=source_relative")
			case "ts-client", "ts-server":
				params = append(params, "paths=source_relative")
			}
			if sc.ID == "no-go-package" {
				params = []string{"Mc16/nogopkg.proto=lab/gen/c16m;c16m"}
			}
			for _, pa := range params {
				j := job{sc, p, pa, ""}
				if p == "go-http" && strings.Contains(pa, "mock") {
					heavy = append(heavy, j)
				} else {
					jobs = append(jobs, j)
				}
			}
			// the same shapes on a single-CPU runner (structural shapes; the text catalogue varies strings only)
			if !strings.HasPrefix(sc.ID, "text/") && !strings.HasPrefix(sc.ID, "misuse/") && !strings.HasPrefix(sc.ID, "l1/") && !sc.Heavy {
				pa := ""
				if sc.ID == "no-go-package" {
					pa = params[0]
				}
				jobs = append(jobs, job{sc, p, pa, "GOMAXPROCS=1"})
				if p == "openapiv3" && sc.ID != "no-go-package" {
					jobs = append(jobs, job{sc, p, "format=json", "GOMAXPROCS=1"})
				}
			}
		}
	}
	var mu sync.Mutex
	var walls []time.Duration
	var maxRSS int64
	runJob := func(j job, alone bool) {
		caseID := fmt.Sprintf("terminate/%s/%s/param=%s", j.sc.ID, j.p, strings.SplitN(j.param, "=", 2)[0])
		if j.param != "" && (strings.HasPrefix(j.param, "format=") || strings.HasPrefix(j.param, "generate_mock")) {
			caseID = fmt.Sprintf("terminate/%s/%s/param=%s", j.sc.ID, j.p, j.param)
		}
		if j.env != "" {
			caseID += "/env=" + j.env
		}
		if !c.Want(caseID) {
			return
		}
		req, err := spec.Request(j.sc.Files, j.sc.Gen, j.param)
		if err != nil {
			c.R.Harness(caseID + ": " + err.Error())
			return
		}
		opt := plugin.RunOpt{Timeout: 30 * time.Second}
		if alone {
			opt.MemKB = 2 * 1024 * 1024 // mock generation: ordinary runs need tens of MB
		}
		if j.env != "" {
			opt.Env = []string{j.env}
		}
		res := c.TB.Run(j.p, req, opt)
		c.R.Eval(1)
		if res.Crash == "timeout" {
			// re-run alone with 4x the limit
			res = c.TB.Run(j.p, req, plugin.RunOpt{Timeout: 120 * time.Second, Env: opt.Env})
			c.R.Eval(1)
			c.R.Count("watchdog_reruns", 1)
		}
		mu.Lock()
		walls = append(walls, res.Wall)
		if res.MaxRSSKB > maxRSS {
			maxRSS = res.MaxRSSKB
		}
		mu.Unlock()
		var protos []string
		for _, f := range j.sc.Files {
			pr := f.Proto()
			if len(pr) > 6000 {
				pr = pr[:6000] + "\n…"
			}
			protos = append(protos, pr)
		}
		rp := map[string]any{"protos": protos, "plugin": j.p, "parameter": j.param, "env": j.env, "exit": res.Exit, "crash": res.Crash, "stderr": res.Stderr, "wall_ms": res.Wall.Milliseconds(), "maxrss_kb": res.MaxRSSKB}
		if res.Crash != "" {
			c.R.Violate(caseID, res.Crash, firstLines(res.Stderr, 1), rp)
			return
		}
		// an answer: either files or an error message (both well-formed by construction of Run)
		c.R.Decided(caseID)
		if res.HasError {
			c.R.Count("answered_with_error", 1)
		} else {
			c.R.Count("answered_with_files", 1)
		}
	}
	plugin.Parallel(len(jobs), 16, func(i int) { runJob(jobs[i], false) })
	plugin.Parallel(len(heavy), 4, func(i int) { runJob(heavy[i], true) })
	sort.Slice(walls, func(i, j int) bool { return walls[i] < walls[j] })
	if len(walls) > 0 {
		c.R.Set("plugin_wall_ms_median", walls[len(walls)/2].Milliseconds())
		c.R.Set("plugin_wall_ms_max", walls[len(walls)-1].Milliseconds())
		c.R.Set("plugin_maxrss_kb_max", maxRSS)
	}
	c.R.Sample(map[string]any{"case": "terminate/recursive/response/singular/cycle1/go-http/param=generate_mock=true",
		"proto": "message Node0 { string label = 1; Node0 next = 2; }  service ShapeService { rpc Call(Plain) returns (Node0) }", "monitor": "exit status, stderr scan, response framing, rusage.maxrss, wall; ulimit -v 4GiB"})
}
