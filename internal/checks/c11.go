package checks

import (
	"encoding/hex"
	"encoding/json"
	"fmt"
	"math"
	"net"
	"net/http"
	"os"
	"path/filepath"
	"sort"
	"strconv"
	"strings"
	"sync"
	"time"

	sebufhttp "github.com/SebastienMelki/sebuf/http"
	"google.golang.org/protobuf/encoding/protojson"
	"google.golang.org/protobuf/proto"
	"google.golang.org/protobuf/reflect/protoreflect"
	"google.golang.org/protobuf/types/dynamicpb"

	"verif/internal/corpus"
	"verif/internal/lab"
	"verif/internal/model/jsonmap"
	"verif/internal/oas"
	"verif/internal/plugin"
	"verif/internal/spec"
	"verif/internal/values"
)

func init() { Registry["C11"] = c11 }

type mutation struct {
	Class   string
	Body    []byte
	CT      string
	Chunked bool // sent without Content-Length (Transfer-Encoding: chunked), as a streaming peer or proxy does
	Short   int  // >0: the peer declares Content-Length len(Body)+Short, sends Body and closes its sending side
}

// leafPaths lists paths to every leaf (and container) of a JSON tree.
func leafPaths(v any, path []any, out *[][]any) {
	*out = append(*out, append([]any(nil), path...))
	switch x := v.(type) {
	case map[string]any:
		keys := make([]string, 0, len(x))
		for k := range x {
			keys = append(keys, k)
		}
		sort.Strings(keys)
		for _, k := range keys {
			leafPaths(x[k], append(path, k), out)
		}
	case []any:
		for i, e := range x {
			leafPaths(e, append(path, i), out)
		}
	}
}

func cloneTree(v any) any {
	b, _ := json.Marshal(v)
	t, _ := jsonmap.Parse(b)
	return t
}

func setAt(root any, path []any, val any) any {
	if len(path) == 0 {
		return val
	}
	switch x := root.(type) {
	case map[string]any:
		k := path[0].(string)
		x[k] = setAt(x[k], path[1:], val)
		return x
	case []any:
		i := path[0].(int)
		x[i] = setAt(x[i], path[1:], val)
		return x
	}
	return root
}

func getAt(root any, path []any) any {
	for _, p := range path {
		switch x := root.(type) {
		case map[string]any:
			root = x[p.(string)]
		case []any:
			root = x[p.(int)]
		}
	}
	return root
}

// mutations derives the deterministic mutation list from a valid JSON body.
func mutations(valid []byte, wireBody []byte, thorough bool) []mutation {
	var out []mutation
	j := "application/json"
	add := func(class string, b []byte) { out = append(out, mutation{Class: class, Body: b, CT: j}) }
	// truncation at token boundaries
	for i := 1; i < len(valid); i++ {
		c := valid[i]
		if c == ',' || c == ':' || c == '{' || c == '[' || c == '}' || c == ']' || c == '"' {
			if thorough || i%3 == 0 {
				add("truncated", valid[:i])
			}
		}
	}
	add("truncated-last-byte", valid[:len(valid)-1])
	tree, err := jsonmap.Parse(valid)
	if err == nil {
		var paths [][]any
		leafPaths(tree, nil, &paths)
		repl := []struct {
			c string
			v any
		}{{"null", nil}, {"true", true}, {"number", json.Number("123")}, {"neg", json.Number("-1")}, {"frac", json.Number("1.5")}, {"huge", json.Number("1e400")},
			{"bigint", json.Number("99999999999999999999999")}, {"string", "zz"}, {"numstring", "12"},
			// numbers that fit an int64 and denote no valid value of a time or a 32-bit field
			{"after-year-9999-seconds", json.Number("253402300800")}, {"before-year-1-seconds", json.Number("-62135596801")}, {"int64-max", json.Number("9223372036854775807")}, {"int64-min", json.Number("-9223372036854775808")},
			{"year-0000-date", "0000-06-01"}, {"year-10000-date", "10000-01-01"}, {"empty-string", ""}, {"array", []any{}}, {"object", map[string]any{}}, {"nested-array", []any{[]any{"x"}}}}
		for pi, p := range paths {
			if len(p) == 0 {
				continue
			}
			cur := getAt(tree, p)
			for ri, r := range repl {
				if !thorough && (pi+ri)%3 != 0 {
					continue
				}
				if fmt.Sprintf("%T", cur) == fmt.Sprintf("%T", r.v) && r.c != "huge" && r.c != "bigint" && r.c != "neg" && r.c != "frac" && r.c != "string" && !strings.Contains(r.c, "year") && !strings.HasPrefix(r.c, "int64-") {
					continue
				}
				t := setAt(cloneTree(tree), p, r.v)
				b, _ := json.Marshal(t)
				add("leaf-replaced-by-"+r.c, b)
			}
		}
		// unknown key, duplicate key
		if obj, ok := tree.(map[string]any); ok {
			t := cloneTree(tree).(map[string]any)
			t["zzUnknownKey"] = "x"
			b, _ := json.Marshal(t)
			add("unknown-key", b)
			for k := range obj {
				kb, _ := json.Marshal(k)
				dup := append([]byte("{"), kb...)
				dup = append(dup, []byte(`:null,`)...)
				dup = append(dup, valid[1:]...)
				add("duplicate-key", dup)
				break
			}
		}
	}
	for _, s := range []struct{ c, b string }{{"top-null", "null"}, {"top-array", "[]"}, {"top-array-of-objects", "[{}]"}, {"top-string", `"x"`}, {"top-number", "5"}, {"top-true", "true"}, {"whitespace", "  \n"},
		{"garbage", "\x00\x01\x02{"}, {"not-json", "name=x&y=1"}, {"two-values", "{}{}"}, {"bom", "\xef\xbb\xbf{}"}, {"invalid-utf8-key", "{\"\xff\xfe\": 1}"}, {"invalid-utf8-value", "{\"label\": \"a\xffb\"}"},
		{"lone-surrogate", `{"label": "\ud800"}`}, {"nul-in-string", `{"label": "a\u0000b"}`}} {
		add(s.c, []byte(s.b))
	}
	depth := 10000
	add("deep-arrays", []byte(strings.Repeat("[", depth)+strings.Repeat("]", depth)))
	add("deep-objects", []byte(strings.Repeat(`{"a":`, depth)+"1"+strings.Repeat("}", depth)))
	add("deep-unclosed", []byte(strings.Repeat("[", depth)))
	add("long-string", []byte(`{"label":"`+strings.Repeat("x", 1<<20)+`"}`))
	// protobuf content types
	for _, ct := range []string{"application/x-protobuf", "application/octet-stream"} {
		out = append(out, mutation{Class: "proto-valid", Body: wireBody, CT: ct})
		if len(wireBody) > 1 {
			out = append(out, mutation{Class: "proto-truncated", Body: wireBody[:len(wireBody)-1], CT: ct}, mutation{Class: "proto-truncated-half", Body: wireBody[:len(wireBody)/2], CT: ct})
		}
		out = append(out, mutation{Class: "proto-garbage", Body: []byte{0xff, 0xff, 0xff, 0xff, 0xff, 0xff, 0xff, 0xff, 0xff, 0xff, 0x01}, CT: ct},
			mutation{Class: "proto-bad-wiretype", Body: []byte{0x0f, 0x01}, CT: ct}, mutation{Class: "proto-huge-length", Body: []byte{0x0a, 0xff, 0xff, 0xff, 0xff, 0x0f}, CT: ct},
			mutation{Class: "proto-json-body", Body: valid, CT: ct}, mutation{Class: "proto-group-end", Body: []byte{0x0c}, CT: ct}, mutation{Class: "proto-field-zero", Body: []byte{0x00, 0x00}, CT: ct})
	}
	out = append(out, mutation{Class: "json-as-text-plain", Body: valid, CT: "text/plain"}, mutation{Class: "json-no-content-type", Body: valid}, mutation{Class: "wire-as-json", Body: wireBody, CT: j})
	// Content-Type values that are not a well-formed media type (no slash, only a slash, several slashes,
	// wildcards, stray parameters, very long), with a valid, a truncated and a non-JSON body
	for _, oc := range []struct{ label, ct string }{{"no-slash-json", "json"}, {"no-slash-protobuf", "protobuf"}, {"star", "*"}, {"star-slash-star", "*/*"}, {"only-slash", "/"}, {"empty-subtype", "application/"},
		{"empty-type", "/json"}, {"three-parts", "application/json/extra"}, {"params-only", ";charset=utf-8"}, {"semicolon-first", "; application/json"}, {"space-inside", "application /json"},
		{"upper-case", "APPLICATION/JSON"}, {"proto-subtype", "application/protobuf"}, {"vendor-proto", "application/vnd.google.protobuf"}, {"long", "application/" + strings.Repeat("x", 5000)}, {"comma-list", "application/json, text/plain"}} {
		out = append(out, mutation{Class: "ct=" + oc.label + "/valid-json", Body: valid, CT: oc.ct}, mutation{Class: "ct=" + oc.label + "/truncated-json", Body: valid[:len(valid)/2], CT: oc.ct},
			mutation{Class: "ct=" + oc.label + "/not-json", Body: []byte("name=x&y=1"), CT: oc.ct}, mutation{Class: "ct=" + oc.label + "/wire", Body: wireBody, CT: oc.ct})
	}
	out = append(out, mutation{Class: "valid", Body: valid, CT: j})
	// the same bodies from a peer that streams them (no Content-Length): the server must read and
	// decode them all the same
	n := len(out)
	for i := 0; i < n; i++ {
		m := out[i]
		switch {
		case m.Class == "valid", m.Class == "truncated-last-byte", m.Class == "garbage", m.Class == "not-json", m.Class == "top-array", m.Class == "unknown-key", m.Class == "whitespace",
			m.Class == "proto-valid", m.Class == "proto-garbage", m.Class == "proto-truncated", m.Class == "proto-json-body", m.Class == "json-no-content-type",
			thorough && (strings.HasPrefix(m.Class, "leaf-replaced-by-") || m.Class == "truncated") && i%4 == 0:
			out = append(out, mutation{Class: m.Class + "/chunked", Body: m.Body, CT: m.CT, Chunked: true})
		}
	}
	// an upload that is cut short: the declared length is never reached although what did arrive is a
	// complete document (so only the read error tells); no request may be dispatched from it
	for i := 0; i < n; i++ {
		if m := out[i]; m.Class == "valid" || m.Class == "proto-valid" || m.Class == "whitespace" {
			out = append(out, mutation{Class: m.Class + "/cut-short-of-declared-length", Body: m.Body, CT: m.CT, Short: 7})
		}
	}
	return out
}

// covers checks that every leaf of the body that names a known field was neither dropped nor
// altered in the handler-visible message (narrow by design; see DESIGN C11).
func covers(md protoreflect.MessageDescriptor, body any, seen any) (string, string) {
	bo, ok := body.(map[string]any)
	so, ok2 := seen.(map[string]any)
	if !ok || !ok2 {
		return "", ""
	}
	if jsonmap.IsRootUnwrap(md) || md.ParentFile().Package() == "google.protobuf" {
		return "", ""
	}
	for key, bv := range bo {
		var fd protoreflect.FieldDescriptor
		fs := md.Fields()
		for i := 0; i < fs.Len(); i++ {
			if fs.Get(i).JSONName() == key || string(fs.Get(i).Name()) == key {
				fd = fs.Get(i)
			}
		}
		if fd == nil || bv == nil {
			continue // unknown keys and nulls are borderline
		}
		a := jsonmap.FieldAnn(fd)
		if a.Flatten || (fd.ContainingOneof() != nil && !fd.ContainingOneof().IsSynthetic()) {
			continue
		}
		sv, present := so[fd.JSONName()]
		if !present {
			if !defaultLike(bv) {
				return "body-leaf-dropped", kindCoord(fd)
			}
			continue
		}
		switch {
		case fd.IsMap() || fd.IsList():
			ba, okb := bv.([]any)
			sa, oks := sv.([]any)
			if okb && oks && fd.IsList() && fd.Kind() != protoreflect.MessageKind {
				if len(ba) != len(sa) {
					return "body-leaf-altered", kindCoord(fd) + ":list-length"
				}
				for i := range ba {
					if isScalar(ba[i]) && isScalar(sa[i]) && !leafSame(fd, ba[i], sa[i]) {
						return "body-leaf-altered", kindCoord(fd)
					}
				}
			}
		case fd.Kind() == protoreflect.MessageKind:
			if fd.Message().ParentFile().Package() == "google.protobuf" {
				continue
			}
			if s, d := covers(fd.Message(), bv, sv); s != "" {
				return s, d
			}
		default:
			if fd.Kind() == protoreflect.BytesKind && a.BytesEnc == sebufhttp.BytesEncoding_BYTES_ENCODING_HEX {
				// HEX is unambiguous: the body's string must be hex and denote the handler's bytes
				bs, okb := bv.(string)
				ss, oks := sv.(string)
				if okb && oks {
					bb, err := hex.DecodeString(bs)
					sb, _ := hex.DecodeString(ss)
					if err != nil || string(bb) != string(sb) {
						return "body-leaf-altered", kindCoord(fd) + ":hex"
					}
				}
				continue
			}
			if isScalar(bv) && isScalar(sv) && !leafSame(fd, bv, sv) {
				return "body-leaf-altered", kindCoord(fd)
			}
		}
	}
	return "", ""
}

func kindCoord(fd protoreflect.FieldDescriptor) string {
	card := "singular"
	switch {
	case fd.IsMap():
		card = "map"
	case fd.IsList():
		card = "repeated"
	case fd.HasOptionalKeyword():
		card = "optional"
	}
	return fd.Kind().String() + ":" + card
}

func isScalar(v any) bool {
	switch v.(type) {
	case string, json.Number, bool:
		return true
	}
	return false
}

func defaultLike(v any) bool {
	switch x := v.(type) {
	case nil:
		return true
	case bool:
		return !x
	case string:
		return x == "" || x == "0" || x == "0.0" || x == "-0"
	case json.Number:
		f, err := strconv.ParseFloat(string(x), 64)
		return err == nil && f == 0
	case float64:
		return x == 0
	case int:
		return x == 0
	case int64:
		return x == 0
	case []any:
		return len(x) == 0
	case map[string]any:
		return len(x) == 0
	}
	return false
}

// leafSame: lenient proto3-JSON equality of two scalar leaves of one field.
func leafSame(fd protoreflect.FieldDescriptor, a, b any) bool {
	sa, sb := fmt.Sprint(a), fmt.Sprint(b)
	if sa == sb {
		return true
	}
	switch fd.Kind() {
	case protoreflect.EnumKind, protoreflect.BytesKind:
		return true // name/number and encoding variants: not judged
	case protoreflect.StringKind:
		return false
	case protoreflect.BoolKind:
		return sa == sb
	}
	fa, ea := strconv.ParseFloat(sa, 64)
	fb, eb := strconv.ParseFloat(sb, 64)
	if ea == nil && eb == nil {
		return fa == fb || float32(fa) == float32(fb)
	}
	return false
}

// c11: malformed traffic is rejected cleanly and never crashes server or client.
func c11(c *Ctx) {
	c.R.Level = "fault_enumeration"
	c.R.Rule = "abstract case = (message shape with custom decoder: JSON-mapping feature, top-level) x mutation class of a valid body {truncation at token boundaries, per-leaf replacement by another JSON type / huge / negative / fractional numbers, unknown and duplicate keys, top-level null/array/scalar, invalid UTF-8, 10^4-deep nesting, 1 MiB string, protobuf wire truncation/garbage, content-type mismatches}; " +
		"client side: (status x content type x body {empty, valid, truncated, garbage, wrong format, huge}) served by a scripted upstream to the generated Go and TS clients; " +
		"non-trivial = the request was sent to the race-instrumented server, and status, error body well-formedness, handler log and Covers(body, handler message) were evaluated / the client call returned within the watchdog"
	c.R.Assume("Covers is deliberately narrow (known fields, scalar leaves, lenient proto3-JSON equality); unknown and duplicate keys are borderline: only no-panic/no-5xx is asserted for them")
	feats := sampleFeats(c, corpus.Features(), 2)
	// every oneof feature in both tiers (few, and the two-members mutation needs them)
	have := map[string]bool{}
	for _, f := range feats {
		have[f.ID] = true
	}
	for _, f := range corpus.Features() {
		if strings.HasPrefix(f.Ann, "oneof_") && !have[f.ID] {
			feats = append(feats, f)
		}
	}
	fl, err := buildFeatureLab(c, "c11", feats, []variant{{Tag: "s", Plugins: []string{"go-http", "go-client"}}}, true, []string{"top"}, true)
	if err != nil {
		c.R.Harness(err.Error())
		return
	}
	p, err := startPool(fl.Bin, 8, c.Scratch+"/race-c11")
	if err != nil {
		c.R.Harness(err.Error())
		return
	}
	ids := sortedFeatIDs(fl.Units)
	enc := &jsonmap.Encoder{}
	var sampleOnce sync.Once
	p.Each(len(ids), func(ch *lab.Child, i int) {
		u := fl.Units[ids[i]][0]
		if !u.OK() {
			return // build problems are C13's (and C04/C05's) business
		}
		base := "malformed/server/" + u.FP.Feat.ID
		gs, err := serveGo(ch, []string{u.FP.Svc}, "none", false)
		if err != nil {
			c.R.Violate(base, "server-start", err.Error(), map[string]any{"proto": u.FP.File.Proto()})
			return
		}
		defer gs.Stop()
		md := u.Msg(u.FP.Root)
		g := &values.Gen{R: c.Rng("c11:" + u.FP.Feat.ID)}
		full := g.Full(md, 0, 3)
		tree, merr := enc.Message(full)
		if merr != nil {
			return
		}
		valid := jsonmap.Marshal(tree)
		protoText := u.FP.File.Proto()
		muts := mutations(valid, wire(full), c.Thorough())
		// a JSON object that carries TWO members of one oneof has no decoding (proto3 JSON: an error)
		for oi := 0; oi < md.Oneofs().Len(); oi++ {
			od := md.Oneofs().Get(oi)
			if od.IsSynthetic() || od.Fields().Len() < 2 {
				continue
			}
			for k := 0; k+1 < od.Fields().Len() && k < 3; k++ {
				for _, swap := range []bool{false, true} {
					fa, fb := od.Fields().Get(k), od.Fields().Get(k+1)
					if swap {
						fa, fb = fb, fa
					}
					ma, mb := proto.Clone(full).(*dynamicpb.Message), proto.Clone(full).(*dynamicpb.Message)
					g.SetMember(ma, fa, 0)
					g.SetMember(mb, fb, 1)
					ta, ea := enc.Message(ma)
					tb, eb := enc.Message(mb)
					if ea != nil || eb != nil {
						continue
					}
					oa, okA := jsonmap.Resolve(ta).(map[string]any)
					ob, okB := jsonmap.Resolve(tb).(map[string]any)
					if !okA || !okB {
						continue
					}
					// the member's own key must be recognisable: only the plain mapping (member under its JSON name)
					if _, has := ob[fb.JSONName()]; !has {
						continue
					}
					if _, has := oa[fb.JSONName()]; has {
						continue
					}
					merged := map[string]any{}
					for key, v := range oa {
						merged[key] = v
					}
					merged[fb.JSONName()] = ob[fb.JSONName()]
					b, _ := json.Marshal(merged)
					muts = append(muts, mutation{Class: fmt.Sprintf("two-members-of-one-oneof/%s+%s", fa.Name(), fb.Name()), Body: b, CT: "application/json"})
				}
			}
		}
		if os.Getenv("VERIF_DEBUG_C11") != "" {
			n := 0
			for _, mu := range muts {
				if strings.HasPrefix(mu.Class, "two-members") {
					n++
				}
			}
			fmt.Fprintln(os.Stderr, "C11DBG", u.FP.Feat.ID, "oneofs", md.Oneofs().Len(), "two-member-mutations", n)
		}
		for mi, mu := range muts {
			caseID := base + "@" + mu.Class
			if !c.Want(caseID) {
				continue
			}
			hdr := [][2]string{}
			if mu.CT != "" {
				hdr = append(hdr, [2]string{"Content-Type", mu.CT})
			}
			send := rawHTTP
			if mu.Chunked {
				send = rawHTTPChunked
			}
			var resp *rawResp
			var err error
			if mu.Short == 0 {
				resp, err = send("POST", gs.URL, u.FP.Path["top"], hdr, mu.Body)
			} else {
				resp, err = rawHTTPShort("POST", gs.URL, u.FP.Path["top"], hdr, mu.Body, mu.Short)
				if err == nil {
					evs, serr := syncEvents(ch)
					c.R.Eval(1)
					rp := map[string]any{"proto": protoText, "mutation": mu.Class, "content_type": mu.CT, "declared_length": len(mu.Body) + mu.Short, "sent": len(mu.Body), "body": string(mu.Body[:min(len(mu.Body), 300)])}
					if serr != nil {
						c.R.Violate(caseID, "server-process-died", firstLines(ch.Stderr(), 1), rp)
						return
					}
					if os.Getenv("VERIF_DEBUG_SHORT") != "" {
						st := -1
						if resp != nil {
							st = resp.Status
						}
						fmt.Printf("DEBUG short %s ct=%s status=%d events=%v\n", caseID, mu.CT, st, evs)
					}
					for _, e := range evs {
						switch e.Str("ev") {
						case "handler":
							c.R.Violate(caseID, "dispatched-undecodable-body", "cut-short", rp)
						case "panic":
							c.R.Violate(caseID, "panic", e.Str("value"), rp)
						}
					}
					if resp != nil && resp.Status != 400 {
						rp["status"] = resp.Status
						c.R.Violate(caseID, "status", fmt.Sprintf("st%d", resp.Status), rp)
					}
					c.R.Decided(caseID)
					continue
				}
			}
			c.R.Eval(1)
			bodyShown := string(mu.Body)
			if len(bodyShown) > 600 {
				bodyShown = bodyShown[:300] + "…" + bodyShown[len(bodyShown)-200:]
			}
			rp := map[string]any{"proto": protoText, "mutation": mu.Class, "mutation_index": mi, "content_type": mu.CT, "chunked": mu.Chunked, "body_len": len(mu.Body), "body": bodyShown, "body_b64_head": b64(mu.Body[:min(len(mu.Body), 400)])}
			if err != nil {
				// connection-level failure: did the child die?
				if _, serr := syncEvents(ch); serr != nil {
					rp["stderr"] = firstLines(ch.Stderr(), 60)
					c.R.Violate(caseID, "server-process-died", firstLines(ch.Stderr(), 1), rp)
					return
				}
				rp["transport_error"] = err.Error()
				c.R.Violate(caseID, "no-http-response", "", rp)
				continue
			}
			evs, serr := syncEvents(ch)
			if serr != nil {
				rp["stderr"] = firstLines(ch.Stderr(), 60)
				c.R.Violate(caseID, "server-process-died", firstLines(ch.Stderr(), 1), rp)
				return
			}
			rp["status"], rp["response_body"] = resp.Status, string(resp.Body[:min(len(resp.Body), 500)])
			var hs []lab.Event
			for _, e := range evs {
				switch e.Str("ev") {
				case "handler":
					hs = append(hs, e)
				case "panic":
					rp["stack"] = e.Str("stack")
					c.R.Violate(caseID, "panic", e.Str("value"), rp)
				}
			}
			switch {
			case resp.Status == 200:
				if len(hs) != 1 {
					c.R.Violate(caseID, "ok-without-dispatch", "", rp)
					break
				}
				if strings.HasPrefix(mu.Class, "two-members-of-one-oneof/") {
					g2 := dynamicpb.NewMessage(md)
					_ = proto.Unmarshal(unb64(hs[0].Str("req")), g2)
					rp["handler_saw"] = fmt.Sprint(g2)
					c.R.Violate(caseID, "dispatched-undecodable-body", "two members of one oneof", rp)
					break
				}
				got := dynamicpb.NewMessage(md)
				_ = proto.Unmarshal(unb64(hs[0].Str("req")), got)
				// whatever was accepted, the handler must hold a VALID message: one the reference encoder can write
				// (a Timestamp outside 0001..9999, a Duration out of range, invalid UTF-8 are not values)
				if _, verr := protojson.Marshal(got); verr != nil {
					rp["handler_saw"] = fmt.Sprint(got)
					rp["reference_encoder"] = verr.Error()
					c.R.Violate(caseID, "dispatched-invalid-message", "", rp)
				}
				isJSON := mu.CT == "" || strings.HasPrefix(mu.CT, "application/json") || mu.CT == "text/plain"
				if isJSON {
					if bt, perr := jsonmap.Parse(mu.Body); perr == nil {
						if st, serr := enc.Message(got); serr == nil {
							if sym, det := covers(md, bt, jsonmap.Resolve(st)); sym != "" {
								rp["handler_saw"] = fmt.Sprint(got)
								c.R.Violate(caseID, sym, det, rp)
							}
						}
					} else if strings.HasPrefix(mu.Class, "truncated") || mu.Class == "two-values" || mu.Class == "garbage" || mu.Class == "not-json" || mu.Class == "deep-unclosed" {
						// the body is not JSON at all yet a request was dispatched
						rp["handler_saw"] = fmt.Sprint(got)
						c.R.Violate(caseID, "dispatched-undecodable-body", "", rp)
					}
				} else if strings.HasPrefix(mu.Class, "proto-") && mu.Class != "proto-valid" {
					// binary: a request was dispatched; the reference decoder must accept the same bytes
					ref := dynamicpb.NewMessage(md)
					if proto.Unmarshal(mu.Body, ref) != nil {
						rp["handler_saw"] = fmt.Sprint(got)
						c.R.Violate(caseID, "dispatched-undecodable-body", "protobuf", rp)
					}
				}
			case resp.Status == 400:
				if len(hs) != 0 {
					c.R.Violate(caseID, "rejected-but-dispatched", "", rp)
				}
				ve := &sebufhttp.ValidationError{}
				var derr error
				if mu.CT == "application/x-protobuf" || mu.CT == "application/octet-stream" {
					derr = proto.Unmarshal(resp.Body, ve)
				} else {
					derr = protojson.Unmarshal(resp.Body, ve)
				}
				if derr != nil || len(ve.GetViolations()) == 0 {
					c.R.Violate(caseID, "malformed-400-body", "", rp)
				}
			default:
				c.R.Violate(caseID, "status", fmt.Sprintf("st%d", resp.Status), rp)
			}
			c.R.Decided(caseID)
			sampleOnce.Do(func() {
				c.R.Sample(map[string]any{"case": caseID, "valid_body": string(valid), "mutated_body": bodyShown, "status": resp.Status, "handler_entries": len(hs)})
			})
		}
	})
	p.Close()
	for _, pn := range p.Panics {
		c.R.Harness("driver panic in work item: " + firstLines(pn, 12))
	}
	c11clients(c, fl)
	nr, reps := lab.RaceReports(c.Scratch + "/race-c11")
	c.R.Count("race_reports", nr)
	for _, r := range reps {
		c.R.Violate("malformed/race", "race", firstLines(r, 3), map[string]any{"report": r})
	}
}

// upstream is a scripted fake server hosted by the driver.
type upstream struct {
	ln   net.Listener
	mu   sync.Mutex
	next func(w http.ResponseWriter, r *http.Request)
	URL  string
}

func newUpstream() (*upstream, error) {
	ln, err := net.Listen("tcp", "127.0.0.1:0")
	if err != nil {
		return nil, err
	}
	u := &upstream{ln: ln, URL: "http://" + ln.Addr().String()}
	go func() {
		_ = http.Serve(ln, http.HandlerFunc(func(w http.ResponseWriter, r *http.Request) {
			u.mu.Lock()
			f := u.next
			u.mu.Unlock()
			if f != nil {
				f(w, r)
			}
		}))
	}()
	return u, nil
}

func (u *upstream) Close() { _ = u.ln.Close() }

type upResp struct {
	Class  string
	Status int
	CT     string
	Body   []byte
	Hijack string // "", "close-midway", "wrong-length", "declared-length"
	// Declared: the Content-Length a "declared-length" response announces (the body is sent, then the
	// connection closes)
	Declared int64
}

func c11clients(c *Ctx, fl *featLab) {
	// one simple feature package is enough for the clients' response handling; plus one with a custom decoder
	var units []*featUnit
	for _, id := range sortedFeatIDs(fl.Units) {
		u := fl.Units[id][0]
		if u.OK() && (strings.HasPrefix(id, "none/scalars/singular") || strings.HasPrefix(id, "int64_number/int64/singular") || strings.HasPrefix(id, "unwrap/root-list") || strings.HasPrefix(id, "nullable/")) {
			units = append(units, u)
		}
	}
	if len(units) == 0 {
		for _, id := range sortedFeatIDs(fl.Units) {
			if u := fl.Units[id][0]; u.OK() {
				units = append(units, u)
				break
			}
		}
	}
	if len(units) > 3 {
		units = units[:3]
	}
	up, err := newUpstream()
	if err != nil {
		c.R.Harness(err.Error())
		return
	}
	defer up.Close()
	ch, err := lab.Start(fl.Bin, c.Scratch+"/race-c11")
	if err != nil {
		c.R.Harness(err.Error())
		return
	}
	defer ch.Quit()
	node, _ := lab.StartNode()
	if node != nil {
		defer node.Quit()
	}
	enc := &jsonmap.Encoder{}
	for _, u := range units {
		md := u.Msg(u.FP.Root)
		g := &values.Gen{R: c.Rng("c11c")}
		full := g.Full(md, 0, 3)
		tree, _ := enc.Message(full)
		valid := jsonmap.Marshal(tree)
		ve, _ := protojson.Marshal(&sebufhttp.ValidationError{Violations: []*sebufhttp.FieldViolation{{Field: "f", Description: "d"}}})
		var rs []upResp
		statuses := []int{200, 201, 204, 301, 400, 401, 404, 409, 418, 422, 429, 500, 502, 503, 599}
		bodies := []struct {
			c  string
			b  []byte
			ct string
		}{{"empty", nil, "application/json"}, {"valid-json", valid, "application/json"}, {"valid-proto", wire(full), "application/x-protobuf"}, {"truncated-json", valid[:len(valid)/2], "application/json"},
			{"garbage", []byte("\x00\xff<html>oops</html>"), "text/html"}, {"json-array", []byte("[1,2]"), "application/json"}, {"json-null", []byte("null"), "application/json"}, {"json-string", []byte(`"x"`), "application/json"},
			{"validation-error", ve, "application/json"}, {"proto-body-json-ct", wire(full), "application/json"}, {"json-body-proto-ct", valid, "application/x-protobuf"},
			{"huge", []byte(`{"label":"` + strings.Repeat("y", 4<<20) + `"}`), "application/json"}, {"deep", []byte(strings.Repeat("[", 100000)), "application/json"}, {"no-content-type", valid, ""},
			// tiny and degenerate bodies: what http.Error(w, "", code) or a proxy writes
			{"newline", []byte("\n"), "text/plain; charset=utf-8"}, {"crlf", []byte("\r\n"), "application/json"}, {"spaces", []byte("  \t "), "application/json"}, {"one-byte", []byte("{"), "application/json"},
			{"bom-json", append([]byte("\xef\xbb\xbf"), valid...), "application/json"}, {"leading-space-json", append([]byte(" \n"), valid...), "application/json"}, {"empty-object", []byte("{}"), "application/json"},
			{"zero-byte", []byte{0}, "application/x-protobuf"}, {"json-number", []byte("42"), "application/json"},
			// content types a proxy, a file server or another API style answers with (long vendor types, +json
			// suffixes, parameters, upper case), with bodies that are and are not JSON
			{"html/long-vendor-ct", []byte("<html>moved</html>"), "application/vnd.openxmlformats-officedocument.spreadsheetml.sheet"},
			{"empty/long-vendor-ct", nil, "application/vnd.oasis.opendocument.spreadsheet"},
			{"garbage/very-long-ct", []byte("PK\x03\x04"), "application/" + strings.Repeat("a.b-c+d", 14)},
			{"valid-json/problem+json-ct", valid, "application/problem+json"}, {"truncated-json/vnd+json-ct", valid[:len(valid)/2], "application/vnd.api+json"},
			{"valid-json/upper-case-ct", valid, "APPLICATION/JSON; CHARSET=UTF-8"}, {"valid-json/text-plain-ct", valid, "text/plain"},
			{"valid-json/ct-with-many-parameters", valid, "application/json; charset=utf-8; " + strings.Repeat("p=q; ", 60) + "z=\"a;b\""},
			{"garbage/ct-only-slash", []byte("x"), "/"}, {"garbage/ct-many-slashes", []byte("x"), strings.Repeat("a/", 40) + "json"}}
		for _, st := range statuses {
			for bi, b := range bodies {
				if !c.Thorough() && (st+bi+int(c.Seed))%3 != 0 && !(st == 200 || st == 400 || st == 500) {
					continue
				}
				rs = append(rs, upResp{Class: fmt.Sprintf("st%d/%s", st, b.c), Status: st, CT: b.ct, Body: b.b})
			}
		}
		rs = append(rs, upResp{Class: "close-midway", Status: 200, CT: "application/json", Body: valid, Hijack: "close-midway"},
			upResp{Class: "close-before-response", Status: 200, Hijack: "close-now"}, upResp{Class: "wrong-content-length", Status: 200, CT: "application/json", Body: valid, Hijack: "wrong-length"})
		// declared lengths at the edges of what a length can be: the reader may size buffers from them
		for _, dl := range []struct {
			c string
			n int64
		}{{"max-int64", math.MaxInt64}, {"max-int64-minus-1", math.MaxInt64 - 1}, {"max-int64-minus-511", math.MaxInt64 - 511}, {"max-int64-minus-512", math.MaxInt64 - 512}, {"max-int64-minus-4096", math.MaxInt64 - 4096},
			{"2^62", 1 << 62}, {"1TiB", 1 << 40}, {"2^32+1", 1<<32 + 1}, {"2^31", 1 << 31}, {"2^31-1", 1<<31 - 1}, {"64MiB", 64 << 20}, {"zero-with-body", 0}, {"one-less-than-body", int64(len(valid)) - 1}} {
			for _, st := range []int{200, 400, 500} {
				if !c.Thorough() && st == 500 {
					continue
				}
				rs = append(rs, upResp{Class: fmt.Sprintf("declared-content-length/%s/st%d", dl.c, st), Status: st, CT: "application/json", Body: valid, Hijack: "declared-length", Declared: dl.n})
			}
		}
		for _, r := range rs {
			r := r
			up.mu.Lock()
			up.next = func(w http.ResponseWriter, req *http.Request) {
				switch r.Hijack {
				case "close-now", "close-midway", "wrong-length", "declared-length":
					hj, ok := w.(http.Hijacker)
					if !ok {
						return
					}
					conn, bw, err := hj.Hijack()
					if err != nil {
						return
					}
					defer conn.Close()
					switch r.Hijack {
					case "close-midway":
						fmt.Fprintf(bw, "HTTP/1.1 200 OK\r\nContent-Type: application/json\r\nContent-Length: %d\r\n\r\n", len(r.Body))
						bw.Write(r.Body[:len(r.Body)/2])
						bw.Flush()
					case "wrong-length":
						fmt.Fprintf(bw, "HTTP/1.1 200 OK\r\nContent-Type: application/json\r\nContent-Length: %d\r\n\r\n", len(r.Body)+50)
						bw.Write(r.Body)
						bw.Flush()
					case "declared-length":
						fmt.Fprintf(bw, "HTTP/1.1 %d %s\r\nContent-Type: %s\r\nContent-Length: %d\r\nConnection: close\r\n\r\n", r.Status, http.StatusText(r.Status), r.CT, r.Declared)
						bw.Write(r.Body)
						bw.Flush()
					}
					return
				}
				if r.CT != "" {
					w.Header().Set("Content-Type", r.CT)
				}
				w.WriteHeader(r.Status)
				_, _ = w.Write(r.Body)
			}
			up.mu.Unlock()
			for _, ct := range []string{"application/json", "application/x-protobuf"} {
				caseID := fmt.Sprintf("malformed/go-client/%s/req-%s@%s", u.FP.Feat.Ann, strings.TrimPrefix(ct, "application/"), r.Class)
				if !c.Want(caseID) {
					continue
				}
				out, err := callGo(ch, u.FP.Svc, up.URL, u.FP.RPC["top"], u.FP.Root, wire(full), map[string]any{"ct": ct, "timeout_ms": 15000})
				c.R.Eval(1)
				rp := map[string]any{"proto": u.FP.File.Proto(), "upstream_response": r.Class, "status": r.Status, "content_type": r.CT, "body_head": string(r.Body[:min(len(r.Body), 200)])}
				if err != nil {
					rp["stderr"] = firstLines(ch.Stderr(), 60)
					sym := "client-hang-or-process-death"
					c.R.Violate(caseID, sym, err.Error(), rp)
					// restart child
					ch.Kill()
					ch, err = lab.Start(fl.Bin, c.Scratch+"/race-c11")
					if err != nil {
						c.R.Harness(err.Error())
						return
					}
					continue
				}
				if p := out.Ret.Str("panic"); p != "" {
					rp["stack"] = out.Ret.Str("stack")
					c.R.Violate(caseID, "panic", p, rp)
				} else if to, _ := out.Ret["timeout"].(bool); to {
					c.R.Violate(caseID, "client-timeout", "", rp)
				} else if out.Ret["err"] == nil && out.Ret["resp"] == nil {
					c.R.Violate(caseID, "neither-value-nor-error", "", rp)
				} else if r.Status >= 400 && out.Ret["err"] == nil {
					rp["client_return"] = out.Ret
					c.R.Violate(caseID, "error-status-returned-as-success", "", rp)
				}
				c.R.Decided(caseID)
			}
		}
		// TS client against the same upstream responses (JSON only)
		if node != nil {
			req, err := spec.Request([]*spec.File{u.FP.File}, nil, "")
			if err != nil {
				continue
			}
			res := lab.RunDecoy(c.TB, "ts-client", req, plugin.RunOpt{})
			if !res.OK() {
				continue
			}
			tsFile := ""
			for name, content := range res.Files {
				tsFile = filepath.Join(fl.L.Dir, "ts", u.FP.File.GoName, filepath.Base(name))
				_ = os.MkdirAll(filepath.Dir(tsFile), 0o755)
				_ = os.WriteFile(tsFile, []byte(content), 0o644)
			}
			for _, r := range rs {
				if r.Hijack != "" || len(r.Body) > 1<<20 {
					continue
				}
				caseID := fmt.Sprintf("malformed/ts-client/%s@%s", u.FP.Feat.Ann, r.Class)
				if !c.Want(caseID) {
					continue
				}
				if r.Status == 204 || r.Status == 301 {
					continue // fetch's Response constructor forbids bodies / follows redirects: not the generated code
				}
				inj := map[string]any{"status": r.Status, "body": string(r.Body), "headers": map[string]string{"Content-Type": r.CT}}
				ret, err := callTS(node, tsFile, "LabSvcClient", "http://up.invalid", lowerFirst(u.FP.RPC["top"]), jsonmap.Resolve(tree), map[string]any{"inject": inj, "timeout_ms": 15000})
				c.R.Eval(1)
				rp := map[string]any{"proto": u.FP.File.Proto(), "upstream_response": r.Class}
				if err != nil {
					c.R.Violate(caseID, "client-hang-or-process-death", err.Error(), rp)
					return
				}
				_, hasResp := ret["resp"]
				if ret["err"] == nil && !hasResp {
					c.R.Violate(caseID, "neither-value-nor-error", "", rp)
				} else if r.Status >= 400 && ret["err"] == nil {
					rp["client_return"] = ret
					c.R.Violate(caseID, "error-status-returned-as-success", "", rp)
				} else if te := oasM(ret["err"]); te != nil && te["cls"] != "ValidationError" && te["cls"] != "ApiError" && r.Status >= 400 {
					rp["client_error"] = te
					c.R.Violate(caseID, "error-not-a-documented-error-class", oas.S(te["cls"]), rp)
				}
				c.R.Decided(caseID)
			}
		}
	}
	_ = time.Second
}
