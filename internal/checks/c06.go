package checks

import (
	"fmt"
	"net/url"
	"strings"
	"sync"

	"google.golang.org/protobuf/reflect/protoreflect"
	"google.golang.org/protobuf/types/dynamicpb"

	"verif/internal/corpus"
	"verif/internal/lab"
	"verif/internal/model/jsonmap"
	"verif/internal/oas"
	"verif/internal/plugin"
	"verif/internal/spec"
	"verif/internal/values"
)

func init() { Registry["C06"] = c06 }

type wireSample struct {
	md     protoreflect.MessageDescriptor // message type of the instance (for coordinate paths)
	caseID string
	docKey string
	schema any // use-site schema (already closed)
	inst   any
	what   string
	proto  string
	raw    string
}

func closed(schema any) any {
	m := oas.M(schema)
	if m == nil {
		return schema
	}
	cp := map[string]any{}
	for k, v := range m {
		cp[k] = v
	}
	if _, has := cp["unevaluatedProperties"]; !has {
		cp["unevaluatedProperties"] = false
	}
	return cp
}

// paramInstance deserialises a raw parameter value per the declared primitive type
// (style simple/form defaults).
func paramInstance(schema any, raws []string) any {
	sm := oas.M(schema)
	t := oas.S(sm["type"])
	conv := func(t, s string) any {
		switch t {
		case "integer", "number":
			return jsonNumberOrString(s)
		case "boolean":
			if s == "true" {
				return true
			}
			if s == "false" {
				return false
			}
			return s
		}
		return s
	}
	if t == "array" {
		it := oas.S(oas.M(sm["items"])["type"])
		arr := []any{}
		for _, r := range raws {
			arr = append(arr, conv(it, r))
		}
		return arr
	}
	if len(raws) == 0 {
		return nil
	}
	return conv(t, raws[0])
}

// c06: wire JSON bodies and parameters validate against the generated OpenAPI.
func c06(c *Ctx) {
	c.R.Rule = "abstract case = (JSON-mapping feature as request and response type; routing/placement RPCs for parameters) x direction {Go-client request, TS-client request, Go-server 200 response, 400 ValidationError, 500 Error} x value class + component schema satisfiability by the JSON of the default and of a fully populated value; " +
		"non-trivial = the body/parameter was captured on the wire (tap) during a real call and validated by python-jsonschema (Draft 2020-12) against the schema the same request's OpenAPI document gives for that operation/status, with every use site closed by unevaluatedProperties:false"
	c.R.Assume("python-jsonschema 4.26; `format` annotation-only; parameters deserialised per OpenAPI style defaults (simple/form)")
	feats := corpus.Features() // every feature in both tiers; quick thins values
	fl, err := buildFeatureLab(c, "c06", feats, []variant{{Tag: "s", Plugins: []string{"go-http", "go-client"}}}, true, []string{"top", "child", "repeated", "map"}, false)
	if err != nil {
		c.R.Harness(err.Error())
		return
	}
	p, err := startPool(fl.Bin, 8, "")
	if err != nil {
		c.R.Harness(err.Error())
		return
	}
	docs := map[string]any{}
	var samples []wireSample
	var mu sync.Mutex
	addSample := func(s wireSample) {
		mu.Lock()
		samples = append(samples, s)
		mu.Unlock()
	}
	ids := sortedFeatIDs(fl.Units)
	enc := &jsonmap.Encoder{}
	p.Each(len(ids), func(ch *lab.Child, i int) {
		u := fl.Units[ids[i]][0]
		base := "oasjson/" + u.FP.Feat.ID
		if !u.OK() {
			return // build problems: C13
		}
		req, _ := spec.Request([]*spec.File{u.FP.File}, nil, "format=json")
		res := lab.RunDecoy(c.TB, "openapiv3", req, plugin.RunOpt{})
		c.R.Eval(1)
		if !res.OK() {
			c.R.Violate(base, "no-document", res.Crash+res.Error, map[string]any{"proto": u.FP.File.Proto()})
			return
		}
		var doc *oas.Doc
		for n, ct := range res.Files {
			d, err := oas.Parse(n, ct)
			if err != nil {
				c.R.Violate(base, "unparsable", err.Error(), nil)
				return
			}
			doc = &oas.Doc{Name: d.Name, Root: oas.Strictify(d.Root)}
		}
		docKey := u.FP.File.Package
		mu.Lock()
		docs[docKey] = doc.Root
		mu.Unlock()
		ops := map[string]oas.Op{}
		for _, op := range doc.Ops() {
			ops[op.OperationID] = op
		}
		// the same file with a SECOND service over the same types: that service's document must describe the
		// same bodies (what the generator keeps per message within a file must not starve the later service)
		ops2 := map[string]oas.Op{}
		docKey2 := docKey + "#second-service"
		if req2, err := spec.Request([]*spec.File{corpus.TwoServices(u.FP)}, nil, "format=json"); err == nil {
			res2 := lab.RunDecoy(c.TB, "openapiv3", req2, plugin.RunOpt{})
			c.R.Eval(1)
			if res2.OK() {
				for n, ct := range res2.Files {
					if !strings.Contains(n[strings.LastIndex(n, "/")+1:], "Two.") {
						continue
					}
					if d2, err := oas.Parse(n, ct); err == nil {
						d2s := &oas.Doc{Name: d2.Name, Root: oas.Strictify(d2.Root)}
						mu.Lock()
						docs[docKey2] = d2s.Root
						mu.Unlock()
						for _, op := range d2s.Ops() {
							ops2[strings.TrimSuffix(op.OperationID, "Again")] = op
						}
					}
				}
			}
		}
		gs, err := serveGo(ch, []string{u.FP.Svc}, "none", false)
		if err != nil {
			return
		}
		defer gs.Stop()
		rootMD := u.Msg(u.FP.Root)
		g := &values.Gen{R: c.Rng("c06:" + u.FP.Feat.ID)}
		rootVals := g.All(rootMD)
		if !c.Thorough() {
			rootVals = thin(rootVals, 4, int(c.Seed))
		}
		protoText := u.FP.File.Proto()
		for _, ctx := range []string{"top", "child", "repeated", "map"} {
			full, ok := u.FP.Ctx[ctx]
			if !ok {
				continue
			}
			ctxMD := u.Msg(full)
			op, ok := ops[u.FP.RPC[ctx]]
			if !ok {
				c.R.Violate(base+"/ctx="+ctx, "operation-missing", "", map[string]any{"proto": protoText})
				continue
			}
			// component satisfiability: default and fully populated values (model JSON = what the server is documented to send)
			for _, lv := range []values.LMsg{{Class: "default", M: dynamicpb.NewMessage(ctxMD)}, {Class: "full", M: wrapInContext(ctxMD, rootMD, []*dynamicpb.Message{g.Full(rootMD, 0, 3), g.Full(rootMD, 1, 3)})}} {
				rpc := u.FP.Svc + "." + u.FP.RPC[ctx]
				gs.Script(rpc, map[string]any{"resp": b64(wire(lv.M))})
				out, err := callGo(ch, u.FP.Svc, gs.URL, u.FP.RPC[ctx], full, wire(lv.M), map[string]any{"ct": "application/json"})
				c.R.Eval(1)
				if err != nil {
					continue
				}
				for _, e := range out.byKind("wire") {
					c06collect(addSample, e, op, docKey, fmt.Sprintf("%s/ctx=%s", base, ctx), lv.Class, protoText, ctxMD)
					if op2, ok := ops2[u.FP.RPC[ctx]]; ok {
						c06collect(addSample, e, op2, docKey2, fmt.Sprintf("%s/ctx=%s/doc=second-service-of-file", base, ctx), lv.Class, protoText, ctxMD)
					}
				}
			}
			if ctx != "top" {
				continue
			}
			for _, rv := range rootVals {
				rpc := u.FP.Svc + "." + u.FP.RPC[ctx]
				gs.Script(rpc, map[string]any{"resp": b64(wire(rv.M))})
				out, err := callGo(ch, u.FP.Svc, gs.URL, u.FP.RPC[ctx], full, wire(rv.M), map[string]any{"ct": "application/json"})
				c.R.Eval(1)
				if err != nil {
					continue
				}
				for _, e := range out.byKind("wire") {
					c06collect(addSample, e, op, docKey, fmt.Sprintf("%s/ctx=%s", base, ctx), rv.Class, protoText, ctxMD)
				}
			}
			// the same responses when the request's Content-Type is spelled otherwise (still answered in JSON)
			for _, rv := range rootVals {
				if rv.Class != "full0" && rv.Class != "full1" {
					continue
				}
				rpc := u.FP.Svc + "." + u.FP.RPC[ctx]
				for _, alt := range altRequestCTs {
					gs.Script(rpc, map[string]any{"resp": b64(wire(rv.M))})
					var hdr [][2]string
					if alt.CT != "" {
						hdr = [][2]string{{"Content-Type", alt.CT}}
					}
					resp, err := rawHTTP("POST", gs.URL, u.FP.Path[ctx], hdr, jsonmap.Marshal(mustTree(enc, dynamicpb.NewMessage(ctxMD))))
					c.R.Eval(1)
					_, _ = syncEvents(ch)
					if err != nil || resp.Status != 200 || !strings.HasPrefix(resp.Header.Get("Content-Type"), "application/json") {
						continue
					}
					if t, perr := jsonmap.Parse(resp.Body); perr == nil {
						addSample(wireSample{md: ctxMD, caseID: fmt.Sprintf("%s/ctx=%s/dir=response/ct=%s@%s", base, ctx, alt.Label, rv.Class), docKey: docKey, schema: closed(op.Responses["200"]), inst: t,
							what: "Go server 200 response body (request Content-Type: " + alt.CT + ")", proto: protoText, raw: string(resp.Body)})
					}
				}
			}
			// error responses: malformed body -> 400 ; handler error -> 500
			gs.Script("", map[string]any{"err": map[string]any{"kind": "plain", "message": "boom"}})
			if resp, err := rawHTTP("POST", gs.URL, u.FP.Path[ctx], [][2]string{{"Content-Type", "application/json"}}, jsonmap.Marshal(mustTree(enc, dynamicpb.NewMessage(ctxMD)))); err == nil {
				_, _ = syncEvents(ch)
				if t, perr := jsonmap.Parse(resp.Body); perr == nil && resp.Status == 500 {
					sch := op.Responses["default"]
					if s5, ok := op.Responses["500"]; ok {
						sch = s5
					}
					addSample(wireSample{caseID: base + "/ctx=top/dir=error-500", docKey: docKey, schema: closed(sch), inst: t, what: "500 response body", proto: protoText, raw: string(resp.Body)})
				}
			}
			if resp, err := rawHTTP("POST", gs.URL, u.FP.Path[ctx], [][2]string{{"Content-Type", "application/json"}}, []byte(`{"x": `)); err == nil {
				_, _ = syncEvents(ch)
				if t, perr := jsonmap.Parse(resp.Body); perr == nil && resp.Status == 400 {
					addSample(wireSample{caseID: base + "/ctx=top/dir=error-400", docKey: docKey, schema: closed(op.Responses["400"]), inst: t, what: "400 response body", proto: protoText, raw: string(resp.Body)})
				}
			}
		}
	})
	p.Close()
	for _, pn := range p.Panics {
		c.R.Harness("driver panic in work item: " + firstLines(pn, 12))
	}
	c06params(c, addSample, docs)
	c06rules(c, addSample, docs)
	// ---- validate everything in one batch ----
	var jobs []pyJob
	for i, s := range samples {
		jobs = append(jobs, pyJob{ID: fmt.Sprint(i), Schema: s.schema, Instance: s.inst, Doc: s.docKey})
	}
	results, validator, err := pyValidate(jobs, docs)
	if err != nil {
		c.R.Harness("schema validator unavailable: " + err.Error())
		return
	}
	c.R.Set("schema_validator", validator)
	c.R.Eval(len(jobs))
	sampled := false
	for i, s := range samples {
		r := results[fmt.Sprint(i)]
		if r.Valid == nil {
			if strings.Contains(r.SchemaError, "PointerToNowhere") || strings.Contains(r.SchemaError, "Unresolvable") {
				// the operation's schema refers to a component the document does not have: nothing validates against it
				c.R.Violate(s.caseID, "schema-has-unresolvable-reference", "", map[string]any{"proto": s.proto, "what": s.what, "schema": s.schema, "validator_error": firstLines(r.SchemaError, 2)})
				c.R.Decided(s.caseID)
				continue
			}
			c.R.Inconclusive(s.caseID, "validator:"+r.SchemaError)
			continue
		}
		c.R.Count("instances_validated", 1)
		if !*r.Valid {
			kw := r.Keyword
			where := depthOf(r.Path)
			if s.md != nil {
				where = jsonmap.RolePath(s.md, r.Path)
			}
			c.R.Violate(s.caseID, "wire-json-violates-openapi", "role:"+kw+" "+where, map[string]any{"proto": s.proto, "what": s.what, "instance": s.raw, "schema": s.schema, "validator_error": r.Error})
		} else if r.SchemaError != "" {
			c.R.Violate(s.caseID, "invalid-schema", r.SchemaError, map[string]any{"proto": s.proto, "schema": s.schema})
		}
		c.R.Decided(s.caseID)
		if !sampled && strings.Contains(s.caseID, "dir=response") {
			sampled = true
			c.R.Sample(map[string]any{"case": s.caseID, "what": s.what, "instance": s.raw, "schema": s.schema, "valid": *r.Valid})
		}
	}
}

func mustTree(enc *jsonmap.Encoder, m *dynamicpb.Message) any {
	t, _ := enc.Message(m)
	return t
}

func c06collect(add func(wireSample), e lab.Event, op oas.Op, docKey, base, class, protoText string, md protoreflect.MessageDescriptor) {
	if body := unb64(e.Str("body")); len(body) > 0 {
		if t, err := jsonmap.Parse(body); err == nil && op.ReqSchema != nil {
			add(wireSample{md: md, caseID: base + "/dir=request@" + class, docKey: docKey, schema: closed(op.ReqSchema), inst: t, what: "Go client request body", proto: protoText, raw: string(body)})
		}
	}
	if e.Int("status") == 200 {
		if t, err := jsonmap.Parse(unb64(e.Str("resp_body"))); err == nil {
			add(wireSample{md: md, caseID: base + "/dir=response@" + class, docKey: docKey, schema: closed(op.Responses["200"]), inst: t, what: "Go server 200 response body", proto: protoText, raw: string(unb64(e.Str("resp_body")))})
		}
	}
}

// c06params: path/query/header values sent by the Go client validate against parameter schemas.
func c06params(c *Ctx, add func(wireSample), docs map[string]any) {
	l, err := lab.New(c.TB, "c06p")
	if err != nil {
		c.R.Harness(err.Error())
		return
	}
	g0 := corpus.PlacementGroups()[0]
	pkg := "c06.pok"
	f, cases := corpus.PlacementFile(pkg, "c06pok", g0.QueryKinds, g0.Cards, true)
	f.Services[0].Headers = []spec.Header{{Name: "X-Trace", Type: "string", Format: "uuid", Required: true}, {Name: "X-Count", Type: "integer", Required: true}}
	req, err := spec.Request([]*spec.File{f}, nil, "")
	if err != nil {
		c.R.Harness(err.Error())
		return
	}
	reg, _ := spec.Files(req)
	if _, err := l.Add(req, lab.PkgOpt{Plugins: []string{"go-http", "go-client"}, Helpers: true}); err != nil {
		c.R.Harness(err.Error())
		return
	}
	reqJSON, _ := spec.Request([]*spec.File{f}, nil, "format=json")
	res := lab.RunDecoy(c.TB, "openapiv3", reqJSON, plugin.RunOpt{})
	if !res.OK() {
		return
	}
	var doc *oas.Doc
	for n, ct := range res.Files {
		doc, _ = oas.Parse(n, ct)
	}
	if doc == nil {
		return
	}
	docs[pkg] = doc.Root
	if un := l.CompileAll(false); un != "" || len(l.Failed["gen/c06pok"]) > 0 {
		return
	}
	bin, err := l.BuildBinary(false)
	if err != nil {
		c.R.Harness(err.Error())
		return
	}
	ch, err := lab.Start(bin, "")
	if err != nil {
		return
	}
	defer ch.Quit()
	gs, err := serveGo(ch, []string{pkg + ".PlaceService"}, "none", false)
	if err != nil {
		return
	}
	ops := map[string]oas.Op{}
	for _, op := range doc.Ops() {
		ops[op.OperationID] = op
	}
	protoText := f.Proto()
	for _, pc := range cases {
		op := ops[pc.Method]
		md := msgDesc(reg, pc.In)
		fd := md.Fields().ByName(protoreflect.Name(pc.Field))
		for _, lv := range values.Scalars(fd, values.Opt{URLSafe: true, NoLong: true}) {
			m := dynamicpb.NewMessage(md)
			m.Set(fd, lv.V)
			out, err := callGo(ch, pkg+".PlaceService", gs.URL, pc.Method, pc.In, wire(m), map[string]any{"ct": "application/json", "chelpers": []map[string]string{{"K": "X-Trace", "V": "123e4567-e89b-12d3-a456-426614174000"}, {"K": "X-Count", "V": "3"}}})
			c.R.Eval(1)
			if err != nil {
				continue
			}
			for _, e := range out.byKind("wire") {
				uri := e.Str("uri")
				pth, q, _ := strings.Cut(uri, "?")
				qv, _ := url.ParseQuery(q)
				for _, prm := range op.Params {
					caseID := fmt.Sprintf("oasparam/%s/%s/%s/%s@%s", prm.In, pc.Where, pc.Kind, pc.Verb, lv.Class)
					var raws []string
					switch prm.In {
					case "path":
						// locate by template position
						ts, ps := strings.Split(pc.Template, "/"), strings.Split(pth, "/")
						for i := range ts {
							if ts[i] == "{"+prm.Name+"}" && i < len(ps) {
								if s, err := url.PathUnescape(ps[i]); err == nil {
									raws = []string{s}
								}
							}
						}
					case "query":
						raws = qv[prm.Name]
						if len(raws) == 0 {
							continue // parameter not sent (default value omitted)
						}
					case "header":
						hs := oas.M(e["headers"])
						for k, v := range hs {
							if strings.EqualFold(k, prm.Name) {
								for _, x := range oas.L(v) {
									raws = append(raws, oas.S(x))
								}
							}
						}
						if len(raws) == 0 {
							continue
						}
					}
					if raws == nil {
						continue
					}
					add(wireSample{caseID: caseID, docKey: pkg, schema: prm.Schema, inst: paramInstance(prm.Schema, raws), what: prm.In + " parameter " + prm.Name, proto: protoText, raw: strings.Join(raws, ",")})
				}
			}
		}
	}
}

func jsonNumberOrString(s string) any {
	t, err := jsonmap.Parse([]byte(s))
	if err != nil {
		return s
	}
	switch t.(type) {
	case string, bool, nil, []any, map[string]any:
		return s
	}
	return t
}
