package checks

import (
	"time"
	"fmt"
	"strings"
	"sync"

	"google.golang.org/protobuf/proto"
	"google.golang.org/protobuf/reflect/protoreflect"
	"google.golang.org/protobuf/reflect/protoregistry"
	"google.golang.org/protobuf/types/dynamicpb"

	"verif/internal/corpus"
	"verif/internal/lab"
	"verif/internal/model/jsonmap"
	"verif/internal/spec"
	"verif/internal/values"
)

func init() { Registry["C01"] = c01 }

// rpcTarget is one RPC to exercise end to end.
type rpcTarget struct {
	CaseID  string
	Svc     string // service full name
	Method  string
	In, Out string // message full names
	Reg     *protoregistry.Files
	Proto   string
	PathFields map[string]bool // fields that travel in the path (values must be non-empty)
	ReqVals func(md protoreflect.MessageDescriptor) []values.LMsg
}

var contentTypes = []struct{ Label, CT string }{{"json", "application/json"}, {"x-protobuf", "application/x-protobuf"}, {"octet-stream", "application/octet-stream"}}

func msgDesc(reg *protoregistry.Files, full string) protoreflect.MessageDescriptor {
	d, err := reg.FindDescriptorByName(protoreflect.FullName(full))
	if err != nil {
		return nil
	}
	md, _ := d.(protoreflect.MessageDescriptor)
	return md
}

// deliver performs one client call and judges exact delivery of request and response.
// Returns false when the lab child became unusable.
func deliver(c *Ctx, ch *lab.Child, gs *srv, t *rpcTarget, caseID string, req, resp *dynamicpb.Message, ct string, extraOpts map[string]any) bool {
	rw := wire(resp)
	gs.Script(t.Svc+"."+t.Method, map[string]any{"resp": b64(rw)})
	opts := map[string]any{"ct": ct}
	for k, v := range extraOpts {
		opts[k] = v
	}
	out, err := callGo(ch, t.Svc, gs.URL, t.Method, t.In, wire(req), opts)
	c.R.Eval(1)
	rp := func(extra map[string]any) map[string]any {
		m := map[string]any{"proto": t.Proto, "rpc": t.Svc + "." + t.Method, "content_type": ct, "request": fmt.Sprint(req), "request_wire_b64": b64(wire(req)), "scripted_response": fmt.Sprint(resp)}
		for _, e := range out.byKind("wire") {
			m["wire"] = map[string]any{"method": e["method"], "uri": e["uri"], "status": e["status"], "request_body": string(unb64(e.Str("body"))), "response_body": string(unb64(e.Str("resp_body"))), "pattern": e["pattern"]}
		}
		for k, v := range extra {
			m[k] = v
		}
		return m
	}
	if err != nil {
		if err == lab.ErrDead || err == lab.ErrTimeout {
			c.R.Violate(caseID, "lab-child-died", firstLines(ch.Stderr(), 2), rp(map[string]any{"stderr": firstLines(ch.Stderr(), 40), "last_command": ch.LastCmd}))
			return false
		}
		c.R.Inconclusive(caseID, "call:"+err.Error())
		return true
	}
	for _, e := range out.byKind("panic") {
		c.R.Violate(caseID, "panic", e.Str("where")+": "+e.Str("value"), rp(map[string]any{"stack": e.Str("stack")}))
	}
	if p := out.Ret.Str("panic"); p != "" {
		c.R.Violate(caseID, "panic", "client: "+p, rp(map[string]any{"stack": out.Ret.Str("stack")}))
		return true
	}
	hs := out.byKind("handler")
	want := t.Svc + "." + t.Method
	switch {
	case len(hs) == 0:
		st := ""
		for _, e := range out.byKind("wire") {
			st = fmt.Sprint(e["status"])
		}
		c.R.Violate(caseID, "handler-not-reached", "st"+st, rp(map[string]any{"client_error": out.Ret["err"]}))
		return true
	case len(hs) > 1:
		c.R.Violate(caseID, "handler-entered-twice", "", rp(nil))
	}
	if hs[0].Str("rpc") != want {
		c.R.Violate(caseID, "wrong-handler", "", rp(map[string]any{"entered": hs[0].Str("rpc")}))
		return true
	}
	md := req.Descriptor()
	got := dynamicpb.NewMessage(md)
	if uerr := proto.Unmarshal(unb64(hs[0].Str("req")), got); uerr != nil {
		c.R.Harness("cannot read handler request: " + uerr.Error())
		return true
	}
	// JSON transport: the documented losses of the mapping (timestamp truncation, empty-message
	// presence under OMIT/NULL) apply; binary transport must be exact
	var wantReq, wantResp proto.Message = req, resp
	if strings.HasPrefix(ct, "application/json") {
		wantReq, wantResp = jsonmap.Norm(req), jsonmap.Norm(resp)
	}
	var gotN proto.Message = got
	if strings.HasPrefix(ct, "application/json") {
		gotN = jsonmap.Norm(got)
	}
	if !proto.Equal(gotN, wantReq) {
		c.R.Violate(caseID, "request-changed", diffFields(wantReq, got), rp(map[string]any{"handler_saw": fmt.Sprint(got)}))
	}
	if out.Ret["err"] != nil {
		c.R.Violate(caseID, "client-error", fmt.Sprint(oasM(out.Ret["err"])["text"]), rp(map[string]any{"client_error": out.Ret["err"]}))
		return true
	}
	back := dynamicpb.NewMessage(resp.Descriptor())
	if uerr := proto.Unmarshal(unb64(out.Ret.Str("resp")), back); uerr != nil {
		c.R.Harness("cannot read client response: " + uerr.Error())
		return true
	}
	var backN proto.Message = back
	if strings.HasPrefix(ct, "application/json") {
		backN = jsonmap.Norm(back)
	}
	if !proto.Equal(backN, wantResp) {
		c.R.Violate(caseID, "response-changed", diffFields(wantResp, back), rp(map[string]any{"client_got": fmt.Sprint(back)}))
	}
	c.R.Decided(caseID)
	return true
}

func oasM(v any) map[string]any {
	m, _ := v.(map[string]any)
	return m
}

// c01: Go client -> Go server delivers the exact request and response.
func c01(c *Ctx) {
	c.R.Rule = "abstract case = union of sub-catalogues: (routing: base_path x config x verb x path shape, explicit paths) + (placement: path kind x verb, query kind x cardinality x verb) + (body: every JSON-mapping feature as request and response) x content type {json, x-protobuf, octet-stream} x value class (boundary classes per kind; path-bound strings non-empty); " +
		"non-trivial = the generated client was called against the generated server over loopback HTTP, the recording handler logged entry and request bytes, and both directions were compared with proto.Equal"
	c.R.Assume("net/http client+server on loopback; proto.Equal (NaN-aware) decides message equality; default-path routes are C03's subject and are not used here")
	l, err := lab.New(c.TB, "c01")
	if err != nil {
		c.R.Harness(err.Error())
		return
	}
	type pkgUnit struct {
		dir     string
		targets []*rpcTarget
		refused string
	}
	var units []*pkgUnit
	addPkg := func(f *spec.File, mk func(reg *protoregistry.Files, protoText string) []*rpcTarget) {
		req, err := spec.Request([]*spec.File{f}, nil, "")
		if err != nil {
			c.R.Harness(err.Error())
			return
		}
		reg, _ := spec.Files(req)
		ad, err := l.Add(req, lab.PkgOpt{Plugins: []string{"go-http", "go-client"}, Tag: f.Package})
		if err != nil {
			c.R.Harness(err.Error())
			return
		}
		c.R.Eval(3)
		u := &pkgUnit{dir: "gen/" + f.GoName, refused: ad.Refused}
		u.targets = mk(reg, f.Proto())
		units = append(units, u)
	}
	// (a) routing: explicit paths, one base variant in quick, all in thorough
	lit := 0
	bases := []int{0, 1, 2, 3, 4} // every base_path class in both tiers (quick thins values, not bases)
	for n, bi := range bases {
		for _, sub := range []string{"main", "pathquery", "bodyquery", "bodymap", "shared"} {
			pkg := fmt.Sprintf("c01.r%d%s", n, sub)
			f, cases := corpus.RoutingFile(bi, sub, pkg, "lab/gen/"+strings.ReplaceAll(pkg, ".", ""), strings.ReplaceAll(pkg, ".", ""), &lit, c.Thorough())
			addPkg(f, func(reg *protoregistry.Files, pt string) []*rpcTarget {
				var ts []*rpcTarget
				for _, rc := range cases {
					if rc.CfgPath == "" {
						continue // default paths: C03
					}
					pf := map[string]bool{}
					for _, v := range rc.PathVars {
						pf[v] = true
					}
					ts = append(ts, &rpcTarget{CaseID: "deliver/" + rc.ID, Svc: rc.Svc, Method: rc.Method, In: rc.In, Out: rc.Out, Reg: reg, Proto: pt, PathFields: pf})
				}
				return ts
			})
		}
	}
	// (a2) request messages shared by several RPCs: bodiless verbs first / body verb first, two services
	{
		pkg := "c01.shared"
		f := corpus.SharedRequestFile(pkg, "c01shared")
		addPkg(f, func(reg *protoregistry.Files, pt string) []*rpcTarget {
			var ts []*rpcTarget
			for _, sv := range f.Services {
				for _, m := range sv.Methods {
					pf := map[string]bool{}
					for _, seg := range strings.Split(m.HTTP.Path, "/") {
						if strings.HasPrefix(seg, "{") && strings.HasSuffix(seg, "}") {
							pf[seg[1:len(seg)-1]] = true
						}
					}
					verb := map[int32]string{1: "GET", 2: "POST", 3: "PUT", 4: "DELETE", 5: "PATCH"}[m.HTTP.Verb]
					ts = append(ts, &rpcTarget{CaseID: fmt.Sprintf("deliver/shared-request/%s/%s/%s", strings.TrimPrefix(m.In, "."+pkg+"."), verb, sv.Name+"."+m.Name), Svc: pkg + "." + sv.Name, Method: m.Name,
						In: strings.TrimPrefix(m.In, "."), Out: strings.TrimPrefix(m.Out, "."), Reg: reg, Proto: pt, PathFields: pf})
				}
			}
			return ts
		})
	}
	// (a3) google.protobuf.Value in responses and requests: unset, every kind, and an EXPLICIT null are all
	// different values (for Value, JSON null is a value; for every other field it means "unset")
	{
		pkg := "c01.wktvalue"
		f := &spec.File{Path: "c01/wktvalue.proto", Package: pkg, GoImport: "lab/gen/c01wktvalue", GoName: "c01wktvalue"}
		f.Messages = []*spec.Message{
			{Name: "Origin", Fields: []*spec.Field{spec.FM("raw", 1, spec.Value), spec.F("note", 2, spec.String)}},
			{Name: "SettingReq", Fields: []*spec.Field{spec.F("key", 1, spec.String), spec.FM("wanted", 2, spec.Value)}},
			{Name: "Setting", Fields: []*spec.Field{spec.FM("value", 1, spec.Value), spec.FM("fallback", 2, spec.Value), spec.FM("origin", 3, "."+pkg+".Origin"), spec.F("name", 4, spec.String), spec.FM("extra", 5, spec.Struct)}},
		}
		f.Services = []*spec.Service{{Name: "SettingService", BasePath: spec.S("/settings"), Methods: []*spec.Method{
			{Name: "PutSetting", In: "." + pkg + ".SettingReq", Out: "." + pkg + ".Setting", HTTP: &spec.HTTP{Path: "/{key}", Verb: 3}},
			{Name: "FindSetting", In: "." + pkg + ".SettingReq", Out: "." + pkg + ".Setting", HTTP: &spec.HTTP{Path: "/find", Verb: 2}},
		}}}
		addPkg(f, func(reg *protoregistry.Files, pt string) []*rpcTarget {
			var ts []*rpcTarget
			for _, m := range f.Services[0].Methods {
				pf := map[string]bool{}
				if strings.Contains(m.HTTP.Path, "{key}") {
					pf["key"] = true
				}
				ts = append(ts, &rpcTarget{CaseID: "deliver/wkt-value/" + m.Name, Svc: pkg + ".SettingService", Method: m.Name, In: pkg + ".SettingReq", Out: pkg + ".Setting", Reg: reg, Proto: pt, PathFields: pf})
			}
			return ts
		})
	}
	// (b) placement x kind
	for _, g := range corpus.PlacementGroups() {
		pkg := "c01.p" + g.Label
		f, cases := corpus.PlacementFileG(pkg, "c01p"+g.Label, g)
		addPkg(f, func(reg *protoregistry.Files, pt string) []*rpcTarget {
			var ts []*rpcTarget
			for _, pc := range cases {
				pf := map[string]bool{}
				if pc.Where == "path" {
					pf[pc.Field] = true
				}
				ts = append(ts, &rpcTarget{CaseID: "deliver/" + pc.ID, Svc: pc.Svc, Method: pc.Method, In: pc.In, Out: pc.Out, Reg: reg, Proto: pt, PathFields: pf})
			}
			return ts
		})
	}
	// (c) body shapes: every JSON-mapping feature as request and response (one package each)
	feats := sampleFeats(c, corpus.Features(), 2)
	for i, ft := range feats {
		fp := corpus.BuildFeaturePkg(ft, i, "c01b", "", corpus.NewNames(c.Rng("names:"+ft.ID)), true, []string{"top"})
		ft := ft
		addPkg(fp.File, func(reg *protoregistry.Files, pt string) []*rpcTarget {
			return []*rpcTarget{{CaseID: "deliver/body/" + ft.ID, Svc: fp.Svc, Method: fp.RPC["top"], In: fp.Root, Out: fp.Root, Reg: reg, Proto: pt}}
		})
	}
	if un := l.CompileAll(false); un != "" {
		c.R.Harness("unattributed build output: " + firstLines(un, 10))
		return
	}
	bin, err := l.BuildBinary(true)
	if err != nil {
		c.R.Harness(err.Error())
		return
	}
	p, err := startPool(bin, 8, c.Scratch+"/race-c01")
	if err != nil {
		c.R.Harness(err.Error())
		return
	}
	defer p.Close()
	var sampleOnce sync.Once
	p.Each(len(units), func(ch *lab.Child, i int) {
		u := units[i]
		for _, t := range u.targets {
			if u.refused != "" {
				c.R.Violate(t.CaseID, "refused", u.refused, map[string]any{"proto": t.Proto})
				continue
			}
			if d := emittedDiag(l.Failed[u.dir]); d != nil {
				c.R.Violate(t.CaseID, "compile", fileKind(d.File)+": "+d.Msg, map[string]any{"proto": t.Proto, "file": d.File, "line": d.Line})
				continue
			}
		}
		if u.refused != "" || len(l.Failed[u.dir]) > 0 {
			return
		}
		bySvc := map[string]*srv{}
		for _, t := range u.targets {
			if !c.Want(t.CaseID) && c.Only != "" && !strings.HasPrefix(c.Only, t.CaseID) {
				continue
			}
			gs := bySvc[t.Svc]
			if gs == nil {
				var err error
				gs, err = serveGo(ch, []string{t.Svc}, "none", false)
				if err != nil {
					c.R.Violate(t.CaseID, "server-start", err.Error(), map[string]any{"proto": t.Proto})
					continue
				}
				bySvc[t.Svc] = gs
			}
			inMD, outMD := msgDesc(t.Reg, t.In), msgDesc(t.Reg, t.Out)
			g := &values.Gen{R: c.Rng("c01:" + t.CaseID), Opt: values.Opt{URLSafe: true}}
			var reqs []values.LMsg
			// path-bound fields must be non-empty in every request: build from a base with them set
			base := dynamicpb.NewMessage(inMD)
			for i := 0; i < inMD.Fields().Len(); i++ {
				fd := inMD.Fields().Get(i)
				if t.PathFields[string(fd.Name())] {
					switch fd.Kind() {
					case protoreflect.StringKind:
						base.Set(fd, protoreflect.ValueOfString("pv"))
					default:
						base.Set(fd, (&values.Gen{}).Full(inMD, 0, 1).Get(fd))
					}
				}
			}
			reqs = append(reqs, values.LMsg{Class: "base", M: base}, values.LMsg{Class: "full0", M: g.Full(inMD, 0, 3)}, values.LMsg{Class: "full1", M: g.Full(inMD, 1, 3)})
			for i := 0; i < inMD.Fields().Len(); i++ {
				fd := inMD.Fields().Get(i)
				for _, lm := range g.FieldClasses(inMD, fd, base) {
					if t.PathFields[string(fd.Name())] && (lm.Class == "unset" || lm.Class == "empty") {
						continue
					}
					reqs = append(reqs, values.LMsg{Class: fmt.Sprintf("#%d:%s", fd.Number(), lm.Class), M: lm.M})
				}
			}
			resps := (&values.Gen{R: c.Rng("c01r:" + t.CaseID)}).All(outMD)
			if !c.Thorough() {
				reqs = thin(reqs, 3, int(c.Seed))
				resps = thin(resps, 4, int(c.Seed))
			}
			n := 0
			for _, ct := range contentTypes {
				for ri, rq := range reqs {
					if ct.Label != "json" && ri%3 != 0 && !c.Thorough() {
						continue
					}
					rs := resps[n%len(resps)]
					n++
					caseID := t.CaseID + "/" + ct.Label + "@" + rq.Class + "|" + rs.Class
					if !c.Want(caseID) {
						continue
					}
					if !deliver(c, ch, gs, t, caseID, rq.M, rs.M, ct.CT, nil) {
						return
					}
					sampleOnce.Do(func() {
						c.R.Sample(map[string]any{"case": caseID, "rpc": t.Svc + "." + t.Method, "request": fmt.Sprint(rq.M), "response": fmt.Sprint(rs.M), "content_type": ct.CT})
					})
				}
			}
		}
		// (d) the same server behind a front door that answers 307 / 308 (moved API, http->https hop, load
		// balancer): the client has to repeat verb and body at the new location; one call per route,
		// content type and status
		for _, t := range u.targets {
			if !strings.HasPrefix(t.CaseID, "deliver/route/base=abs/") && !(c.Thorough() && strings.HasPrefix(t.CaseID, "deliver/route/")) {
				continue
			}
			gs := bySvc[t.Svc]
			if gs == nil {
				continue
			}
			inMD, outMD := msgDesc(t.Reg, t.In), msgDesc(t.Reg, t.Out)
			g := &values.Gen{R: c.Rng("c01fd:" + t.CaseID), Opt: values.Opt{URLSafe: true}}
			for _, status := range []int{307, 308} {
				_, ev, err := ch.Do(map[string]any{"op": "frontdoor", "id": newID("fd"), "url": gs.URL, "num": status}, 30*time.Second, "frontdoor")
				if err != nil || ev.Str("url") == "" {
					c.R.Inconclusive(t.CaseID+"/frontdoor", "front door did not start")
					continue
				}
				front := *gs
				front.URL = ev.Str("url")
				for _, ct := range contentTypes {
					if ct.Label == "octet-stream" {
						continue
					}
					caseID := fmt.Sprintf("%s/frontdoor=%d/%s@full", t.CaseID, status, ct.Label)
					if !c.Want(caseID) {
						continue
					}
					if !deliver(c, ch, &front, t, caseID, g.Full(inMD, 0, 2), g.Full(outMD, 1, 2), ct.CT, nil) {
						return
					}
					c.R.Count("calls_through_redirecting_front_door", 1)
				}
			}
		}
		for _, gs := range bySvc {
			gs.Stop()
		}
	})
	for _, pn := range p.Panics {
		c.R.Harness("driver panic in work item: " + firstLines(pn, 12))
	}
	nr, reps := lab.RaceReports(c.Scratch + "/race-c01")
	c.R.Count("race_reports", nr)
	for _, r := range reps {
		c.R.Violate("deliver/race", "race", firstLines(r, 3), map[string]any{"report": r})
	}
}

// thin keeps the first 3 values, every value whose class is a boundary that emitted codecs
// treat specially (unset / empty / set-but-empty / extremes), and every k-th of the rest (seed offset).
func thin(in []values.LMsg, k, seed int) []values.LMsg {
	var out []values.LMsg
	for i, v := range in {
		if i < 3 || priorityClass(v.Class) || (i+seed)%k == 0 {
			out = append(out, v)
		}
	}
	return out
}

func priorityClass(c string) bool {
	if strings.HasPrefix(c, "combo") || strings.HasPrefix(c, "pair") || strings.HasSuffix(c, ":msg-partial-first") || strings.HasSuffix(c, ":msg-partial-last") || strings.HasSuffix(c, ":long") {
		return true // field-combination values are few and identical on every run
	}
	for _, suf := range []string{":unset", ":msg-empty", ":msg-unset", ":empty", ":list-empty", ":map-empty", ":max", ":min", ":gt2p53", ":zero", ":enum-zero", ":ts-pre-epoch", ":ts-nanos", ":false", ":all-bytes", ":nonascii-bmp", ":map-msgs-same-shape"} {
		if strings.HasSuffix(c, suf) {
			return true
		}
	}
	return false
}
