package checks

import (
	"errors"
	"bufio"
	"bytes"
	"context"
	"fmt"
	"io"
	"net"
	"net/http"
	"net/url"
	"strings"
	"time"

	"verif/internal/lab"
)

// srv is a server hosted in a child (Go lab or node bridge).
type srv struct {
	ch  *lab.Child
	ID  string
	URL string
	Ev  lab.Event // the serving event (node: carries routes)
	// Pending holds events that arrived while waiting for a script acknowledgement (normally none)
	Pending []lab.Event
}

func serveGo(ch *lab.Child, svcs []string, hook string, mock bool) (*srv, error) {
	id := newID("s")
	_, ev, err := ch.Do(map[string]any{"op": "serve", "id": id, "svcs": svcs, "hook": hook, "mock": mock}, 30*time.Second, "serving")
	if err != nil {
		return nil, err
	}
	if ev.Str("ev") != "serving" {
		return nil, fmt.Errorf("serve failed: %v %v", ev["err"], ev["value"])
	}
	return &srv{ch: ch, ID: id, URL: ev.Str("url"), Ev: ev}, nil
}

// serveGoHooks registers the services in order, each with its own hook kind, on one mux of one process.
func serveGoHooks(ch *lab.Child, svcs, hooks []string) (*srv, error) {
	id := newID("s")
	_, ev, err := ch.Do(map[string]any{"op": "serve", "id": id, "svcs": svcs, "hook": "none", "hooks": hooks, "mock": false}, 30*time.Second, "serving")
	if err != nil {
		return nil, err
	}
	if ev.Str("ev") != "serving" {
		return nil, fmt.Errorf("serve failed: %v %v", ev["err"], ev["value"])
	}
	return &srv{ch: ch, ID: id, URL: ev.Str("url"), Ev: ev}, nil
}

func serveTS(ch *lab.Child, file, factory string, extra map[string]any) (*srv, error) {
	id := newID("t")
	cmd := map[string]any{"op": "serve", "id": id, "file": file, "factory": factory}
	for k, v := range extra {
		cmd[k] = v
	}
	_, ev, err := ch.Do(cmd, 30*time.Second, "serving")
	if err != nil {
		return nil, err
	}
	if ev.Str("ev") != "serving" {
		return nil, fmt.Errorf("ts serve failed: %v %v", ev["err"], ev["value"])
	}
	return &srv{ch: ch, ID: id, URL: ev.Str("url"), Ev: ev}, nil
}

// Script installs the handler script and waits until the child's command loop has applied it
// (requests sent by the driver over TCP are not ordered with the command pipe otherwise).
func (s *srv) Script(rpc string, sc map[string]any) {
	_ = s.ch.Send(map[string]any{"op": "script", "srv": s.ID, "rpc": rpc, "script": sc})
	id := newID("y")
	evs, _, _ := s.ch.Do(map[string]any{"op": "sync", "id": id}, 30*time.Second, "synced")
	s.Pending = append(s.Pending, evs...)
}

func (s *srv) Stop() {
	id := newID("x")
	_, _, _ = s.ch.Do(map[string]any{"op": "stop", "id": id, "srv": s.ID}, 10*time.Second, "stopped")
}

// Sync flushes and returns the events emitted since the last command boundary.
func syncEvents(ch *lab.Child) ([]lab.Event, error) {
	id := newID("y")
	evs, _, err := ch.Do(map[string]any{"op": "sync", "id": id}, 30*time.Second, "synced")
	return evs, err
}

// callOut is the outcome of one call through a generated client.
type callOut struct {
	Events []lab.Event // events observed between command and return (handler, wire, panic…)
	Ret    lab.Event
}

func (c *callOut) byKind(k string) []lab.Event {
	var out []lab.Event
	for _, e := range c.Events {
		if e.Str("ev") == k {
			out = append(out, e)
		}
	}
	return out
}

// callGo performs one call through a generated Go client inside the lab child.
func callGo(ch *lab.Child, client, url, rpc, reqType string, req []byte, opts map[string]any) (*callOut, error) {
	id := newID("c")
	cmd := map[string]any{"op": "call", "id": id, "client": client, "url": url, "rpc": rpc, "req_type": reqType, "req": b64(req)}
	for k, v := range opts {
		cmd[k] = v
	}
	evs, ret, err := ch.Do(cmd, 60*time.Second, "client_return")
	if err != nil {
		return &callOut{Events: evs}, err
	}
	if ret.Str("ev") != "client_return" {
		return &callOut{Events: evs, Ret: ret}, fmt.Errorf("call failed: %v %v", ret["err"], ret["value"])
	}
	return &callOut{Events: evs, Ret: ret}, nil
}

// callTS performs one call through a generated TS client on node.
func callTS(node *lab.Child, file, cls, url, method string, req any, extra map[string]any) (lab.Event, error) {
	ret, _, err := callTSEv(node, file, cls, url, method, req, extra)
	return ret, err
}

// callTSEv also returns the events emitted by the same node process during the call
// (handler/wire events of a TS server hosted in that process).
func callTSEv(node *lab.Child, file, cls, url, method string, req any, extra map[string]any) (lab.Event, []lab.Event, error) {
	id := newID("n")
	cmd := map[string]any{"op": "call", "id": id, "file": file, "cls": cls, "url": url, "method": method, "req": req}
	for k, v := range extra {
		cmd[k] = v
	}
	evs, ret, err := node.Do(cmd, 60*time.Second, "client_return")
	if err != nil {
		return nil, evs, err
	}
	if ret.Str("ev") != "client_return" {
		return ret, evs, fmt.Errorf("ts call failed: %v", ret["err"])
	}
	return ret, evs, nil
}

// rawResp is a driver-side HTTP response.
type rawResp struct {
	Status int
	Header http.Header
	Body   []byte
}

var rawClient = &http.Client{
	Timeout: 30 * time.Second,
	Transport: &http.Transport{
		DialContext:         (&net.Dialer{Timeout: 5 * time.Second}).DialContext,
		MaxIdleConnsPerHost: 32,
		DisableCompression:  true,
	},
}

// rawHTTP sends a request from the driver. target is the raw request URI (path?query),
// passed through unmodified.
func rawHTTP(method, base, target string, headers [][2]string, body []byte) (*rawResp, error) {
	return rawHTTPx(method, base, target, headers, body, false)
}

// rawHTTPChunked sends the body without a Content-Length (Transfer-Encoding: chunked).
func rawHTTPChunked(method, base, target string, headers [][2]string, body []byte) (*rawResp, error) {
	return rawHTTPx(method, base, target, headers, body, true)
}

func rawHTTPx(method, base, target string, headers [][2]string, body []byte, chunked bool) (*rawResp, error) {
	ctx, cancel := context.WithTimeout(context.Background(), 30*time.Second)
	defer cancel()
	var rd io.Reader
	if body != nil {
		rd = bytes.NewReader(body)
		if chunked {
			// a reader of unknown length makes net/http send Transfer-Encoding: chunked
			rd = io.MultiReader(bytes.NewReader(body), strings.NewReader(""))
		}
	}
	req, err := http.NewRequestWithContext(ctx, method, base+"/", rd)
	if err != nil {
		return nil, err
	}
	// keep the target exactly as given
	path, query, _ := strings.Cut(target, "?")
	req.URL.Opaque = ""
	req.URL.Path = path
	req.URL.RawPath = path
	if up, err := pathUnescape(path); err == nil {
		req.URL.Path = up
	}
	req.URL.RawQuery = query
	if strings.Contains(target, "?") && query == "" {
		req.URL.ForceQuery = true
	}
	for _, kv := range headers {
		if strings.EqualFold(kv[0], "host") {
			req.Host = kv[1]
			continue
		}
		req.Header[kv[0]] = append(req.Header[kv[0]], kv[1])
	}
	resp, err := rawClient.Do(req)
	if err != nil {
		return nil, err
	}
	defer resp.Body.Close()
	b, _ := io.ReadAll(io.LimitReader(resp.Body, 16<<20))
	return &rawResp{Status: resp.StatusCode, Header: resp.Header, Body: b}, nil
}

// rawHTTPShort writes the request by hand over TCP: it declares Content-Length: len(body)+extra, sends only
// body and then closes its sending side (a peer that dies or a proxy that cuts the upload). The server's
// answer, if any, is returned; (nil, nil) means the server closed the connection without answering.
func rawHTTPShort(method, base, target string, headers [][2]string, body []byte, extra int) (*rawResp, error) {
	u, err := url.Parse(base)
	if err != nil {
		return nil, err
	}
	conn, err := net.DialTimeout("tcp", u.Host, 10*time.Second)
	if err != nil {
		return nil, err
	}
	defer conn.Close()
	_ = conn.SetDeadline(time.Now().Add(30 * time.Second))
	var b bytes.Buffer
	fmt.Fprintf(&b, "%s %s HTTP/1.1\r\nHost: %s\r\nConnection: close\r\nContent-Length: %d\r\n", method, target, u.Host, len(body)+extra)
	for _, kv := range headers {
		fmt.Fprintf(&b, "%s: %s\r\n", kv[0], kv[1])
	}
	b.WriteString("\r\n")
	b.Write(body)
	if _, err := conn.Write(b.Bytes()); err != nil {
		return nil, err
	}
	if tc, ok := conn.(*net.TCPConn); ok {
		_ = tc.CloseWrite()
	}
	resp, err := http.ReadResponse(bufio.NewReader(conn), nil)
	if err != nil {
		if errors.Is(err, io.EOF) || errors.Is(err, io.ErrUnexpectedEOF) || strings.Contains(err.Error(), "reset") {
			return nil, nil
		}
		return nil, err
	}
	defer resp.Body.Close()
	rb, _ := io.ReadAll(io.LimitReader(resp.Body, 16<<20))
	return &rawResp{Status: resp.StatusCode, Header: resp.Header, Body: rb}, nil
}

// rawHTTPChunkedWire writes the request itself over a TCP connection with Transfer-Encoding: chunked (also for
// an EMPTY body, which net/http's client would turn into Content-Length: 0): the body goes out as one chunk
// (if any) followed by the terminating chunk.
func rawHTTPChunkedWire(method, base, target string, headers [][2]string, body []byte) (*rawResp, error) {
	u, err := url.Parse(base)
	if err != nil {
		return nil, err
	}
	conn, err := net.DialTimeout("tcp", u.Host, 10*time.Second)
	if err != nil {
		return nil, err
	}
	defer conn.Close()
	_ = conn.SetDeadline(time.Now().Add(30 * time.Second))
	var b bytes.Buffer
	fmt.Fprintf(&b, "%s %s HTTP/1.1\r\nHost: %s\r\nConnection: close\r\nTransfer-Encoding: chunked\r\n", method, target, u.Host)
	for _, kv := range headers {
		fmt.Fprintf(&b, "%s: %s\r\n", kv[0], kv[1])
	}
	b.WriteString("\r\n")
	if len(body) > 0 {
		fmt.Fprintf(&b, "%x\r\n", len(body))
		b.Write(body)
		b.WriteString("\r\n")
	}
	b.WriteString("0\r\n\r\n")
	if _, err := conn.Write(b.Bytes()); err != nil {
		return nil, err
	}
	resp, err := http.ReadResponse(bufio.NewReader(conn), nil)
	if err != nil {
		return nil, err
	}
	defer resp.Body.Close()
	rb, _ := io.ReadAll(io.LimitReader(resp.Body, 16<<20))
	return &rawResp{Status: resp.StatusCode, Header: resp.Header, Body: rb}, nil
}

func pathUnescape(p string) (string, error) { return url.PathUnescape(p) }

// transportFailure decides what a failed raw request means: if the lab child reports that the
// generated handler chain panicked while serving it (net/http then drops the connection), the
// request was neither dispatched nor answered, which is a verdict; otherwise nothing was observed.
func transportFailure(c *Ctx, child *lab.Child, pre []lab.Event, caseID string, err error, rp map[string]any) {
	evs := pre
	if pre == nil && child != nil {
		evs, _ = syncEvents(child)
	}
	for _, e := range evs {
		if e.Str("ev") == "panic" && e.Str("where") == "server" {
			m := map[string]any{"transport_error": err.Error(), "panic": e.Str("value"), "stack": e.Str("stack"), "method": e.Str("method"), "uri": e.Str("uri"), "request_body": string(unb64(e.Str("body")))}
			for k, v := range rp {
				m[k] = v
			}
			c.R.Violate(caseID, "server-panic", e.Str("value"), m)
			c.R.Decided(caseID)
			return
		}
	}
	c.R.Inconclusive(caseID, "http:"+err.Error())
}
