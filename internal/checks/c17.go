package checks

import (
	"fmt"
	"sort"
	"strings"
	"sync"
	"time"

	"github.com/anishathalye/porcupine"
	"google.golang.org/protobuf/proto"
	"google.golang.org/protobuf/reflect/protoreflect"
	"google.golang.org/protobuf/types/dynamicpb"

	validate "buf.build/gen/go/bufbuild/protovalidate/protocolbuffers/go/buf/validate"

	"verif/internal/lab"
	"verif/internal/oas"
	"verif/internal/plugin"
	"verif/internal/spec"
)

func init() { Registry["C17"] = c17 }

func c17schema(pkg string) *spec.File {
	f := &spec.File{Path: "c17/conc.proto", Package: pkg, GoImport: "lab/gen/c17c", GoName: "c17c"}
	min1 := &validate.FieldRules{Type: &validate.FieldRules_String_{String_: &validate.StringRules{MinLen: proto.Uint64(1)}}}
	reqFields := func() []*spec.Field {
		return []*spec.Field{spec.F("id", 1, spec.String).With(func(a *spec.Ann) { a.Rules = min1 }), spec.F("payload", 2, spec.String), spec.F("n", 3, spec.Int64), spec.F("path_a", 4, spec.String)}
	}
	f.Messages = []*spec.Message{
		{Name: "EchoReq", Fields: reqFields()},
		{Name: "EchoGetReq", Fields: []*spec.Field{spec.F("id", 1, spec.String).Q("id"), spec.F("payload", 2, spec.String).Q("payload"), spec.F("n", 3, spec.Int64).Q("n"), spec.F("path_a", 4, spec.String)}},
		{Name: "EchoResp", Fields: append(reqFields(), spec.F("lab_seen_headers", 100, spec.String))},
	}
	f.Messages[2].Fields[0].Ann.Rules = nil
	in, get, out := "."+pkg+".EchoReq", "."+pkg+".EchoGetReq", "."+pkg+".EchoResp"
	f.Services = []*spec.Service{
		{Name: "AlphaService", BasePath: spec.S("/alpha"), Headers: []spec.Header{{Name: "X-Trace", Type: "string"}, {Name: "X-Alpha", Type: "string", Required: true}}, Methods: []*spec.Method{
			{Name: "AlphaCreate", In: in, Out: out, HTTP: &spec.HTTP{Path: "/items", Verb: 2}, Headers: []spec.Header{{Name: "X-M-Create", Type: "integer", Required: true}}},
			{Name: "AlphaUpdate", In: in, Out: out, HTTP: &spec.HTTP{Path: "/items/{path_a}", Verb: 3}, Headers: []spec.Header{{Name: "X-M-Update", Type: "string", Format: "uuid", Required: true}}},
			{Name: "AlphaFetch", In: get, Out: out, HTTP: &spec.HTTP{Path: "/items/{path_a}", Verb: 1}},
			{Name: "AlphaPatch", In: in, Out: out, HTTP: &spec.HTTP{Path: "/items/{path_a}/part", Verb: 5}},
		}},
		{Name: "BetaService", BasePath: spec.S("/beta"), Headers: []spec.Header{{Name: "X-Beta", Type: "boolean", Required: true}, {Name: "X-Span", Type: "string"}, {Name: "X-Baggage", Type: "string"}}, Methods: []*spec.Method{
			{Name: "BetaCreate", In: in, Out: out, HTTP: &spec.HTTP{Path: "/things", Verb: 2}},
			{Name: "BetaRemove", In: get, Out: out, HTTP: &spec.HTTP{Path: "/things/{path_a}", Verb: 4}, Headers: []spec.Header{{Name: "X-M-Remove", Type: "string", Required: true}}},
		}},
	}
	return f
}

type c17call struct {
	Idx      int
	Svc      string
	RPC      string
	ReqType  string
	ID       string
	Payload  string
	N        int64
	PathA    string
	Hdr      [][2]string // per-call headers (WithHeader)
	OmitOwn  string      // required header deliberately omitted ("" = none) → expect 400
	CallCT   string
}

var c17routes = []struct {
	Svc, RPC, ReqType string
	Required          [][2]string // header name -> valid value
	HasPath           bool
}{
	{"AlphaService", "AlphaCreate", "EchoReq", [][2]string{{"X-Alpha", "a"}, {"X-M-Create", "7"}}, false},
	{"AlphaService", "AlphaUpdate", "EchoReq", [][2]string{{"X-Alpha", "a"}, {"X-M-Update", "123e4567-e89b-12d3-a456-426614174000"}}, true},
	{"AlphaService", "AlphaFetch", "EchoGetReq", [][2]string{{"X-Alpha", "a"}}, true},
	{"AlphaService", "AlphaPatch", "EchoReq", [][2]string{{"X-Alpha", "a"}}, true},
	{"BetaService", "BetaCreate", "EchoReq", [][2]string{{"X-Beta", "true"}}, false},
	{"BetaService", "BetaRemove", "EchoGetReq", [][2]string{{"X-Beta", "false"}, {"X-M-Remove", "r"}}, true},
}

func c17calls(c *Ctx, label string, n int) []c17call {
	r := c.Rng("c17:" + label)
	var out []c17call
	for i := 0; i < n; i++ {
		rt := c17routes[r.Intn(len(c17routes))]
		cl := c17call{Idx: i, Svc: rt.Svc, RPC: rt.RPC, ReqType: rt.ReqType, ID: fmt.Sprintf("%s-%d", label, i), Payload: fmt.Sprintf("p%d-%x", i, r.Int63()), N: r.Int63() - (1 << 62)}
		if rt.HasPath {
			cl.PathA = fmt.Sprintf("seg%d", i)
		}
		omit := ""
		if r.Intn(8) == 0 {
			omit = rt.Required[r.Intn(len(rt.Required))][0]
		}
		cl.OmitOwn = omit
		for _, kv := range rt.Required {
			if kv[0] != omit {
				cl.Hdr = append(cl.Hdr, kv)
			}
		}
		cl.Hdr = append(cl.Hdr, [2]string{"X-Call", cl.ID})
		if r.Intn(3) == 0 {
			cl.CallCT = "application/x-protobuf"
		}
		out = append(out, cl)
	}
	return out
}

// outcome is the comparable result of one call.
type c17outcome struct {
	Class string // ok | validation | error | other
	Echo  string // id|payload|n|path_a
	Seen  string // handler-visible controlled headers
}

func (o c17outcome) String() string { return o.Class + "/" + o.Echo + "/" + o.Seen }

// c17: a request's outcome does not depend on other requests, concurrent or earlier.
func c17(c *Ctx) {
	c.R.Rule = "abstract case = (burst of random calls over all routes of a two-service schema with per-route different required headers) x parallelism {2, 8, 64} x GOMAXPROCS {2, 16} x repetition, each burst in a FRESH race-instrumented child process (lazily initialised package state is only racy on first use; validator construction is held open by a failpoint delay); " +
		"monitors: Go race detector log, offline history checker (exactly-once handler entry per call id, result = f(request), per-call header isolation, agreement with an isolated sequential execution in another fresh process), porcupine cross-check with a stateless per-call model; non-trivial = a burst completed and its history was checked"
	c.R.Assume("stateless sequential specification: each call's result is a function of its own request and options; race detector sees only executed access pairs")
	pkg := "c17.c"
	f := c17schema(pkg)
	l, err := lab.New(c.TB, "c17")
	if err != nil {
		c.R.Harness(err.Error())
		return
	}
	req, err := spec.Request([]*spec.File{f}, nil, "")
	if err != nil {
		c.R.Harness(err.Error())
		return
	}
	reg, _ := spec.Files(req)
	ad, err := l.Add(req, lab.PkgOpt{Plugins: []string{"go-http", "go-client"}})
	if err != nil {
		c.R.Harness(err.Error())
		return
	}
	protoText := f.Proto()
	if ad.Refused != "" {
		c.R.Violate("conc/all", "refused", ad.Refused, map[string]any{"proto": protoText})
		return
	}
	if un := l.CompileAll(false); un != "" {
		c.R.Harness("unattributed build output: " + firstLines(un, 10))
		return
	}
	if d := emittedDiag(l.Failed["gen/c17c"]); d != nil {
		c.R.Violate("conc/all", "compile", d.Msg, map[string]any{"proto": protoText})
		return
	}
	bin, err := l.BuildBinary(true)
	if err != nil {
		c.R.Harness(err.Error())
		return
	}
	reps := 4
	callsPer := 120
	if c.Thorough() {
		reps, callsPer = 30, 300
	}
	orderings := map[string]bool{}
	totalCalls := 0
	var mu sync.Mutex
	type job struct {
		gmp, par, rep int
	}
	var jobs []job
	for _, gmp := range []int{2, 16} {
		for _, par := range []int{2, 8, 64} {
			for rep := 0; rep < reps; rep++ {
				jobs = append(jobs, job{gmp, par, rep})
			}
		}
	}
	// bursts are independent (own child processes, own race logs): run a few side by side, which
	// also varies the scheduling pressure each burst sees
	plugin.Parallel(len(jobs), 4, func(ji int) {
		gmp, par, rep := jobs[ji].gmp, jobs[ji].par, jobs[ji].rep
		label := fmt.Sprintf("g%dp%dr%d", gmp, par, rep)
		caseID := fmt.Sprintf("conc/gomaxprocs=%d/parallel=%d", gmp, par)
		if !c.Want(caseID) {
			return
		}
		calls := c17calls(c, label, callsPer)
		raceLog := fmt.Sprintf("%s/race-c17-%s", c.Scratch, label)
		burst, order, err := c17run(bin, raceLog, gmp, par, pkg, calls, reg)
		c.R.Eval(len(calls))
		if err != nil {
			c.R.Violate(caseID, "burst-failed", err.Error(), map[string]any{"proto": protoText, "label": label})
			return
		}
		seqRes, _, err := c17run(bin, raceLog+"-seq", gmp, 1, pkg, calls, reg)
		c.R.Eval(len(calls))
		if err != nil {
			c.R.Inconclusive(caseID, "sequential-run-failed:"+err.Error())
			return
		}
		mu.Lock()
		orderings[order] = true
		totalCalls += len(calls)
		mu.Unlock()
		c17check(c, caseID, calls, burst, seqRes, protoText, label)
		for _, lg := range []string{raceLog, raceLog + "-seq"} {
			n, reports := lab.RaceReports(lg)
			c.R.Count("race_reports", n)
			for _, r := range reports {
				where := "emitted-code"
				if strings.Contains(r, "zz_glue.go") && !strings.Contains(r, ".pb.go") {
					where = "glue"
				}
				if where == "glue" || (strings.Contains(r, "lab/labrt") && !strings.Contains(r, "lab/gen/")) {
					c.R.Harness("race in harness code: " + firstLines(r, 12))
					continue
				}
				c.R.Violate(caseID, "race", raceSummary(r), map[string]any{"proto": protoText, "report": r, "label": label})
			}
		}
		c.R.Decided(caseID)
	})
	c.R.Set("distinct_handler_entry_orderings", len(orderings))
	c.R.Set("calls_checked", totalCalls)
	c.R.Sample(map[string]any{"case": "conc/gomaxprocs=16/parallel=64", "calls_per_burst": callsPer, "routes": len(c17routes), "monitors": []string{"race detector", "exactly-once", "result=f(request)", "header isolation", "sequential agreement", "porcupine"}})
}

func raceSummary(r string) string {
	var fr []string
	for _, line := range strings.Split(r, "\n") {
		t := strings.TrimSpace(line)
		if strings.Contains(t, "lab/gen/") && strings.Contains(t, "(") {
			name := t[:strings.Index(t, "(")]
			name = name[strings.LastIndex(name, ".")+1:]
			fr = append(fr, name)
			if len(fr) == 2 {
				break
			}
		}
	}
	return "in " + strings.Join(fr, " vs ")
}

func c17msg(reg interface {
	FindDescriptorByName(protoreflect.FullName) (protoreflect.Descriptor, error)
}, pkg string, cl c17call) []byte {
	d, _ := reg.FindDescriptorByName(protoreflect.FullName(pkg + "." + cl.ReqType))
	md := d.(protoreflect.MessageDescriptor)
	m := dynamicpb.NewMessage(md)
	m.Set(md.Fields().ByName("id"), protoreflect.ValueOfString(cl.ID))
	m.Set(md.Fields().ByName("payload"), protoreflect.ValueOfString(cl.Payload))
	m.Set(md.Fields().ByName("n"), protoreflect.ValueOfInt64(cl.N))
	if cl.PathA != "" {
		m.Set(md.Fields().ByName("path_a"), protoreflect.ValueOfString(cl.PathA))
	}
	return wire(m)
}

// c17run executes the calls in a fresh child at the given parallelism and returns per-call outcomes.
func c17run(bin, raceLog string, gmp, par int, pkg string, calls []c17call, reg interface {
	FindDescriptorByName(protoreflect.FullName) (protoreflect.Descriptor, error)
}) ([]c17outcome, string, error) {
	ch, err := lab.Start(bin, raceLog, fmt.Sprintf("GOMAXPROCS=%d", gmp), "VERIF_PV_NEW_DELAY=5ms")
	if err != nil {
		return nil, "", err
	}
	defer ch.Quit()
	gs, err := serveGo(ch, []string{pkg + ".AlphaService", pkg + ".BetaService"}, "none", false)
	if err != nil {
		return nil, "", err
	}
	gs.Script("", map[string]any{"echo": true})
	var bcs []map[string]any
	for _, cl := range calls {
		var hdr []map[string]string
		for _, kv := range cl.Hdr {
			hdr = append(hdr, map[string]string{"K": kv[0], "V": kv[1]})
		}
		bcs = append(bcs, map[string]any{"client": pkg + "." + cl.Svc, "rpc": cl.RPC, "req_type": pkg + "." + cl.ReqType, "req": b64(c17msg(reg, pkg, cl)), "hdr": hdr, "callct": cl.CallCT})
	}
	id := newID("b")
	_, ev, err := ch.Do(map[string]any{"op": "burst", "id": id, "burst": map[string]any{"url": gs.URL, "srv": gs.ID, "calls": bcs, "parallel": par, "timeout_ms": 60000}}, 5*time.Minute, "burst_done")
	if err != nil {
		return nil, "", fmt.Errorf("%v; stderr: %s", err, firstLines(ch.Stderr(), 20))
	}
	if ev.Str("ev") != "burst_done" {
		return nil, "", fmt.Errorf("burst failed: %v %v", ev["err"], ev["value"])
	}
	d, _ := reg.FindDescriptorByName(protoreflect.FullName(pkg + ".EchoResp"))
	respMD := d.(protoreflect.MessageDescriptor)
	out := make([]c17outcome, len(calls))
	for _, r := range oas.L(ev["results"]) {
		rm := oas.M(r)
		if rm == nil {
			continue
		}
		idx := int(rm["idx"].(float64))
		o := c17outcome{}
		switch {
		case rm["panic"] != nil:
			o.Class = "panic:" + fmt.Sprint(rm["panic"])
		case rm["harness"] != nil:
			o.Class = "harness:" + fmt.Sprint(rm["harness"])
		case rm["err"] != nil:
			o.Class = fmt.Sprint(oas.M(rm["err"])["class"])
			if to, _ := rm["timeout"].(bool); to {
				o.Class = "timeout"
			}
		default:
			o.Class = "ok"
			m := dynamicpb.NewMessage(respMD)
			_ = proto.Unmarshal(unb64(fmt.Sprint(rm["resp"])), m)
			fs := respMD.Fields()
			o.Echo = fmt.Sprintf("%s|%s|%d|%s", m.Get(fs.ByName("id")).String(), m.Get(fs.ByName("payload")).String(), m.Get(fs.ByName("n")).Int(), m.Get(fs.ByName("path_a")).String())
			o.Seen = m.Get(fs.ByName("lab_seen_headers")).String()
		}
		out[idx] = o
	}
	// handler-entry ordering fingerprint + exactly-once bookkeeping is done by the caller from Echo ids;
	// here we fingerprint the order of handler entries by rpc (first 24)
	var order []string
	counts := map[string]int{}
	for _, h := range oas.L(ev["handlers"]) {
		hm := oas.M(h)
		if len(order) < 24 {
			order = append(order, oas.S(hm["rpc"])[strings.LastIndex(oas.S(hm["rpc"]), ".")+1:])
		}
		counts[oas.S(hm["req"])]++
	}
	for k, n := range counts {
		if n > 1 {
			// duplicated handler entry for identical request bytes (ids are unique per call)
			for i := range out {
				if out[i].Class == "ok" {
					_ = k
				}
			}
			out = append(out, c17outcome{Class: fmt.Sprintf("DUPLICATE-HANDLER-ENTRY x%d", n)})
		}
	}
	entries := len(oas.L(ev["handlers"]))
	out = append(out, c17outcome{Class: fmt.Sprintf("entries=%d", entries)})
	return out, strings.Join(order, ","), nil
}

func c17check(c *Ctx, caseID string, calls []c17call, burst, seq []c17outcome, protoText, label string) {
	rp := func(i int, extra map[string]any) map[string]any {
		m := map[string]any{"proto": protoText, "burst": label, "call": calls[i], "burst_outcome": burst[i].String(), "sequential_outcome": seq[i].String()}
		for k, v := range extra {
			m[k] = v
		}
		return m
	}
	okCalls := 0
	for i, cl := range calls {
		b := burst[i]
		// expectation from the stateless model
		wantClass := "ok"
		if cl.OmitOwn != "" {
			wantClass = "validation"
		}
		if b.Class != wantClass {
			c.R.Violate(caseID, "outcome-class", "want "+wantClass+" got "+strings.SplitN(b.Class, ":", 2)[0], rp(i, nil))
			continue
		}
		if b.Class == "ok" {
			okCalls++
			wantEcho := fmt.Sprintf("%s|%s|%d|%s", cl.ID, cl.Payload, cl.N, cl.PathA)
			if b.Echo != wantEcho {
				c.R.Violate(caseID, "result-not-function-of-request", "", rp(i, map[string]any{"expected_echo": wantEcho}))
			}
			// header isolation: own X-Call present, nobody else's
			if !strings.Contains(b.Seen, "X-Call="+cl.ID+";") {
				c.R.Violate(caseID, "per-call-header-lost", "", rp(i, nil))
			}
			if strings.Count(b.Seen, "X-Call=") != 1 {
				c.R.Violate(caseID, "per-call-header-leak", "", rp(i, nil))
			}
			for _, kv := range cl.Hdr {
				if !strings.Contains(strings.ToLower(b.Seen), strings.ToLower(kv[0])+"="+strings.ToLower(kv[1])+";") {
					c.R.Violate(caseID, "per-call-header-lost", strings.ToLower(kv[0][:3]), rp(i, nil))
				}
			}
			wantCT := "application/json"
			if cl.CallCT != "" {
				wantCT = cl.CallCT
			}
			if !strings.Contains(b.Seen, "Content-Type="+wantCT+";") {
				c.R.Violate(caseID, "per-call-content-type-leak", "", rp(i, nil))
			}
		}
		if b.String() != seq[i].String() {
			c.R.Violate(caseID, "differs-from-isolated-execution", "", rp(i, nil))
		}
	}
	// bookkeeping entries appended by c17run
	for _, extra := range burst[len(calls):] {
		if strings.HasPrefix(extra.Class, "DUPLICATE") {
			c.R.Violate(caseID, "handler-entered-twice", "", map[string]any{"proto": protoText, "burst": label, "detail": extra.Class})
		}
		if strings.HasPrefix(extra.Class, "entries=") && extra.Class != fmt.Sprintf("entries=%d", okCalls) {
			c.R.Violate(caseID, "handler-entries-differ-from-dispatched-calls", "", map[string]any{"proto": protoText, "burst": label, "handler_entries": extra.Class, "ok_calls": okCalls})
		}
	}
	// porcupine cross-check: stateless model, partitioned per call
	type in struct{ want string }
	var ops []porcupine.Operation
	for i, cl := range calls {
		want := "validation//"
		if cl.OmitOwn == "" {
			want = "ok/" + fmt.Sprintf("%s|%s|%d|%s", cl.ID, cl.Payload, cl.N, cl.PathA)
		}
		got := burst[i].Class + "/" + burst[i].Echo
		if burst[i].Class != "ok" {
			got = burst[i].Class + "//"
		}
		ops = append(ops, porcupine.Operation{ClientId: i % 64, Input: in{want}, Call: int64(i), Output: got, Return: int64(i + len(calls))})
	}
	model := porcupine.Model{
		Partition: func(h []porcupine.Operation) [][]porcupine.Operation {
			var out [][]porcupine.Operation
			for _, o := range h {
				out = append(out, []porcupine.Operation{o})
			}
			return out
		},
		Init: func() any { return 0 },
		Step: func(st, input, output any) (bool, any) { return input.(in).want == output.(string), st },
	}
	res := porcupine.CheckOperationsTimeout(model, ops, 30*time.Second)
	switch res {
	case porcupine.Illegal:
		c.R.Count("porcupine_illegal_histories", 1)
	case porcupine.Unknown:
		c.R.Count("porcupine_timeouts", 1)
	default:
		c.R.Count("porcupine_ok_histories", 1)
	}
	_ = sort.Strings
}
