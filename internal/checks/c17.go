package checks

import (
	"fmt"
	"net/url"
	"sort"
	"strings"
	"sync"
	"time"

	"github.com/anishathalye/porcupine"
	"google.golang.org/protobuf/encoding/protojson"
	"google.golang.org/protobuf/proto"
	"google.golang.org/protobuf/reflect/protoreflect"
	"google.golang.org/protobuf/types/dynamicpb"

	validate "buf.build/gen/go/bufbuild/protovalidate/protocolbuffers/go/buf/validate"

	"verif/internal/lab"
	"verif/internal/oas"
	"verif/internal/plugin"
	"verif/internal/spec"
)

func init() { Registry["C17"] = c17 }

func c17schema(pkg string) *spec.File {
	f := &spec.File{Path: "c17/conc.proto", Package: pkg, GoImport: "lab/gen/c17c", GoName: "c17c"}
	// the only rule is an upper bound on payload: an all-default message is valid on every route, and
	// a request can be rejected AFTER its fields were bound (over-long payload), not only before
	max48 := &validate.FieldRules{Type: &validate.FieldRules_String_{String_: &validate.StringRules{MaxLen: proto.Uint64(48)}}}
	reqFields := func() []*spec.Field {
		return []*spec.Field{spec.F("id", 1, spec.String), spec.F("payload", 2, spec.String).With(func(a *spec.Ann) { a.Rules = max48 }), spec.F("n", 3, spec.Int64), spec.F("path_a", 4, spec.String), spec.F("path_b", 5, spec.String)}
	}
	f.Messages = []*spec.Message{
		{Name: "EchoReq", Fields: reqFields()},
		{Name: "EchoGetReq", Fields: []*spec.Field{spec.F("id", 1, spec.String).Q("id"), spec.F("payload", 2, spec.String).Q("payload").With(func(a *spec.Ann) { a.Rules = max48 }), spec.F("n", 3, spec.Int64).Q("n"), spec.F("path_a", 4, spec.String)}},
		{Name: "EchoResp", Fields: append(reqFields(), spec.F("lab_seen_headers", 100, spec.String))},
	}
	f.Messages[2].Fields[1].Ann.Rules = nil
	in, get, out := "."+pkg+".EchoReq", "."+pkg+".EchoGetReq", "."+pkg+".EchoResp"
	f.Services = []*spec.Service{
		{Name: "AlphaService", BasePath: spec.S("/alpha"), Headers: []spec.Header{{Name: "X-Trace", Type: "string"}, {Name: "X-Alpha", Type: "string", Required: true}}, Methods: []*spec.Method{
			{Name: "AlphaCreate", In: in, Out: out, HTTP: &spec.HTTP{Path: "/items", Verb: 2}, Headers: []spec.Header{{Name: "X-M-Create", Type: "integer", Required: true}}},
			{Name: "AlphaUpdate", In: in, Out: out, HTTP: &spec.HTTP{Path: "/items/{path_a}", Verb: 3}, Headers: []spec.Header{{Name: "X-M-Update", Type: "string", Format: "uuid", Required: true}}},
			{Name: "AlphaFetch", In: get, Out: out, HTTP: &spec.HTTP{Path: "/items/{path_a}", Verb: 1}},
			// X-Kind: ONE header name declared with three different specs on three routes of the package
			// (integer here, uuid on AlphaMove, free string on BetaCreate): a verdict about a value belongs to
			// the route's own declaration
			{Name: "AlphaPatch", In: in, Out: out, HTTP: &spec.HTTP{Path: "/items/{path_a}/part", Verb: 5}, Headers: []spec.Header{{Name: "X-Kind", Type: "integer", Required: true}}},
			// the same request message under another, larger set of path variables (and the variables named in
			// another order than the message declares them)
			{Name: "AlphaMove", In: in, Out: out, HTTP: &spec.HTTP{Path: "/moves/{path_b}/from/{path_a}", Verb: 3}, Headers: []spec.Header{{Name: "x-kind", Type: "string", Format: "uuid", Required: true}}},
		}},
		{Name: "BetaService", BasePath: spec.S("/beta"), Headers: []spec.Header{{Name: "X-Beta", Type: "boolean", Required: true}, {Name: "X-Span", Type: "string"}, {Name: "X-Baggage", Type: "string"}}, Methods: []*spec.Method{
			{Name: "BetaCreate", In: in, Out: out, HTTP: &spec.HTTP{Path: "/things", Verb: 2}, Headers: []spec.Header{{Name: "X-Kind", Type: "string", Required: true}}},
			{Name: "BetaRemove", In: get, Out: out, HTTP: &spec.HTTP{Path: "/things/{path_a}", Verb: 4}, Headers: []spec.Header{{Name: "X-M-Remove", Type: "string", Required: true}}},
		}},
	}
	return f
}

type c17call struct {
	Idx     int
	Kind    string // normal | omit-header | long | default | partial | raw-bad | raw-ok
	Svc     string
	RPC     string
	ReqType string
	ID      string
	Payload string
	N       int64
	PathA   string
	PathB   string
	Hdr     [][2]string // per-call headers (WithHeader)
	OmitOwn string      // required header deliberately omitted ("" = none) → expect 400
	CallCT  string
	Extra   [][2]string    `json:"Extra,omitempty"` // options discovered in the emitted client beyond the documented ones
	Raw     map[string]any `json:"Raw,omitempty"` // hand-made HTTP request (malformed body / URL value)
	Want    string         // ok | validation | st400
}

type c17route struct {
	Svc, RPC, ReqType string
	Required          [][2]string // header name -> valid value (several candidates separated by '|': one is drawn per call)
	HasPath           bool
	Verb, Path        string // path with %s for path_a
}

var c17routes = []c17route{
	{"AlphaService", "AlphaCreate", "EchoReq", [][2]string{{"X-Alpha", "a"}, {"X-M-Create", "7"}}, false, "POST", "/alpha/items"},
	{"AlphaService", "AlphaUpdate", "EchoReq", [][2]string{{"X-Alpha", "a"}, {"X-M-Update", "123e4567-e89b-12d3-a456-426614174000"}}, true, "PUT", "/alpha/items/%s"},
	{"AlphaService", "AlphaFetch", "EchoGetReq", [][2]string{{"X-Alpha", "a"}}, true, "GET", "/alpha/items/%s"},
	{"AlphaService", "AlphaPatch", "EchoReq", [][2]string{{"X-Alpha", "a"}, {"X-Kind", "7|-12|123456"}}, true, "PATCH", "/alpha/items/%s/part"},
	{"AlphaService", "AlphaMove", "EchoReq", [][2]string{{"X-Alpha", "a"}, {"X-Kind", "123e4567-e89b-12d3-a456-426614174000"}}, true, "PUT", "/alpha/moves/%[2]s/from/%[1]s"},
	{"BetaService", "BetaCreate", "EchoReq", [][2]string{{"X-Beta", "true"}, {"X-Kind", "7|abc|123e4567-e89b-12d3-a456-426614174000|1.5"}}, false, "POST", "/beta/things"},
	{"BetaService", "BetaRemove", "EchoGetReq", [][2]string{{"X-Beta", "false"}, {"X-M-Remove", "r"}}, true, "DELETE", "/beta/things/%s"},
}

// c17kinds are the request kinds a workload mixes. Rejections happen at every stage of the
// emitted middleware (headers, URL binding, body decoding, rule validation) and accepted requests
// include ones that leave every field at its default, so state kept from an earlier request of the
// same route (a recycled message, a cached table) shows in the echo.
var c17kinds = []string{"normal", "normal", "normal", "normal", "normal", "normal", "normal", "normal", "omit-header", "omit-header", "long", "default", "default", "partial", "raw-bad", "raw-ok", "bad-header", "bad-header"}

// c17badKind: values for X-Kind that the integer and the uuid declaration reject and the free-string
// declaration of another route accepts (and is sent) in the same burst.
var c17badKind = []string{"abc", "1.5", "123e4567-e89b-12d3-a456-426614174000x"}

func c17mk(rt c17route, kind, id string, i int, rnd func() int64) c17call {
	cl := c17call{Idx: i, Kind: kind, Svc: rt.Svc, RPC: rt.RPC, ReqType: rt.ReqType, ID: id, Payload: fmt.Sprintf("p%d-%x", i, rnd()), N: rnd() - (1 << 62), Want: "ok"}
	if rt.HasPath {
		cl.PathA = fmt.Sprintf("seg%d", i)
		if strings.Contains(rt.Path, "%[2]s") {
			cl.PathB = fmt.Sprintf("dst%d", i)
		}
	}
	omit := ""
	switch kind {
	case "omit-header":
		omit = rt.Required[int(uint64(rnd())%uint64(len(rt.Required)))][0]
		cl.Want = "validation"
	case "long":
		cl.Payload = "ghost-" + id + "-" + strings.Repeat("x", 60)
		cl.Want = "validation"
	case "default":
		cl.ID, cl.Payload, cl.N = "", "", 0
	case "partial":
		cl.Payload, cl.N = "", 0
	}
	cl.OmitOwn = omit
	bad := kind == "bad-header" && (rt.RPC == "AlphaPatch" || rt.RPC == "AlphaMove")
	if bad {
		cl.Want = "validation"
	}
	for _, kv := range rt.Required {
		if kv[0] != omit {
			if alts := strings.Split(kv[1], "|"); len(alts) > 1 {
				kv[1] = alts[int(uint64(rnd())%uint64(len(alts)))]
			}
			if bad && kv[0] == "X-Kind" {
				kv[1] = c17badKind[int(uint64(rnd())%uint64(len(c17badKind)))]
			}
			cl.Hdr = append(cl.Hdr, kv)
		}
	}
	cl.Hdr = append(cl.Hdr, [2]string{"X-Call", id})
	if uint64(rnd())%3 == 0 {
		cl.CallCT = "application/x-protobuf"
	}
	if kind == "raw-bad" || kind == "raw-ok" {
		cl.CallCT = ""
		var hdr []map[string]string
		for _, kv := range cl.Hdr {
			hdr = append(hdr, map[string]string{"K": kv[0], "V": kv[1]})
		}
		hdr = append(hdr, map[string]string{"K": "Content-Type", "V": "application/json"})
		target := rt.Path
		if rt.HasPath {
			target = fmt.Sprintf(rt.Path, cl.PathA)
			if cl.PathB != "" {
				target = fmt.Sprintf(rt.Path, cl.PathA, cl.PathB)
			}
		}
		body := ""
		q := url.Values{}
		if rt.ReqType == "EchoGetReq" {
			q.Set("id", cl.ID)
			q.Set("payload", cl.Payload)
			if kind == "raw-bad" {
				q.Set("payload", "ghost-"+id)
				q.Set("n", "not-a-number")
			} else {
				q.Set("n", fmt.Sprint(cl.N))
			}
			target += "?" + q.Encode()
		} else {
			if kind == "raw-bad" {
				// fields first, then the syntax error: a decoder that fills the target as it goes has
				// bound them by the time it fails
				body = fmt.Sprintf(`{"id":%q,"payload":%q,"n":"12","pathA":`, cl.ID, "ghost-"+id)
			} else {
				// path_a is repeated in the body: a JSON body that does not mention a path-bound field
				// wipes it (recorded under C02, mechanism body-bind-resets-url-fields)
				body = fmt.Sprintf(`{"id":%q,"payload":%q,"n":"%d","pathA":%q}`, cl.ID, cl.Payload, cl.N, cl.PathA)
				if cl.PathB != "" {
					body = fmt.Sprintf(`{"id":%q,"payload":%q,"n":"%d","pathA":%q,"pathB":%q}`, cl.ID, cl.Payload, cl.N, cl.PathA, cl.PathB)
				}
			}
		}
		if kind == "raw-bad" {
			cl.Want = "st400"
		}
		cl.Raw = map[string]any{"method": rt.Verb, "target": target, "hdr": hdr, "body": b64([]byte(body))}
	}
	return cl
}

func c17calls(c *Ctx, label string, n int) []c17call {
	r := c.Rng("c17:" + label)
	var out []c17call
	for i := 0; i < n; i++ {
		rt := c17routes[r.Intn(len(c17routes))]
		kind := c17kinds[r.Intn(len(c17kinds))]
		cl := c17mk(rt, kind, fmt.Sprintf("%s-%d", label, i), i, r.Int63)
		if ex := c17extras[rt.Svc]; len(ex) > 0 && kind == "normal" && r.Intn(5) == 0 {
			c17withExtra(&cl, ex[r.Intn(len(ex))], r.Intn)
		}
		out = append(out, cl)
	}
	return out
}

// c17extras: per service (short name), the per-call options found in the emitted client that are none
// of the documented ones and that the glue can pass (filled in by c17 after generation; empty on a
// tree that emits only the documented options).
var c17extras = map[string][]lab.ExtraOpt{}

// c17withExtra attaches a discovered option to a call with an argument chosen by its parameter
// type. What such an option means is unknown, so that call itself is not judged (Want "any"):
// the point is what it does to every OTHER call.
func c17withExtra(cl *c17call, e lab.ExtraOpt, intn func(int) int) {
	typ := e.Params[len(e.Params)-1]
	vals := map[string][]string{
		"time.Duration": {"1ns", "1h", "3ms"},
		"string":        {"zz-extra", ""},
		"bool":          {"true", "false"},
		"float64":       {"0.5", "-1"}, "float32": {"0.5", "-1"},
	}[typ]
	if vals == nil {
		vals = []string{"1", "0", "-1", "1000000"}
	}
	cl.Extra = append(cl.Extra, [2]string{e.Name, vals[intn(len(vals))]})
	cl.Kind = "extra-option"
	cl.Want = "any"
}

// c17sequences is the deterministic part of the workload: on every route, each kind of rejected
// request is followed by requests that leave fields unset, on one client, one at a time.
func c17sequences(c *Ctx, label string) []c17call {
	r := c.Rng("c17seq:" + label)
	var out []c17call
	add := func(rt c17route, kind string) {
		i := len(out)
		out = append(out, c17mk(rt, kind, fmt.Sprintf("%s-%d", label, i), i, r.Int63))
	}
	for _, rt := range c17routes {
		for _, rej := range []string{"long", "raw-bad", "omit-header", "bad-header", "normal"} {
			add(rt, rej)
			add(rt, "default")
			add(rt, "partial")
			add(rt, "raw-ok")
			add(rt, "normal")
		}
	}
	// every discovered option, with every argument class, followed by plain calls on every route
	for _, a := range c17routes {
		for _, e := range c17extras[a.Svc] {
			for k := 0; k < 3; k++ {
				i := len(out)
				cl := c17mk(a, "normal", fmt.Sprintf("%s-%d", label, i), i, r.Int63)
				kk := k
				c17withExtra(&cl, e, func(n int) int { return kk % n })
				out = append(out, cl)
				for _, b := range c17routes {
					add(b, "normal")
				}
			}
		}
	}
	// and across routes: a rejected request on one route followed by defaults on every other one
	for _, a := range c17routes {
		add(a, "long")
		for _, b := range c17routes {
			add(b, "default")
		}
	}
	return out
}

// outcome is the comparable result of one call.
type c17outcome struct {
	Class string // ok | validation | error | other
	Echo  string // id|payload|n|path_a
	Seen  string // handler-visible controlled headers
}

func (o c17outcome) String() string { return o.Class + "/" + o.Echo + "/" + o.Seen }

// c17: a request's outcome does not depend on other requests, concurrent or earlier.
func c17(c *Ctx) {
	c.R.Rule = "abstract case = (burst of random calls over all routes of a two-service schema with per-route different required headers; request kinds: well-formed, all-default, partly default, rejected for a missing header / an over-long field after binding / a malformed body or URL value sent raw) x parallelism {2, 8, 64} x GOMAXPROCS {2, 16} x repetition, plus deterministic one-at-a-time sequences (every kind of rejection followed by default-valued requests on the same and on every other route, follow-ups re-issued alone in a fresh process), each burst in a FRESH race-instrumented child process (lazily initialised package state is only racy on first use; validator construction is held open by a failpoint delay); " +
		"monitors: Go race detector log, offline history checker (exactly-once handler entry per call id, result = f(request), per-call header isolation, agreement with an isolated sequential execution in another fresh process), porcupine cross-check with a stateless per-call model; non-trivial = a (schedule configuration, route, request kind) triple for which at least one call completed and was judged by every monitor"
	c.R.Assume("stateless sequential specification: each call's result is a function of its own request and options; race detector sees only executed access pairs")
	pkg := "c17.c"
	f := c17schema(pkg)
	l, err := lab.New(c.TB, "c17")
	if err != nil {
		c.R.Harness(err.Error())
		return
	}
	req, err := spec.Request([]*spec.File{f}, nil, "")
	if err != nil {
		c.R.Harness(err.Error())
		return
	}
	reg, _ := spec.Files(req)
	ad, err := l.Add(req, lab.PkgOpt{Plugins: []string{"go-http", "go-client"}})
	if err != nil {
		c.R.Harness(err.Error())
		return
	}
	protoText := f.Proto()
	if ad.Refused != "" {
		c.R.Violate("conc/all", "refused", ad.Refused, map[string]any{"proto": protoText})
		return
	}
	c17extras = map[string][]lab.ExtraOpt{}
	for full, list := range ad.Extras {
		for _, e := range list {
			c.R.Count("client_options_found_beyond_the_documented_ones", 1)
			if e.Driven {
				c.R.Count("client_options_found_and_driven", 1)
				short := full[strings.LastIndex(full, ".")+1:]
				c17extras[short] = append(c17extras[short], e)
			}
		}
	}
	c.R.Set("client_option_discovery", "emitted *_client.pb.go scanned for With<Service>*Option constructors")
	if un := l.CompileAll(false); un != "" {
		c.R.Harness("unattributed build output: " + firstLines(un, 10))
		return
	}
	if d := emittedDiag(l.Failed["gen/c17c"]); d != nil {
		c.R.Violate("conc/all", "compile", d.Msg, map[string]any{"proto": protoText})
		return
	}
	bin, err := l.BuildBinary(true)
	if err != nil {
		c.R.Harness(err.Error())
		return
	}
	reps := 4
	callsPer := 120
	if c.Thorough() {
		reps, callsPer = 30, 300
	}
	orderings := map[string]bool{}
	totalCalls := 0
	var mu sync.Mutex
	type job struct {
		gmp, par, rep int
	}
	var jobs []job
	for _, gmp := range []int{2, 16} {
		for _, par := range []int{2, 8, 64} {
			for rep := 0; rep < reps; rep++ {
				jobs = append(jobs, job{gmp, par, rep})
			}
		}
	}
	// bursts are independent (own child processes, own race logs): run a few side by side, which
	// also varies the scheduling pressure each burst sees
	plugin.Parallel(len(jobs), 4, func(ji int) {
		gmp, par, rep := jobs[ji].gmp, jobs[ji].par, jobs[ji].rep
		label := fmt.Sprintf("g%dp%dr%d", gmp, par, rep)
		caseID := fmt.Sprintf("conc/gomaxprocs=%d/parallel=%d", gmp, par)
		if !c.Want(caseID) {
			return
		}
		calls := c17calls(c, label, callsPer)
		raceLog := fmt.Sprintf("%s/race-c17-%s", c.Scratch, label)
		burst, order, err := c17run(bin, raceLog, gmp, par, pkg, calls, reg)
		c.R.Eval(len(calls))
		if err != nil {
			c.R.Violate(caseID, "burst-failed", err.Error(), map[string]any{"proto": protoText, "label": label})
			return
		}
		seqRes, _, err := c17run(bin, raceLog+"-seq", gmp, 1, pkg, calls, reg)
		c.R.Eval(len(calls))
		if err != nil {
			c.R.Inconclusive(caseID, "sequential-run-failed:"+err.Error())
			return
		}
		mu.Lock()
		orderings[order] = true
		totalCalls += len(calls)
		mu.Unlock()
		c17check(c, caseID, calls, burst, seqRes, protoText, label)
		for _, lg := range []string{raceLog, raceLog + "-seq"} {
			n, reports := lab.RaceReports(lg)
			c.R.Count("race_reports", n)
			for _, r := range reports {
				where := "emitted-code"
				if strings.Contains(r, "zz_glue.go") && !strings.Contains(r, ".pb.go") {
					where = "glue"
				}
				if where == "glue" || (strings.Contains(r, "lab/labrt") && !strings.Contains(r, "lab/gen/")) {
					c.R.Harness("race in harness code: " + firstLines(r, 12))
					continue
				}
				c.R.Violate(caseID, "race", raceSummary(r), map[string]any{"proto": protoText, "report": r, "label": label})
			}
		}
		c.R.Decided(caseID)
	})
	// deterministic sequences, one call at a time on one client per service: every kind of rejected
	// request followed by requests that leave fields unset; the follow-ups are also issued ALONE, each
	// in a fresh process against a fresh server, and must give the same result
	for _, gmp := range []int{1, 4} {
		caseID := fmt.Sprintf("conc/sequence/gomaxprocs=%d", gmp)
		if !c.Want(caseID) {
			continue
		}
		label := fmt.Sprintf("seq-g%d", gmp)
		calls := c17sequences(c, label)
		raceLog := fmt.Sprintf("%s/race-c17-%s", c.Scratch, label)
		res, _, err := c17run(bin, raceLog, gmp, 1, pkg, calls, reg)
		c.R.Eval(len(calls))
		if err != nil {
			c.R.Violate(caseID, "burst-failed", err.Error(), map[string]any{"proto": protoText, "label": label})
			continue
		}
		alone := make([]c17outcome, len(calls))
		copy(alone, res[:len(calls)])
		var pick []int
		for i, cl := range calls {
			if cl.Kind == "default" || cl.Kind == "partial" {
				pick = append(pick, i)
			}
		}
		if !c.Thorough() && len(pick) > 24 {
			r := c.Rng("c17alone:" + label)
			r.Shuffle(len(pick), func(a, b int) { pick[a], pick[b] = pick[b], pick[a] })
			pick = pick[:24]
		}
		var amu sync.Mutex
		failed := ""
		plugin.Parallel(len(pick), 6, func(k int) {
			i := pick[k]
			one := calls[i]
			one.Idx = 0
			r1, _, err := c17run(bin, fmt.Sprintf("%s-alone%d", raceLog, i), gmp, 1, pkg, []c17call{one}, reg)
			c.R.Eval(1)
			amu.Lock()
			defer amu.Unlock()
			if err != nil {
				failed = err.Error()
				return
			}
			alone[i] = r1[0]
		})
		if failed != "" {
			c.R.Inconclusive(caseID, "isolated-run-failed:"+failed)
			continue
		}
		c.R.Count("calls_reissued_alone_in_fresh_process", len(pick))
		mu.Lock()
		totalCalls += len(calls)
		mu.Unlock()
		c17check(c, caseID, calls, res, alone, protoText, label)
		n, reports := lab.RaceReports(raceLog)
		c.R.Count("race_reports", n)
		for _, r := range reports {
			c.R.Violate(caseID, "race", raceSummary(r), map[string]any{"proto": protoText, "report": r, "label": label})
		}
		c.R.Decided(caseID)
	}
	// one message object shared by concurrent calls: every codec feature, both plugins
	c17shared(c)
	c.R.Set("distinct_handler_entry_orderings", len(orderings))
	c.R.Set("calls_checked", totalCalls)
	c.R.Sample(map[string]any{"case": "conc/gomaxprocs=16/parallel=64", "calls_per_burst": callsPer, "routes": len(c17routes), "request_kinds": c17kinds, "monitors": []string{"race detector", "exactly-once by call id", "result=f(request)", "header isolation", "sequential agreement", "alone-in-fresh-process agreement", "porcupine"}})
	if seq := c17sequences(c, "sample"); len(seq) > 6 {
		c.R.Sample(map[string]any{"case": "conc/sequence/gomaxprocs=1", "first_calls": seq[:6], "calls": len(seq)})
	}
}

func raceSummary(r string) string {
	var fr []string
	for _, line := range strings.Split(r, "\n") {
		t := strings.TrimSpace(line)
		if strings.Contains(t, "lab/gen/") && strings.Contains(t, "(") {
			name := t[:strings.Index(t, "(")]
			name = name[strings.LastIndex(name, ".")+1:]
			fr = append(fr, name)
			if len(fr) == 2 {
				break
			}
		}
	}
	return "in " + strings.Join(fr, " vs ")
}

func c17msg(reg interface {
	FindDescriptorByName(protoreflect.FullName) (protoreflect.Descriptor, error)
}, pkg string, cl c17call) []byte {
	d, _ := reg.FindDescriptorByName(protoreflect.FullName(pkg + "." + cl.ReqType))
	md := d.(protoreflect.MessageDescriptor)
	m := dynamicpb.NewMessage(md)
	m.Set(md.Fields().ByName("id"), protoreflect.ValueOfString(cl.ID))
	m.Set(md.Fields().ByName("payload"), protoreflect.ValueOfString(cl.Payload))
	m.Set(md.Fields().ByName("n"), protoreflect.ValueOfInt64(cl.N))
	if cl.PathA != "" {
		m.Set(md.Fields().ByName("path_a"), protoreflect.ValueOfString(cl.PathA))
	}
	if cl.PathB != "" {
		m.Set(md.Fields().ByName("path_b"), protoreflect.ValueOfString(cl.PathB))
	}
	return wire(m)
}

// c17run executes the calls in a fresh child at the given parallelism and returns per-call outcomes.
func c17run(bin, raceLog string, gmp, par int, pkg string, calls []c17call, reg interface {
	FindDescriptorByName(protoreflect.FullName) (protoreflect.Descriptor, error)
}) ([]c17outcome, string, error) {
	ch, err := lab.Start(bin, raceLog, fmt.Sprintf("GOMAXPROCS=%d", gmp), "VERIF_PV_NEW_DELAY=5ms")
	if err != nil {
		return nil, "", err
	}
	defer ch.Quit()
	// AlphaService is registered first WITH an error hook that only adds a response header (status and body
	// stay the default ones), BetaService after it WITHOUT options: what one registration was given is that
	// registration's alone, so no answer of a Beta route may carry the header
	gs, err := serveGoHooks(ch, []string{pkg + ".AlphaService", pkg + ".BetaService"}, []string{"headers", "none"})
	if err != nil {
		return nil, "", err
	}
	gs.Script("", map[string]any{"echo": true})
	var bcs []map[string]any
	for _, cl := range calls {
		var hdr []map[string]string
		for _, kv := range cl.Hdr {
			hdr = append(hdr, map[string]string{"K": kv[0], "V": kv[1]})
		}
		bc := map[string]any{"client": pkg + "." + cl.Svc, "rpc": cl.RPC, "req_type": pkg + "." + cl.ReqType, "req": b64(c17msg(reg, pkg, cl)), "hdr": hdr, "callct": cl.CallCT}
		if cl.Raw != nil {
			bc["raw"] = cl.Raw
		}
		if len(cl.Extra) > 0 {
			var ex []map[string]string
			for _, kv := range cl.Extra {
				ex = append(ex, map[string]string{"K": kv[0], "V": kv[1]})
			}
			bc["extra"] = ex
		}
		bcs = append(bcs, bc)
	}
	id := newID("b")
	_, ev, err := ch.Do(map[string]any{"op": "burst", "id": id, "burst": map[string]any{"url": gs.URL, "srv": gs.ID, "calls": bcs, "parallel": par, "timeout_ms": 60000}}, 5*time.Minute, "burst_done")
	if err != nil {
		return nil, "", fmt.Errorf("%v; stderr: %s", err, firstLines(ch.Stderr(), 20))
	}
	if ev.Str("ev") != "burst_done" {
		return nil, "", fmt.Errorf("burst failed: %v %v", ev["err"], ev["value"])
	}
	d, _ := reg.FindDescriptorByName(protoreflect.FullName(pkg + ".EchoResp"))
	respMD := d.(protoreflect.MessageDescriptor)
	out := make([]c17outcome, len(calls))
	for _, r := range oas.L(ev["results"]) {
		rm := oas.M(r)
		if rm == nil {
			continue
		}
		idx := int(rm["idx"].(float64))
		o := c17outcome{}
		setEcho := func(m *dynamicpb.Message) {
			fs := respMD.Fields()
			o.Echo = fmt.Sprintf("%s|%s|%d|%s", m.Get(fs.ByName("id")).String(), m.Get(fs.ByName("payload")).String(), m.Get(fs.ByName("n")).Int(), m.Get(fs.ByName("path_a")).String())
			if pb := m.Get(fs.ByName("path_b")).String(); pb != "" {
				o.Echo += "~" + pb
			}
			o.Seen = m.Get(fs.ByName("lab_seen_headers")).String()
		}
		switch {
		case rm["panic"] != nil:
			o.Class = "panic:" + fmt.Sprint(rm["panic"])
		case rm["harness"] != nil:
			o.Class = "harness:" + fmt.Sprint(rm["harness"])
		case rm["err"] != nil:
			o.Class = fmt.Sprint(oas.M(rm["err"])["class"])
			if to, _ := rm["timeout"].(bool); to {
				o.Class = "timeout"
			}
		case rm["status"] != nil:
			st := int(rm["status"].(float64))
			o.Class = fmt.Sprintf("st%d", st)
			if hh := oas.S(rm["hook_header"]); hh != "" {
				o.Seen = "X-Hook=" + hh
			}
			if st == 200 {
				m := dynamicpb.NewMessage(respMD)
				if err := protojson.Unmarshal(unb64(fmt.Sprint(rm["body"])), m); err != nil {
					o.Class = "st200-undecodable-body"
				} else {
					o.Class = "ok"
					setEcho(m)
				}
			}
		default:
			o.Class = "ok"
			m := dynamicpb.NewMessage(respMD)
			_ = proto.Unmarshal(unb64(fmt.Sprint(rm["resp"])), m)
			setEcho(m)
		}
		out[idx] = o
	}
	// handler-entry ordering fingerprint (first 24 entries by rpc) and per-call-id entry counts: every
	// call carries a unique X-Call header, which the recording handler logs
	var order []string
	perCall := map[string]int{}
	for _, h := range oas.L(ev["handlers"]) {
		hm := oas.M(h)
		if len(order) < 24 {
			order = append(order, oas.S(hm["rpc"])[strings.LastIndex(oas.S(hm["rpc"]), ".")+1:])
		}
		id := ""
		for _, kv := range strings.Split(oas.S(hm["seen_headers"]), ";") {
			if strings.HasPrefix(strings.ToLower(kv), "x-call=") {
				id = kv[len("x-call="):]
			}
		}
		perCall[id]++
	}
	var ids []string
	for id := range perCall {
		ids = append(ids, id)
	}
	sort.Strings(ids)
	for _, id := range ids {
		out = append(out, c17outcome{Class: "entry", Echo: id, Seen: fmt.Sprint(perCall[id])})
	}
	// state monitor on the shared *http.Client / http.DefaultClient (compared before and after the burst in the child)
	if ch := oas.S(ev["shared_client_changed"]); ch != "" {
		out = append(out, c17outcome{Class: "shared-client-changed", Echo: ch})
	} else if oas.S(ev["shared_client_state"]) != "" {
		out = append(out, c17outcome{Class: "shared-client-unchanged"})
	}
	return out, strings.Join(order, ","), nil
}

func c17check(c *Ctx, caseID string, calls []c17call, burst, seq []c17outcome, protoText, label string) {
	rp := func(i int, extra map[string]any) map[string]any {
		m := map[string]any{"proto": protoText, "burst": label, "call": calls[i], "burst_outcome": burst[i].String(), "sequential_outcome": seq[i].String()}
		for k, v := range extra {
			m[k] = v
		}
		return m
	}
	byID := map[string]int{}
	for i, cl := range calls {
		byID[cl.Hdr[len(cl.Hdr)-1][1]] = i
		b := burst[i]
		if cl.Want == "any" {
			// a call carrying a discovered option of unknown meaning: only the OTHER calls are judged
			if strings.HasPrefix(b.Class, "panic") {
				c.R.Violate(caseID, "panic", cl.Kind, rp(i, nil))
			}
			c.R.Decided(caseID + "/" + cl.RPC + "/" + cl.Kind)
			continue
		}
		// expectation from the stateless model
		if b.Class != cl.Want {
			c.R.Violate(caseID, "outcome-class", cl.Kind+": want "+cl.Want+" got "+strings.SplitN(b.Class, ":", 2)[0], rp(i, nil))
			continue
		}
		if b.Class == "ok" {
			wantEcho := fmt.Sprintf("%s|%s|%d|%s", cl.ID, cl.Payload, cl.N, cl.PathA)
			if cl.PathB != "" {
				wantEcho += "~" + cl.PathB
			}
			if b.Echo != wantEcho {
				c.R.Violate(caseID, "result-not-function-of-request", cl.Kind, rp(i, map[string]any{"expected_echo": wantEcho}))
			}
			// header isolation: own X-Call present, nobody else's
			own := cl.Hdr[len(cl.Hdr)-1][1]
			if !strings.Contains(b.Seen, "X-Call="+own+";") {
				c.R.Violate(caseID, "per-call-header-lost", "", rp(i, nil))
			}
			if strings.Count(b.Seen, "X-Call=") != 1 {
				c.R.Violate(caseID, "per-call-header-leak", "", rp(i, nil))
			}
			for _, kv := range cl.Hdr {
				if !strings.Contains(strings.ToLower(b.Seen), strings.ToLower(kv[0])+"="+strings.ToLower(kv[1])+";") {
					c.R.Violate(caseID, "per-call-header-lost", strings.ToLower(kv[0][:3]), rp(i, nil))
				}
			}
			// nothing but the call's own controlled headers (a header of another call or route leaking in)
			for _, kv := range strings.Split(b.Seen, ";") {
				k := strings.ToLower(strings.SplitN(kv, "=", 2)[0])
				if k == "" || k == "content-type" {
					continue
				}
				found := false
				for _, h := range cl.Hdr {
					if strings.ToLower(h[0]) == k {
						found = true
					}
				}
				if !found {
					c.R.Violate(caseID, "foreign-header-seen", "", rp(i, map[string]any{"header": kv}))
				}
			}
			wantCT := "application/json"
			if cl.CallCT != "" {
				wantCT = cl.CallCT
			}
			if !strings.Contains(b.Seen, "Content-Type="+wantCT+";") {
				c.R.Violate(caseID, "per-call-content-type-leak", "", rp(i, nil))
			}
		}
		if b.String() != seq[i].String() {
			c.R.Violate(caseID, "differs-from-isolated-execution", "", rp(i, nil))
		}
		// the error hook belongs to AlphaService's registration: a rejected raw request on a Beta route must not show it
		if cl.Svc == "BetaService" && strings.HasPrefix(b.Seen, "X-Hook=") {
			c.R.Violate(caseID, "error-hook-of-another-registration-applied", "", rp(i, nil))
		} else if cl.Svc == "BetaService" && cl.Raw != nil && cl.Want != "ok" {
			c.R.Count("beta_rejections_checked_for_foreign_hook", 1)
		}
		// what was observed, per (schedule configuration, route, request kind)
		c.R.Decided(caseID + "/" + cl.RPC + "/" + cl.Kind)
	}
	// exactly-once: the handler log of the burst, keyed by the unique X-Call id
	entered := map[string]int{}
	for _, extra := range burst[len(calls):] {
		switch extra.Class {
		case "shared-client-changed":
			c.R.Violate(caseID, "shared-http-client-reconfigured-by-calls", "", map[string]any{"proto": protoText, "burst": label, "change": extra.Echo})
		case "shared-client-unchanged":
			c.R.Count("bursts_with_shared_http_client_state_compared", 1)
		}
		if extra.Class == "entry" {
			n := 0
			fmt.Sscan(extra.Seen, &n)
			entered[extra.Echo] = n
		}
	}
	for id, n := range entered {
		i, ok := byID[id]
		switch {
		case !ok:
			c.R.Violate(caseID, "handler-entered-for-unknown-call", "", map[string]any{"proto": protoText, "burst": label, "x_call": id})
		case n > 1:
			c.R.Violate(caseID, "handler-entered-twice", "", rp(i, map[string]any{"entries": n}))
		case calls[i].Want != "ok" && calls[i].Want != "any":
			c.R.Violate(caseID, "handler-entered-for-rejected-call", calls[i].Kind, rp(i, nil))
		}
	}
	for i, cl := range calls {
		if cl.Want == "ok" && burst[i].Class == "ok" && entered[cl.Hdr[len(cl.Hdr)-1][1]] == 0 {
			c.R.Violate(caseID, "handler-not-entered", "", rp(i, nil))
		}
	}
	// porcupine cross-check: stateless model, partitioned per call
	type in struct{ want string }
	var ops []porcupine.Operation
	for i, cl := range calls {
		if cl.Want == "any" {
			continue // outside the model: an option of unknown meaning
		}
		want := cl.Want + "//"
		if cl.Want == "ok" {
			want = "ok/" + fmt.Sprintf("%s|%s|%d|%s", cl.ID, cl.Payload, cl.N, cl.PathA)
			if cl.PathB != "" {
				want += "~" + cl.PathB
			}
		}
		got := burst[i].Class + "/" + burst[i].Echo
		if burst[i].Class != "ok" {
			got = burst[i].Class + "//"
		}
		ops = append(ops, porcupine.Operation{ClientId: i % 64, Input: in{want}, Call: int64(i), Output: got, Return: int64(i + len(calls))})
	}
	model := porcupine.Model{
		Partition: func(h []porcupine.Operation) [][]porcupine.Operation {
			var out [][]porcupine.Operation
			for _, o := range h {
				out = append(out, []porcupine.Operation{o})
			}
			return out
		},
		Init: func() any { return 0 },
		Step: func(st, input, output any) (bool, any) { return input.(in).want == output.(string), st },
	}
	res := porcupine.CheckOperationsTimeout(model, ops, 30*time.Second)
	switch res {
	case porcupine.Illegal:
		c.R.Count("porcupine_illegal_histories", 1)
	case porcupine.Unknown:
		c.R.Count("porcupine_timeouts", 1)
	default:
		c.R.Count("porcupine_ok_histories", 1)
	}
	_ = sort.Strings
}
