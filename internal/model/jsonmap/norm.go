package jsonmap

import (
	sebufhttp "github.com/SebastienMelki/sebuf/http"
	"google.golang.org/protobuf/proto"
	"google.golang.org/protobuf/reflect/protoreflect"
)

// Norm returns a copy of m with the *documented* losses of the JSON mapping applied:
// UNIX_SECONDS drops nanos, UNIX_MILLIS drops sub-millisecond nanos, DATE drops the time of
// day (midnight UTC), and under empty_behavior OMIT/NULL a set-but-empty message is unset.
func Norm(m proto.Message) proto.Message {
	c := proto.Clone(m)
	normMsg(c.ProtoReflect())
	return c
}

func floorDiv(a, b int64) int64 {
	q := a / b
	if (a%b != 0) && ((a < 0) != (b < 0)) {
		q--
	}
	return q
}

func truncTS(t protoreflect.Message, f sebufhttp.TimestampFormat) {
	sf := t.Descriptor().Fields().ByName("seconds")
	nf := t.Descriptor().Fields().ByName("nanos")
	secs := t.Get(sf).Int()
	nanos := t.Get(nf).Int()
	switch f {
	case sebufhttp.TimestampFormat_TIMESTAMP_FORMAT_UNIX_SECONDS:
		t.Clear(nf)
	case sebufhttp.TimestampFormat_TIMESTAMP_FORMAT_UNIX_MILLIS:
		nanos = nanos / 1e6 * 1e6
		if nanos == 0 {
			t.Clear(nf)
		} else {
			t.Set(nf, protoreflect.ValueOfInt32(int32(nanos)))
		}
	case sebufhttp.TimestampFormat_TIMESTAMP_FORMAT_DATE:
		day := floorDiv(secs, 86400)
		if day*86400 == 0 {
			t.Clear(sf)
		} else {
			t.Set(sf, protoreflect.ValueOfInt64(day*86400))
		}
		t.Clear(nf)
	}
}

func normMsg(m protoreflect.Message) {
	md := m.Descriptor()
	if isWKT(md) {
		return
	}
	fds := md.Fields()
	for i := 0; i < fds.Len(); i++ {
		fd := fds.Get(i)
		if fd.IsMap() {
			if fd.MapValue().Kind() != protoreflect.MessageKind {
				continue
			}
		} else if fd.Kind() != protoreflect.MessageKind {
			continue
		}
		if !m.Has(fd) {
			continue
		}
		a := FieldAnn(fd)
		switch {
		case fd.IsMap():
			m.Get(fd).Map().Range(func(_ protoreflect.MapKey, v protoreflect.Value) bool {
				normMsg(v.Message())
				return true
			})
		case fd.IsList():
			l := m.Get(fd).List()
			for j := 0; j < l.Len(); j++ {
				e := l.Get(j).Message()
				if isTimestamp(e.Descriptor()) {
					truncTS(e, a.TSFormat)
				} else {
					normMsg(e)
				}
			}
		default:
			child := m.Mutable(fd).Message()
			if isTimestamp(child.Descriptor()) {
				truncTS(child, a.TSFormat)
			} else {
				normMsg(child)
			}
			if proto.Size(child.Interface()) == 0 &&
				(a.EmptyBehavior == sebufhttp.EmptyBehavior_EMPTY_BEHAVIOR_NULL || a.EmptyBehavior == sebufhttp.EmptyBehavior_EMPTY_BEHAVIOR_OMIT) {
				m.Clear(fd)
			}
		}
	}
}
