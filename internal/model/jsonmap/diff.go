package jsonmap

import (
	"encoding/json"
	"fmt"
	"math/big"
	"sort"
)

// Difference is one disagreement between an expected and an actual JSON tree.
type Difference struct {
	Path    string // JSON pointer
	Symptom string // missing-key | extra-key | wrong-json-type | changed-value
	Want    string
	Got     string
}

func typeName(v any) string {
	switch v.(type) {
	case nil:
		return "null"
	case bool:
		return "boolean"
	case string:
		return "string"
	case json.Number:
		return "number"
	case []any:
		return "array"
	case map[string]any:
		return "object"
	case Alt:
		return "alt"
	}
	return fmt.Sprintf("%T", v)
}

func short(v any) string {
	b, _ := json.Marshal(v)
	if len(b) > 120 {
		return string(b[:120]) + "…"
	}
	return string(b)
}

func numEqual(a, b json.Number) bool {
	ra, ok1 := new(big.Rat).SetString(string(a))
	rb, ok2 := new(big.Rat).SetString(string(b))
	if !ok1 || !ok2 {
		return string(a) == string(b)
	}
	return ra.Cmp(rb) == 0
}

// Diff compares want (may contain Alt nodes) with got.
func Diff(want, got any) []Difference {
	var out []Difference
	diff(want, got, "", &out)
	return out
}

func diff(want, got any, path string, out *[]Difference) {
	if alt, ok := want.(Alt); ok {
		for _, o := range alt.Options {
			var tmp []Difference
			diff(o, got, path, &tmp)
			if len(tmp) == 0 {
				return
			}
		}
		*out = append(*out, Difference{path, "changed-value", short(alt.Options), short(got)})
		return
	}
	if typeName(want) != typeName(got) {
		*out = append(*out, Difference{path, "wrong-json-type", typeName(want) + " " + short(want), typeName(got) + " " + short(got)})
		return
	}
	switch w := want.(type) {
	case nil:
	case bool:
		if w != got.(bool) {
			*out = append(*out, Difference{path, "changed-value", short(want), short(got)})
		}
	case string:
		if w != got.(string) {
			*out = append(*out, Difference{path, "changed-value", short(want), short(got)})
		}
	case json.Number:
		if !numEqual(w, got.(json.Number)) {
			*out = append(*out, Difference{path, "changed-value", string(w), string(got.(json.Number))})
		}
	case []any:
		g := got.([]any)
		if len(w) != len(g) {
			*out = append(*out, Difference{path, "changed-value", fmt.Sprintf("array len %d", len(w)), fmt.Sprintf("array len %d", len(g))})
			return
		}
		for i := range w {
			diff(w[i], g[i], fmt.Sprintf("%s/%d", path, i), out)
		}
	case map[string]any:
		g := got.(map[string]any)
		keys := make([]string, 0, len(w))
		for k := range w {
			keys = append(keys, k)
		}
		sort.Strings(keys)
		for _, k := range keys {
			gv, ok := g[k]
			if !ok {
				*out = append(*out, Difference{path + "/" + k, "missing-key", short(w[k]), "(absent)"})
				continue
			}
			diff(w[k], gv, path+"/"+k, out)
		}
		var extra []string
		for k := range g {
			if _, ok := w[k]; !ok {
				extra = append(extra, k)
			}
		}
		sort.Strings(extra)
		for _, k := range extra {
			*out = append(*out, Difference{path + "/" + k, "extra-key", "(absent)", short(g[k])})
		}
	}
}

// Resolve replaces Alt nodes by their first option (the canonical form).
func Resolve(v any) any {
	switch x := v.(type) {
	case Alt:
		return Resolve(x.Options[0])
	case []any:
		out := make([]any, len(x))
		for i := range x {
			out[i] = Resolve(x[i])
		}
		return out
	case map[string]any:
		out := make(map[string]any, len(x))
		for k, e := range x {
			out[k] = Resolve(e)
		}
		return out
	}
	return v
}

// Marshal renders a tree (Alt resolved) as JSON text.
func Marshal(v any) []byte {
	b, _ := json.Marshal(Resolve(v))
	return b
}
