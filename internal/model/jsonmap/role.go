package jsonmap

import (
	"fmt"
	"strconv"
	"strings"

	sebufhttp "github.com/SebastienMelki/sebuf/http"
	"google.golang.org/protobuf/reflect/protoreflect"
)

// fieldRole names a field by coordinates (never by its seeded name).
func fieldRole(fd protoreflect.FieldDescriptor) string {
	a := FieldAnn(fd)
	k := fd.Kind().String()
	if fd.Kind() == protoreflect.MessageKind {
		k = "msg"
		if isTimestamp(fd.Message()) {
			k = "ts"
		} else if isWKT(fd.Message()) {
			k = "wkt"
		}
	}
	var tags []string
	if a.Int64Number {
		tags = append(tags, "int64num")
	}
	if a.EnumNumber {
		tags = append(tags, "enumnum")
	}
	if fd.Kind() == protoreflect.EnumKind {
		vs := fd.Enum().Values()
		for i := 0; i < vs.Len(); i++ {
			if EnumJSON(vs.Get(i)) != "" {
				tags = append(tags, "enumval")
				break
			}
		}
	}
	if a.Nullable {
		tags = append(tags, "nullable")
	}
	if a.EmptyBehavior != sebufhttp.EmptyBehavior_EMPTY_BEHAVIOR_UNSPECIFIED {
		tags = append(tags, "empty"+strconv.Itoa(int(a.EmptyBehavior)))
	}
	if a.TSFormat != sebufhttp.TimestampFormat_TIMESTAMP_FORMAT_UNSPECIFIED {
		tags = append(tags, "tsfmt"+strconv.Itoa(int(a.TSFormat)))
	}
	if a.BytesEnc != sebufhttp.BytesEncoding_BYTES_ENCODING_UNSPECIFIED {
		tags = append(tags, "bytesenc"+strconv.Itoa(int(a.BytesEnc)))
	}
	if a.Unwrap {
		tags = append(tags, "unwrap")
	}
	card := "singular"
	switch {
	case fd.IsMap():
		card = "map"
	case fd.IsList():
		card = "repeated"
	case fd.HasOptionalKeyword():
		card = "optional"
	}
	if oo := fd.ContainingOneof(); oo != nil && !oo.IsSynthetic() {
		card = "oneof"
		if OneofCfg(oo) != nil {
			card = "dvar"
		}
	}
	r := k + ":" + card
	if len(tags) > 0 {
		r += "[" + strings.Join(tags, ",") + "]"
	}
	return r
}

// RolePath translates a JSON pointer into coordinates relative to the message type: every
// segment becomes the role of what it addresses (field kind/cardinality/annotations, "disc" for
// a discriminator key, "[]"/"{}" for list indices and map keys, "flat(…)"/"ovar(…)" for keys
// that come from flattened children / flattened oneof variants, "?" for keys the documented
// mapping does not define at that position).
func RolePath(md protoreflect.MessageDescriptor, ptr string) string {
	if ptr == "" {
		return "/"
	}
	segs := strings.Split(strings.TrimPrefix(ptr, "/"), "/")
	var out []string
	roleWalk(md, segs, &out, 0)
	return "/" + strings.Join(out, "/")
}

func roleWalk(md protoreflect.MessageDescriptor, segs []string, out *[]string, depth int) {
	if len(segs) == 0 || md == nil || depth > 32 {
		return
	}
	if isWKT(md) {
		*out = append(*out, "wkt…")
		return
	}
	if IsRootUnwrap(md) {
		fd := md.Fields().Get(0)
		roleValue(fd, segs, out, depth, true)
		return
	}
	key := segs[0]
	rest := segs[1:]
	fds := md.Fields()
	// discriminator keys
	oos := md.Oneofs()
	for i := 0; i < oos.Len(); i++ {
		if cfg := OneofCfg(oos.Get(i)); cfg != nil && cfg.GetDiscriminator() == key {
			*out = append(*out, "disc")
			return
		}
	}
	for i := 0; i < fds.Len(); i++ {
		fd := fds.Get(i)
		a := FieldAnn(fd)
		if a.Flatten {
			continue
		}
		if oo := fd.ContainingOneof(); oo != nil && !oo.IsSynthetic() {
			if cfg := OneofCfg(oo); cfg != nil && cfg.GetFlatten() {
				continue
			}
		}
		if fd.JSONName() == key {
			*out = append(*out, fieldRole(fd))
			roleValue(fd, rest, out, depth, false)
			return
		}
	}
	// flattened children
	for i := 0; i < fds.Len(); i++ {
		fd := fds.Get(i)
		a := FieldAnn(fd)
		if a.Flatten && fd.Message() != nil && strings.HasPrefix(key, a.FlattenPrefix) {
			sub := []string{}
			roleWalk(fd.Message(), append([]string{strings.TrimPrefix(key, a.FlattenPrefix)}, rest...), &sub, depth+1)
			if len(sub) > 0 && sub[0] != "?" {
				*out = append(*out, "flat("+sub[0]+")")
				*out = append(*out, sub[1:]...)
				return
			}
		}
	}
	// flattened oneof variants
	for i := 0; i < fds.Len(); i++ {
		fd := fds.Get(i)
		oo := fd.ContainingOneof()
		if oo == nil || oo.IsSynthetic() || fd.Message() == nil {
			continue
		}
		if cfg := OneofCfg(oo); cfg != nil && cfg.GetFlatten() {
			sub := []string{}
			roleWalk(fd.Message(), segs, &sub, depth+1)
			if len(sub) > 0 && sub[0] != "?" {
				*out = append(*out, "ovar("+sub[0]+")")
				*out = append(*out, sub[1:]...)
				return
			}
		}
	}
	*out = append(*out, "?")
}

// roleValue continues below a field's value.
func roleValue(fd protoreflect.FieldDescriptor, segs []string, out *[]string, depth int, rootUnwrap bool) {
	if len(segs) == 0 {
		return
	}
	if rootUnwrap {
		*out = append(*out, "root:"+fieldRole(fd))
	}
	switch {
	case fd.IsMap():
		*out = append(*out, "{}")
		segs = segs[1:]
		vfd := fd.MapValue()
		if vfd.Message() != nil {
			if uf := UnwrapField(vfd.Message()); uf != nil && uf.IsList() {
				if len(segs) == 0 {
					return
				}
				*out = append(*out, "[]")
				segs = segs[1:]
				if uf.Message() != nil {
					roleWalk(uf.Message(), segs, out, depth+1)
				}
				return
			}
			roleWalk(vfd.Message(), segs, out, depth+1)
		}
	case fd.IsList():
		*out = append(*out, "[]")
		segs = segs[1:]
		if fd.Message() != nil {
			roleWalk(fd.Message(), segs, out, depth+1)
		}
	default:
		if fd.Message() != nil {
			roleWalk(fd.Message(), segs, out, depth+1)
		} else if len(segs) > 0 {
			*out = append(*out, fmt.Sprintf("+%d", len(segs)))
		}
	}
}
