// Package jsonmap is the independent reference model of sebuf's documented JSON mapping
// (DESIGN.md Appendix F). It is written from the documentation, not from sebuf's code.
package jsonmap

import (
	"bytes"
	"encoding/base64"
	"encoding/hex"
	"encoding/json"
	"fmt"
	"math"
	"strconv"
	"time"

	sebufhttp "github.com/SebastienMelki/sebuf/http"
	"google.golang.org/protobuf/encoding/protojson"
	"google.golang.org/protobuf/proto"
	"google.golang.org/protobuf/reflect/protoreflect"
	"google.golang.org/protobuf/types/descriptorpb"
)

// Tree node types: map[string]any, []any, string, json.Number, bool, nil.

// Parse parses JSON text into a tree with exact numbers. Duplicate keys: last wins.
func Parse(b []byte) (any, error) {
	dec := json.NewDecoder(bytes.NewReader(b))
	dec.UseNumber()
	var v any
	if err := dec.Decode(&v); err != nil {
		return nil, err
	}
	if dec.More() {
		return nil, fmt.Errorf("trailing data after JSON value")
	}
	return v, nil
}

// Ann is the decoded annotation set of a field.
type Ann struct {
	Int64Number   bool
	EnumNumber    bool
	Nullable      bool
	EmptyBehavior sebufhttp.EmptyBehavior
	TSFormat      sebufhttp.TimestampFormat
	BytesEnc      sebufhttp.BytesEncoding
	Flatten       bool
	FlattenPrefix string
	Unwrap        bool
	OneofValue    string
}

// FieldAnn reads sebuf annotations off a field descriptor.
func FieldAnn(fd protoreflect.FieldDescriptor) Ann {
	var a Ann
	o, ok := fd.Options().(*descriptorpb.FieldOptions)
	if !ok || o == nil {
		return a
	}
	if proto.HasExtension(o, sebufhttp.E_Int64Encoding) {
		a.Int64Number = proto.GetExtension(o, sebufhttp.E_Int64Encoding).(sebufhttp.Int64Encoding) == sebufhttp.Int64Encoding_INT64_ENCODING_NUMBER
	}
	if proto.HasExtension(o, sebufhttp.E_EnumEncoding) {
		a.EnumNumber = proto.GetExtension(o, sebufhttp.E_EnumEncoding).(sebufhttp.EnumEncoding) == sebufhttp.EnumEncoding_ENUM_ENCODING_NUMBER
	}
	if proto.HasExtension(o, sebufhttp.E_Nullable) {
		a.Nullable = proto.GetExtension(o, sebufhttp.E_Nullable).(bool)
	}
	if proto.HasExtension(o, sebufhttp.E_EmptyBehavior) {
		a.EmptyBehavior = proto.GetExtension(o, sebufhttp.E_EmptyBehavior).(sebufhttp.EmptyBehavior)
	}
	if proto.HasExtension(o, sebufhttp.E_TimestampFormat) {
		a.TSFormat = proto.GetExtension(o, sebufhttp.E_TimestampFormat).(sebufhttp.TimestampFormat)
	}
	if proto.HasExtension(o, sebufhttp.E_BytesEncoding) {
		a.BytesEnc = proto.GetExtension(o, sebufhttp.E_BytesEncoding).(sebufhttp.BytesEncoding)
	}
	if proto.HasExtension(o, sebufhttp.E_Flatten) {
		a.Flatten = proto.GetExtension(o, sebufhttp.E_Flatten).(bool)
	}
	if proto.HasExtension(o, sebufhttp.E_FlattenPrefix) {
		a.FlattenPrefix = proto.GetExtension(o, sebufhttp.E_FlattenPrefix).(string)
	}
	if proto.HasExtension(o, sebufhttp.E_Unwrap) {
		a.Unwrap = proto.GetExtension(o, sebufhttp.E_Unwrap).(bool)
	}
	if proto.HasExtension(o, sebufhttp.E_OneofValue) {
		a.OneofValue = proto.GetExtension(o, sebufhttp.E_OneofValue).(string)
	}
	return a
}

// OneofCfg returns the discriminator config of a oneof (nil if none / empty discriminator).
func OneofCfg(od protoreflect.OneofDescriptor) *sebufhttp.OneofConfig {
	o, ok := od.Options().(*descriptorpb.OneofOptions)
	if !ok || o == nil || !proto.HasExtension(o, sebufhttp.E_OneofConfig) {
		return nil
	}
	c := proto.GetExtension(o, sebufhttp.E_OneofConfig).(*sebufhttp.OneofConfig)
	if c == nil || c.GetDiscriminator() == "" {
		return nil
	}
	return c
}

// EnumJSON returns the custom enum_value string of an enum value ("" if none).
func EnumJSON(ev protoreflect.EnumValueDescriptor) string {
	o, ok := ev.Options().(*descriptorpb.EnumValueOptions)
	if !ok || o == nil || !proto.HasExtension(o, sebufhttp.E_EnumValue) {
		return ""
	}
	return proto.GetExtension(o, sebufhttp.E_EnumValue).(string)
}

// UnwrapField returns the field of md that carries unwrap=true (nil if none).
func UnwrapField(md protoreflect.MessageDescriptor) protoreflect.FieldDescriptor {
	fs := md.Fields()
	for i := 0; i < fs.Len(); i++ {
		if FieldAnn(fs.Get(i)).Unwrap {
			return fs.Get(i)
		}
	}
	return nil
}

// IsRootUnwrap: exactly one field and it is unwrap.
func IsRootUnwrap(md protoreflect.MessageDescriptor) bool {
	return md.Fields().Len() == 1 && FieldAnn(md.Fields().Get(0)).Unwrap
}

func isWKT(md protoreflect.MessageDescriptor) bool {
	return md.ParentFile().Package() == "google.protobuf"
}

func isTimestamp(md protoreflect.MessageDescriptor) bool {
	return md.FullName() == "google.protobuf.Timestamp"
}

func fmtFloat(f float64, bits int) any {
	switch {
	case math.IsNaN(f):
		return "NaN"
	case math.IsInf(f, 1):
		return "Infinity"
	case math.IsInf(f, -1):
		return "-Infinity"
	}
	return json.Number(strconv.FormatFloat(f, 'g', -1, bits))
}

// Alt marks a position where the documentation is ambiguous: either form is accepted.
type Alt struct{ Options []any }

// Encoder encodes messages per the documented mapping.
type Encoder struct {
	// LenientInt64InUnwrap: docs show int64 inside unwrap examples as JSON numbers; accept both.
	LenientInt64InUnwrap bool
}

func (e *Encoder) scalar(fd protoreflect.FieldDescriptor, v protoreflect.Value, a Ann, inUnwrap bool) (any, error) {
	switch fd.Kind() {
	case protoreflect.BoolKind:
		return v.Bool(), nil
	case protoreflect.Int32Kind, protoreflect.Sint32Kind, protoreflect.Sfixed32Kind:
		return json.Number(strconv.FormatInt(v.Int(), 10)), nil
	case protoreflect.Uint32Kind, protoreflect.Fixed32Kind:
		return json.Number(strconv.FormatUint(v.Uint(), 10)), nil
	case protoreflect.Int64Kind, protoreflect.Sint64Kind, protoreflect.Sfixed64Kind:
		s := strconv.FormatInt(v.Int(), 10)
		if a.Int64Number {
			return json.Number(s), nil
		}
		if inUnwrap && e.LenientInt64InUnwrap {
			return Alt{[]any{s, json.Number(s)}}, nil
		}
		return s, nil
	case protoreflect.Uint64Kind, protoreflect.Fixed64Kind:
		s := strconv.FormatUint(v.Uint(), 10)
		if a.Int64Number {
			return json.Number(s), nil
		}
		if inUnwrap && e.LenientInt64InUnwrap {
			return Alt{[]any{s, json.Number(s)}}, nil
		}
		return s, nil
	case protoreflect.FloatKind:
		return fmtFloat(v.Float(), 32), nil
	case protoreflect.DoubleKind:
		return fmtFloat(v.Float(), 64), nil
	case protoreflect.StringKind:
		return v.String(), nil
	case protoreflect.BytesKind:
		b := v.Bytes()
		switch a.BytesEnc {
		case sebufhttp.BytesEncoding_BYTES_ENCODING_HEX:
			return hex.EncodeToString(b), nil
		case sebufhttp.BytesEncoding_BYTES_ENCODING_BASE64_RAW:
			return base64.RawStdEncoding.EncodeToString(b), nil
		case sebufhttp.BytesEncoding_BYTES_ENCODING_BASE64URL:
			return base64.URLEncoding.EncodeToString(b), nil
		case sebufhttp.BytesEncoding_BYTES_ENCODING_BASE64URL_RAW:
			return base64.RawURLEncoding.EncodeToString(b), nil
		}
		return base64.StdEncoding.EncodeToString(b), nil
	case protoreflect.EnumKind:
		n := v.Enum()
		if a.EnumNumber {
			return json.Number(strconv.Itoa(int(n))), nil
		}
		ev := fd.Enum().Values().ByNumber(n)
		if ev == nil {
			return json.Number(strconv.Itoa(int(n))), nil
		}
		if c := EnumJSON(ev); c != "" {
			return c, nil
		}
		return string(ev.Name()), nil
	case protoreflect.MessageKind, protoreflect.GroupKind:
		m := v.Message()
		if isTimestamp(m.Descriptor()) {
			secs := m.Get(m.Descriptor().Fields().ByName("seconds")).Int()
			nanos := m.Get(m.Descriptor().Fields().ByName("nanos")).Int()
			switch a.TSFormat {
			case sebufhttp.TimestampFormat_TIMESTAMP_FORMAT_UNIX_SECONDS:
				return json.Number(strconv.FormatInt(secs, 10)), nil
			case sebufhttp.TimestampFormat_TIMESTAMP_FORMAT_UNIX_MILLIS:
				return json.Number(strconv.FormatInt(secs*1000+nanos/1e6, 10)), nil
			case sebufhttp.TimestampFormat_TIMESTAMP_FORMAT_DATE:
				return time.Unix(secs, nanos).UTC().Format("2006-01-02"), nil
			}
		}
		return e.Message(m)
	}
	return nil, fmt.Errorf("unsupported kind %v", fd.Kind())
}

func (e *Encoder) wkt(m protoreflect.Message) (any, error) {
	b, err := protojson.Marshal(m.Interface())
	if err != nil {
		return nil, err
	}
	return Parse(b)
}

// mapKeyString renders a map key as JSON object key.
func mapKeyString(k protoreflect.MapKey) string {
	return k.String()
}

// list encodes a repeated field's elements.
func (e *Encoder) list(fd protoreflect.FieldDescriptor, l protoreflect.List, a Ann, inUnwrap bool) (any, error) {
	out := make([]any, 0, l.Len())
	for i := 0; i < l.Len(); i++ {
		x, err := e.scalar(fd, l.Get(i), a, inUnwrap)
		if err != nil {
			return nil, err
		}
		out = append(out, x)
	}
	return out, nil
}

// mapValue encodes one map value, applying map-value unwrap when the value type has an
// unwrap list field.
func (e *Encoder) mapValue(vfd protoreflect.FieldDescriptor, v protoreflect.Value, a Ann) (any, error) {
	if vfd.Kind() == protoreflect.MessageKind {
		md := vfd.Message()
		if uf := UnwrapField(md); uf != nil && uf.IsList() {
			return e.list(uf, v.Message().Get(uf).List(), FieldAnn(uf), true)
		}
	}
	return e.scalar(vfd, v, a, false)
}

func (e *Encoder) mapObj(fd protoreflect.FieldDescriptor, mp protoreflect.Map, a Ann) (any, error) {
	out := map[string]any{}
	var err error
	mp.Range(func(k protoreflect.MapKey, v protoreflect.Value) bool {
		var x any
		x, err = e.mapValue(fd.MapValue(), v, a)
		if err != nil {
			return false
		}
		out[mapKeyString(k)] = x
		return true
	})
	return out, err
}

// Message encodes a message to a tree.
func (e *Encoder) Message(m protoreflect.Message) (any, error) {
	md := m.Descriptor()
	if isWKT(md) {
		return e.wkt(m)
	}
	if IsRootUnwrap(md) {
		fd := md.Fields().Get(0)
		a := FieldAnn(fd)
		if fd.IsMap() {
			return e.mapObj(fd, m.Get(fd).Map(), a)
		}
		return e.list(fd, m.Get(fd).List(), a, true)
	}
	out := map[string]any{}
	if err := e.fieldsInto(out, m, ""); err != nil {
		return nil, err
	}
	return out, nil
}

func (e *Encoder) fieldsInto(out map[string]any, m protoreflect.Message, prefix string) error {
	md := m.Descriptor()
	fds := md.Fields()
	put := func(k string, v any) error {
		k = prefix + k
		if _, dup := out[k]; dup {
			return fmt.Errorf("model: duplicate key %q", k)
		}
		out[k] = v
		return nil
	}
	for i := 0; i < fds.Len(); i++ {
		fd := fds.Get(i)
		a := FieldAnn(fd)
		key := fd.JSONName()
		oo := fd.ContainingOneof()
		realOneof := oo != nil && !oo.IsSynthetic()
		if realOneof {
			if m.WhichOneof(oo) != fd {
				continue
			}
			if cfg := OneofCfg(oo); cfg != nil {
				dv := a.OneofValue
				if dv == "" {
					dv = string(fd.Name())
				}
				if err := put(cfg.GetDiscriminator(), dv); err != nil {
					return err
				}
				if cfg.GetFlatten() && fd.Kind() == protoreflect.MessageKind {
					if err := e.fieldsInto(out, m.Get(fd).Message(), prefix); err != nil {
						return err
					}
					continue
				}
			}
			x, err := e.scalar(fd, m.Get(fd), a, false)
			if err != nil {
				return err
			}
			if err := put(key, x); err != nil {
				return err
			}
			continue
		}
		switch {
		case fd.IsMap():
			mp := m.Get(fd).Map()
			if mp.Len() == 0 {
				continue
			}
			x, err := e.mapObj(fd, mp, a)
			if err != nil {
				return err
			}
			if err := put(key, x); err != nil {
				return err
			}
		case fd.IsList():
			l := m.Get(fd).List()
			if l.Len() == 0 {
				continue
			}
			x, err := e.list(fd, l, a, false)
			if err != nil {
				return err
			}
			if err := put(key, x); err != nil {
				return err
			}
		case fd.Kind() == protoreflect.MessageKind || fd.Kind() == protoreflect.GroupKind:
			if !m.Has(fd) {
				continue
			}
			child := m.Get(fd).Message()
			if a.Flatten {
				if err := e.fieldsInto(out, child, prefix+a.FlattenPrefix); err != nil {
					return err
				}
				continue
			}
			if proto.Size(child.Interface()) == 0 {
				switch a.EmptyBehavior {
				case sebufhttp.EmptyBehavior_EMPTY_BEHAVIOR_NULL:
					if err := put(key, nil); err != nil {
						return err
					}
					continue
				case sebufhttp.EmptyBehavior_EMPTY_BEHAVIOR_OMIT:
					continue
				}
			}
			x, err := e.scalar(fd, m.Get(fd), a, false)
			if err != nil {
				return err
			}
			if err := put(key, x); err != nil {
				return err
			}
		default:
			if fd.HasPresence() {
				if !m.Has(fd) {
					if a.Nullable {
						if err := put(key, nil); err != nil {
							return err
						}
					}
					continue
				}
			} else if !m.Has(fd) {
				continue // implicit presence: default value omitted
			}
			x, err := e.scalar(fd, m.Get(fd), a, false)
			if err != nil {
				return err
			}
			if err := put(key, x); err != nil {
				return err
			}
		}
	}
	return nil
}

// Value encodes one scalar/element value of a field (exported for rule probing).
func (e *Encoder) Value(fd protoreflect.FieldDescriptor, v protoreflect.Value) (any, error) {
	return e.scalar(fd, v, FieldAnn(fd), false)
}
