// Package tstype reads the TypeScript declarations emitted by the sebuf TS plugins (a small,
// regular subset: interfaces, type aliases, string-literal unions, inline object types,
// intersections, Record<string,T>, arrays, optional members, `| null`) into a type AST and
// decides structurally whether a JSON value inhabits a type, with excess-property checking.
// It is not a TypeScript implementation; anything outside the subset is reported as unparsed.
package tstype

import (
	"encoding/json"
	"fmt"
	"sort"
	"strings"
	"unicode"
)

// Kind of a type node.
type Kind int

const (
	KPrim Kind = iota // string number boolean null unknown any
	KLit              // string or number literal
	KRef
	KArray
	KRecord
	KObject
	KUnion
	KInter
)

// Member of an object type.
type Member struct {
	Name     string
	Optional bool
	T        *Type
}

// Type is a type AST node.
type Type struct {
	Kind    Kind
	Name    string // prim name / ref name / literal text
	Elem    *Type  // array element / record value
	Members []Member
	Parts   []*Type // union / intersection
}

func (t *Type) String() string {
	switch t.Kind {
	case KPrim, KRef:
		return t.Name
	case KLit:
		return t.Name
	case KArray:
		return "(" + t.Elem.String() + ")[]"
	case KRecord:
		return "Record<string, " + t.Elem.String() + ">"
	case KObject:
		var ms []string
		for _, m := range t.Members {
			q := ""
			if m.Optional {
				q = "?"
			}
			ms = append(ms, m.Name+q+": "+m.T.String())
		}
		return "{ " + strings.Join(ms, "; ") + " }"
	case KUnion, KInter:
		sep := " | "
		if t.Kind == KInter {
			sep = " & "
		}
		var ps []string
		for _, p := range t.Parts {
			ps = append(ps, p.String())
		}
		return "(" + strings.Join(ps, sep) + ")"
	}
	return "?"
}

// Module is the set of declarations of one emitted file.
type Module struct {
	Types    map[string]*Type
	Order    []string
	Unparsed []string // declarations the reader could not parse
	Methods  map[string][2]string // client method / handler name -> (request type, result type)
}

type parser struct {
	s   string
	pos int
}

func (p *parser) ws() {
	for p.pos < len(p.s) {
		c := p.s[p.pos]
		if c == ' ' || c == '\t' || c == '\n' || c == '\r' {
			p.pos++
			continue
		}
		if strings.HasPrefix(p.s[p.pos:], "//") {
			for p.pos < len(p.s) && p.s[p.pos] != '\n' {
				p.pos++
			}
			continue
		}
		if strings.HasPrefix(p.s[p.pos:], "/*") {
			if i := strings.Index(p.s[p.pos:], "*/"); i >= 0 {
				p.pos += i + 2
				continue
			}
		}
		break
	}
}

func (p *parser) peek() byte {
	p.ws()
	if p.pos >= len(p.s) {
		return 0
	}
	return p.s[p.pos]
}

func (p *parser) eat(tok string) bool {
	p.ws()
	if strings.HasPrefix(p.s[p.pos:], tok) {
		p.pos += len(tok)
		return true
	}
	return false
}

func isIdent(r rune) bool { return r == '_' || r == '$' || unicode.IsLetter(r) || unicode.IsDigit(r) }

func (p *parser) ident() string {
	p.ws()
	start := p.pos
	for p.pos < len(p.s) && isIdent(rune(p.s[p.pos])) {
		p.pos++
	}
	return p.s[start:p.pos]
}

func (p *parser) strLit() (string, bool) {
	p.ws()
	if p.pos >= len(p.s) || (p.s[p.pos] != '"' && p.s[p.pos] != '\'') {
		return "", false
	}
	q := p.s[p.pos]
	i := p.pos + 1
	for i < len(p.s) && p.s[i] != q {
		if p.s[i] == '\\' {
			i++
		}
		i++
	}
	if i >= len(p.s) {
		return "", false
	}
	raw := p.s[p.pos : i+1]
	p.pos = i + 1
	var out string
	if q == '"' {
		if err := json.Unmarshal([]byte(raw), &out); err == nil {
			return out, true
		}
	}
	return raw[1 : len(raw)-1], true
}

func (p *parser) typ() (*Type, error) {
	p.eat("|")
	first, err := p.inter()
	if err != nil {
		return nil, err
	}
	parts := []*Type{first}
	for p.peek() == '|' {
		p.eat("|")
		n, err := p.inter()
		if err != nil {
			return nil, err
		}
		parts = append(parts, n)
	}
	if len(parts) == 1 {
		return first, nil
	}
	return &Type{Kind: KUnion, Parts: parts}, nil
}

func (p *parser) inter() (*Type, error) {
	first, err := p.postfix()
	if err != nil {
		return nil, err
	}
	parts := []*Type{first}
	for p.peek() == '&' {
		p.eat("&")
		n, err := p.postfix()
		if err != nil {
			return nil, err
		}
		parts = append(parts, n)
	}
	if len(parts) == 1 {
		return first, nil
	}
	return &Type{Kind: KInter, Parts: parts}, nil
}

func (p *parser) postfix() (*Type, error) {
	t, err := p.primary()
	if err != nil {
		return nil, err
	}
	for {
		save := p.pos
		if p.eat("[") {
			if p.eat("]") {
				t = &Type{Kind: KArray, Elem: t}
				continue
			}
			p.pos = save
		}
		break
	}
	return t, nil
}

func (p *parser) primary() (*Type, error) {
	switch c := p.peek(); {
	case c == '(':
		p.eat("(")
		t, err := p.typ()
		if err != nil {
			return nil, err
		}
		if !p.eat(")") {
			return nil, fmt.Errorf("expected ) at %d", p.pos)
		}
		return t, nil
	case c == '{':
		return p.object()
	case c == '"' || c == '\'':
		s, ok := p.strLit()
		if !ok {
			return nil, fmt.Errorf("bad string literal at %d", p.pos)
		}
		b, _ := json.Marshal(s)
		return &Type{Kind: KLit, Name: string(b)}, nil
	case c == '-' || (c >= '0' && c <= '9'):
		start := p.pos
		p.pos++
		for p.pos < len(p.s) && (p.s[p.pos] == '.' || (p.s[p.pos] >= '0' && p.s[p.pos] <= '9')) {
			p.pos++
		}
		return &Type{Kind: KLit, Name: p.s[start:p.pos]}, nil
	}
	id := p.ident()
	if id == "" {
		return nil, fmt.Errorf("unexpected %q at %d", string(p.peek()), p.pos)
	}
	switch id {
	case "string", "number", "boolean", "null", "unknown", "any", "undefined":
		return &Type{Kind: KPrim, Name: id}, nil
	case "true", "false":
		return &Type{Kind: KLit, Name: id}, nil
	case "Record":
		if !p.eat("<") {
			return nil, fmt.Errorf("Record without <")
		}
		if _, err := p.typ(); err != nil { // key type
			return nil, err
		}
		if !p.eat(",") {
			return nil, fmt.Errorf("Record needs two arguments")
		}
		v, err := p.typ()
		if err != nil {
			return nil, err
		}
		if !p.eat(">") {
			return nil, fmt.Errorf("Record not closed")
		}
		return &Type{Kind: KRecord, Elem: v}, nil
	case "Array":
		if p.eat("<") {
			v, err := p.typ()
			if err != nil {
				return nil, err
			}
			if !p.eat(">") {
				return nil, fmt.Errorf("Array not closed")
			}
			return &Type{Kind: KArray, Elem: v}, nil
		}
	}
	if p.peek() == '<' {
		return nil, fmt.Errorf("generic type %s not supported", id)
	}
	return &Type{Kind: KRef, Name: id}, nil
}

func (p *parser) object() (*Type, error) {
	if !p.eat("{") {
		return nil, fmt.Errorf("expected {")
	}
	t := &Type{Kind: KObject}
	for {
		if p.eat("}") {
			return t, nil
		}
		var name string
		if c := p.peek(); c == '"' || c == '\'' {
			s, ok := p.strLit()
			if !ok {
				return nil, fmt.Errorf("bad member name")
			}
			name = s
		} else {
			name = p.ident()
			if name == "readonly" && p.peek() != ':' && p.peek() != '?' {
				name = p.ident()
			}
		}
		if name == "" {
			return nil, fmt.Errorf("expected member name at %d (%q)", p.pos, snippet(p.s, p.pos))
		}
		opt := p.eat("?")
		if !p.eat(":") {
			return nil, fmt.Errorf("expected : after member %s", name)
		}
		mt, err := p.typ()
		if err != nil {
			return nil, err
		}
		t.Members = append(t.Members, Member{Name: name, Optional: opt, T: mt})
		if !p.eat(";") {
			p.eat(",")
		}
	}
}

func snippet(s string, pos int) string {
	e := pos + 30
	if e > len(s) {
		e = len(s)
	}
	return s[pos:e]
}

// Parse reads all `export interface` / `export type` declarations of a module and the
// request/result types of client methods (`async name(req: T, …): Promise<U>`) and handler
// interface methods (`name(ctx: ServerContext, req: T): Promise<U>`).
func Parse(src string) *Module {
	m := &Module{Types: map[string]*Type{}, Methods: map[string][2]string{}}
	lines := strings.Split(src, "\n")
	for i := 0; i < len(lines); i++ {
		line := lines[i]
		switch {
		case strings.HasPrefix(line, "export interface "):
			name := strings.Fields(strings.TrimPrefix(line, "export interface "))[0]
			name = strings.TrimSuffix(name, "{")
			// collect until the closing brace at column 0
			j := i
			for j < len(lines) && lines[j] != "}" {
				j++
			}
			body := strings.Join(lines[i:j+1], "\n")
			brace := strings.Index(body, "{")
			if brace < 0 {
				m.Unparsed = append(m.Unparsed, name)
				continue
			}
			if isInfraType(name) {
				i = j
				continue
			}
			if strings.HasSuffix(name, "Handler") {
				// handler interface: method signatures
				for _, l := range lines[i+1 : j] {
					parseSig(strings.TrimSpace(l), m)
				}
				i = j
				continue
			}
			p := &parser{s: body[brace:]}
			t, err := p.object()
			if err != nil {
				m.Unparsed = append(m.Unparsed, name+": "+err.Error())
			} else {
				m.Types[name] = t
				m.Order = append(m.Order, name)
			}
			i = j
		case strings.HasPrefix(line, "export type "):
			rest := strings.TrimPrefix(line, "export type ")
			eq := strings.Index(rest, "=")
			if eq < 0 {
				continue
			}
			name := strings.TrimSpace(rest[:eq])
			// collect until a line ending with ';' at nesting depth 0
			j := i
			acc := rest[eq+1:]
			for !strings.HasSuffix(strings.TrimSpace(lines[j]), ";") && j+1 < len(lines) {
				j++
				acc += "\n" + lines[j]
			}
			acc = strings.TrimSuffix(strings.TrimSpace(acc), ";")
			p := &parser{s: acc}
			t, err := p.typ()
			p.ws()
			if err == nil && p.pos < len(p.s) {
				err = fmt.Errorf("trailing %q", snippet(p.s, p.pos))
			}
			if err != nil {
				m.Unparsed = append(m.Unparsed, name+": "+err.Error())
			} else {
				m.Types[name] = t
				m.Order = append(m.Order, name)
			}
			i = j
		case strings.HasPrefix(strings.TrimSpace(line), "async "):
			parseSig(strings.TrimPrefix(strings.TrimSpace(line), "async "), m)
		}
	}
	return m
}

// isInfraType: helper declarations of the emitted runtime (not message types); they use
// function types / typeof and are outside the message-type subset.
func isInfraType(name string) bool {
	for _, suf := range []string{"ClientOptions", "CallOptions"} {
		if strings.HasSuffix(name, suf) {
			return true
		}
	}
	switch name {
	case "ServerOptions", "RouteDescriptor", "ServerContext", "HeaderConfig":
		return true
	}
	return false
}

// parseSig reads `name(a: T, b?: U): Promise<R>` and records (last non-options param type, R).
func parseSig(l string, m *Module) {
	op := strings.Index(l, "(")
	cp := strings.LastIndex(l, "): Promise<")
	if op <= 0 || cp < 0 {
		return
	}
	name := strings.TrimSpace(l[:op])
	if strings.ContainsAny(name, " .=") {
		return
	}
	params := l[op+1 : cp]
	res := strings.TrimSuffix(strings.TrimSuffix(strings.TrimSpace(l[cp+len("): Promise<"):]), "{"), ";")
	res = strings.TrimSpace(res)
	res = strings.TrimSuffix(res, ">")
	reqT := ""
	for _, prm := range strings.Split(params, ",") {
		kv := strings.SplitN(prm, ":", 2)
		if len(kv) != 2 {
			continue
		}
		pn := strings.TrimSpace(strings.TrimSuffix(strings.TrimSpace(kv[0]), "?"))
		if pn == "req" {
			reqT = strings.TrimSpace(kv[1])
		}
	}
	if reqT != "" {
		m.Methods[name] = [2]string{reqT, res}
	}
}

// Problem is one way a value fails to inhabit a type.
type Problem struct {
	Path    string
	Symptom string // missing-property | default-elided-property | wrong-type | undeclared-property | literal-mismatch | null-not-allowed | no-union-member | unknown-type
	Detail  string
}

// Checker decides membership.
type Checker struct {
	M *Module
}

func jsType(v any) string {
	switch v.(type) {
	case nil:
		return "null"
	case bool:
		return "boolean"
	case string:
		return "string"
	case json.Number, float64:
		return "number"
	case []any:
		return "array"
	case map[string]any:
		return "object"
	}
	return "?"
}

// defaultElidable: proto3 JSON omits default scalars, empty lists and maps.
func (c *Checker) defaultElidable(t *Type, depth int) bool {
	if depth > 8 {
		return false
	}
	switch t.Kind {
	case KPrim:
		return t.Name == "string" || t.Name == "number" || t.Name == "boolean"
	case KArray, KRecord:
		return true
	case KLit:
		return true
	case KUnion:
		for _, p := range t.Parts {
			if !c.defaultElidable(p, depth+1) {
				return false
			}
		}
		return true
	case KRef:
		if r, ok := c.M.Types[t.Name]; ok {
			return r.Kind != KObject && r.Kind != KInter && c.defaultElidable(r, depth+1)
		}
	}
	return false
}

// Check returns the problems of value v against type t (empty = inhabits).
func (c *Checker) Check(v any, t *Type) []Problem {
	var out []Problem
	c.check(v, t, "", true, &out, 0)
	return out
}

// CheckNamed checks against a named type.
func (c *Checker) CheckNamed(v any, name string) []Problem {
	t, ok := c.M.Types[name]
	if !ok {
		// array / record spelled inline in a signature
		p := &parser{s: name}
		pt, err := p.typ()
		if err != nil {
			return []Problem{{"", "unknown-type", name}}
		}
		t = pt
	}
	return c.Check(v, t)
}

func (c *Checker) resolve(t *Type, depth int) *Type {
	for t != nil && t.Kind == KRef && depth < 16 {
		r, ok := c.M.Types[t.Name]
		if !ok {
			return t
		}
		t = r
		depth++
	}
	return t
}

// declared returns the property names an object-ish type allows for value v (nil = not an object type).
func (c *Checker) declared(v map[string]any, t *Type, depth int) (map[string]bool, bool) {
	t = c.resolve(t, 0)
	if t == nil || depth > 16 {
		return nil, false
	}
	switch t.Kind {
	case KObject:
		m := map[string]bool{}
		for _, mem := range t.Members {
			m[mem.Name] = true
		}
		return m, true
	case KInter:
		m := map[string]bool{}
		any := false
		for _, p := range t.Parts {
			if d, ok := c.declared(v, p, depth+1); ok {
				any = true
				for k := range d {
					m[k] = true
				}
			}
		}
		return m, any
	case KUnion:
		// keys of the alternatives that accept v when excess properties are ignored
		m := map[string]bool{}
		any := false
		for _, p := range t.Parts {
			var probs []Problem
			c.check(v, p, "", false, &probs, depth+1)
			if len(probs) == 0 {
				if d, ok := c.declared(v, p, depth+1); ok {
					any = true
					for k := range d {
						m[k] = true
					}
				}
			}
		}
		if !any {
			for _, p := range t.Parts {
				if d, ok := c.declared(v, p, depth+1); ok {
					any = true
					for k := range d {
						m[k] = true
					}
				}
			}
		}
		return m, any
	case KRecord:
		return nil, false
	}
	return nil, false
}

func (c *Checker) check(v any, t *Type, path string, excess bool, out *[]Problem, depth int) {
	if depth > 64 {
		return
	}
	add := func(sym, det string) { *out = append(*out, Problem{Path: path, Symptom: sym, Detail: det}) }
	switch t.Kind {
	case KPrim:
		switch t.Name {
		case "any", "unknown":
			return
		case "undefined":
			add("wrong-type", "undefined expected")
			return
		}
		if jsType(v) != t.Name {
			if v == nil {
				add("null-not-allowed", "declared "+t.Name)
			} else {
				add("wrong-type", "declared "+t.Name+", wire "+jsType(v))
			}
		}
	case KLit:
		b, _ := json.Marshal(v)
		if string(b) != t.Name {
			add("literal-mismatch", "declared literal, wire "+jsType(v))
		}
	case KRef:
		r, ok := c.M.Types[t.Name]
		if !ok {
			add("unknown-type", t.Name)
			return
		}
		c.check(v, r, path, excess, out, depth+1)
	case KArray:
		arr, ok := v.([]any)
		if !ok {
			add("wrong-type", "declared array, wire "+jsType(v))
			return
		}
		for i, e := range arr {
			c.check(e, t.Elem, fmt.Sprintf("%s/%d", path, i), true, out, depth+1)
		}
	case KRecord:
		obj, ok := v.(map[string]any)
		if !ok {
			add("wrong-type", "declared Record, wire "+jsType(v))
			return
		}
		for _, k := range sortedKeys(obj) {
			c.check(obj[k], t.Elem, path+"/"+k, true, out, depth+1)
		}
	case KObject:
		obj, ok := v.(map[string]any)
		if !ok {
			if v == nil {
				add("null-not-allowed", "declared object")
			} else {
				add("wrong-type", "declared object, wire "+jsType(v))
			}
			return
		}
		for _, mem := range t.Members {
			mv, present := obj[mem.Name]
			if !present {
				if !mem.Optional {
					if c.defaultElidable(mem.T, 0) {
						*out = append(*out, Problem{Path: path + "/" + mem.Name, Symptom: "default-elided-property", Detail: "required property absent (proto3 default elision)"})
					} else {
						*out = append(*out, Problem{Path: path + "/" + mem.Name, Symptom: "missing-property", Detail: "required property absent"})
					}
				}
				continue
			}
			c.check(mv, mem.T, path+"/"+mem.Name, true, out, depth+1)
		}
		if excess {
			decl := map[string]bool{}
			for _, mem := range t.Members {
				decl[mem.Name] = true
			}
			for _, k := range sortedKeys(obj) {
				if !decl[k] {
					*out = append(*out, Problem{Path: path + "/" + k, Symptom: "undeclared-property", Detail: "wire property not declared by the type at this position"})
				}
			}
		}
	case KUnion:
		var best []Problem
		bestSet := false
		// discriminated unions: prefer the alternatives whose literal-typed members match
		cands := t.Parts
		if obj, isObj := v.(map[string]any); isObj {
			var match []*Type
			for _, p := range t.Parts {
				rp := c.resolve(p, 0)
				if rp == nil || rp.Kind != KObject {
					continue
				}
				ok, hasLit := true, false
				for _, mem := range rp.Members {
					if mt := c.resolve(mem.T, 0); mt != nil && mt.Kind == KLit {
						hasLit = true
						b, _ := json.Marshal(obj[mem.Name])
						if string(b) != mt.Name {
							ok = false
						}
					}
				}
				if hasLit && ok {
					match = append(match, p)
				}
			}
			if len(match) > 0 {
				cands = match
			}
		}
		for _, p := range cands {
			var probs []Problem
			c.check(v, p, path, excess, &probs, depth+1)
			if len(probs) == 0 {
				return
			}
			if !bestSet || len(probs) < len(best) {
				best, bestSet = probs, true
			}
		}
		// report the closest alternative's problems, tagged
		allLit := true
		for _, p := range t.Parts {
			if c.resolve(p, 0).Kind != KLit {
				allLit = false
			}
		}
		if allLit {
			add("literal-mismatch", "value outside the declared literal union")
			return
		}
		if v == nil {
			add("null-not-allowed", "no union member accepts null")
			return
		}
		*out = append(*out, best...)
	case KInter:
		for _, p := range t.Parts {
			c.check(v, p, path, false, out, depth+1)
		}
		if excess {
			if obj, ok := v.(map[string]any); ok {
				if decl, ok := c.declared(obj, t, depth+1); ok {
					for _, k := range sortedKeys(obj) {
						if !decl[k] {
							*out = append(*out, Problem{Path: path + "/" + k, Symptom: "undeclared-property", Detail: "wire property not declared by any part of the intersection"})
						}
					}
				}
			}
		}
	}
}

func sortedKeys(m map[string]any) []string {
	ks := make([]string, 0, len(m))
	for k := range m {
		ks = append(ks, k)
	}
	sort.Strings(ks)
	return ks
}
