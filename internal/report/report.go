// Package report collects decided cases and finding candidates of one check run, matches
// candidates against /verif/known_findings.jsonl, prints the output contract lines,
// writes replay files and the evidence file.
package report

import (
	"bufio"
	"crypto/sha256"
	"encoding/hex"
	"encoding/json"
	"fmt"
	"os"
	"path/filepath"
	"regexp"
	"sort"
	"strings"
	"sync"
	"time"
)

// VerifDir is /verif (where known findings, evidence and replays live).
var VerifDir = func() string {
	if v := os.Getenv("VERIF_DIR"); v != "" {
		return v
	}
	return "/verif"
}()

// Known is one entry of known_findings.jsonl.
type Known struct {
	Property string `json:"property"`
	Case     string `json:"case"`             // glob over the abstract case id ('*' matches anything)
	Symptom  string `json:"symptom"`          // exact symptom class, or '*'
	Detail   string `json:"detail,omitempty"` // optional glob over the normalised detail
	NotDetail string `json:"not_detail,omitempty"` // optional glob: the entry does not apply when the detail matches it
	What     string `json:"what"`
	Status   string `json:"status"` // open | fixed
	Commit   string `json:"commit,omitempty"`
	Repro    string `json:"repro,omitempty"`

	reCase, reDetail, reNotDetail *regexp.Regexp
}

func glob(p string) *regexp.Regexp {
	// '*' matches anything; {a,b,c} is alternation; everything else is literal
	var b strings.Builder
	b.WriteString("(?s)^")
	i := 0
	for i < len(p) {
		switch p[i] {
		case '*':
			b.WriteString(".*")
			i++
		case '{':
			j := strings.IndexByte(p[i:], '}')
			if j < 0 {
				b.WriteString(regexp.QuoteMeta(p[i:]))
				i = len(p)
				break
			}
			alts := strings.Split(p[i+1:i+j], ",")
			for k := range alts {
				alts[k] = regexp.QuoteMeta(alts[k])
			}
			b.WriteString("(?:" + strings.Join(alts, "|") + ")")
			i += j + 1
		default:
			b.WriteString(regexp.QuoteMeta(string(p[i])))
			i++
		}
	}
	b.WriteString("$")
	return regexp.MustCompile(b.String())
}

// LoadKnown reads the committed known-findings file.
func LoadKnown() ([]*Known, error) {
	f, err := os.Open(filepath.Join(VerifDir, "known_findings.jsonl"))
	if err != nil {
		if os.IsNotExist(err) {
			return nil, nil
		}
		return nil, err
	}
	defer f.Close()
	var out []*Known
	sc := bufio.NewScanner(f)
	sc.Buffer(make([]byte, 1<<20), 1<<20)
	ln := 0
	for sc.Scan() {
		ln++
		line := strings.TrimSpace(sc.Text())
		if line == "" || strings.HasPrefix(line, "#") {
			continue
		}
		k := &Known{}
		if err := json.Unmarshal([]byte(line), k); err != nil {
			return nil, fmt.Errorf("known_findings.jsonl:%d: %w", ln, err)
		}
		k.reCase = glob(k.Case)
		if k.Detail != "" {
			k.reDetail = glob(k.Detail)
		}
		if k.NotDetail != "" {
			k.reNotDetail = glob(k.NotDetail)
		}
		out = append(out, k)
	}
	return out, sc.Err()
}

// Finding is a refuted expectation.
type Finding struct {
	Case    string `json:"case"`
	Symptom string `json:"symptom"`
	Detail  string `json:"detail,omitempty"`
	Replay  any    `json:"replay,omitempty"`
	Count   int    `json:"count"`
}

// group is the case id without its "@<value class>" suffix.
func group(caseID string) string {
	if i := strings.Index(caseID, "@"); i >= 0 {
		return caseID[:i]
	}
	return caseID
}

func (f *Finding) sig(prop string) string {
	s := prop + "|" + f.Case + "|" + f.Symptom
	if f.Detail != "" {
		s += "|" + f.Detail
	}
	return s
}

// Run accumulates one check execution.
type Run struct {
	Prop  string
	Tier  string
	Seed  int64
	Level string
	Rule  string

	start    time.Time
	mu       sync.Mutex
	evals    int64
	decided  map[string]bool
	findings map[string]*Finding
	order    []string
	incon    map[string]string
	counters map[string]int64
	samples  []any
	extra    map[string]any
	assume   []string
	harness  []string
}

// New starts a run.
func New(prop, tier string, seed int64) *Run {
	return &Run{Prop: prop, Tier: tier, Seed: seed, Level: "exploration", start: time.Now(),
		decided: map[string]bool{}, findings: map[string]*Finding{}, incon: map[string]string{},
		counters: map[string]int64{}, extra: map[string]any{}}
}

// Eval counts executions performed.
func (r *Run) Eval(n int) { r.mu.Lock(); r.evals += int64(n); r.mu.Unlock() }

// Count bumps a named observation counter.
func (r *Run) Count(name string, n int) { r.mu.Lock(); r.counters[name] += int64(n); r.mu.Unlock() }

// Decided marks an abstract case as decided (the monitor observed what the oracle needs).
func (r *Run) Decided(caseID string) { r.mu.Lock(); r.decided[caseID] = true; r.mu.Unlock() }

// Inconclusive marks a case the harness could not observe.
func (r *Run) Inconclusive(caseID, reason string) {
	r.mu.Lock()
	r.incon[caseID] = reason
	r.mu.Unlock()
}

// Harness records a harness fault (exit 2).
func (r *Run) Harness(msg string) { r.mu.Lock(); r.harness = append(r.harness, msg); r.mu.Unlock() }

// Sample keeps up to 6 written-out cases for the evidence file.
func (r *Run) Sample(s any) {
	r.mu.Lock()
	if len(r.samples) < 6 {
		r.samples = append(r.samples, s)
	}
	r.mu.Unlock()
}

// Set stores an extra coverage key.
func (r *Run) Set(k string, v any) { r.mu.Lock(); r.extra[k] = v; r.mu.Unlock() }

// Assume records a trusted-base statement.
func (r *Run) Assume(s string) { r.assume = append(r.assume, s) }

// Violate records a finding candidate for a case.
func (r *Run) Violate(caseID, symptom, detail string, replay any) {
	detail = Normalise(detail)
	f := &Finding{Case: caseID, Symptom: symptom, Detail: detail, Replay: replay}
	s := f.sig(r.Prop)
	r.mu.Lock()
	defer r.mu.Unlock()
	r.decided[caseID] = true
	if old, ok := r.findings[s]; ok {
		old.Count++
		return
	}
	f.Count = 1
	r.findings[s] = f
	r.order = append(r.order, s)
}

var (
	reQuoted = regexp.MustCompile(`"[^"]*"|'[^']*'|` + "`[^`]*`")
	rePos    = regexp.MustCompile(`[\w./-]+\.(go|ts|mjs):\d+(:\d+)?:?`)
	reNum    = regexp.MustCompile(`\b\d+\b`)
	reHex    = regexp.MustCompile(`0x[0-9a-fA-F]+`)
	reSpace  = regexp.MustCompile(`\s+`)
	rePkg    = regexp.MustCompile(`\b[a-z]\d\d[a-z]?f\d{3}[a-z]*\b`)
	reSel    = regexp.MustCompile(`\b(x|req|m|msg)\.[A-Z]\w*`)
	reFieldName = regexp.MustCompile(`\bfield [\w.]+`)
)

// Normalise erases positions, literals and numbers from a tool message.
func Normalise(s string) string {
	if s == "" {
		return s
	}
	if strings.HasPrefix(s, "role:") {
		return s // coordinate paths are already free of concrete names and values
	}
	if i := strings.IndexByte(s, '\n'); i >= 0 {
		s = s[:i]
	}
	s = strings.ReplaceAll(s, "\u00a0", " ")
	// value-dependent tails of decoder messages (raw bytes of the offending token)
	for _, cut := range []string{"invalid value", "invalid character", "unexpected token", "invalid UTF-"} {
		if i := strings.Index(s, cut); i >= 0 {
			s = s[:i+len(cut)]
		}
	}
	s = rePos.ReplaceAllString(s, "")
	s = rePkg.ReplaceAllString(s, "PKG")
	s = reSel.ReplaceAllString(s, "x.F")
	s = reFieldName.ReplaceAllString(s, "field F")
	s = reQuoted.ReplaceAllString(s, "Q")
	s = reHex.ReplaceAllString(s, "N")
	s = reNum.ReplaceAllString(s, "N")
	s = reSpace.ReplaceAllString(s, " ")
	s = strings.TrimSpace(s)
	if len(s) > 160 {
		s = s[:160]
	}
	return s
}

func (k *Known) matches(prop string, f *Finding) bool {
	if k.Property != prop {
		return false
	}
	if k.Symptom != "*" {
		ok := false
		for _, alt := range strings.Split(k.Symptom, "|") {
			if alt == f.Symptom {
				ok = true
			}
		}
		if !ok {
			return false
		}
	}
	if !k.reCase.MatchString(f.Case) {
		return false
	}
	if k.reDetail != nil && !k.reDetail.MatchString(f.Detail) {
		return false
	}
	if k.reNotDetail != nil && k.reNotDetail.MatchString(f.Detail) {
		return false
	}
	return true
}

// Finish prints verdict lines, writes replays + evidence and returns the exit code.
func (r *Run) Finish() int {
	known, kerr := LoadKnown()
	if kerr != nil {
		r.harness = append(r.harness, "known_findings.jsonl unreadable: "+kerr.Error())
	}
	r.mu.Lock()
	defer r.mu.Unlock()

	var newSigs []string
	knownSeen := map[*Known]int{}
	for _, s := range r.order {
		f := r.findings[s]
		var hit *Known
		for _, k := range known {
			if k.Status == "open" && k.matches(r.Prop, f) {
				hit = k
				break
			}
		}
		if hit != nil {
			knownSeen[hit] += f.Count
			continue
		}
		newSigs = append(newSigs, s)
	}
	for _, k := range known {
		if k.Property != r.Prop || k.Status != "open" {
			continue
		}
		if n := knownSeen[k]; n > 0 {
			fmt.Printf("KNOWN-FINDING: property=%s %s [case=%s symptom=%s observed=%d]\n", r.Prop, k.What, k.Case, k.Symptom, n)
		} else {
			fmt.Printf("NOTE property=%s known finding not re-observed this run: %s [case=%s]\n", r.Prop, k.What, k.Case)
		}
	}
	sort.Strings(newSigs)
	exit := 0
	// group new signatures by (case without value class, symptom, detail): one VIOLATION line
	// and one replay file per group; the replay lists every member.
	_ = os.RemoveAll(filepath.Join(VerifDir, "replays", r.Prop)) // replays of earlier runs are stale
	groups := map[string][]string{}
	var gorder []string
	for _, s := range newSigs {
		f := r.findings[s]
		g := r.Prop + "|" + group(f.Case) + "|" + f.Symptom
		if f.Detail != "" {
			g += "|" + f.Detail
		}
		if _, ok := groups[g]; !ok {
			gorder = append(gorder, g)
		}
		groups[g] = append(groups[g], s)
	}
	for _, g := range gorder {
		members := groups[g]
		first := r.findings[members[0]]
		var cases []string
		total := 0
		for _, s := range members {
			cases = append(cases, r.findings[s].Case)
			total += r.findings[s].Count
		}
		h := sha256.Sum256([]byte(g))
		dir := filepath.Join(VerifDir, "replays", r.Prop)
		_ = os.MkdirAll(dir, 0o755)
		p := filepath.Join(dir, hex.EncodeToString(h[:6])+".json")
		body, _ := json.MarshalIndent(map[string]any{
			"property": r.Prop, "signature": g, "case": first.Case, "cases": cases, "symptom": first.Symptom, "detail": first.Detail,
			"count": total, "seed": r.Seed, "tier": r.Tier, "replay": first.Replay,
		}, "", " ")
		_ = os.WriteFile(p, body, 0o644)
		fmt.Printf("VIOLATION property=%s replay=%s signature=%q members=%d\n", r.Prop, p, g, len(members))
		exit = 1
	}
	if len(r.incon) > 0 {
		reasons := map[string]int{}
		for _, why := range r.incon {
			reasons[why]++
		}
		var rs []string
		for why, n := range reasons {
			rs = append(rs, fmt.Sprintf("%s(%d)", why, n))
		}
		sort.Strings(rs)
		fmt.Printf("INCONCLUSIVE property=%s cases=%d reason=%s\n", r.Prop, len(r.incon), strings.Join(rs, ";"))
		if os.Getenv("VERIF_DEBUG") != "" {
			var ids []string
			for id, why := range r.incon {
				ids = append(ids, id+" <= "+why)
			}
			sort.Strings(ids)
			for _, id := range ids {
				fmt.Println("  inconclusive:", id)
			}
		}
	}
	held := 0
	failing := map[string]bool{}
	for _, f := range r.findings {
		failing[f.Case] = true
	}
	for c := range r.decided {
		if !failing[c] {
			held++
		}
	}
	nKnown := len(r.findings) - len(newSigs)
	fmt.Printf("SUMMARY property=%s tier=%s seed=%d evaluations=%d decided=%d held=%d known=%d new=%d inconclusive=%d wall=%.1fs\n",
		r.Prop, r.Tier, r.Seed, r.evals, len(r.decided), held, nKnown, len(newSigs), len(r.incon), time.Since(r.start).Seconds())

	if len(r.decided) < 2 && exit == 0 {
		r.harness = append(r.harness, fmt.Sprintf("run decided only %d cases: nothing observed", len(r.decided)))
	}
	// evidence
	cov := map[string]any{
		"evaluations":         r.evals,
		"distinct_nontrivial": len(r.decided),
		"rule":                r.Rule,
		"samples":             r.samples,
		"cases_held":          held,
		"cases_known_finding": nKnown,
		"cases_new_violation": len(newSigs),
		"inconclusive":        len(r.incon),
		"observed":            r.counters,
	}
	if len(r.samples) == 0 {
		cov["samples"] = []any{"(no sample recorded)"}
	}
	for k, v := range r.extra {
		cov[k] = v
	}
	ev := map[string]any{
		"property_id": r.Prop, "tier": r.Tier, "seed": r.Seed, "level": r.Level,
		"coverage": cov, "assumptions": r.assume, "wall_s": time.Since(r.start).Seconds(),
		"violations": len(newSigs),
	}
	if ev["assumptions"] == nil {
		ev["assumptions"] = []string{}
	}
	_ = os.MkdirAll(filepath.Join(VerifDir, "evidence"), 0o755)
	body, _ := json.MarshalIndent(ev, "", " ")
	if err := os.WriteFile(filepath.Join(VerifDir, "evidence", r.Prop+".json"), body, 0o644); err != nil {
		r.harness = append(r.harness, "cannot write evidence: "+err.Error())
	}
	if len(r.harness) > 0 {
		for _, h := range r.harness {
			fmt.Printf("HARNESS-ERROR property=%s %s\n", r.Prop, h)
		}
		if exit == 0 {
			exit = 2
		}
	}
	return exit
}
