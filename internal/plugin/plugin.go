// Package plugin builds the sebuf plugins from /repo's working tree and runs them as
// child processes on CodeGeneratorRequests, under a watchdog and an address-space cap.
package plugin

import (
	"bytes"
	"context"
	"crypto/sha256"
	"encoding/hex"
	"fmt"
	"os"
	"os/exec"
	"path/filepath"
	"sort"
	"strings"
	"sync"
	"sync/atomic"
	"syscall"
	"time"

	"google.golang.org/protobuf/proto"
	"google.golang.org/protobuf/types/pluginpb"
)

// Sebuf plugin short names.
var Sebuf = []string{"go-http", "go-client", "ts-client", "ts-server", "openapiv3"}

// RepoDir is where the subject lives.
var RepoDir = envOr("VERIF_REPO", "/repo")

func envOr(k, d string) string {
	if v := os.Getenv(k); v != "" {
		return v
	}
	return d
}

// GoBin locates the pinned toolchain.
func GoBin() string {
	cands := []string{
		os.Getenv("VERIF_GO"),
		"/root/go/pkg/mod/golang.org/toolchain@v0.0.1-go1.24.7.linux-amd64/bin/go",
	}
	for _, c := range cands {
		if c == "" {
			continue
		}
		if st, err := os.Stat(c); err == nil && !st.IsDir() {
			return c
		}
	}
	if p, err := exec.LookPath("go1.26"); err == nil {
		return p
	}
	return "go"
}

// GoEnv is the offline environment for every go invocation.
func GoEnv() []string {
	env := os.Environ()
	out := env[:0:0]
	for _, e := range env {
		if strings.HasPrefix(e, "GOFLAGS=") || strings.HasPrefix(e, "GOPROXY=") || strings.HasPrefix(e, "GOSUMDB=") || strings.HasPrefix(e, "GOTOOLCHAIN=") || strings.HasPrefix(e, "GOWORK=") {
			continue
		}
		out = append(out, e)
	}
	return append(out, "GOFLAGS=-mod=mod", "GOPROXY=off", "GOSUMDB=off", "GOTOOLCHAIN=local", "GOWORK=off")
}

// Toolbox holds built plugin binaries.
type Toolbox struct {
	Scratch string
	Bin     string
	Runs    atomic.Int64
	mu      sync.Mutex
	walls   map[string][]time.Duration
}

// Sub returns a toolbox that uses the same plugin binaries with a scratch directory of its own
// (one per pass of a multi-pass run, so labs and logs of different passes never collide).
func (t *Toolbox) Sub(dir string) (*Toolbox, error) {
	if err := os.MkdirAll(dir, 0o755); err != nil {
		return nil, err
	}
	return &Toolbox{Scratch: dir, Bin: t.Bin, walls: map[string][]time.Duration{}}, nil
}

// NewScratch creates the per-process scratch directory (outside /repo, /verif, /tmp).
func NewScratch() (string, error) {
	base := envOr("VERIF_SCRATCH", "/var/tmp")
	// sweep scratch directories of dead processes (a crashed run cannot clean up after itself)
	if ents, err := os.ReadDir(base); err == nil {
		for _, e := range ents {
			var pid int
			if n, _ := fmt.Sscanf(e.Name(), "sebuf-verif.%d", &pid); n == 1 && pid != os.Getpid() {
				if err := syscall.Kill(pid, 0); err != nil {
					_ = os.RemoveAll(filepath.Join(base, e.Name()))
				}
			}
		}
	}
	guardBuildCache(base)
	d := filepath.Join(base, fmt.Sprintf("sebuf-verif.%d", os.Getpid()))
	if err := os.MkdirAll(d, 0o755); err != nil {
		return "", err
	}
	return d, nil
}

// runLock is held (shared) for the life of the process; see guardBuildCache.
var runLock *os.File

// guardBuildCache keeps the Go build cache from filling the disk: every generated package of every
// lab is a new cache entry (field names are seeded), and Go only trims entries after days. Each
// driver process holds a shared lock on <scratch>/sebuf-verif.lock; a process that finds less than
// 30 GiB free (or VERIF_CACHE_MIN_FREE_GB) on the cache's file system and can take the lock
// exclusively — i.e. no other check is building — empties the cache before it starts.
func guardBuildCache(base string) {
	lf, err := os.OpenFile(filepath.Join(base, "sebuf-verif.lock"), os.O_CREATE|os.O_RDWR, 0o644)
	if err != nil {
		return
	}
	runLock = lf
	defer func() { _ = syscall.Flock(int(lf.Fd()), syscall.LOCK_SH) }()
	out, err := exec.Command(GoBin(), "env", "GOCACHE").Output()
	cache := strings.TrimSpace(string(out))
	if err != nil || cache == "" || cache == "off" {
		return
	}
	var st syscall.Statfs_t
	if syscall.Statfs(cache, &st) != nil {
		return
	}
	minFree := uint64(30)
	if v := os.Getenv("VERIF_CACHE_MIN_FREE_GB"); v != "" {
		fmt.Sscanf(v, "%d", &minFree)
	}
	if st.Bavail*uint64(st.Bsize) >= minFree<<30 {
		return
	}
	if syscall.Flock(int(lf.Fd()), syscall.LOCK_EX|syscall.LOCK_NB) != nil {
		return // another check is running: leave the cache alone
	}
	cmd := exec.Command(GoBin(), "clean", "-cache")
	cmd.Env = GoEnv()
	_ = cmd.Run()
	fmt.Println("NOTE build cache emptied (low disk space)")
}

// Build compiles the five plugins from RepoDir's working tree plus protoc-gen-go.
func Build(scratch string) (*Toolbox, error) {
	bin := filepath.Join(scratch, "bin")
	if err := os.MkdirAll(bin, 0o755); err != nil {
		return nil, err
	}
	tags := os.Getenv("VERIF_REPO_TAGS") // hooks guard (unused by default)
	args := []string{"build", "-mod=readonly", "-o", bin + "/"}
	if tags != "" {
		args = append(args, "-tags", tags)
	}
	args = append(args, "./cmd/...")
	cmd := exec.Command(GoBin(), args...)
	cmd.Dir = RepoDir
	cmd.Env = GoEnv()
	if out, err := cmd.CombinedOutput(); err != nil {
		return nil, fmt.Errorf("building plugins from %s failed: %v\n%s", RepoDir, err, out)
	}
	cmd = exec.Command(GoBin(), "build", "-mod=readonly", "-o", filepath.Join(bin, "protoc-gen-go"), "google.golang.org/protobuf/cmd/protoc-gen-go")
	cmd.Dir = RepoDir
	cmd.Env = GoEnv()
	if out, err := cmd.CombinedOutput(); err != nil {
		return nil, fmt.Errorf("building protoc-gen-go failed: %v\n%s", err, out)
	}
	return &Toolbox{Scratch: scratch, Bin: bin, walls: map[string][]time.Duration{}}, nil
}

// Result of one plugin execution.
type Result struct {
	Plugin   string
	Exit     int
	Crash    string // "", "panic", "oom", "timeout", "badoutput", "signal"
	Stderr   string
	Error    string            // CodeGeneratorResponse.error ("" if none)
	HasError bool              // error field set
	Files    map[string]string // name -> content
	Order    []string          // file names in response order
	Wall     time.Duration
	MaxRSSKB int64
	Features uint64
}

// Names returns sorted file names.
func (r *Result) Names() []string {
	ns := make([]string, 0, len(r.Files))
	for n := range r.Files {
		ns = append(ns, n)
	}
	sort.Strings(ns)
	return ns
}

// Hash returns sha256 of a file's content.
func Hash(s string) string {
	h := sha256.Sum256([]byte(s))
	return hex.EncodeToString(h[:8])
}

// OK reports a clean response (no crash, no error).
func (r *Result) OK() bool { return r.Crash == "" && !r.HasError }

// RunOpt tunes one execution.
type RunOpt struct {
	Timeout   time.Duration // default 60s
	MemKB     int64         // ulimit -v, default 4 GiB
	Env       []string      // extra env (GOMAXPROCS…)
}

// Path returns the binary path of a plugin short name.
func (t *Toolbox) Path(name string) string {
	if name == "go" {
		return filepath.Join(t.Bin, "protoc-gen-go")
	}
	return filepath.Join(t.Bin, "protoc-gen-"+name)
}

// Run executes one plugin on one request.
func (t *Toolbox) Run(name string, req *pluginpb.CodeGeneratorRequest, opt RunOpt) *Result {
	in, err := proto.Marshal(req)
	if err != nil {
		return &Result{Plugin: name, Crash: "badinput", Stderr: err.Error()}
	}
	return t.RunRaw(name, in, opt)
}

// RunRaw executes one plugin on serialized request bytes.
func (t *Toolbox) RunRaw(name string, in []byte, opt RunOpt) *Result {
	t.Runs.Add(1)
	if opt.Timeout == 0 {
		opt.Timeout = 60 * time.Second
	}
	if opt.MemKB == 0 {
		opt.MemKB = 4 * 1024 * 1024
	}
	ctx, cancel := context.WithTimeout(context.Background(), opt.Timeout)
	defer cancel()
	cmd := exec.CommandContext(ctx, "sh", "-c", fmt.Sprintf("ulimit -v %d; exec %q", opt.MemKB, t.Path(name)))
	cmd.Env = append(os.Environ(), opt.Env...)
	cmd.Stdin = bytes.NewReader(in)
	var stdout, stderr bytes.Buffer
	cmd.Stdout = &stdout
	cmd.Stderr = &stderr
	cmd.SysProcAttr = &syscall.SysProcAttr{Setpgid: true}
	cmd.Cancel = func() error { return syscall.Kill(-cmd.Process.Pid, syscall.SIGKILL) }
	start := time.Now()
	err := cmd.Run()
	res := &Result{Plugin: name, Wall: time.Since(start), Files: map[string]string{}}
	if cmd.ProcessState != nil {
		res.Exit = cmd.ProcessState.ExitCode()
		if ru, ok := cmd.ProcessState.SysUsage().(*syscall.Rusage); ok {
			res.MaxRSSKB = ru.Maxrss
		}
	}
	se := stderr.String()
	if len(se) > 8192 {
		se = se[:4096] + "\n…\n" + se[len(se)-4096:]
	}
	res.Stderr = se
	if ctx.Err() == context.DeadlineExceeded {
		res.Crash = "timeout"
		return res
	}
	if strings.Contains(se, "fatal error: out of memory") || strings.Contains(se, "cannot allocate memory") || strings.Contains(se, "runtime: out of memory") {
		res.Crash = "oom"
		return res
	}
	if strings.Contains(se, "panic:") || strings.Contains(se, "fatal error:") || strings.Contains(se, "goroutine ") {
		res.Crash = "panic"
		return res
	}
	if err != nil {
		if res.Exit == -1 {
			res.Crash = "signal"
			return res
		}
	}
	var resp pluginpb.CodeGeneratorResponse
	if uerr := proto.Unmarshal(stdout.Bytes(), &resp); uerr != nil || (stdout.Len() == 0 && res.Exit != 0) {
		res.Crash = "badoutput"
		if uerr != nil {
			res.Stderr += "\nunmarshal: " + uerr.Error()
		}
		return res
	}
	if res.Exit != 0 {
		// non-zero exit with a parsable (possibly empty) response: protogen reports errors via
		// the response and exits 0; a non-zero exit is a failure without an answer.
		res.Crash = "exit"
		return res
	}
	if resp.Error != nil {
		res.HasError = true
		res.Error = resp.GetError()
	}
	res.Features = resp.GetSupportedFeatures()
	for _, f := range resp.File {
		n := f.GetName()
		if _, dup := res.Files[n]; dup || n == "" {
			// continuation chunks (empty name) or duplicates: append
			if n == "" && len(res.Order) > 0 {
				n = res.Order[len(res.Order)-1]
			}
			res.Files[n] += f.GetContent()
			if dup {
				res.Order = append(res.Order, n+"#dup")
			}
			continue
		}
		res.Files[n] = f.GetContent()
		res.Order = append(res.Order, n)
	}
	t.mu.Lock()
	if t.walls == nil {
		t.walls = map[string][]time.Duration{}
	}
	t.walls[name] = append(t.walls[name], res.Wall)
	t.mu.Unlock()
	return res
}

// Stats returns max wall and count per plugin.
func (t *Toolbox) Stats() map[string]any {
	t.mu.Lock()
	defer t.mu.Unlock()
	out := map[string]any{}
	for n, ws := range t.walls {
		var mx time.Duration
		for _, w := range ws {
			if w > mx {
				mx = w
			}
		}
		out[n] = map[string]any{"runs": len(ws), "max_wall_ms": mx.Milliseconds()}
	}
	return out
}

// Parallel runs fn over n items with at most width workers.
func Parallel(n, width int, fn func(i int)) {
	if width <= 0 {
		width = 16
	}
	var wg sync.WaitGroup
	ch := make(chan int)
	for w := 0; w < width; w++ {
		wg.Add(1)
		go func() {
			defer wg.Done()
			for i := range ch {
				fn(i)
			}
		}()
	}
	for i := 0; i < n; i++ {
		ch <- i
	}
	close(ch)
	wg.Wait()
}
