package spec

import (
	"fmt"
	"path"
	"strings"
	"unicode"

	validate "buf.build/gen/go/bufbuild/protovalidate/protocolbuffers/go/buf/validate"
	sebufhttp "github.com/SebastienMelki/sebuf/http"
	"google.golang.org/protobuf/proto"
	"google.golang.org/protobuf/reflect/protodesc"
	"google.golang.org/protobuf/reflect/protoreflect"
	"google.golang.org/protobuf/reflect/protoregistry"
	"google.golang.org/protobuf/types/descriptorpb"
	"google.golang.org/protobuf/types/pluginpb"

	_ "google.golang.org/protobuf/types/known/anypb"
	_ "google.golang.org/protobuf/types/known/durationpb"
	_ "google.golang.org/protobuf/types/known/emptypb"
	_ "google.golang.org/protobuf/types/known/fieldmaskpb"
	_ "google.golang.org/protobuf/types/known/structpb"
	_ "google.golang.org/protobuf/types/known/timestamppb"
	_ "google.golang.org/protobuf/types/known/wrapperspb"
)

// Paths under which the well-known imports appear in requests (as protoc would name them).
const (
	AnnotationsPath = "sebuf/http/annotations.proto"
	HeadersPath     = "sebuf/http/headers.proto"
	ErrorsPath      = "sebuf/http/errors.proto"
	ValidatePath    = "buf/validate/validate.proto"
	TimestampPath   = "google/protobuf/timestamp.proto"
	DurationPath    = "google/protobuf/duration.proto"
	DescriptorPath  = "google/protobuf/descriptor.proto"
)

// JSONName is protoc's lowerCamel json_name algorithm.
func jsonNameOf(f *Field) string {
	if f.JSON != "" {
		return f.JSON
	}
	return JSONName(f.Name)
}

func JSONName(s string) string {
	var b strings.Builder
	up := false
	for _, r := range s {
		if r == '_' {
			up = true
			continue
		}
		if up {
			b.WriteRune(unicode.ToUpper(r))
			up = false
		} else {
			b.WriteRune(r)
		}
	}
	return b.String()
}

// MapEntryName is protoc's map entry message name.
func MapEntryName(field string) string {
	var b strings.Builder
	up := true
	for _, r := range field {
		if r == '_' {
			up = true
			continue
		}
		if up {
			b.WriteRune(unicode.ToUpper(r))
			up = false
		} else {
			b.WriteRune(r)
		}
	}
	return b.String() + "Entry"
}

type lowerer struct {
	f       *File
	imports map[string]bool
	locs    []*descriptorpb.SourceCodeInfo_Location
}

func (l *lowerer) comment(p []int32, c string) {
	if c == "" {
		return
	}
	l.locs = append(l.locs, &descriptorpb.SourceCodeInfo_Location{
		Path:            append([]int32(nil), p...),
		Span:            []int32{int32(len(l.locs)), 0, 1},
		LeadingComments: proto.String(" " + c + "\n"),
	})
}

func headerMsg(h Header) *sebufhttp.Header {
	return &sebufhttp.Header{Name: h.Name, Description: h.Description, Type: h.Type, Required: h.Required, Format: h.Format, Example: h.Example, Deprecated: h.Deprecated}
}

func (l *lowerer) fieldOptions(a *Ann) *descriptorpb.FieldOptions {
	o := &descriptorpb.FieldOptions{}
	set := false
	ext := func(x protoreflect.ExtensionType, v any) {
		proto.SetExtension(o, x, v)
		set = true
		l.imports[AnnotationsPath] = true
	}
	enumv := func(v int32) int32 {
		if v < 0 {
			return 0
		}
		return v
	}
	if a.Query != nil {
		ext(sebufhttp.E_Query, &sebufhttp.QueryConfig{Name: a.Query.Name, Required: a.Query.Required})
	}
	if a.Unwrap {
		ext(sebufhttp.E_Unwrap, true)
	}
	if a.Int64Enc != 0 {
		ext(sebufhttp.E_Int64Encoding, sebufhttp.Int64Encoding(enumv(a.Int64Enc)))
	}
	if a.EnumEnc != 0 {
		ext(sebufhttp.E_EnumEncoding, sebufhttp.EnumEncoding(enumv(a.EnumEnc)))
	}
	if a.Nullable != nil {
		ext(sebufhttp.E_Nullable, *a.Nullable)
	}
	if a.EmptyBehavior != 0 {
		ext(sebufhttp.E_EmptyBehavior, sebufhttp.EmptyBehavior(enumv(a.EmptyBehavior)))
	}
	if a.TSFormat != 0 {
		ext(sebufhttp.E_TimestampFormat, sebufhttp.TimestampFormat(enumv(a.TSFormat)))
	}
	if a.BytesEnc != 0 {
		ext(sebufhttp.E_BytesEncoding, sebufhttp.BytesEncoding(enumv(a.BytesEnc)))
	}
	if a.OneofValue != nil {
		ext(sebufhttp.E_OneofValue, *a.OneofValue)
	}
	if a.Flatten != nil {
		ext(sebufhttp.E_Flatten, *a.Flatten)
	}
	if a.FlattenPrefix != nil {
		ext(sebufhttp.E_FlattenPrefix, *a.FlattenPrefix)
	}
	if len(a.Examples) > 0 {
		ext(sebufhttp.E_FieldExamples, &sebufhttp.FieldExamples{Values: a.Examples})
	}
	if a.Rules != nil {
		proto.SetExtension(o, validate.E_Field, a.Rules)
		set = true
		l.imports[ValidatePath] = true
	}
	if !set {
		return nil
	}
	return o
}

func (l *lowerer) typeImport(tn string) {
	switch {
	case tn == Timestamp:
		l.imports[TimestampPath] = true
	case tn == Duration:
		l.imports[DurationPath] = true
	case strings.HasPrefix(tn, ".google.protobuf."):
		// other WKTs
		d, err := protoregistry.GlobalFiles.FindDescriptorByName(protoreflect.FullName(strings.TrimPrefix(tn, ".")))
		if err == nil {
			l.imports[d.ParentFile().Path()] = true
		}
	}
}

func (l *lowerer) enum(e *EnumDef, p []int32) *descriptorpb.EnumDescriptorProto {
	l.comment(p, e.Comment)
	d := &descriptorpb.EnumDescriptorProto{Name: proto.String(e.Name)}
	for vi, v := range e.Values {
		l.comment(append(append([]int32(nil), p...), 2, int32(vi)), v.Comment)
		vd := &descriptorpb.EnumValueDescriptorProto{Name: proto.String(v.Name), Number: proto.Int32(v.Num)}
		if v.JSON != nil {
			vd.Options = &descriptorpb.EnumValueOptions{}
			proto.SetExtension(vd.Options, sebufhttp.E_EnumValue, *v.JSON)
			l.imports[AnnotationsPath] = true
		}
		d.Value = append(d.Value, vd)
	}
	return d
}

func (l *lowerer) message(m *Message, scope string, p []int32) *descriptorpb.DescriptorProto {
	l.comment(p, m.Comment)
	d := &descriptorpb.DescriptorProto{Name: proto.String(m.Name)}
	full := scope + "." + m.Name
	for _, o := range m.Oneofs {
		od := &descriptorpb.OneofDescriptorProto{Name: proto.String(o.Name)}
		if o.HasConfig {
			od.Options = &descriptorpb.OneofOptions{}
			proto.SetExtension(od.Options, sebufhttp.E_OneofConfig, &sebufhttp.OneofConfig{Discriminator: o.Discriminator, Flatten: o.Flatten})
			l.imports[AnnotationsPath] = true
		}
		d.OneofDecl = append(d.OneofDecl, od)
	}
	var synth []*descriptorpb.OneofDescriptorProto
	for i, f := range m.Fields {
		l.comment(append(append([]int32(nil), p...), 2, int32(i)), f.Comment)
		fd := &descriptorpb.FieldDescriptorProto{
			Name:     proto.String(f.Name),
			Number:   proto.Int32(f.Num),
			Type:     f.Type.Enum(),
			JsonName: proto.String(jsonNameOf(f)),
			Label:    descriptorpb.FieldDescriptorProto_LABEL_OPTIONAL.Enum(),
		}
		if f.Type == Msg || f.Type == Enum {
			fd.TypeName = proto.String(f.TypeName)
			l.typeImport(f.TypeName)
		}
		switch f.Card {
		case Repeated:
			fd.Label = descriptorpb.FieldDescriptorProto_LABEL_REPEATED.Enum()
		case Optional:
			fd.Proto3Optional = proto.Bool(true)
			fd.OneofIndex = proto.Int32(int32(len(m.Oneofs) + len(synth)))
			synth = append(synth, &descriptorpb.OneofDescriptorProto{Name: proto.String("_" + f.Name)})
		case Map:
			entry := &descriptorpb.DescriptorProto{
				Name:    proto.String(MapEntryName(f.Name)),
				Options: &descriptorpb.MessageOptions{MapEntry: proto.Bool(true)},
				Field: []*descriptorpb.FieldDescriptorProto{
					{Name: proto.String("key"), Number: proto.Int32(1), Type: f.MapKey.Enum(), JsonName: proto.String("key"), Label: descriptorpb.FieldDescriptorProto_LABEL_OPTIONAL.Enum()},
					{Name: proto.String("value"), Number: proto.Int32(2), Type: f.Type.Enum(), JsonName: proto.String("value"), Label: descriptorpb.FieldDescriptorProto_LABEL_OPTIONAL.Enum()},
				},
			}
			if f.Type == Msg || f.Type == Enum {
				entry.Field[1].TypeName = proto.String(f.TypeName)
			}
			d.NestedType = append(d.NestedType, entry)
			fd.Label = descriptorpb.FieldDescriptorProto_LABEL_REPEATED.Enum()
			fd.Type = Msg.Enum()
			fd.TypeName = proto.String(full + "." + entry.GetName())
		}
		if f.Oneof > 0 {
			fd.OneofIndex = proto.Int32(int32(f.Oneof - 1))
		}
		fd.Options = l.fieldOptions(&f.Ann)
		d.Field = append(d.Field, fd)
	}
	d.OneofDecl = append(d.OneofDecl, synth...)
	// user nested messages come first in index order for comments; map entries were appended
	// above, so put the user's nested types before them to keep comment paths simple.
	// With EntriesFirst the message is laid out as protoc lays out `message M { map<..> f = 1; message N {..} }`:
	// the synthetic entry types of the map fields precede the declared nested types.
	entries := d.NestedType
	off := 0
	if m.EntriesFirst {
		off = len(entries)
	}
	var nested []*descriptorpb.DescriptorProto
	for i, n := range m.Nested {
		nested = append(nested, l.message(n, full, append(append([]int32(nil), p...), 3, int32(off+i))))
	}
	if m.EntriesFirst {
		d.NestedType = append(entries, nested...)
	} else {
		d.NestedType = append(nested, entries...)
	}
	for i, e := range m.Enums {
		d.EnumType = append(d.EnumType, l.enum(e, append(append([]int32(nil), p...), 4, int32(i))))
	}
	return d
}

// Lower converts a File to its descriptor.
func (f *File) Lower() *descriptorpb.FileDescriptorProto {
	l := &lowerer{f: f, imports: map[string]bool{}}
	d := &descriptorpb.FileDescriptorProto{
		Name:   proto.String(f.Path),
		Syntax: proto.String("proto3"),
	}
	if f.Package != "" {
		d.Package = proto.String(f.Package)
	}
	if !f.NoGoPkg {
		gp := f.GoImport
		if f.GoName != "" {
			gp += ";" + f.GoName
		}
		d.Options = &descriptorpb.FileOptions{GoPackage: proto.String(gp)}
	}
	scope := ""
	if f.Package != "" {
		scope = "." + f.Package
	}
	for i, m := range f.Messages {
		d.MessageType = append(d.MessageType, l.message(m, scope, []int32{4, int32(i)}))
	}
	for i, e := range f.Enums {
		d.EnumType = append(d.EnumType, l.enum(e, []int32{5, int32(i)}))
	}
	for i, s := range f.Services {
		l.comment([]int32{6, int32(i)}, s.Comment)
		sd := &descriptorpb.ServiceDescriptorProto{Name: proto.String(s.Name)}
		so := &descriptorpb.ServiceOptions{}
		hasSO := false
		if s.BasePath != nil {
			proto.SetExtension(so, sebufhttp.E_ServiceConfig, &sebufhttp.ServiceConfig{BasePath: *s.BasePath})
			hasSO = true
			l.imports[AnnotationsPath] = true
		}
		if len(s.Headers) > 0 {
			sh := &sebufhttp.ServiceHeaders{}
			for _, h := range s.Headers {
				sh.RequiredHeaders = append(sh.RequiredHeaders, headerMsg(h))
			}
			proto.SetExtension(so, sebufhttp.E_ServiceHeaders, sh)
			hasSO = true
			l.imports[HeadersPath] = true
		}
		if hasSO {
			sd.Options = so
		}
		for j, m := range s.Methods {
			l.comment([]int32{6, int32(i), 2, int32(j)}, m.Comment)
			md := &descriptorpb.MethodDescriptorProto{Name: proto.String(m.Name), InputType: proto.String(m.In), OutputType: proto.String(m.Out)}
			if m.ClientStream {
				md.ClientStreaming = proto.Bool(true)
			}
			if m.ServerStream {
				md.ServerStreaming = proto.Bool(true)
			}
			mo := &descriptorpb.MethodOptions{}
			hasMO := false
			if m.HTTP != nil {
				proto.SetExtension(mo, sebufhttp.E_Config, &sebufhttp.HttpConfig{Path: m.HTTP.Path, Method: sebufhttp.HttpMethod(m.HTTP.Verb)})
				hasMO = true
				l.imports[AnnotationsPath] = true
			}
			if len(m.Headers) > 0 {
				mh := &sebufhttp.MethodHeaders{}
				for _, h := range m.Headers {
					mh.RequiredHeaders = append(mh.RequiredHeaders, headerMsg(h))
				}
				proto.SetExtension(mo, sebufhttp.E_MethodHeaders, mh)
				hasMO = true
				l.imports[HeadersPath] = true
			}
			if hasMO {
				md.Options = mo
			}
			sd.Method = append(sd.Method, md)
		}
		d.Service = append(d.Service, sd)
	}
	// dependencies: explicit ones first (in given order), then implied ones sorted
	seen := map[string]bool{}
	for _, im := range f.Imports {
		if !seen[im] {
			d.Dependency = append(d.Dependency, im)
			seen[im] = true
		}
	}
	for _, im := range f.Public {
		if !seen[im] {
			d.Dependency = append(d.Dependency, im)
			seen[im] = true
		}
		for i, dep := range d.Dependency {
			if dep == im {
				d.PublicDependency = append(d.PublicDependency, int32(i))
			}
		}
	}
	for _, im := range SortedKeys(l.imports) {
		if f.Via != "" && (im == AnnotationsPath || im == HeadersPath || (f.ViaAll && im == ValidatePath)) {
			im = f.Via
		}
		if !seen[im] {
			d.Dependency = append(d.Dependency, im)
			seen[im] = true
		}
	}
	l.comment([]int32{2}, f.Comment) // file comment: attached to the package statement
	if len(l.locs) > 0 || f.Comment != "" {
		d.SourceCodeInfo = &descriptorpb.SourceCodeInfo{Location: l.locs}
	}
	return d
}

// wellKnown returns the descriptor of a well-known import under the request path.
func wellKnown(p string) (*descriptorpb.FileDescriptorProto, error) {
	var fd protoreflect.FileDescriptor
	switch p {
	case AnnotationsPath:
		fd = sebufhttp.File_proto_sebuf_http_annotations_proto
	case HeadersPath:
		fd = sebufhttp.File_proto_sebuf_http_headers_proto
	case ErrorsPath:
		fd = sebufhttp.File_proto_sebuf_http_errors_proto
	default:
		var err error
		fd, err = protoregistry.GlobalFiles.FindFileByPath(p)
		if err != nil {
			return nil, fmt.Errorf("unknown import %q: %w", p, err)
		}
	}
	d := protodesc.ToFileDescriptorProto(fd)
	d.Name = proto.String(p)
	// rewrite dependency names of the sebuf files (registered under proto/…)
	for i, dep := range d.Dependency {
		if strings.HasPrefix(dep, "proto/sebuf/") {
			d.Dependency[i] = strings.TrimPrefix(dep, "proto/")
		}
	}
	return d, nil
}

// Request builds a CodeGeneratorRequest for the given files. generate lists the paths in
// file_to_generate order; if nil all spec files are generated in the given order.
// proto_file is in topological order, well-known imports first.
func Request(files []*File, generate []string, param string) (*pluginpb.CodeGeneratorRequest, error) {
	byPath := map[string]*descriptorpb.FileDescriptorProto{}
	var order []string
	for _, f := range files {
		if _, dup := byPath[f.Path]; dup {
			return nil, fmt.Errorf("duplicate file %s", f.Path)
		}
		byPath[f.Path] = f.Lower()
		order = append(order, f.Path)
	}
	var out []*descriptorpb.FileDescriptorProto
	done := map[string]bool{}
	var visit func(p string, stack []string) error
	visit = func(p string, stack []string) error {
		if done[p] {
			return nil
		}
		for _, s := range stack {
			if s == p {
				return fmt.Errorf("import cycle at %s", p)
			}
		}
		d, ok := byPath[p]
		if !ok {
			var err error
			d, err = wellKnown(p)
			if err != nil {
				return err
			}
			byPath[p] = d
		}
		for _, dep := range d.Dependency {
			if err := visit(dep, append(stack, p)); err != nil {
				return err
			}
		}
		done[p] = true
		out = append(out, d)
		return nil
	}
	for _, p := range order {
		if err := visit(p, nil); err != nil {
			return nil, err
		}
	}
	if generate == nil {
		generate = order
	}
	req := &pluginpb.CodeGeneratorRequest{
		FileToGenerate:  generate,
		ProtoFile:       out,
		CompilerVersion: &pluginpb.Version{Major: proto.Int32(5), Minor: proto.Int32(29), Patch: proto.Int32(3)},
	}
	if param != "" {
		req.Parameter = proto.String(param)
	}
	// link check: a request that does not link is a harness error
	if _, err := protodesc.NewFiles(&descriptorpb.FileDescriptorSet{File: out}); err != nil {
		return nil, fmt.Errorf("request does not link: %w", err)
	}
	return req, nil
}

// Files links the request's descriptors into a registry (for dynamicpb oracles).
func Files(req *pluginpb.CodeGeneratorRequest) (*protoregistry.Files, error) {
	return protodesc.NewFiles(&descriptorpb.FileDescriptorSet{File: req.ProtoFile})
}

// GoPkgName is the Go package name protoc-gen-go would use for the file.
func (f *File) GoPkgName() string {
	if f.GoName != "" {
		return f.GoName
	}
	return path.Base(f.GoImport)
}
