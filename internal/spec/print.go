package spec

import (
	"fmt"
	"sort"
	"strings"

	"google.golang.org/protobuf/encoding/prototext"
)

func rel(tn, pkg string) string {
	if pkg != "" && strings.HasPrefix(tn, "."+pkg+".") {
		return strings.TrimPrefix(tn, "."+pkg+".")
	}
	return strings.TrimPrefix(tn, ".")
}

func annText(a *Ann) string {
	var o []string
	en := func(name string, v int32, names []string) {
		if v == 0 {
			return
		}
		if v < 0 {
			v = 0
		}
		o = append(o, fmt.Sprintf("(sebuf.http.%s) = %s", name, names[v]))
	}
	if a.Query != nil {
		q := fmt.Sprintf("name: %q", a.Query.Name)
		if a.Query.Required {
			q += ", required: true"
		}
		o = append(o, "(sebuf.http.query) = {"+q+"}")
	}
	if a.Unwrap {
		o = append(o, "(sebuf.http.unwrap) = true")
	}
	en("int64_encoding", a.Int64Enc, []string{"INT64_ENCODING_UNSPECIFIED", "INT64_ENCODING_STRING", "INT64_ENCODING_NUMBER"})
	en("enum_encoding", a.EnumEnc, []string{"ENUM_ENCODING_UNSPECIFIED", "ENUM_ENCODING_STRING", "ENUM_ENCODING_NUMBER"})
	if a.Nullable != nil {
		o = append(o, fmt.Sprintf("(sebuf.http.nullable) = %v", *a.Nullable))
	}
	en("empty_behavior", a.EmptyBehavior, []string{"EMPTY_BEHAVIOR_UNSPECIFIED", "EMPTY_BEHAVIOR_PRESERVE", "EMPTY_BEHAVIOR_NULL", "EMPTY_BEHAVIOR_OMIT"})
	en("timestamp_format", a.TSFormat, []string{"TIMESTAMP_FORMAT_UNSPECIFIED", "TIMESTAMP_FORMAT_RFC3339", "TIMESTAMP_FORMAT_UNIX_SECONDS", "TIMESTAMP_FORMAT_UNIX_MILLIS", "TIMESTAMP_FORMAT_DATE"})
	en("bytes_encoding", a.BytesEnc, []string{"BYTES_ENCODING_UNSPECIFIED", "BYTES_ENCODING_BASE64", "BYTES_ENCODING_BASE64_RAW", "BYTES_ENCODING_BASE64URL", "BYTES_ENCODING_BASE64URL_RAW", "BYTES_ENCODING_HEX"})
	if a.OneofValue != nil {
		o = append(o, fmt.Sprintf("(sebuf.http.oneof_value) = %q", *a.OneofValue))
	}
	if a.Flatten != nil {
		o = append(o, fmt.Sprintf("(sebuf.http.flatten) = %v", *a.Flatten))
	}
	if a.FlattenPrefix != nil {
		o = append(o, fmt.Sprintf("(sebuf.http.flatten_prefix) = %q", *a.FlattenPrefix))
	}
	if len(a.Examples) > 0 {
		var q []string
		for _, e := range a.Examples {
			q = append(q, fmt.Sprintf("%q", e))
		}
		o = append(o, "(sebuf.http.field_examples) = {values: ["+strings.Join(q, ", ")+"]}")
	}
	if a.Rules != nil {
		t := prototext.MarshalOptions{Multiline: false}.Format(a.Rules)
		o = append(o, "(buf.validate.field) = {"+strings.TrimSpace(t)+"}")
	}
	if len(o) == 0 {
		return ""
	}
	return " [" + strings.Join(o, ", ") + "]"
}

func headerText(h Header) string {
	s := fmt.Sprintf("{name: %q", h.Name)
	if h.Type != "" {
		s += fmt.Sprintf(", type: %q", h.Type)
	}
	if h.Format != "" {
		s += fmt.Sprintf(", format: %q", h.Format)
	}
	if h.Required {
		s += ", required: true"
	}
	if h.Description != "" {
		s += fmt.Sprintf(", description: %q", h.Description)
	}
	if h.Example != "" {
		s += fmt.Sprintf(", example: %q", h.Example)
	}
	if h.Deprecated {
		s += ", deprecated: true"
	}
	return s + "}"
}

func printEnum(b *strings.Builder, e *EnumDef, ind string) {
	fmt.Fprintf(b, "%senum %s {\n", ind, e.Name)
	for _, v := range e.Values {
		opt := ""
		if v.JSON != nil {
			opt = fmt.Sprintf(" [(sebuf.http.enum_value) = %q]", *v.JSON)
		}
		fmt.Fprintf(b, "%s  %s = %d%s;\n", ind, v.Name, v.Num, opt)
	}
	fmt.Fprintf(b, "%s}\n", ind)
}

func printMsg(b *strings.Builder, m *Message, pkg, ind string) {
	if m.Comment != "" {
		fmt.Fprintf(b, "%s// %s\n", ind, m.Comment)
	}
	fmt.Fprintf(b, "%smessage %s {\n", ind, m.Name)
	for _, n := range m.Nested {
		printMsg(b, n, pkg, ind+"  ")
	}
	for _, e := range m.Enums {
		printEnum(b, e, ind+"  ")
	}
	fieldLine := func(f *Field, ind string) {
		tn := KindName(f.Type)
		if f.Type == Msg || f.Type == Enum {
			tn = rel(f.TypeName, pkg)
		}
		pre := ""
		switch f.Card {
		case Optional:
			pre = "optional "
		case Repeated:
			pre = "repeated "
		case Map:
			tn = fmt.Sprintf("map<%s, %s>", KindName(f.MapKey), tn)
		}
		at := annText(&f.Ann)
		if f.JSON != "" {
			jn := fmt.Sprintf("json_name = %q", f.JSON)
			if at == "" {
				at = " [" + jn + "]"
			} else {
				at = strings.Replace(at, " [", " ["+jn+", ", 1)
			}
		}
		fmt.Fprintf(b, "%s%s%s %s = %d%s;\n", ind, pre, tn, f.Name, f.Num, at)
	}
	for _, f := range m.Fields {
		if f.Oneof == 0 {
			fieldLine(f, ind+"  ")
		}
	}
	for i, o := range m.Oneofs {
		fmt.Fprintf(b, "%s  oneof %s {\n", ind, o.Name)
		if o.HasConfig {
			fmt.Fprintf(b, "%s    option (sebuf.http.oneof_config) = {discriminator: %q, flatten: %v};\n", ind, o.Discriminator, o.Flatten)
		}
		for _, f := range m.Fields {
			if f.Oneof == i+1 {
				fieldLine(f, ind+"    ")
			}
		}
		fmt.Fprintf(b, "%s  }\n", ind)
	}
	fmt.Fprintf(b, "%s}\n", ind)
}

// Proto renders the file as .proto text (for humans; never parsed back).
func (f *File) Proto() string {
	var b strings.Builder
	d := f.Lower()
	b.WriteString("syntax = \"proto3\";\n")
	if f.Package != "" {
		fmt.Fprintf(&b, "package %s;\n", f.Package)
	}
	deps := append([]string(nil), d.Dependency...)
	sort.Strings(deps)
	pub := map[string]bool{}
	for _, i := range d.PublicDependency {
		pub[d.Dependency[i]] = true
	}
	for _, dep := range deps {
		if pub[dep] {
			fmt.Fprintf(&b, "import public %q;\n", dep)
		} else {
			fmt.Fprintf(&b, "import %q;\n", dep)
		}
	}
	if !f.NoGoPkg {
		fmt.Fprintf(&b, "option go_package = %q;\n", d.GetOptions().GetGoPackage())
	}
	for _, e := range f.Enums {
		printEnum(&b, e, "")
	}
	for _, m := range f.Messages {
		printMsg(&b, m, f.Package, "")
	}
	for _, s := range f.Services {
		fmt.Fprintf(&b, "service %s {\n", s.Name)
		if s.BasePath != nil {
			fmt.Fprintf(&b, "  option (sebuf.http.service_config) = {base_path: %q};\n", *s.BasePath)
		}
		if len(s.Headers) > 0 {
			var hs []string
			for _, h := range s.Headers {
				hs = append(hs, headerText(h))
			}
			fmt.Fprintf(&b, "  option (sebuf.http.service_headers) = {required_headers: [%s]};\n", strings.Join(hs, ", "))
		}
		for _, m := range s.Methods {
			in, out := rel(m.In, f.Package), rel(m.Out, f.Package)
			if m.ClientStream {
				in = "stream " + in
			}
			if m.ServerStream {
				out = "stream " + out
			}
			fmt.Fprintf(&b, "  rpc %s(%s) returns (%s)", m.Name, in, out)
			if m.HTTP == nil && len(m.Headers) == 0 {
				b.WriteString(";\n")
				continue
			}
			b.WriteString(" {\n")
			if m.HTTP != nil {
				verbs := []string{"HTTP_METHOD_UNSPECIFIED", "HTTP_METHOD_GET", "HTTP_METHOD_POST", "HTTP_METHOD_PUT", "HTTP_METHOD_DELETE", "HTTP_METHOD_PATCH"}
				fmt.Fprintf(&b, "    option (sebuf.http.config) = {path: %q, method: %s};\n", m.HTTP.Path, verbs[m.HTTP.Verb])
			}
			if len(m.Headers) > 0 {
				var hs []string
				for _, h := range m.Headers {
					hs = append(hs, headerText(h))
				}
				fmt.Fprintf(&b, "    option (sebuf.http.method_headers) = {required_headers: [%s]};\n", strings.Join(hs, ", "))
			}
			b.WriteString("  }\n")
		}
		b.WriteString("}\n")
	}
	return b.String()
}
