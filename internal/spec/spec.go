// Package spec is the schema IR the checks use to describe protobuf definitions
// (there is no protoc in the sandbox): IR -> FileDescriptorProto -> CodeGeneratorRequest,
// plus a .proto pretty printer for evidence/replays.
package spec

import (
	"fmt"
	"sort"
	"strings"

	validate "buf.build/gen/go/bufbuild/protovalidate/protocolbuffers/go/buf/validate"
	"google.golang.org/protobuf/types/descriptorpb"
)

// T is the protobuf field type.
type T = descriptorpb.FieldDescriptorProto_Type

const (
	Double   = descriptorpb.FieldDescriptorProto_TYPE_DOUBLE
	Float    = descriptorpb.FieldDescriptorProto_TYPE_FLOAT
	Int64    = descriptorpb.FieldDescriptorProto_TYPE_INT64
	Uint64   = descriptorpb.FieldDescriptorProto_TYPE_UINT64
	Int32    = descriptorpb.FieldDescriptorProto_TYPE_INT32
	Fixed64  = descriptorpb.FieldDescriptorProto_TYPE_FIXED64
	Fixed32  = descriptorpb.FieldDescriptorProto_TYPE_FIXED32
	Bool     = descriptorpb.FieldDescriptorProto_TYPE_BOOL
	String   = descriptorpb.FieldDescriptorProto_TYPE_STRING
	Msg      = descriptorpb.FieldDescriptorProto_TYPE_MESSAGE
	Bytes    = descriptorpb.FieldDescriptorProto_TYPE_BYTES
	Uint32   = descriptorpb.FieldDescriptorProto_TYPE_UINT32
	Enum     = descriptorpb.FieldDescriptorProto_TYPE_ENUM
	Sfixed32 = descriptorpb.FieldDescriptorProto_TYPE_SFIXED32
	Sfixed64 = descriptorpb.FieldDescriptorProto_TYPE_SFIXED64
	Sint32   = descriptorpb.FieldDescriptorProto_TYPE_SINT32
	Sint64   = descriptorpb.FieldDescriptorProto_TYPE_SINT64
)

// ScalarKinds lists every scalar kind except enum.
var ScalarKinds = []T{String, Bool, Int32, Sint32, Sfixed32, Uint32, Fixed32, Int64, Sint64, Sfixed64, Uint64, Fixed64, Float, Double, Bytes}

// KindName is the .proto spelling of a scalar type.
func KindName(t T) string {
	return strings.ToLower(strings.TrimPrefix(t.String(), "TYPE_"))
}

// Card is the field cardinality.
type Card int

const (
	Singular Card = iota
	Optional
	Repeated
	Map
)

func (c Card) String() string {
	return [...]string{"singular", "optional", "repeated", "map"}[c]
}

// WKT names.
const (
	Timestamp = ".google.protobuf.Timestamp"
	Duration  = ".google.protobuf.Duration"
	Value     = ".google.protobuf.Value"
	Struct    = ".google.protobuf.Struct"
)

// Query is the sebuf.http.query annotation.
type Query struct {
	Name     string
	Required bool
}

// Ann holds sebuf (and buf.validate) field annotations. Pointer / zero = not set.
type Ann struct {
	Query         *Query
	Unwrap        bool
	Int64Enc      int32 // 0 unset, 1 STRING, 2 NUMBER; -1 = explicit UNSPECIFIED
	EnumEnc       int32
	Nullable      *bool
	EmptyBehavior int32
	TSFormat      int32
	BytesEnc      int32
	OneofValue    *string
	Flatten       *bool
	FlattenPrefix *string
	Examples      []string
	Rules         *validate.FieldRules
}

// Field of a message.
type Field struct {
	Name     string
	Num      int32
	Type     T
	TypeName string // fully qualified with leading dot for Msg/Enum
	Card     Card
	MapKey   T // for Card==Map
	Oneof    int // 1-based index into Message.Oneofs; 0 = none
	Comment  string
	Ann      Ann
	// JSON is an explicit json_name (the protoc field option); "" = protoc's default lowerCamel of Name.
	JSON string
}

// Oneof of a message.
type Oneof struct {
	Name          string
	HasConfig     bool
	Discriminator string
	Flatten       bool
}

// EnumValue of an enum.
type EnumValue struct {
	Name string
	Num  int32
	JSON *string // sebuf.http.enum_value
	Comment string
}

// EnumDef is an enum definition.
type EnumDef struct {
	Name    string
	Values  []EnumValue
	Comment string
}

// Message definition.
type Message struct {
	Name    string
	Fields  []*Field
	Oneofs  []*Oneof
	Nested  []*Message
	Enums   []*EnumDef
	Comment string
	// EntriesFirst: the map fields are declared before the nested types (their synthetic entry
	// messages then come first among the nested types, as protoc orders them by source position).
	EntriesFirst bool
}

// Header is sebuf.http.Header.
type Header struct {
	Name, Description, Type, Format, Example string
	Required, Deprecated                     bool
}

// HTTP is sebuf.http.config.
type HTTP struct {
	Path string
	Verb int32 // HttpMethod enum number
}

// Method of a service.
type Method struct {
	Name    string
	In, Out string // fully qualified with leading dot
	HTTP    *HTTP
	Headers []Header
	Comment string
	// ClientStream / ServerStream: `rpc M(stream In) returns (stream Out)` (valid protobuf; the HTTP generators
	// have no streaming transport)
	ClientStream, ServerStream bool
}

// Service definition.
type Service struct {
	Name     string
	BasePath *string
	Headers  []Header
	Methods  []*Method
	Comment  string
}

// File is one .proto file.
type File struct {
	Path      string
	Package   string
	GoImport  string // import path
	GoName    string // package name ("" = derive from import path)
	NoGoPkg   bool   // omit go_package option
	Imports   []string
	// Public lists imports re-exported with `import public` (they are added to the dependencies).
	Public []string
	// Via names an umbrella file (one that publicly imports the sebuf annotation files): when set, this
	// file imports the umbrella instead of sebuf/http/annotations.proto and headers.proto themselves.
	Via       string
	// ViaAll: the umbrella also re-exports buf/validate/validate.proto, and this file imports only the umbrella.
	ViaAll bool
	Messages  []*Message
	Enums     []*EnumDef
	Services  []*Service
	Comment   string
}

// ---- small builders ----

func B(b bool) *bool       { return &b }
func S(s string) *string   { return &s }
func Verb(name string) int32 {
	switch strings.ToUpper(name) {
	case "GET":
		return 1
	case "POST":
		return 2
	case "PUT":
		return 3
	case "DELETE":
		return 4
	case "PATCH":
		return 5
	}
	return 0
}

// VerbName returns the verb for an HttpMethod number (POST for unspecified).
func VerbName(v int32) string {
	switch v {
	case 1:
		return "GET"
	case 3:
		return "PUT"
	case 4:
		return "DELETE"
	case 5:
		return "PATCH"
	}
	return "POST"
}

// F builds a singular scalar field.
func F(name string, num int32, t T) *Field { return &Field{Name: name, Num: num, Type: t} }

// FM builds a singular message field.
func FM(name string, num int32, typeName string) *Field {
	return &Field{Name: name, Num: num, Type: Msg, TypeName: typeName}
}

// FE builds a singular enum field.
func FE(name string, num int32, typeName string) *Field {
	return &Field{Name: name, Num: num, Type: Enum, TypeName: typeName}
}

func (f *Field) Doc(c string) *Field     { f.Comment = c; return f }
func (f *Field) JSONAs(n string) *Field  { f.JSON = n; return f }
func (f *Field) Opt() *Field             { f.Card = Optional; return f }
func (f *Field) Rep() *Field             { f.Card = Repeated; return f }
func (f *Field) MapOf(key T) *Field      { f.Card = Map; f.MapKey = key; return f }
func (f *Field) In(oneof int) *Field     { f.Oneof = oneof; return f }
func (f *Field) Q(name string) *Field    { f.Ann.Query = &Query{Name: name}; return f }
func (f *Field) QReq(name string) *Field { f.Ann.Query = &Query{Name: name, Required: true}; return f }
func (f *Field) With(fn func(a *Ann)) *Field {
	fn(&f.Ann)
	return f
}

// Clone deep-copies a file (rules are shared, they are immutable here).
func (f *File) Clone() *File {
	c := *f
	c.Imports = append([]string(nil), f.Imports...)
	c.Public = append([]string(nil), f.Public...)
	c.ViaAll = f.ViaAll
	c.Messages = cloneMsgs(f.Messages)
	c.Enums = cloneEnums(f.Enums)
	c.Services = nil
	for _, s := range f.Services {
		sc := *s
		sc.Headers = append([]Header(nil), s.Headers...)
		sc.Methods = nil
		for _, m := range s.Methods {
			mc := *m
			if m.HTTP != nil {
				h := *m.HTTP
				mc.HTTP = &h
			}
			mc.Headers = append([]Header(nil), m.Headers...)
			sc.Methods = append(sc.Methods, &mc)
		}
		c.Services = append(c.Services, &sc)
	}
	return &c
}

func cloneEnums(in []*EnumDef) []*EnumDef {
	var out []*EnumDef
	for _, e := range in {
		ec := *e
		ec.Values = append([]EnumValue(nil), e.Values...)
		out = append(out, &ec)
	}
	return out
}

func cloneMsgs(in []*Message) []*Message {
	var out []*Message
	for _, m := range in {
		mc := *m
		mc.Fields = nil
		for _, f := range m.Fields {
			fc := *f
			mc.Fields = append(mc.Fields, &fc)
		}
		mc.Oneofs = nil
		for _, o := range m.Oneofs {
			oc := *o
			mc.Oneofs = append(mc.Oneofs, &oc)
		}
		mc.Nested = cloneMsgs(m.Nested)
		mc.Enums = cloneEnums(m.Enums)
		out = append(out, &mc)
	}
	return out
}

// Rename rewrites the proto package (and every type reference into it) of a file.
func (f *File) Rename(newPkg, newPath, newGoImport string) *File {
	c := f.Clone()
	oldPrefix := "." + f.Package + "."
	newPrefix := "." + newPkg + "."
	fix := func(s string) string {
		if strings.HasPrefix(s, oldPrefix) {
			return newPrefix + strings.TrimPrefix(s, oldPrefix)
		}
		return s
	}
	var walk func(ms []*Message)
	walk = func(ms []*Message) {
		for _, m := range ms {
			for _, fl := range m.Fields {
				fl.TypeName = fix(fl.TypeName)
			}
			walk(m.Nested)
		}
	}
	walk(c.Messages)
	for _, s := range c.Services {
		for _, m := range s.Methods {
			m.In, m.Out = fix(m.In), fix(m.Out)
		}
	}
	c.Package = newPkg
	if newPath != "" {
		c.Path = newPath
	}
	if newGoImport != "" {
		c.GoImport = newGoImport
	}
	return c
}

// FindMessage returns a message by (possibly nested) name relative to the file's package.
func (f *File) FindMessage(full string) *Message {
	rel := strings.TrimPrefix(full, "."+f.Package+".")
	if f.Package == "" {
		rel = strings.TrimPrefix(full, ".")
	}
	parts := strings.Split(rel, ".")
	ms := f.Messages
	var cur *Message
	for _, p := range parts {
		cur = nil
		for _, m := range ms {
			if m.Name == p {
				cur = m
				break
			}
		}
		if cur == nil {
			return nil
		}
		ms = cur.Nested
	}
	return cur
}

// FQ returns the fully-qualified (leading dot) name of a top-level element.
func (f *File) FQ(name string) string {
	if f.Package == "" {
		return "." + name
	}
	return "." + f.Package + "." + name
}

// SortedKeys is a helper for deterministic iteration.
func SortedKeys[V any](m map[string]V) []string {
	ks := make([]string, 0, len(m))
	for k := range m {
		ks = append(ks, k)
	}
	sort.Strings(ks)
	return ks
}

func (f *Field) String() string {
	return fmt.Sprintf("%s %s=%d", KindName(f.Type), f.Name, f.Num)
}
