package spec

import (
	"strings"

	validate "buf.build/gen/go/bufbuild/protovalidate/protocolbuffers/go/buf/validate"
	sebufhttp "github.com/SebastienMelki/sebuf/http"
	"google.golang.org/protobuf/proto"
	"google.golang.org/protobuf/types/descriptorpb"
	"google.golang.org/protobuf/types/pluginpb"
)

// DecoyTag marks everything that belongs to a decoy package.
const DecoyTag = "zzdecoy"

// WithDecoy returns a request that generates, BEFORE every file of req, a decoy twin of it: the same
// declarations (same message, field, enum, RPC names, hence the same Go and TypeScript identifiers)
// in another proto package / Go package / directory, with every sebuf annotation set to something
// else (other paths, verbs, query names, header types, encodings, formats, prefixes, discriminators,
// no validation rules). A generator whose output for a file depends only on that file emits for the
// original files exactly what it emits without the decoy; anything it remembers under a name instead
// of an identity is poisoned by the decoy first. isDecoy tells the decoy's output files apart.
// ok is false when the request cannot carry a decoy (a generated file without go_package).
func WithDecoy(req *pluginpb.CodeGeneratorRequest) (out *pluginpb.CodeGeneratorRequest, isDecoy func(name string) bool, ok bool) {
	return WithDecoyX(req, false)
}

// WithDecoyX: with sameServiceNames the decoy's services keep their names, too (two API versions that both
// declare UserService.GetUser): whatever a generator keys by service and method NAME is poisoned as well.
// Not for generators that name their output files after the bare service name.
func WithDecoyX(req *pluginpb.CodeGeneratorRequest, sameServiceNames bool) (out *pluginpb.CodeGeneratorRequest, isDecoy func(name string) bool, ok bool) {
	gen := map[string]bool{}
	for _, n := range req.FileToGenerate {
		gen[n] = true
	}
	pkgs := map[string]bool{}
	for _, f := range req.ProtoFile {
		if gen[f.GetName()] {
			if f.GetOptions().GetGoPackage() == "" || f.GetPackage() == "" {
				return nil, nil, false
			}
			pkgs[f.GetPackage()] = true
		}
	}
	// types declared in the files to generate (only those exist in the decoy packages)
	declared := map[string]bool{}
	var walk func(prefix string, ms []*descriptorpb.DescriptorProto, es []*descriptorpb.EnumDescriptorProto)
	walk = func(prefix string, ms []*descriptorpb.DescriptorProto, es []*descriptorpb.EnumDescriptorProto) {
		for _, e := range es {
			declared[prefix+"."+e.GetName()] = true
		}
		for _, m := range ms {
			declared[prefix+"."+m.GetName()] = true
			walk(prefix+"."+m.GetName(), m.NestedType, m.EnumType)
		}
	}
	for _, f := range req.ProtoFile {
		if gen[f.GetName()] {
			walk("."+f.GetPackage(), f.MessageType, f.EnumType)
		}
	}
	rename := func(tn string) string {
		if declared[tn] {
			return "." + DecoyTag + tn
		}
		return tn
	}
	_ = pkgs
	out = proto.Clone(req).(*pluginpb.CodeGeneratorRequest)
	out.ProtoFile = nil
	var decoyGen []string
	for _, f := range req.ProtoFile {
		out.ProtoFile = append(out.ProtoFile, f)
		if !gen[f.GetName()] {
			continue
		}
		d := proto.Clone(f).(*descriptorpb.FileDescriptorProto)
		d.Name = proto.String(DecoyTag + "/" + f.GetName())
		d.Package = proto.String(DecoyTag + "." + f.GetPackage())
		gp := f.GetOptions().GetGoPackage()
		// another import path, the SAME Go package name (like .../users/v1 and .../orders/v1)
		imp, name, hasName := strings.Cut(gp, ";")
		if !hasName {
			name = imp[strings.LastIndex(imp, "/")+1:]
		}
		d.Options.GoPackage = proto.String(imp + DecoyTag + ";" + name)
		for i, dep := range d.Dependency {
			if gen[dep] {
				d.Dependency[i] = DecoyTag + "/" + dep
			}
		}
		d.SourceCodeInfo = nil
		for _, m := range d.MessageType {
			decoyMessage(m, rename)
		}
		for _, e := range d.EnumType {
			decoyEnum(e)
		}
		for _, s := range d.Service {
			if !sameServiceNames {
				s.Name = proto.String("Zzdecoy" + s.GetName())
			}
			if s.Options != nil && proto.HasExtension(s.Options, sebufhttp.E_ServiceConfig) {
				sc := proto.Clone(proto.GetExtension(s.Options, sebufhttp.E_ServiceConfig).(*sebufhttp.ServiceConfig)).(*sebufhttp.ServiceConfig)
				sc.BasePath = "/" + DecoyTag + "/" + strings.TrimPrefix(sc.BasePath, "/")
				proto.SetExtension(s.Options, sebufhttp.E_ServiceConfig, sc)
			}
			if s.Options != nil && proto.HasExtension(s.Options, sebufhttp.E_ServiceHeaders) {
				sh := proto.Clone(proto.GetExtension(s.Options, sebufhttp.E_ServiceHeaders).(*sebufhttp.ServiceHeaders)).(*sebufhttp.ServiceHeaders)
				decoyHeaders(sh.RequiredHeaders)
				proto.SetExtension(s.Options, sebufhttp.E_ServiceHeaders, sh)
			}
			for _, m := range s.Method {
				m.InputType = proto.String(rename(m.GetInputType()))
				m.OutputType = proto.String(rename(m.GetOutputType()))
				if m.Options == nil {
					continue
				}
				if proto.HasExtension(m.Options, sebufhttp.E_Config) {
					hc := proto.Clone(proto.GetExtension(m.Options, sebufhttp.E_Config).(*sebufhttp.HttpConfig)).(*sebufhttp.HttpConfig)
					if hc.Path != "" {
						hc.Path = "/" + DecoyTag + "/" + strings.TrimPrefix(hc.Path, "/")
					}
					// another verb of the same kind (bodiless stays bodiless)
					switch hc.Method {
					case sebufhttp.HttpMethod_HTTP_METHOD_GET:
						hc.Method = sebufhttp.HttpMethod_HTTP_METHOD_DELETE
					case sebufhttp.HttpMethod_HTTP_METHOD_DELETE:
						hc.Method = sebufhttp.HttpMethod_HTTP_METHOD_GET
					case sebufhttp.HttpMethod_HTTP_METHOD_POST, sebufhttp.HttpMethod_HTTP_METHOD_UNSPECIFIED:
						hc.Method = sebufhttp.HttpMethod_HTTP_METHOD_PUT
					case sebufhttp.HttpMethod_HTTP_METHOD_PUT:
						hc.Method = sebufhttp.HttpMethod_HTTP_METHOD_PATCH
					case sebufhttp.HttpMethod_HTTP_METHOD_PATCH:
						hc.Method = sebufhttp.HttpMethod_HTTP_METHOD_POST
					}
					proto.SetExtension(m.Options, sebufhttp.E_Config, hc)
				}
				if proto.HasExtension(m.Options, sebufhttp.E_MethodHeaders) {
					mh := proto.Clone(proto.GetExtension(m.Options, sebufhttp.E_MethodHeaders).(*sebufhttp.MethodHeaders)).(*sebufhttp.MethodHeaders)
					decoyHeaders(mh.RequiredHeaders)
					proto.SetExtension(m.Options, sebufhttp.E_MethodHeaders, mh)
				}
			}
		}
		out.ProtoFile = append(out.ProtoFile, d)
		decoyGen = append(decoyGen, d.GetName())
	}
	out.FileToGenerate = append(decoyGen, req.FileToGenerate...)
	isDecoy = func(name string) bool {
		base := name[strings.LastIndex(name, "/")+1:]
		return strings.Contains(name, DecoyTag) || strings.HasPrefix(base, "Zzdecoy")
	}
	return out, isDecoy, true
}

func decoyHeaders(hs []*sebufhttp.Header) {
	for _, h := range hs {
		h.Required = !h.Required
		if h.Type == "" || h.Type == "string" {
			h.Type = "integer"
		} else {
			h.Type = "string"
		}
		h.Format = ""
		h.Description = "decoy " + h.Description
	}
}

func decoyEnum(e *descriptorpb.EnumDescriptorProto) {
	for _, v := range e.Value {
		if v.Options != nil && proto.HasExtension(v.Options, sebufhttp.E_EnumValue) {
			proto.SetExtension(v.Options, sebufhttp.E_EnumValue, proto.GetExtension(v.Options, sebufhttp.E_EnumValue).(string)+"_zz")
		}
	}
}

func decoyMessage(m *descriptorpb.DescriptorProto, rename func(string) string) {
	for _, n := range m.NestedType {
		decoyMessage(n, rename)
	}
	for _, e := range m.EnumType {
		decoyEnum(e)
	}
	for _, o := range m.OneofDecl {
		if o.Options != nil && proto.HasExtension(o.Options, sebufhttp.E_OneofConfig) {
			oc := proto.Clone(proto.GetExtension(o.Options, sebufhttp.E_OneofConfig).(*sebufhttp.OneofConfig)).(*sebufhttp.OneofConfig)
			oc.Discriminator += "Zz"
			proto.SetExtension(o.Options, sebufhttp.E_OneofConfig, oc)
		}
	}
	for _, f := range m.Field {
		if f.TypeName != nil {
			f.TypeName = proto.String(rename(f.GetTypeName()))
		}
		if f.Extendee != nil {
			f.Extendee = proto.String(rename(f.GetExtendee()))
		}
		o := f.Options
		if o == nil {
			continue
		}
		if proto.HasExtension(o, sebufhttp.E_Query) {
			q := proto.Clone(proto.GetExtension(o, sebufhttp.E_Query).(*sebufhttp.QueryConfig)).(*sebufhttp.QueryConfig)
			q.Name += "Zz"
			q.Required = !q.Required
			proto.SetExtension(o, sebufhttp.E_Query, q)
		}
		if proto.HasExtension(o, sebufhttp.E_Int64Encoding) && proto.GetExtension(o, sebufhttp.E_Int64Encoding).(sebufhttp.Int64Encoding) == sebufhttp.Int64Encoding_INT64_ENCODING_NUMBER {
			proto.SetExtension(o, sebufhttp.E_Int64Encoding, sebufhttp.Int64Encoding_INT64_ENCODING_STRING)
		}
		if proto.HasExtension(o, sebufhttp.E_EmptyBehavior) {
			v := proto.GetExtension(o, sebufhttp.E_EmptyBehavior).(sebufhttp.EmptyBehavior)
			proto.SetExtension(o, sebufhttp.E_EmptyBehavior, sebufhttp.EmptyBehavior(int32(v)%3+1))
		}
		if proto.HasExtension(o, sebufhttp.E_TimestampFormat) {
			v := proto.GetExtension(o, sebufhttp.E_TimestampFormat).(sebufhttp.TimestampFormat)
			proto.SetExtension(o, sebufhttp.E_TimestampFormat, sebufhttp.TimestampFormat(int32(v)%4+1))
		}
		if proto.HasExtension(o, sebufhttp.E_BytesEncoding) {
			v := proto.GetExtension(o, sebufhttp.E_BytesEncoding).(sebufhttp.BytesEncoding)
			proto.SetExtension(o, sebufhttp.E_BytesEncoding, sebufhttp.BytesEncoding(int32(v)%5+1))
		}
		if proto.HasExtension(o, sebufhttp.E_Flatten) && proto.GetExtension(o, sebufhttp.E_Flatten).(bool) {
			p := ""
			if proto.HasExtension(o, sebufhttp.E_FlattenPrefix) {
				p = proto.GetExtension(o, sebufhttp.E_FlattenPrefix).(string)
			}
			proto.SetExtension(o, sebufhttp.E_FlattenPrefix, "zz_"+p)
		}
		if proto.HasExtension(o, sebufhttp.E_OneofValue) {
			proto.SetExtension(o, sebufhttp.E_OneofValue, proto.GetExtension(o, sebufhttp.E_OneofValue).(string)+"_zz")
		}
		if proto.HasExtension(o, sebufhttp.E_FieldExamples) {
			if f.GetType() == descriptorpb.FieldDescriptorProto_TYPE_STRING {
				ex := proto.Clone(proto.GetExtension(o, sebufhttp.E_FieldExamples).(*sebufhttp.FieldExamples)).(*sebufhttp.FieldExamples)
				for i := range ex.Values {
					ex.Values[i] += "-zz"
				}
				proto.SetExtension(o, sebufhttp.E_FieldExamples, ex)
			} else {
				proto.ClearExtension(o, sebufhttp.E_FieldExamples)
			}
		}
		if proto.HasExtension(o, validate.E_Field) {
			proto.ClearExtension(o, validate.E_Field)
		}
	}
}
