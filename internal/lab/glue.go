// Package lab assembles a scratch Go module out of plugin output plus mechanical glue,
// builds it (optionally with the race detector) and drives it as a child process.
package lab

import (
	"fmt"
	"regexp"
	"sort"
	"strings"

	sebufhttp "github.com/SebastienMelki/sebuf/http"
	"google.golang.org/protobuf/compiler/protogen"
	"google.golang.org/protobuf/proto"
	"google.golang.org/protobuf/types/descriptorpb"
	"google.golang.org/protobuf/types/pluginpb"
)

// Features says which sebuf outputs are present in a package (the glue only references those).
type Features struct {
	Server bool
	Client bool
	Mock   bool
}

// helperFuncName mirrors the documented naming of typed header helpers
// (X-API-Key -> APIKey). Used only to know what the glue has to call.
func helperFuncName(header string) string {
	return strings.ReplaceAll(strings.TrimPrefix(header, "X-"), "-", "")
}

func svcHeaders(s *protogen.Service) []string {
	var out []string
	if o, ok := s.Desc.Options().(*descriptorpb.ServiceOptions); ok && o != nil && proto.HasExtension(o, sebufhttp.E_ServiceHeaders) {
		for _, h := range proto.GetExtension(o, sebufhttp.E_ServiceHeaders).(*sebufhttp.ServiceHeaders).GetRequiredHeaders() {
			out = append(out, h.GetName())
		}
	}
	return out
}

func methodHeaders(s *protogen.Service) []string {
	var out []string
	for _, m := range s.Methods {
		if o, ok := m.Desc.Options().(*descriptorpb.MethodOptions); ok && o != nil && proto.HasExtension(o, sebufhttp.E_MethodHeaders) {
			for _, h := range proto.GetExtension(o, sebufhttp.E_MethodHeaders).(*sebufhttp.MethodHeaders).GetRequiredHeaders() {
				out = append(out, h.GetName())
			}
		}
	}
	return out
}

func uniq(in []string) []string {
	seen := map[string]bool{}
	var out []string
	for _, s := range in {
		if !seen[s] {
			seen[s] = true
			out = append(out, s)
		}
	}
	return out
}

// ExtraOpt is an option constructor found in an emitted Go client that is none of the documented
// ones (HTTP client, content type, default/per-call header, typed header helpers).
type ExtraOpt struct {
	Name   string   // function name without the With<Service> prefix
	Scope  string   // "call" | "client"
	Params []string // parameter types in order
	Driven bool     // the glue can pass it (call scope, supported parameter types)
}

var optionFuncRe = regexp.MustCompile(`(?m)^func With(\w+)\(([^)]*)\) (\w+?)(Call|Client)Option \{`)

// paramTypes parses "key, value string" / "d time.Duration" into the list of types.
func paramTypes(list string) []string {
	var out []string
	pending := 0
	for _, p := range strings.Split(list, ",") {
		p = strings.TrimSpace(p)
		if p == "" {
			continue
		}
		parts := strings.Fields(p)
		if len(parts) == 1 {
			pending++
			continue
		}
		t := strings.Join(parts[1:], " ")
		for i := 0; i <= pending; i++ {
			out = append(out, t)
		}
		pending = 0
	}
	return out
}

func extraArgExpr(g *protogen.GeneratedFile, typ, v string) (string, bool) {
	id := func(pkg, name string) string {
		return g.QualifiedGoIdent(protogen.GoIdent{GoName: name, GoImportPath: protogen.GoImportPath(pkg)})
	}
	switch typ {
	case "string":
		return v, true
	case "time.Duration":
		return "func() " + id("time", "Duration") + " { d, _ := " + id("time", "ParseDuration") + "(" + v + "); return d }()", true
	case "bool":
		return "(" + v + ` == "true")`, true
	case "int", "int32", "int64", "uint", "uint32", "uint64":
		return "func() " + typ + " { n, _ := " + id("strconv", "ParseInt") + "(" + v + ", 10, 64); return " + typ + "(n) }()", true
	case "float64", "float32":
		return "func() " + typ + " { n, _ := " + id("strconv", "ParseFloat") + "(" + v + ", 64); return " + typ + "(n) }()", true
	}
	return "", false
}

// discoverExtras lists the undocumented option constructors of service s in the emitted client sources.
func discoverExtras(s *protogen.Service, clientSrc map[string]string) []ExtraOpt {
	known := map[string]bool{"HTTPClient": true, "ContentType": true, "DefaultHeader": true, "Header": true, "CallContentType": true}
	for _, h := range append(svcHeaders(s), methodHeaders(s)...) {
		known[helperFuncName(h)] = true
		known["Call"+helperFuncName(h)] = true
	}
	var names []string
	for n := range clientSrc {
		names = append(names, n)
	}
	sort.Strings(names)
	var out []ExtraOpt
	seen := map[string]bool{}
	for _, n := range names {
		for _, m := range optionFuncRe.FindAllStringSubmatch(clientSrc[n], -1) {
			if m[3] != s.GoName || !strings.HasPrefix(m[1], s.GoName) {
				continue
			}
			name := strings.TrimPrefix(m[1], s.GoName)
			if known[name] || seen[name] {
				continue
			}
			seen[name] = true
			e := ExtraOpt{Name: name, Scope: strings.ToLower(m[4]), Params: paramTypes(m[2])}
			out = append(out, e)
		}
	}
	return out
}

// Glue generates one zz_glue file per generated proto file that has services.
// labrtImport is the import path of the labrt package inside the lab module.
func Glue(req *pluginpb.CodeGeneratorRequest, feat Features, labrtImport string, helpers bool) (map[string]string, error) {
	out, _, err := GlueX(req, feat, labrtImport, helpers, nil)
	return out, err
}

// GlueX is Glue with the emitted client sources: undocumented option constructors found there are
// returned per service (full name) and, where their parameter types allow, wired to CallOpts.Extra.
func GlueX(req *pluginpb.CodeGeneratorRequest, feat Features, labrtImport string, helpers bool, clientSrc map[string]string) (map[string]string, map[string][]ExtraOpt, error) {
	extras := map[string][]ExtraOpt{}
	plug, err := protogen.Options{}.New(proto.Clone(req).(*pluginpb.CodeGeneratorRequest))
	if err != nil {
		return nil, nil, fmt.Errorf("glue: protogen: %w", err)
	}
	rt := protogen.GoImportPath(labrtImport)
	for _, f := range plug.Files {
		if !f.Generate || len(f.Services) == 0 {
			continue
		}
		g := plug.NewGeneratedFile(f.GeneratedFilenamePrefix+"_zz_glue.go", f.GoImportPath)
		g.P("// Code generated by the verification lab. DO NOT EDIT.")
		g.P("package ", f.GoPackageName)
		g.P()
		ctxT := g.QualifiedGoIdent(protogen.GoIdent{GoName: "Context", GoImportPath: "context"})
		protoMsg := ""
		if feat.Client || (feat.Server && feat.Mock) {
			protoMsg = g.QualifiedGoIdent(protogen.GoIdent{GoName: "Message", GoImportPath: "google.golang.org/protobuf/proto"})
		}
		handle := g.QualifiedGoIdent(rt.Ident("Handle"))
		for _, s := range f.Services {
			full := string(s.Desc.FullName())
			if feat.Server {
				rec := "zzRec" + s.GoName
				g.P("type ", rec, " struct{}")
				g.P()
				for _, m := range s.Methods {
					in := g.QualifiedGoIdent(m.Input.GoIdent)
					out := g.QualifiedGoIdent(m.Output.GoIdent)
					g.P("func (", rec, ") ", m.GoName, "(ctx ", ctxT, ", req *", in, ") (*", out, ", error) {")
					g.P("o, err := ", handle, `(ctx, "`, full, ".", m.Desc.Name(), `", req, &`, out, "{})")
					g.P("if o == nil { return nil, err }")
					g.P("return o.(*", out, "), err")
					g.P("}")
					g.P()
				}
			}
		}
		g.P("func init() {")
		for _, s := range f.Services {
			full := string(s.Desc.FullName())
			if feat.Server {
				g.P(g.QualifiedGoIdent(rt.Ident("RegisterServer")), `("`, full, `", func(mux *`, g.QualifiedGoIdent(protogen.GoIdent{GoName: "ServeMux", GoImportPath: "net/http"}), ", hook ", g.QualifiedGoIdent(rt.Ident("ErrorHook")), ", mock bool) error {")
				g.P("var impl ", s.GoName, "Server = zzRec", s.GoName, "{}")
				if feat.Mock {
					g.P("if mock { impl = NewMock", s.GoName, "Server() }")
				}
				g.P("opts := []ServerOption{WithMux(mux)}")
				g.P("if hook != nil { opts = append(opts, WithErrorHandler(ErrorHandler(hook))) }")
				g.P("return Register", s.GoName, "Server(impl, opts...)")
				g.P("}, ", feat.Mock, ")")
				if feat.Mock {
					g.P(g.QualifiedGoIdent(rt.Ident("RegisterMock")), `("`, full, `", func() map[string]`, g.QualifiedGoIdent(rt.Ident("DirectInvoker")), " {")
					g.P("m := NewMock", s.GoName, "Server()")
					g.P("return map[string]", g.QualifiedGoIdent(rt.Ident("DirectInvoker")), "{")
					for _, m := range s.Methods {
						in := g.QualifiedGoIdent(m.Input.GoIdent)
						g.P(`"`, m.Desc.Name(), `": func(ctx `, ctxT, ", req ", protoMsg, ") (", protoMsg, ", error) {")
						g.P("r, err := m.", m.GoName, "(ctx, req.(*", in, "))")
						g.P("if r == nil { return nil, err }")
						g.P("return r, err")
						g.P("},")
					}
					g.P("}")
					g.P("})")
				}
			}
			if feat.Client {
				sh := uniq(svcHeaders(s))
				mh := uniq(append(svcHeaders(s), methodHeaders(s)...))
				var ex []ExtraOpt
				for _, e := range discoverExtras(s, clientSrc) {
					e.Driven = e.Scope == "call" && len(e.Params) >= 1 && len(e.Params) <= 2
					for _, t := range e.Params {
						if _, ok := extraArgExpr(g, t, "kv.V"); !ok {
							e.Driven = false
						}
					}
					if len(e.Params) == 2 && e.Params[0] != "string" {
						e.Driven = false
					}
					extras[full] = append(extras[full], e)
					if e.Driven {
						ex = append(ex, e)
					}
				}
				g.P(g.QualifiedGoIdent(rt.Ident("RegisterClient")), `("`, full, `", func(baseURL string, o `, g.QualifiedGoIdent(rt.Ident("ClientOpts")), ") map[string]", g.QualifiedGoIdent(rt.Ident("Invoker")), " {")
				g.P("var copts []", s.GoName, "ClientOption")
				g.P("if o.HTTP != nil { copts = append(copts, With", s.GoName, "HTTPClient(o.HTTP)) }")
				g.P(`if o.ContentType != "" { copts = append(copts, With`, s.GoName, "ContentType(o.ContentType)) }")
				g.P("for _, kv := range o.DefaultHeaders { copts = append(copts, With", s.GoName, "DefaultHeader(kv.K, kv.V)) }")
				if helpers && len(sh) > 0 {
					g.P("for _, kv := range o.Helpers {")
					g.P("switch kv.K {")
					for _, h := range sh {
						g.P(`case "`, h, `": copts = append(copts, With`, s.GoName, helperFuncName(h), "(kv.V))")
					}
					g.P("}")
					g.P("}")
				}
				g.P("c := New", s.GoName, "Client(baseURL, copts...)")
				g.P("return map[string]", g.QualifiedGoIdent(rt.Ident("Invoker")), "{")
				for _, m := range s.Methods {
					in := g.QualifiedGoIdent(m.Input.GoIdent)
					g.P(`"`, m.Desc.Name(), `": func(ctx `, ctxT, ", req ", protoMsg, ", co ", g.QualifiedGoIdent(rt.Ident("CallOpts")), ") (", protoMsg, ", error) {")
					g.P("var opts []", s.GoName, "CallOption")
					g.P("for _, kv := range co.Headers { opts = append(opts, With", s.GoName, "Header(kv.K, kv.V)) }")
					g.P(`if co.ContentType != "" { opts = append(opts, With`, s.GoName, "CallContentType(co.ContentType)) }")
					if len(ex) > 0 {
						g.P("for _, kv := range co.Extra {")
						g.P("switch kv.K {")
						for _, e := range ex {
							if !e.Driven {
								continue
							}
							var args []string
							for i, t := range e.Params {
								v := "kv.V"
								if len(e.Params) == 2 && i == 0 {
									v = `"X-Lab-Extra"`
								}
								a, _ := extraArgExpr(g, t, v)
								args = append(args, a)
							}
							g.P(`case "`, e.Name, `": opts = append(opts, With`, s.GoName, e.Name, "(", strings.Join(args, ", "), "))")
						}
						g.P("}")
						g.P("}")
					}
					if helpers && len(mh) > 0 {
						g.P("for _, kv := range co.Helpers {")
						g.P("switch kv.K {")
						for _, h := range mh {
							g.P(`case "`, h, `": opts = append(opts, With`, s.GoName, "Call", helperFuncName(h), "(kv.V))")
						}
						g.P("}")
						g.P("}")
					}
					g.P("r, err := c.", m.GoName, "(ctx, req.(*", in, "), opts...)")
					g.P("if r == nil { return nil, err }")
					g.P("return r, err")
					g.P("},")
				}
				g.P("}")
				g.P("})")
			}
		}
		g.P("}")
	}
	resp := plug.Response()
	if resp.Error != nil {
		return nil, nil, fmt.Errorf("glue: %s", resp.GetError())
	}
	out := map[string]string{}
	for _, f := range resp.File {
		out[f.GetName()] = f.GetContent()
	}
	return out, extras, nil
}
