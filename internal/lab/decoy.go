package lab

import (
	"os"
	"sync/atomic"

	"google.golang.org/protobuf/types/pluginpb"

	"verif/internal/plugin"
	"verif/internal/spec"
)

// Decoy counters (evidence): invocations that carried a decoy twin, and ones that fell back to the plain request.
var (
	DecoyRuns      atomic.Int64
	DecoyFallbacks atomic.Int64
)

// RunDecoy runs a sebuf plugin on req preceded, in the SAME invocation, by a decoy twin of every file to
// generate (spec.WithDecoy) and returns only the original files' output. The L2 checks generate the code
// they execute this way, so each of them is sensitive to anything a generator carries from one file of an
// invocation to the next. If the invocation with the decoy does not succeed, the plain request decides
// (whether two packages can be generated together at all is an L1 question: C12/C15/C16).
func RunDecoy(tb *plugin.Toolbox, p string, req *pluginpb.CodeGeneratorRequest, opt plugin.RunOpt) *plugin.Result {
	if os.Getenv("VERIF_NO_DECOY") != "" {
		return tb.Run(p, req, opt)
	}
	// the OpenAPI generator names its documents after the bare service name (one flat directory): its decoy
	// services are renamed; every other generator gets the decoy under the very same service names
	dreq, isDecoy, ok := spec.WithDecoyX(req, p != "openapiv3")
	if !ok {
		return tb.Run(p, req, opt)
	}
	res := tb.Run(p, dreq, opt)
	if !res.OK() {
		if os.Getenv("VERIF_DEBUG_DECOY") != "" {
			println("DECOY-REFUSED", p, res.Crash, res.Error, res.Stderr)
		}
		DecoyFallbacks.Add(1)
		return tb.Run(p, req, opt)
	}
	DecoyRuns.Add(1)
	files := map[string]string{}
	var order []string
	for _, n := range res.Order {
		if isDecoy(n) {
			continue
		}
		if _, dup := files[n]; !dup {
			order = append(order, n)
		}
		files[n] = res.Files[n]
	}
	res.Files, res.Order = files, order
	return res
}
