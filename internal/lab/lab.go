package lab

import (
	"bufio"
	"bytes"
	"encoding/json"
	"fmt"
	"io"
	"os"
	"os/exec"
	"path/filepath"
	"regexp"
	"sort"
	"strings"
	"sync"
	"syscall"
	"time"

	"google.golang.org/protobuf/types/pluginpb"

	"verif/internal/plugin"
	"verif/internal/report"
)

// Lab is a scratch Go module holding generated packages.
type Lab struct {
	TB      *plugin.Toolbox
	Dir     string
	mu      sync.Mutex
	pkgDirs map[string]bool   // module-relative dirs with go files ("gen/foo")
	tags    map[string]string // dir -> case tag
	Failed  map[string][]BuildError
}

// BuildError is one compiler/vet diagnostic.
type BuildError struct {
	File string // module-relative
	Line int
	Msg  string
	Tool string // compile | vet
}

// New creates an empty lab module under the toolbox scratch.
func New(tb *plugin.Toolbox, name string) (*Lab, error) {
	dir := filepath.Join(tb.Scratch, "lab-"+name)
	if err := os.MkdirAll(dir, 0o755); err != nil {
		return nil, err
	}
	gomod := `module lab

go 1.24.7

require (
	buf.build/gen/go/bufbuild/protovalidate/protocolbuffers/go v1.36.11-20260209202127-80ab13bee0bf.1
	buf.build/go/protovalidate v0.0.0
	github.com/SebastienMelki/sebuf v0.0.0
	google.golang.org/protobuf v1.36.11
)

replace github.com/SebastienMelki/sebuf => ` + plugin.RepoDir + `

replace buf.build/go/protovalidate => ` + filepath.Join(report.VerifDir, "pvstub") + `
`
	if err := os.WriteFile(filepath.Join(dir, "go.mod"), []byte(gomod), 0o644); err != nil {
		return nil, err
	}
	sum, err := os.ReadFile(filepath.Join(plugin.RepoDir, "go.sum"))
	if err != nil {
		return nil, err
	}
	if err := os.WriteFile(filepath.Join(dir, "go.sum"), sum, 0o644); err != nil {
		return nil, err
	}
	// copy labrt
	src := filepath.Join(report.VerifDir, "labrt")
	ents, err := os.ReadDir(src)
	if err != nil {
		return nil, err
	}
	if err := os.MkdirAll(filepath.Join(dir, "labrt"), 0o755); err != nil {
		return nil, err
	}
	for _, e := range ents {
		if strings.HasSuffix(e.Name(), ".go") && !strings.HasSuffix(e.Name(), "_test.go") {
			b, err := os.ReadFile(filepath.Join(src, e.Name()))
			if err != nil {
				return nil, err
			}
			if err := os.WriteFile(filepath.Join(dir, "labrt", e.Name()), b, 0o644); err != nil {
				return nil, err
			}
		}
	}
	return &Lab{TB: tb, Dir: dir, pkgDirs: map[string]bool{}, tags: map[string]string{}, Failed: map[string][]BuildError{}}, nil
}

// PkgOpt selects what goes into a package.
type PkgOpt struct {
	Plugins   []string // subset of go-http, go-client, in write order (later overwrites earlier)
	Mock      bool
	NoGlue    bool
	Helpers   bool   // glue references typed header helpers
	Tag       string // case tag for attribution
	HTTPParam string
}

// Added describes what Add wrote.
type Added struct {
	Results map[string]*plugin.Result
	Dirs    []string
	Refused string // non-empty if a plugin refused (error) – nothing written for it
	// Extras: option constructors of the emitted Go client beyond the documented ones, per service full name
	Extras map[string][]ExtraOpt
}

func (l *Lab) write(name, content string) (string, error) {
	if !strings.HasPrefix(name, "lab/") {
		return "", fmt.Errorf("generated file %q is outside the lab module", name)
	}
	rel := strings.TrimPrefix(name, "lab/")
	p := filepath.Join(l.Dir, rel)
	if err := os.MkdirAll(filepath.Dir(p), 0o755); err != nil {
		return "", err
	}
	return filepath.Dir(rel), os.WriteFile(p, []byte(content), 0o644)
}

// Add runs protoc-gen-go and the selected sebuf plugins on req and writes their output
// (+ glue) into the module. Go import paths of generated files must start with "lab/".
func (l *Lab) Add(req *pluginpb.CodeGeneratorRequest, opt PkgOpt) (*Added, error) {
	ad := &Added{Results: map[string]*plugin.Result{}}
	dirs := map[string]bool{}
	clientSrc := map[string]string{}
	pg := l.TB.Run("go", req, plugin.RunOpt{})
	if !pg.OK() {
		return nil, fmt.Errorf("protoc-gen-go failed: crash=%s err=%s stderr=%s", pg.Crash, pg.Error, pg.Stderr)
	}
	for n, c := range pg.Files {
		d, err := l.write(n, c)
		if err != nil {
			return nil, err
		}
		dirs[d] = true
	}
	feat := Features{Mock: opt.Mock}
	for _, p := range opt.Plugins {
		r := req
		if p == "go-http" && (opt.Mock || opt.HTTPParam != "") {
			r2 := *req
			param := opt.HTTPParam
			if opt.Mock {
				if param != "" {
					param += ","
				}
				param += "generate_mock=true"
			}
			r2.Parameter = &param
			r = &r2
		}
		res := RunDecoy(l.TB, p, r, plugin.RunOpt{})
		ad.Results[p] = res
		if !res.OK() {
			ad.Refused = fmt.Sprintf("%s: crash=%s error=%s", p, res.Crash, res.Error)
			continue
		}
		for n, c := range res.Files {
			if p == "go-client" {
				clientSrc[n] = c
			}
			d, err := l.write(n, c)
			if err != nil {
				return nil, err
			}
			dirs[d] = true
		}
		switch p {
		case "go-http":
			feat.Server = true
		case "go-client":
			feat.Client = true
		}
	}
	if !opt.NoGlue && ad.Refused == "" {
		gl, extras, err := GlueX(req, feat, "lab/labrt", opt.Helpers, clientSrc)
		if err != nil {
			return nil, err
		}
		ad.Extras = extras
		for n, c := range gl {
			if _, err := l.write(n, c); err != nil {
				return nil, err
			}
		}
	}
	l.mu.Lock()
	for d := range dirs {
		l.pkgDirs[d] = true
		if opt.Tag != "" {
			l.tags[d] = opt.Tag
		}
		ad.Dirs = append(ad.Dirs, d)
	}
	l.mu.Unlock()
	sort.Strings(ad.Dirs)
	return ad, nil
}

// WriteRaw writes an arbitrary file into the module (module-relative path).
func (l *Lab) WriteRaw(rel, content, tag string) error {
	p := filepath.Join(l.Dir, rel)
	if err := os.MkdirAll(filepath.Dir(p), 0o755); err != nil {
		return err
	}
	l.mu.Lock()
	if strings.HasSuffix(rel, ".go") {
		l.pkgDirs[filepath.Dir(rel)] = true
		if tag != "" {
			l.tags[filepath.Dir(rel)] = tag
		}
	}
	l.mu.Unlock()
	return os.WriteFile(p, []byte(content), 0o644)
}

// Tag returns the case tag of a package dir.
func (l *Lab) Tag(dir string) string { return l.tags[dir] }

// Dirs returns all package dirs.
func (l *Lab) Dirs() []string {
	var ds []string
	for d := range l.pkgDirs {
		ds = append(ds, d)
	}
	sort.Strings(ds)
	return ds
}

var diagRe = regexp.MustCompile(`^(?:# .*|(?:vet: )?\.?/?([\w./+-]+\.go):(\d+)(?::\d+)?: (.*))$`)

func (l *Lab) goCmd(args ...string) ([]byte, error) {
	cmd := exec.Command(plugin.GoBin(), args...)
	cmd.Dir = l.Dir
	cmd.Env = plugin.GoEnv()
	return cmd.CombinedOutput()
}

func parseDiags(out []byte, tool string) []BuildError {
	var errs []BuildError
	for _, line := range strings.Split(string(out), "\n") {
		line = strings.TrimSpace(line)
		m := diagRe.FindStringSubmatch(line)
		if m == nil || m[1] == "" {
			continue
		}
		var ln int
		fmt.Sscanf(m[2], "%d", &ln)
		errs = append(errs, BuildError{File: filepath.Clean(m[1]), Line: ln, Msg: m[3], Tool: tool})
	}
	return errs
}

// CompileAll compiles every package (go build ./...) and records per-dir diagnostics
// in l.Failed. withVet additionally runs the `go test` vet subset (go test -run ^$).
// It returns raw tool output that could not be attributed (harness-level trouble).
func (l *Lab) CompileAll(withVet bool) (unattributed string) {
	out, err := l.goCmd("build", "-gcflags=-e", "./...")
	var un []string
	if err != nil {
		diags := parseDiags(out, "compile")
		if len(diags) == 0 {
			un = append(un, string(out))
		}
		for _, d := range diags {
			dir := filepath.Dir(d.File)
			l.Failed[dir] = append(l.Failed[dir], d)
		}
	}
	l.propagateFailures()
	if withVet {
		// vet only packages that compile; failing ones already have a verdict
		var ok []string
		for _, d := range l.Dirs() {
			if len(l.Failed[d]) == 0 {
				ok = append(ok, "./"+d)
			}
		}
		for i := 0; i < len(ok); i += 200 {
			j := i + 200
			if j > len(ok) {
				j = len(ok)
			}
			args := append([]string{"test", "-count=1", "-run", "^$"}, ok[i:j]...)
			out, err := l.goCmd(args...)
			if err != nil {
				diags := parseDiags(out, "vet")
				if len(diags) == 0 {
					un = append(un, string(out))
				}
				for _, d := range diags {
					dir := filepath.Dir(d.File)
					l.Failed[dir] = append(l.Failed[dir], d)
				}
			}
		}
	}
	return strings.Join(un, "\n")
}

// propagateFailures marks every lab package that imports a lab package which does not build as failing too
// (the compiler reports only the package where the error is), so the binary leaves both out and the
// importing package's case gets the dependency's diagnostic.
func (l *Lab) propagateFailures() {
	imports := map[string][]string{}
	for _, d := range l.Dirs() {
		ents, err := os.ReadDir(filepath.Join(l.Dir, d))
		if err != nil {
			continue
		}
		seen := map[string]bool{}
		for _, e := range ents {
			if e.IsDir() || !strings.HasSuffix(e.Name(), ".go") {
				continue
			}
			src, err := os.ReadFile(filepath.Join(l.Dir, d, e.Name()))
			if err != nil {
				continue
			}
			for _, m := range labImportRe.FindAllStringSubmatch(string(src), -1) {
				if m[1] != d && !seen[m[1]] {
					seen[m[1]] = true
					imports[d] = append(imports[d], m[1])
				}
			}
		}
	}
	for changed := true; changed; {
		changed = false
		for d, deps := range imports {
			if len(l.Failed[d]) > 0 {
				continue
			}
			for _, dep := range deps {
				if len(l.Failed[dep]) > 0 {
					first := l.Failed[dep][0]
					l.Failed[d] = append(l.Failed[d], BuildError{File: first.File, Line: first.Line, Msg: "imported package " + dep + " does not build: " + first.Msg, Tool: first.Tool})
					changed = true
					break
				}
			}
		}
	}
}

var labImportRe = regexp.MustCompile(`"lab/(gen/[A-Za-z0-9_]+)"`)

// BuildBinary writes main.go importing every package that compiled and builds the lab binary.
func (l *Lab) BuildBinary(race bool) (string, error) {
	var b strings.Builder
	b.WriteString("package main\n\nimport (\n\t\"lab/labrt\"\n")
	for _, d := range l.Dirs() {
		if d == "labrt" || d == "." || len(l.Failed[d]) > 0 {
			continue
		}
		fmt.Fprintf(&b, "\t_ %q\n", "lab/"+d)
	}
	b.WriteString(")\n\nfunc main() { labrt.Main() }\n")
	if err := os.WriteFile(filepath.Join(l.Dir, "main.go"), []byte(b.String()), 0o644); err != nil {
		return "", err
	}
	bin := filepath.Join(l.Dir, "labbin")
	args := []string{"build", "-o", bin}
	if race {
		args = append(args, "-race")
	}
	args = append(args, ".")
	out, err := l.goCmd(args...)
	if err != nil {
		return "", fmt.Errorf("lab binary build failed: %v\n%s", err, out)
	}
	return bin, nil
}

// ---------- child process ----------

// Event is one JSONL event from a child.
type Event map[string]any

func (e Event) Str(k string) string {
	s, _ := e[k].(string)
	return s
}
func (e Event) Int(k string) int64 {
	f, _ := e[k].(float64)
	return int64(f)
}

// Child is a running lab binary.
type Child struct {
	cmd     *exec.Cmd
	in      io.WriteCloser
	events  chan Event
	stderr  *bytes.Buffer
	LastCmd string
	dead    chan struct{}
	RaceLog string
	mu      sync.Mutex
}

// Start launches the lab binary. env entries are appended (e.g. GOMAXPROCS, TZ).
func Start(bin string, raceLog string, env ...string) (*Child, error) {
	return StartArgv([]string{bin}, raceLog, env...)
}

// NodeBin locates Node 22 (runs .ts by type stripping). Empty if absent.
func NodeBin() string {
	for _, c := range []string{os.Getenv("VERIF_NODE"), "/root/.nvm/versions/node/v22.22.2/bin/node"} {
		if c == "" {
			continue
		}
		if st, err := os.Stat(c); err == nil && !st.IsDir() {
			return c
		}
	}
	return ""
}

// StartNode launches node/bridge.mjs.
func StartNode() (*Child, error) {
	nb := NodeBin()
	if nb == "" {
		return nil, fmt.Errorf("node 22 not found")
	}
	return StartArgv([]string{nb, "--disable-warning=ExperimentalWarning", "--max-old-space-size=2048", filepath.Join(report.VerifDir, "node", "bridge.mjs")}, "")
}

// StartArgv launches an arbitrary JSONL-speaking child.
func StartArgv(argv []string, raceLog string, env ...string) (*Child, error) {
	cmd := exec.Command(argv[0], argv[1:]...)
	// Every lab child (Go and Node) runs in a zone that is not UTC and has a fractional offset unless the
	// caller chooses one: emitted code that consults the local zone shows in whatever the check observes
	// (C04 runs its codecs under UTC and two other zones explicitly).
	hasTZ := false
	for _, e := range env {
		if strings.HasPrefix(e, "TZ=") {
			hasTZ = true
		}
	}
	base := os.Environ()
	if !hasTZ {
		kept := base[:0:0]
		for _, e := range base {
			if !strings.HasPrefix(e, "TZ=") {
				kept = append(kept, e)
			}
		}
		base = append(kept, "TZ=Pacific/Chatham")
	}
	cmd.Env = append(base, env...)
	if raceLog != "" {
		cmd.Env = append(cmd.Env, "GORACE=halt_on_error=0 log_path="+raceLog)
	}
	cmd.SysProcAttr = &syscall.SysProcAttr{Setpgid: true}
	in, err := cmd.StdinPipe()
	if err != nil {
		return nil, err
	}
	out, err := cmd.StdoutPipe()
	if err != nil {
		return nil, err
	}
	c := &Child{cmd: cmd, in: in, events: make(chan Event, 4096), stderr: &bytes.Buffer{}, dead: make(chan struct{}), RaceLog: raceLog}
	cmd.Stderr = c.stderr
	if err := cmd.Start(); err != nil {
		return nil, err
	}
	go func() {
		sc := bufio.NewReaderSize(out, 1<<20)
		for {
			line, err := sc.ReadBytes('\n')
			if len(line) > 1 {
				var ev Event
				dec := json.NewDecoder(bytes.NewReader(line))
				if jerr := dec.Decode(&ev); jerr == nil {
					c.events <- ev
				} else {
					c.events <- Event{"ev": "garbage", "line": string(line)}
				}
			}
			if err != nil {
				break
			}
		}
		_ = cmd.Wait()
		close(c.dead)
		close(c.events)
	}()
	// wait for ready
	if _, err := c.Until(func(e Event) bool { return e.Str("ev") == "ready" }, 60*time.Second); err != nil {
		c.Kill()
		return nil, fmt.Errorf("lab child did not become ready: %v; stderr: %s", err, c.Stderr())
	}
	return c, nil
}

// Stderr returns what the child wrote to stderr so far.
func (c *Child) Stderr() string { return c.stderr.String() }

// Send writes one command.
func (c *Child) Send(cmd map[string]any) error {
	b, err := json.Marshal(cmd)
	if err != nil {
		return err
	}
	c.mu.Lock()
	c.LastCmd = string(b)
	c.mu.Unlock()
	_, err = c.in.Write(append(b, '\n'))
	return err
}

// ErrDead is returned when the child exited.
var ErrDead = fmt.Errorf("lab child died")

// ErrTimeout is returned when the watchdog fired.
var ErrTimeout = fmt.Errorf("lab child timeout")

// Until collects events until pred matches (the matching event is included).
func (c *Child) Until(pred func(Event) bool, timeout time.Duration) ([]Event, error) {
	var evs []Event
	t := time.NewTimer(timeout)
	defer t.Stop()
	for {
		select {
		case ev, ok := <-c.events:
			if !ok {
				return evs, ErrDead
			}
			evs = append(evs, ev)
			if pred(ev) {
				return evs, nil
			}
		case <-t.C:
			return evs, ErrTimeout
		}
	}
}

// Do sends a command and waits for the event whose "id" equals the command's id and whose
// "ev" is one of terminal (or "error").
func (c *Child) Do(cmd map[string]any, timeout time.Duration, terminal ...string) ([]Event, Event, error) {
	if err := c.Send(cmd); err != nil {
		return nil, nil, ErrDead
	}
	id, _ := cmd["id"].(string)
	evs, err := c.Until(func(e Event) bool {
		if e.Str("id") != id {
			return false
		}
		k := e.Str("ev")
		if k == "error" || (k == "panic" && strings.HasPrefix(e.Str("where"), "op:")) {
			return true
		}
		for _, t := range terminal {
			if k == t {
				return true
			}
		}
		return false
	}, timeout)
	if err != nil {
		return evs, nil, err
	}
	return evs[:len(evs)-1], evs[len(evs)-1], nil
}

// Kill terminates the child (SIGQUIT first would dump goroutines; we capture stderr).
func (c *Child) Kill() {
	if c.cmd.Process != nil {
		_ = syscall.Kill(-c.cmd.Process.Pid, syscall.SIGKILL)
	}
	<-c.dead
}

// Quit asks the child to exit and waits.
func (c *Child) Quit() {
	_ = c.Send(map[string]any{"op": "quit"})
	select {
	case <-c.dead:
	case <-time.After(10 * time.Second):
		c.Kill()
	}
}

// RaceReports counts "WARNING: DATA RACE" blocks in the child's race log files and returns
// the de-duplicated report texts.
func RaceReports(logPrefix string) (int, []string) {
	matches, _ := filepath.Glob(logPrefix + ".*")
	n := 0
	seen := map[string]bool{}
	var uniq []string
	for _, m := range matches {
		b, err := os.ReadFile(m)
		if err != nil {
			continue
		}
		blocks := strings.Split(string(b), "==================")
		for _, bl := range blocks {
			if !strings.Contains(bl, "WARNING: DATA RACE") {
				continue
			}
			n++
			k := raceKey(bl)
			if !seen[k] {
				seen[k] = true
				uniq = append(uniq, strings.TrimSpace(bl))
			}
		}
	}
	return n, uniq
}

var frameRe = regexp.MustCompile(`(?m)^  ([\w./()*\[\]·-]+)\(`)

func raceKey(block string) string {
	fr := frameRe.FindAllStringSubmatch(block, -1)
	var fs []string
	for i, f := range fr {
		if i >= 6 {
			break
		}
		fs = append(fs, f[1])
	}
	return strings.Join(fs, "|")
}
