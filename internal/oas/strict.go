package oas

// Strictify returns a deep copy of the document in which every schema *use site* at an
// instance-location root (request/response schemas; subschemas under properties/*, items,
// additionalProperties - inline or {$ref}) is closed with `unevaluatedProperties: false`
// (which sees through $ref/allOf/oneOf), so that the standard
// Draft 2020-12 validator decides "no property the schema does not describe". Members of
// allOf/oneOf/anyOf are never closed individually (they describe one object jointly).
func Strictify(root map[string]any) map[string]any {
	cp := deepCopy(root).(map[string]any)
	comps := M(M(cp["components"])["schemas"])
	for _, s := range comps {
		// component roots are closed at their *use sites* ({$ref, unevaluatedProperties:false}):
		// closing the component itself would break allOf compositions that refer to it
		if sm := M(s); sm != nil {
			descend(sm)
		}
	}
	// inline schemas of operations
	for _, item := range M(cp["paths"]) {
		for _, op := range M(item) {
			o := M(op)
			if o == nil {
				continue
			}
			if rb := M(o["requestBody"]); rb != nil {
				for _, mt := range M(rb["content"]) {
					strictRoot(M(mt)["schema"])
				}
			}
			for _, r := range M(o["responses"]) {
				for _, mt := range M(M(r)["content"]) {
					strictRoot(M(mt)["schema"])
				}
			}
		}
	}
	return cp
}

func deepCopy(v any) any {
	switch x := v.(type) {
	case map[string]any:
		out := make(map[string]any, len(x))
		for k, e := range x {
			out[k] = deepCopy(e)
		}
		return out
	case []any:
		out := make([]any, len(x))
		for i := range x {
			out[i] = deepCopy(x[i])
		}
		return out
	}
	return v
}

func objectish(m map[string]any) bool {
	if m["properties"] != nil || m["allOf"] != nil || m["oneOf"] != nil || m["anyOf"] != nil {
		return true
	}
	if t, ok := m["type"].(string); ok && t == "object" && m["additionalProperties"] == nil {
		return true
	}
	return false
}

// strictRoot closes an instance-location root and descends into instance-location children.
func strictRoot(v any) {
	m := M(v)
	if m == nil {
		return
	}
	if _, isRef := m["$ref"]; objectish(m) || isRef {
		if _, has := m["unevaluatedProperties"]; !has {
			m["unevaluatedProperties"] = false
		}
	}
	descend(m)
}

// descend visits children: properties/items/additionalProperties are new instance locations
// (strictRoot); allOf/oneOf/anyOf members stay open but their own children are visited.
func descend(m map[string]any) {
	for _, p := range M(m["properties"]) {
		strictRoot(p)
	}
	if it := M(m["items"]); it != nil {
		strictRoot(it)
	}
	if ap := M(m["additionalProperties"]); ap != nil {
		strictRoot(ap)
	}
	for _, k := range []string{"allOf", "oneOf", "anyOf"} {
		for _, e := range L(m[k]) {
			if em := M(e); em != nil {
				descend(em)
			}
		}
	}
}
