// Package oas reads emitted OpenAPI documents into generic trees and offers the structural
// queries the checks need. libopenapi (used by the generator) is deliberately not used.
package oas

import (
	"bytes"
	"encoding/json"
	"fmt"
	"sort"
	"strings"

	yaml4 "go.yaml.in/yaml/v4"
	k8syaml "sigs.k8s.io/yaml"
)

// Doc is a parsed document.
type Doc struct {
	Name string
	Root map[string]any
}

func decodeJSON(b []byte) (map[string]any, error) {
	dec := json.NewDecoder(bytes.NewReader(b))
	dec.UseNumber()
	var v map[string]any
	if err := dec.Decode(&v); err != nil {
		return nil, err
	}
	return v, nil
}

// Parse parses a document by file extension (.json / .yaml / .yml).
func Parse(name, content string) (*Doc, error) {
	var root map[string]any
	var err error
	if strings.HasSuffix(name, ".json") {
		root, err = decodeJSON([]byte(content))
	} else {
		// YAML 1.2 (go.yaml.in/yaml/v4) is the deciding reader: OpenAPI 3.1 documents are YAML 1.2.
		var t any
		t, err = ParseYAMLv4(content)
		if err == nil {
			var ok bool
			root, ok = t.(map[string]any)
			if !ok {
				err = fmt.Errorf("document root is not a mapping")
			}
		}
	}
	if err != nil {
		return nil, fmt.Errorf("%s: %w", name, err)
	}
	return &Doc{Name: name, Root: root}, nil
}

// ParseYAML11 parses YAML with sigs.k8s.io/yaml (YAML 1.1 scalar resolution: y/n/yes/no/on/off
// are booleans). Only used to *count* 1.1-vs-1.2 ambiguities, never for a verdict.
func ParseYAML11(content string) (map[string]any, error) {
	j, err := k8syaml.YAMLToJSON([]byte(content))
	if err != nil {
		return nil, err
	}
	return decodeJSON(j)
}

// ParseYAMLv4 parses YAML with the second parser (go.yaml.in/yaml/v4) for cross-checking.
func ParseYAMLv4(content string) (any, error) {
	var v any
	if err := yaml4.Unmarshal([]byte(content), &v); err != nil {
		return nil, err
	}
	return normYAML(v), nil
}

func normYAML(v any) any {
	switch x := v.(type) {
	case map[string]any:
		out := map[string]any{}
		for k, e := range x {
			out[k] = normYAML(e)
		}
		return out
	case map[any]any:
		out := map[string]any{}
		for k, e := range x {
			out[fmt.Sprint(k)] = normYAML(e)
		}
		return out
	case []any:
		out := make([]any, len(x))
		for i := range x {
			out[i] = normYAML(x[i])
		}
		return out
	case int:
		return json.Number(fmt.Sprint(x))
	case int64:
		return json.Number(fmt.Sprint(x))
	case uint64:
		return json.Number(fmt.Sprint(x))
	case float64:
		b, err := json.Marshal(x)
		if err != nil {
			return fmt.Sprintf("!!float %v", x) // .inf/.nan: not representable in JSON
		}
		return json.Number(string(b))
	case bool, string, nil:
		return v
	}
	return v
}

// M returns v as a map (nil if not).
func M(v any) map[string]any {
	m, _ := v.(map[string]any)
	return m
}

// L returns v as a list.
func L(v any) []any {
	l, _ := v.([]any)
	return l
}

// S returns v as a string.
func S(v any) string {
	s, _ := v.(string)
	return s
}

// Param is an operation parameter.
type Param struct {
	Name     string
	In       string
	Required bool
	Schema   any
	Raw      map[string]any
}

// Op is one operation.
type Op struct {
	Verb        string // upper case
	Path        string
	OperationID string
	Params      []Param
	ReqSchema   any            // application/json request schema (nil if none)
	HasBody     bool
	Responses   map[string]any // status -> application/json schema
	Raw         map[string]any
}

var verbKeys = []string{"get", "put", "post", "delete", "options", "head", "patch", "trace"}

// Ops lists all operations in path order.
func (d *Doc) Ops() []Op {
	var out []Op
	paths := M(d.Root["paths"])
	keys := make([]string, 0, len(paths))
	for k := range paths {
		keys = append(keys, k)
	}
	sort.Strings(keys)
	for _, p := range keys {
		item := M(paths[p])
		var shared []any
		shared = L(item["parameters"])
		for _, vk := range verbKeys {
			o := M(item[vk])
			if o == nil {
				continue
			}
			op := Op{Verb: strings.ToUpper(vk), Path: p, OperationID: S(o["operationId"]), Responses: map[string]any{}, Raw: o}
			for _, pv := range append(append([]any{}, shared...), L(o["parameters"])...) {
				pm := M(d.Deref(pv))
				if pm == nil {
					continue
				}
				req, _ := pm["required"].(bool)
				op.Params = append(op.Params, Param{Name: S(pm["name"]), In: S(pm["in"]), Required: req, Schema: pm["schema"], Raw: pm})
			}
			if rb := M(d.Deref(o["requestBody"])); rb != nil {
				op.HasBody = true
				if c := M(M(rb["content"])["application/json"]); c != nil {
					op.ReqSchema = c["schema"]
				}
			}
			for st, rv := range M(o["responses"]) {
				r := M(d.Deref(rv))
				if c := M(M(r["content"])["application/json"]); c != nil {
					op.Responses[st] = c["schema"]
				} else {
					op.Responses[st] = nil
				}
			}
			out = append(out, op)
		}
	}
	return out
}

// Deref resolves a {$ref} node once (returns v itself when it is not a reference or the
// reference does not resolve).
func (d *Doc) Deref(v any) any {
	m := M(v)
	if m == nil {
		return v
	}
	ref, ok := m["$ref"].(string)
	if !ok {
		return v
	}
	t, err := d.Resolve(ref)
	if err != nil {
		return v
	}
	return t
}

// Resolve resolves a local JSON pointer reference "#/a/b".
func (d *Doc) Resolve(ref string) (any, error) {
	if !strings.HasPrefix(ref, "#/") {
		return nil, fmt.Errorf("non-local ref %q", ref)
	}
	var cur any = d.Root
	for _, tok := range strings.Split(ref[2:], "/") {
		tok = strings.ReplaceAll(strings.ReplaceAll(tok, "~1", "/"), "~0", "~")
		m := M(cur)
		if m == nil {
			return nil, fmt.Errorf("ref %q: not an object at %q", ref, tok)
		}
		next, ok := m[tok]
		if !ok {
			return nil, fmt.Errorf("ref %q: missing %q", ref, tok)
		}
		cur = next
	}
	return cur, nil
}

// Refs returns every $ref string in the document with its location.
func (d *Doc) Refs() map[string][]string {
	out := map[string][]string{}
	var walk func(v any, path string)
	walk = func(v any, path string) {
		switch x := v.(type) {
		case map[string]any:
			for k, e := range x {
				if k == "$ref" {
					if s, ok := e.(string); ok {
						out[s] = append(out[s], path)
					}
				}
				walk(e, path+"/"+k)
			}
		case []any:
			for i, e := range x {
				walk(e, fmt.Sprintf("%s/%d", path, i))
			}
		}
	}
	walk(d.Root, "")
	return out
}

// Schemas returns components.schemas.
func (d *Doc) Schemas() map[string]any {
	return M(M(d.Root["components"])["schemas"])
}

// TemplateVars extracts {var} names from a path template in order.
func TemplateVars(p string) []string {
	var out []string
	for {
		i := strings.IndexByte(p, '{')
		if i < 0 {
			return out
		}
		j := strings.IndexByte(p[i:], '}')
		if j < 0 {
			return out
		}
		out = append(out, p[i+1:i+j])
		p = p[i+j+1:]
	}
}

// NormTemplate replaces variable names by {} so templates compare by shape.
func NormTemplate(p string) string {
	var b strings.Builder
	depth := 0
	for _, r := range p {
		switch {
		case r == '{':
			depth++
			b.WriteString("{")
		case r == '}':
			depth--
			b.WriteString("}")
		case depth == 0:
			b.WriteRune(r)
		}
	}
	return b.String()
}
