package corpus

import (
	"fmt"

	"verif/internal/spec"
)

// PlaceCase is one RPC of the placement x kind x cardinality catalogue.
type PlaceCase struct {
	ID       string // place/<where>/<kind>/<card>/<verb>
	Where    string // path | query | body-scalar
	Kind     string
	Card     string
	Verb     string
	Svc      string
	Method   string
	In, Out  string
	Field    string
	Template string
	QueryKey string
}

// PlacementFile builds one service whose RPCs each carry one field of one kind in one place.
// cards selects query cardinalities (singular only keeps the Go client compilable on the
// unchanged tree; optional/repeated live in their own package).
func PlacementFile(pkg, goName string, queryKinds []spec.T, cards []spec.Card, withPath bool) (*spec.File, []*PlaceCase) {
	return PlacementFileG(pkg, goName, PlacementGroup{QueryKinds: queryKinds, Cards: cards, WithPath: withPath})
}

// QueryNameShapes are spellings of the (sebuf.http.query) name: the wire key is whatever the
// definition says, in every generator and for every verb.
var QueryNameShapes = []struct{ Label, Name string }{
	{"camel", "pageSize"}, {"upper-acronym", "APIKey"}, {"snake", "sort_by"}, {"dash", "x-mode"}, {"dot", "filter.name"}, {"bracket", "ids[]"}, {"digit", "v2"}, {"single-upper", "Q"},
}

// PlacementFileG builds the placement file of one group.
func PlacementFileG(pkg, goName string, g PlacementGroup) (*spec.File, []*PlaceCase) {
	queryKinds, cards, withPath := g.QueryKinds, g.Cards, g.WithPath
	f := &spec.File{Path: "place/" + goName + "/place.proto", Package: pkg, GoImport: "lab/gen/" + goName, GoName: goName}
	f.Enums = []*spec.EnumDef{{Name: "PEnum", Values: []spec.EnumValue{{Name: "P_ENUM_UNSPECIFIED", Num: 0}, {Name: "P_ENUM_ONE", Num: 1}, {Name: "P_ENUM_TWO", Num: 2}}}}
	f.Messages = []*spec.Message{{Name: "PlaceResp", Fields: []*spec.Field{spec.F("echo", 1, spec.String), spec.F("count", 2, spec.Int64), spec.F("ratio", 3, spec.Double), spec.F("blob", 4, spec.Bytes), spec.F("tags", 5, spec.String).Rep()}}}
	// three optional service-level headers: they never block a request, but the OpenAPI and client
	// generators carry a per-service parameter table next to each operation's own URL parameters
	svc := &spec.Service{Name: "PlaceService", BasePath: spec.S("/pl"), Headers: []spec.Header{{Name: "X-Trace-Id", Type: "string"}, {Name: "X-Tenant", Type: "string"}, {Name: "X-Debug", Type: "boolean"}}}
	f.Services = []*spec.Service{svc}
	var cases []*PlaceCase
	n := 0
	number64 := false
	jsonName := "" // explicit json_name of the URL-bound field ("" = protoc's default)
	qname, qshape := "vx", ""
	fieldName := "val_x" // proto name of the URL-bound field
	add := func(where string, k spec.T, cd spec.Card, verb string) {
		n++
		kn := spec.KindName(k)
		if number64 {
			kn += "+number"
		}
		mname := fmt.Sprintf("Op%d", n)
		req := &spec.Message{Name: mname + "Req"}
		fld := spec.F(fieldName, 1, k)
		if k == spec.Enum {
			fld = spec.FE(fieldName, 1, "."+pkg+".PEnum")
		}
		switch cd {
		case spec.Optional:
			fld.Opt()
		case spec.Repeated:
			fld.Rep()
		}
		if number64 {
			fld.Ann.Int64Enc = 2
		}
		if jsonName != "" {
			fld.JSON = jsonName
			kn += "~json_name"
		}
		if fieldName != "val_x" {
			kn += "~field=" + fieldName
		}
		pc := &PlaceCase{Where: where, Kind: kn, Card: cd.String(), Verb: verb, Svc: pkg + ".PlaceService", Method: mname, In: pkg + "." + req.Name, Out: pkg + ".PlaceResp", Field: fieldName}
		path := fmt.Sprintf("/o%d", n)
		switch where {
		case "path":
			path += "/{" + fieldName + "}/tail"
		case "query":
			fld.Q(qname)
			pc.QueryKey = qname
		}
		req.Fields = []*spec.Field{fld}
		if verb == "POST" || verb == "PUT" || verb == "PATCH" {
			req.Fields = append(req.Fields, spec.F("note", 2, spec.String))
		}
		pc.Template = "/pl" + path
		pc.ID = fmt.Sprintf("place/%s/%s/%s/%s", where, kn, cd, verb)
		if qshape != "" {
			// the spelling is part of the kind segment, so patterns over place/query/<kind>/… still apply
			pc.ID = fmt.Sprintf("place/query/%s~qname=%s/%s/%s", kn, qshape, cd, verb)
		}
		f.Messages = append(f.Messages, req)
		svc.Methods = append(svc.Methods, &spec.Method{Name: mname, In: "." + pc.In, Out: "." + pc.Out, HTTP: &spec.HTTP{Path: path, Verb: spec.Verb(verb)}})
		cases = append(cases, pc)
	}
	if withPath {
		for _, k := range spec.ScalarKinds {
			if k == spec.Bytes {
				continue
			}
			for _, v := range []string{"GET", "POST", "PUT", "DELETE", "PATCH"} {
				add("path", k, spec.Singular, v)
			}
		}
	}
	if g.FieldNames {
		// valid proto field names that are not lower snake_case: the binding must name the field as declared
		for _, fn := range []struct {
			name string
			k    spec.T
		}{{"itemId", spec.String}, {"shelfNo", spec.Int32}, {"ID", spec.String}, {"userID", spec.Int64}, {"x1", spec.String}, {"a_B", spec.String}} {
			fieldName = fn.name
			for _, v := range []string{"GET", "POST", "PUT"} {
				add("path", fn.k, spec.Singular, v)
			}
			add("query", fn.k, spec.Singular, "GET")
		}
		fieldName = "val_x"
		return f, cases
	}
	if g.PathOpt {
		// a path variable bound to a proto3 optional field (a pointer in the Go struct, `?:` in TS)
		for _, k := range []spec.T{spec.String, spec.Int32, spec.Int64, spec.Uint32, spec.Bool, spec.Double} {
			for _, v := range []string{"GET", "DELETE", "POST", "PUT"} {
				add("path", k, spec.Optional, v)
			}
		}
		return f, cases
	}
	if g.JSONNames {
		// the URL-bound field carries an explicit json_name that differs from the lowerCamel of its name
		jsonName = "valueKey"
		for _, k := range queryKinds {
			for _, v := range []string{"GET", "DELETE", "POST", "PUT"} {
				add("path", k, spec.Singular, v)
			}
			for _, v := range []string{"GET", "DELETE", "POST"} {
				add("query", k, spec.Singular, v)
			}
		}
		return f, cases
	}
	if g.NameShapes {
		for _, ns := range QueryNameShapes {
			qname, qshape = ns.Name, ns.Label
			for _, k := range queryKinds {
				for _, v := range []string{"GET", "DELETE", "POST"} {
					add("query", k, spec.Singular, v)
				}
			}
		}
		return f, cases
	}
	for _, k := range queryKinds {
		for _, cd := range cards {
			for _, v := range []string{"GET", "DELETE", "POST"} {
				add("query", k, cd, v)
			}
		}
	}
	if withPath {
		// URL-bound 64-bit fields that also carry int64_encoding=NUMBER (typed number in TS/OpenAPI)
		number64 = true
		for _, k := range []spec.T{spec.Int64, spec.Uint64} {
			for _, v := range []string{"GET", "POST"} {
				add("path", k, spec.Singular, v)
				add("query", k, spec.Singular, v)
			}
		}
		number64 = false
	}
	return f, cases
}

// PlacementGroups partitions the placement catalogue into packages so that a construct that
// does not build on the unchanged tree cannot take the rest down with it.
type PlacementGroup struct {
	Label      string
	QueryKinds []spec.T
	Cards      []spec.Card
	WithPath   bool
	NameShapes bool // query fields under every QueryNameShapes spelling instead of the neutral "vx"
	JSONNames  bool // path and query fields with an explicit json_name
	PathOpt    bool // path variables bound to proto3 optional fields
	FieldNames bool // URL-bound fields whose proto name is not lower snake_case (itemId, shelfNo, ID, x1)
}

// PlacementGroups lists the packages of the placement catalogue.
func PlacementGroups() []PlacementGroup {
	var plain []spec.T
	for _, k := range spec.ScalarKinds {
		if k != spec.Bytes {
			plain = append(plain, k)
		}
	}
	all := append(append([]spec.T{}, spec.ScalarKinds...), spec.Enum)
	return []PlacementGroup{
		{Label: "ok", QueryKinds: plain, Cards: []spec.Card{spec.Singular}, WithPath: true},
		{Label: "qnames", QueryKinds: []spec.T{spec.String, spec.Int32, spec.Bool}, Cards: []spec.Card{spec.Singular}, NameShapes: true},
		{Label: "jsonnames", QueryKinds: []spec.T{spec.String, spec.Int32, spec.Int64}, Cards: []spec.Card{spec.Singular}, JSONNames: true},
		{Label: "qenum", QueryKinds: []spec.T{spec.Enum}, Cards: []spec.Card{spec.Singular}},
		{Label: "qbytes", QueryKinds: []spec.T{spec.Bytes}, Cards: []spec.Card{spec.Singular}},
		{Label: "qopt", QueryKinds: all, Cards: []spec.Card{spec.Optional}},
		{Label: "qrep", QueryKinds: all, Cards: []spec.Card{spec.Repeated}},
		{Label: "popt", PathOpt: true},
		{Label: "fnames", FieldNames: true},
	}
}
