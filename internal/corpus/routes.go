package corpus

import (
	"fmt"
	"strings"

	"verif/internal/spec"
)

// RouteCase is one RPC of the routing catalogue.
type RouteCase struct {
	ID        string // route/base=<b>/cfg=<c>/verb=<v>/path=<shape>/name=<shape>
	Base      string // base class label
	Cfg       string // absent | path | verb | both
	Verb      string // effective verb
	PathShape string
	NameShape string
	Svc       string // service full name
	Method    string
	In, Out   string // message full names
	CfgPath   string // path as written in the annotation ("" if none)
	BasePath  *string
	PathVars  []string
	Query     map[string]string // field name -> query param name
	BodyVerb  bool
	// DocTemplate is the path documented for explicit-path configs (base + path), "" when
	// the method has no explicit path.
	DocTemplate string
}

// BaseVariants are the service base_path classes.
var BaseVariants = []struct {
	Label string
	Val   *string
}{
	{"absent", nil},
	{"abs", spec.S("/api/v1")},
	{"noslash", spec.S("api/v2")},
	{"trailing", spec.S("/api/v3/")},
	{"multi", spec.S("/a/b/c")},
}

var verbs = []string{"GET", "POST", "PUT", "DELETE", "PATCH"}

// PathShapes of the routing catalogue; %s is the method-unique literal.
var PathShapes = []struct {
	Label string
	Tmpl  string
	Vars  []string
}{
	{"0var", "/%s", nil},
	{"1var-last", "/%s/{id}", []string{"id"}},
	{"1var-first", "/{id}/%s/f/g/h", []string{"id"}},
	{"2var-adjacent", "/%s/{org_id}/{id}", []string{"org_id", "id"}},
	{"2var-split", "/%s/{org_id}/items/{id}", []string{"org_id", "id"}},
	{"3var", "/%s/{org_id}/{team}/x/{num}", []string{"org_id", "team", "num"}},
	{"literal-suffix", "/%s/{id}/details", []string{"id"}},
}

var methodNameShapes = []struct{ Label, Stem string }{
	{"word", "Fetch"}, {"camel", "FetchUser"}, {"acronym", "FetchHTTPUrl"}, {"digits", "ListV2Items"},
}

// JoinDoc is the documented path resolution for explicit paths: base + path with exactly one
// slash between them and a leading slash.
func JoinDoc(base *string, p string) string {
	if !strings.HasPrefix(p, "/") {
		p = "/" + p
	}
	if base == nil || *base == "" {
		return p
	}
	b := strings.TrimSuffix(*base, "/")
	if !strings.HasPrefix(b, "/") {
		b = "/" + b
	}
	return b + p
}

// RoutingFile builds the routing catalogue for one base-path variant. pkg/goImport identify
// the package; lit is a counter for method-unique literals shared across files.
func RoutingFile(baseIdx int, sub, pkg, goImport, goName string, lit *int, full bool) (*spec.File, []*RouteCase) {
	bv := BaseVariants[baseIdx]
	f := &spec.File{Path: strings.ReplaceAll(pkg, ".", "/") + "/routes.proto", Package: pkg, GoImport: goImport, GoName: goName}
	svc := &spec.Service{Name: "Route" + strings.Title(bv.Label) + strings.Title(sub) + "Service", BasePath: bv.Val}
	f.Services = []*spec.Service{svc}
	f.Messages = append(f.Messages, &spec.Message{Name: "RouteResp", Fields: []*spec.Field{spec.F("echo", 1, spec.String), spec.F("num_val", 2, spec.Int64)}})
	var cases []*RouteCase
	nameIdx := 0
	litOverride := "" // a literal shared by several methods (same path, different verbs)
	var declOrder []string
	var queryOverride [][2]string // {proto field name, query parameter name} instead of q/page_size
	richBody := false             // body verbs: multi-word fields and string-keyed maps next to note/qty
	add := func(cfg, verb, shapeLabel string, tmpl string, vars []string, hasVerb bool, leadingSlash bool) {
		*lit++
		k := *lit
		ns := methodNameShapes[nameIdx%len(methodNameShapes)]
		nameIdx++
		mname := fmt.Sprintf("%sM%d", ns.Stem, k)
		if ns.Label == "word" {
			mname = singleWords[(nameIdx/len(methodNameShapes))%len(singleWords)]
		}
		effVerb := "POST"
		if hasVerb {
			effVerb = verb
		}
		bodyVerb := effVerb == "POST" || effVerb == "PUT" || effVerb == "PATCH"
		req := &spec.Message{Name: mname + "Req"}
		num := int32(1)
		declared := vars
		if declOrder != nil {
			declared = declOrder // the message declares the path-bound fields in another order than the path names them
		}
		for _, v := range declared {
			t := spec.String
			if v == "num" {
				t = spec.Int32
			}
			req.Fields = append(req.Fields, spec.F(v, num, t))
			num++
		}
		query := map[string]string{}
		if queryOverride != nil {
			for _, qf := range queryOverride {
				req.Fields = append(req.Fields, spec.F(qf[0], num, spec.String).Q(qf[1]))
				query[qf[0]] = qf[1]
				num++
			}
		} else if (!bodyVerb && (len(vars) == 0 || cfg == "pathquery")) || cfg == "bodyquery" {
			req.Fields = append(req.Fields, spec.F("q", num, spec.String).Q("q"), spec.F("page_size", num+1, spec.Int32).Q("limit"))
			num += 2
			query = map[string]string{"q": "q", "page_size": "limit"}
		}
		if bodyVerb {
			req.Fields = append(req.Fields, spec.F("note", num, spec.String), spec.F("qty", num+1, spec.Int64))
			if richBody {
				req.Fields = append(req.Fields, spec.F("display_name", num+2, spec.String), spec.F("extra_attrs", num+3, spec.String).MapOf(spec.String),
					spec.FM("by_name", num+4, "."+pkg+".RouteLeaf").MapOf(spec.String), spec.FM("main_leaf", num+5, "."+pkg+".RouteLeaf"))
			}
		}
		f.Messages = append(f.Messages, req)
		m := &spec.Method{Name: mname, In: "." + pkg + "." + req.Name, Out: "." + pkg + ".RouteResp"}
		rc := &RouteCase{
			Base: bv.Label, Cfg: cfg, Verb: effVerb, PathShape: shapeLabel, NameShape: ns.Label,
			Svc: pkg + "." + svc.Name, Method: mname, In: pkg + "." + req.Name, Out: pkg + ".RouteResp",
			BasePath: bv.Val, PathVars: vars, Query: query, BodyVerb: bodyVerb,
		}
		if cfg != "absent" {
			h := &spec.HTTP{}
			if hasVerb {
				h.Verb = spec.Verb(verb)
			}
			if tmpl != "" {
				p := tmpl
				if strings.Contains(tmpl, "%s") {
					word := fmt.Sprintf("m%d", k)
					if litOverride != "" {
						word = litOverride
					}
					p = fmt.Sprintf(tmpl, word)
				}
				if !leadingSlash {
					p = strings.TrimPrefix(p, "/")
					rc.PathShape += "-noslash"
				}
				h.Path = p
				rc.CfgPath = p
				rc.DocTemplate = JoinDoc(bv.Val, p)
			}
			m.HTTP = h
		}
		rc.ID = fmt.Sprintf("route/base=%s/cfg=%s/verb=%s/path=%s/name=%s", rc.Base, rc.Cfg, rc.Verb, rc.PathShape, rc.NameShape)
		svc.Methods = append(svc.Methods, m)
		cases = append(cases, rc)
	}
	switch sub {
	case "main":
		// cfg absent: one per method-name shape
		for range methodNameShapes {
			add("absent", "", "default", "", nil, false, true)
		}
		// verb only
		for _, v := range verbs {
			add("verb", v, "default", "", nil, true, true)
		}
		// path only
		for _, ps := range PathShapes {
			add("path", "", ps.Label, ps.Tmpl, ps.Vars, false, true)
		}
		// both
		for vi, v := range verbs {
			for pi, ps := range PathShapes {
				if !full && (vi+pi)%2 == 1 {
					continue
				}
				add("both", v, ps.Label, ps.Tmpl, ps.Vars, true, true)
			}
		}
	case "noslash":
		// method path written without a leading slash
		for i, ps := range PathShapes[:3] {
			add("path", "", ps.Label, ps.Tmpl, ps.Vars, false, false)
			add("both", verbs[i%len(verbs)], ps.Label, ps.Tmpl, ps.Vars, true, false)
		}
	case "pathquery":
		// bodiless verbs combining path variables with query parameters
		for _, v := range []string{"GET", "DELETE"} {
			for _, ps := range []int{1, 4} {
				add("pathquery", v, PathShapes[ps].Label, PathShapes[ps].Tmpl, PathShapes[ps].Vars, true, true)
			}
		}
		// declared AFTER routes with the path variables {id} and {org_id}: query-bound fields with the very
		// same proto names (and other parameter names) on routes without, and with another, path variable
		queryOverride = [][2]string{{"id", "id"}, {"org_id", "org"}}
		add("pathquery", "GET", "query-fields-named-like-earlier-path-variables", "/%s", nil, true, true)
		add("pathquery", "DELETE", "query-fields-named-like-earlier-path-variables", "/%s", nil, true, true)
		queryOverride = [][2]string{{"org_id", "org_id"}}
		add("pathquery", "GET", "query-field-named-like-earlier-path-variable+own-var", "/%s/{id}", []string{"id"}, true, true)
		queryOverride = nil
	case "shared":
		// one path shared by several verbs; trailing slashes; the bare "/" under the base path
		for gi, g := range []struct {
			label, tmpl string
			vars        []string
			verbs       []string
		}{
			{"same-path", "/%s/{id}", []string{"id"}, []string{"GET", "PUT", "DELETE", "PATCH"}},
			{"trailing-slash", "/%s/", nil, []string{"GET", "POST", "DELETE"}},
			{"trailing-slash-after-var", "/%s/{id}/archive/", []string{"id"}, []string{"GET", "PATCH"}},
			{"bare-slash", "/", nil, []string{"GET", "POST"}},
		} {
			litOverride = fmt.Sprintf("s%d", gi)
			for _, v := range g.verbs {
				add("shared", v, g.label, g.tmpl, g.vars, true, true)
			}
		}
		// the same path shape under different verbs with DIFFERENT variable names: every generator
		// must keep each RPC's own template (a path-item table keyed by shape would merge them)
		litOverride = "s9"
		add("shared", "GET", "same-shape-var-a", "/%s/{id}", []string{"id"}, true, true)
		add("shared", "DELETE", "same-shape-var-b", "/%s/{user_id}", []string{"user_id"}, true, true)
		add("shared", "PUT", "same-shape-var-c", "/%s/{num}", []string{"num"}, true, true)
		litOverride = ""
		// path variables named in another order than the request message declares the fields
		declOrder = []string{"id", "user_id"}
		add("shared", "GET", "2var-declared-in-reverse", "/%s/{user_id}/items/{id}", []string{"user_id", "id"}, true, true)
		add("shared", "PUT", "2var-declared-in-reverse", "/%s/{user_id}/items/{id}", []string{"user_id", "id"}, true, true)
		declOrder = []string{"post_id", "id", "user_id"}
		add("shared", "DELETE", "3var-declared-rotated", "/%s/{user_id}/p/{post_id}/c/{id}", []string{"user_id", "post_id", "id"}, true, true)
		add("shared", "PATCH", "3var-declared-rotated", "/%s/{user_id}/p/{post_id}/c/{id}", []string{"user_id", "post_id", "id"}, true, true)
		declOrder = nil
	case "bodymap":
		// body verbs whose body carries multi-word fields and string-keyed maps (map keys are caller data)
		f.Messages = append(f.Messages, &spec.Message{Name: "RouteLeaf", Fields: []*spec.Field{spec.F("full_name", 1, spec.String), spec.F("rank_no", 2, spec.Int32), spec.F("extra_attrs", 3, spec.String).MapOf(spec.String)}})
		richBody = true
		for _, v := range []string{"POST", "PUT", "PATCH"} {
			add("bodymap", v, PathShapes[1].Label, PathShapes[1].Tmpl, PathShapes[1].Vars, true, true)
			add("bodymap", v, PathShapes[0].Label, PathShapes[0].Tmpl, PathShapes[0].Vars, true, true)
		}
		richBody = false
	case "bodyquery":
		// body verbs with query-annotated fields (generators place them differently)
		for _, v := range []string{"POST", "PUT", "PATCH"} {
			add("bodyquery", v, PathShapes[1].Label, PathShapes[1].Tmpl, PathShapes[1].Vars, true, true)
		}
	}
	return f, cases
}

var singleWords = []string{"Fetch", "Lookup", "Probe", "Ping", "Scan", "Touch", "Peek", "Poll", "Sync", "Flush", "Drain", "Renew", "Purge", "Stamp", "Trace", "Audit", "Index", "Merge", "Split", "Clone"}

func letters(k int) string {
	s := ""
	for k > 0 {
		s = string(rune('A'+k%26)) + strings.ToLower(s)
		k /= 26
	}
	return s
}

// OlderVersion derives a sibling file of another proto package ("…v0") that declares the same
// service and RPC names with other verbs and paths — the usual v1/v2 API layout. Body verbs rotate
// among themselves and bodiless verbs among themselves, so the sibling stays a valid definition.
func OlderVersion(f *spec.File) *spec.File {
	pkg := f.Package + "v0"
	o := f.Rename(pkg, strings.TrimSuffix(f.Path, ".proto")+"_v0.proto", f.GoImport+"v0")
	o.GoName = f.GoName + "v0"
	rot := map[int32]int32{1: 4, 4: 1, 2: 3, 3: 5, 5: 2}
	for _, s := range o.Services {
		// the older version also lives under another base path and declares other service headers:
		// whatever a generator resolves "once per service" must be resolved per (package, service)
		if s.BasePath != nil {
			bp := "/legacy" + "/" + strings.Trim(*s.BasePath, "/")
			s.BasePath = &bp
		} else {
			s.BasePath = spec.S("/legacy")
		}
		s.Headers = append([]spec.Header{{Name: "X-Legacy-Token", Type: "string", Required: true}}, s.Headers...)
		for _, m := range s.Methods {
			if m.HTTP == nil {
				continue
			}
			if m.HTTP.Verb != 0 {
				m.HTTP.Verb = rot[m.HTTP.Verb]
			}
			if m.HTTP.Path != "" {
				if strings.HasPrefix(m.HTTP.Path, "/") {
					m.HTTP.Path = "/old" + m.HTTP.Path
				} else {
					m.HTTP.Path = "old/" + m.HTTP.Path
				}
			}
		}
	}
	return o
}
