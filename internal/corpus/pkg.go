package corpus

import (
	"fmt"

	"verif/internal/spec"
)

// Contexts in which an annotated root message can occur (C05).
var Contexts = []string{"top", "child", "repeated", "map", "oneof", "flatten", "disc_nested", "disc_flatten", "unwrap_sibling", "root_list"}

// FeaturePkg is one generated package demonstrating a feature.
type FeaturePkg struct {
	Feat Feature
	Idx  int
	File *spec.File
	Root string            // full name (no leading dot)
	Ctx  map[string]string // context -> message full name
	Svc  string            // service full name
	RPC  map[string]string // context -> rpc name
	Path map[string]string // context -> http path
}

func ctxApplicable(ctx string, f Feature) bool {
	rootUnwrap := f.Ann == "unwrap_rootmap" || f.Ann == "unwrap_rootlist" || f.Ann == "unwrap_combined"
	switch ctx {
	case "flatten", "disc_flatten":
		// flattening a root-unwrap message (not an object) is not meaningful
		return !rootUnwrap
	}
	return true
}

// BuildFeaturePkg concretises a feature into a spec file. tag distinguishes variants of the
// same feature (proto package / go package), e.g. "h" and "c".
func BuildFeaturePkg(f Feature, idx int, family, tag string, names *Names, withSvc bool, contexts []string) *FeaturePkg {
	pkg := fmt.Sprintf("%s.f%03d%s", family, idx, tag)
	goName := fmt.Sprintf("%sf%03d%s", family, idx, tag)
	b := &B{Pkg: pkg, Prefix: "", N: names}
	if f.Nest {
		b.Pkg = pkg + ".Holder"
	}
	rootLocal := f.Build(b)
	file := &spec.File{
		Path:     fmt.Sprintf("%s/f%03d%s/defs.proto", family, idx, tag),
		Package:  pkg,
		GoImport: "lab/gen/" + goName,
		GoName:   goName,
		Messages: b.Msgs,
		Enums:    b.Enums,
	}
	rootFull := pkg + "." + rootLocal
	if f.Nest {
		holder := &spec.Message{Name: "Holder", Nested: b.Msgs, Enums: b.Enums, EntriesFirst: true,
			Fields: []*spec.Field{spec.F("labels", 1, spec.String).MapOf(spec.String), spec.F("holder_note", 2, spec.String)}}
		if f.NestEmpty {
			holder.Fields, holder.EntriesFirst = nil, false
		}
		file.Messages, file.Enums = []*spec.Message{holder}, nil
		rootFull = pkg + ".Holder." + rootLocal
	}
	fp := &FeaturePkg{Feat: f, Idx: idx, File: file, Root: rootFull, Ctx: map[string]string{}, RPC: map[string]string{}, Path: map[string]string{}}
	rootFQ := "." + fp.Root
	addMsg := func(m *spec.Message) string {
		file.Messages = append(file.Messages, m)
		return pkg + "." + m.Name
	}
	for _, ctx := range contexts {
		if !ctxApplicable(ctx, f) {
			continue
		}
		switch ctx {
		case "top":
			fp.Ctx[ctx] = fp.Root
		case "child":
			fp.Ctx[ctx] = addMsg(&spec.Message{Name: "CtxChild", Fields: []*spec.Field{spec.FM("inner_item", 1, rootFQ), spec.F("note", 2, spec.String)}})
		case "repeated":
			fp.Ctx[ctx] = addMsg(&spec.Message{Name: "CtxRepeated", Fields: []*spec.Field{spec.FM("items", 1, rootFQ).Rep(), spec.F("note", 2, spec.String)}})
		case "map":
			fp.Ctx[ctx] = addMsg(&spec.Message{Name: "CtxMap", Fields: []*spec.Field{spec.FM("entries", 1, rootFQ).MapOf(spec.String), spec.F("note", 2, spec.String)}})
		case "oneof":
			fp.Ctx[ctx] = addMsg(&spec.Message{Name: "CtxOneof", Oneofs: []*spec.Oneof{{Name: "pick"}},
				Fields: []*spec.Field{spec.FM("as_item", 1, rootFQ).In(1), spec.F("as_text", 2, spec.String).In(1), spec.F("note", 3, spec.String)}})
		case "flatten":
			fp.Ctx[ctx] = addMsg(&spec.Message{Name: "CtxFlatten", Fields: []*spec.Field{
				spec.FM("inner_item", 1, rootFQ).With(func(a *spec.Ann) { a.Flatten = spec.B(true); a.FlattenPrefix = spec.S("in_") }), spec.F("note", 2, spec.String)}})
		case "disc_nested":
			other := addMsg(&spec.Message{Name: "CtxOtherN", Fields: []*spec.Field{spec.F("other_text", 1, spec.String)}})
			fp.Ctx[ctx] = addMsg(&spec.Message{Name: "CtxDiscNested", Oneofs: []*spec.Oneof{{Name: "pick", HasConfig: true, Discriminator: "ctx_kind"}},
				Fields: []*spec.Field{spec.FM("as_item", 1, rootFQ).In(1), spec.FM("as_other", 2, "."+other).In(1), spec.F("note", 3, spec.String)}})
		case "disc_flatten":
			other := addMsg(&spec.Message{Name: "CtxOtherF", Fields: []*spec.Field{spec.F("other_text", 1, spec.String)}})
			fp.Ctx[ctx] = addMsg(&spec.Message{Name: "CtxDiscFlatten", Oneofs: []*spec.Oneof{{Name: "pick", HasConfig: true, Discriminator: "ctx_kind", Flatten: true}},
				Fields: []*spec.Field{spec.FM("as_item", 1, rootFQ).In(1), spec.FM("as_other", 2, "."+other).In(1), spec.F("ctx_note", 3, spec.String)}})
		case "unwrap_sibling":
			il := addMsg(&spec.Message{Name: "CtxIntList", Fields: []*spec.Field{spec.F("values", 1, spec.Int32).Rep().With(func(a *spec.Ann) { a.Unwrap = true })}})
			fp.Ctx[ctx] = addMsg(&spec.Message{Name: "CtxUnwrapSibling", Fields: []*spec.Field{spec.FM("scores", 1, "."+il).MapOf(spec.String), spec.FM("sibling_item", 2, rootFQ)}})
		case "root_list":
			fp.Ctx[ctx] = addMsg(&spec.Message{Name: "CtxRootList", Fields: []*spec.Field{spec.FM("items", 1, rootFQ).Rep().With(func(a *spec.Ann) { a.Unwrap = true })}})
		}
	}
	if withSvc {
		svc := &spec.Service{Name: "LabSvc", BasePath: spec.S("/lab")}
		for _, ctx := range contexts {
			full, ok := fp.Ctx[ctx]
			if !ok {
				continue
			}
			rpc := "Echo" + camel(ctx)
			p := "/echo_" + ctx
			svc.Methods = append(svc.Methods, &spec.Method{Name: rpc, In: "." + full, Out: "." + full, HTTP: &spec.HTTP{Path: p, Verb: 2}})
			fp.RPC[ctx] = rpc
			fp.Path[ctx] = "/lab" + p
		}
		file.Services = []*spec.Service{svc}
		fp.Svc = pkg + ".LabSvc"
	}
	return fp
}

func camel(s string) string {
	out := []rune{}
	up := true
	for _, r := range s {
		if r == '_' {
			up = true
			continue
		}
		if up && r >= 'a' && r <= 'z' {
			r = r - 'a' + 'A'
		}
		up = false
		out = append(out, r)
	}
	return string(out)
}

// TwoServices returns a copy of a feature file (built with a service) that declares a second
// service over the same request/response types: what a generator keeps per message across the
// services of one run (schema caches, "already emitted" sets) must not starve the second service.
func TwoServices(fp *FeaturePkg) *spec.File {
	f := fp.File.Clone()
	if len(f.Services) == 0 {
		return f
	}
	first := f.Services[0]
	second := &spec.Service{Name: first.Name + "Two", BasePath: spec.S("/lab2")}
	// reversed method order: the second service meets the types in another order
	for i := len(first.Methods) - 1; i >= 0; i-- {
		m := *first.Methods[i]
		if m.HTTP != nil {
			h := *m.HTTP
			m.HTTP = &h
		}
		m.Name = m.Name + "Again"
		second.Methods = append(second.Methods, &m)
	}
	f.Services = append(f.Services, second)
	return f
}

// SplitShared spreads a feature package over three files of the same proto and Go package: the
// types in a service-less file, and two files that each declare one service over those types.
func SplitShared(fp *FeaturePkg) []*spec.File {
	two := TwoServices(fp)
	if len(two.Services) < 2 {
		return []*spec.File{two}
	}
	base := two.Path[:len(two.Path)-len("defs.proto")]
	types := &spec.File{Path: base + "types.proto", Package: two.Package, GoImport: two.GoImport, GoName: two.GoName, Messages: two.Messages, Enums: two.Enums}
	a := &spec.File{Path: base + "svc_a.proto", Package: two.Package, GoImport: two.GoImport, GoName: two.GoName, Imports: []string{types.Path}, Services: []*spec.Service{two.Services[0]}}
	b := &spec.File{Path: base + "svc_b.proto", Package: two.Package, GoImport: two.GoImport, GoName: two.GoName, Imports: []string{types.Path}, Services: []*spec.Service{two.Services[1]}}
	return []*spec.File{types, a, b}
}
