// Package corpus holds the finite abstract case catalogues (DESIGN.md 4.2) and their
// seeded concretisation into spec files.
package corpus

import (
	"fmt"
	"math/rand"

	"verif/internal/spec"
)

// Names concretises name-shape classes with a seed.
type Names struct{ r *rand.Rand }

// NewNames returns a chooser.
func NewNames(r *rand.Rand) *Names { return &Names{r: r} }

var shapePool = map[string][]string{
	"word":        {"amount", "status", "payload", "marker", "detail", "weight"},
	"multi_word":  {"total_amount", "created_at_ts", "user_display_name", "last_seen_value"},
	"with_digit2": {"line_2nd", "addr_2line", "v_2x"},
	"trailing1":   {"value1", "item_v1", "slot9"},
}

// Shapes lists the field-name shape classes.
var Shapes = []string{"word", "multi_word", "with_digit2", "trailing1"}

// Field picks a field name of the shape; idx disambiguates within one message.
func (n *Names) Field(shape string, idx int) string {
	p := shapePool[shape]
	s := p[n.r.Intn(len(p))]
	if idx > 0 {
		// keep the shape: append a letter suffix segment without digits/underscores for "word"
		suffix := string(rune('a' + idx - 1))
		switch shape {
		case "word":
			s += suffix
		case "multi_word":
			s += "_" + suffix + "x"
		case "with_digit2":
			s = suffix + "_" + s
		case "trailing1":
			s = suffix + s
		}
	}
	return s
}

// B accumulates messages/enums of one case with unique type names.
type B struct {
	Pkg    string // proto package
	Prefix string // unique type-name prefix, e.g. "C012"
	N      *Names
	Msgs   []*spec.Message
	Enums  []*spec.EnumDef
}

// T returns the unique type name for a local name.
func (b *B) T(local string) string { return b.Prefix + local }

// FQ returns the fully qualified reference of a local type.
func (b *B) FQ(local string) string { return "." + b.Pkg + "." + b.T(local) }

// Msg adds a message.
func (b *B) Msg(local string, fields ...*spec.Field) *spec.Message {
	m := &spec.Message{Name: b.T(local), Fields: fields}
	b.Msgs = append(b.Msgs, m)
	return m
}

// EnumPlain adds an enum without custom values.
func (b *B) EnumPlain(local string) string {
	p := "K" + b.Prefix + "_"
	b.Enums = append(b.Enums, &spec.EnumDef{Name: b.T(local), Values: []spec.EnumValue{
		{Name: p + "UNSPECIFIED", Num: 0}, {Name: p + "ALPHA", Num: 1}, {Name: p + "BETA_TWO", Num: 2}, {Name: p + "GAMMA", Num: 7}}})
	return b.FQ(local)
}

// EnumCustom adds an enum with enum_value custom JSON strings on some values.
func (b *B) EnumCustom(local string) string {
	p := "Q" + b.Prefix + "_"
	b.Enums = append(b.Enums, &spec.EnumDef{Name: b.T(local), Values: []spec.EnumValue{
		{Name: p + "UNSPECIFIED", Num: 0, JSON: spec.S("unknown")}, {Name: p + "ACTIVE", Num: 1, JSON: spec.S("active")},
		{Name: p + "ON_HOLD", Num: 2, JSON: spec.S("on-hold")}, {Name: p + "PLAIN", Num: 5}}})
	return b.FQ(local)
}

// Child adds a small plain child message and returns its FQ name.
func (b *B) Child(local string) string {
	b.Msg(local, spec.F("title", 1, spec.String), spec.F("rank", 2, spec.Int32), spec.F("big_id", 3, spec.Int64))
	return b.FQ(local)
}

// Feature is one abstract case of the JSON-mapping catalogue.
type Feature struct {
	ID    string // annotation/kind/card[/variant]
	Ann   string
	Kind  string
	Card  string
	Shape string
	// Build adds the root message (and helpers) to b and returns the root's local name.
	Build func(b *B) string
	// Lossy marks features whose documented mapping is lossy (norm applies).
	Lossy string
	// Nest: every message and enum of the feature is declared INSIDE a holder message, after a map
	// field of the holder (so the holder's synthetic map-entry type precedes them among its nested types).
	Nest bool
	// NestEmpty (with Nest): the holder declares NO fields of its own (a pure namespace message)
	NestEmpty bool
}

// FeaturesNested returns the features declared as nested types of a holder message that starts with
// a map field (ids get the suffix /nested-after-map): one per annotation value when sampled, all otherwise.
func FeaturesNested(all bool, seed int) []Feature {
	var out []Feature
	seen := map[string]int{}
	for _, f := range Features() {
		seen[f.Ann]++
		if !all && seen[f.Ann] != 1+seed%2 {
			continue
		}
		f.Nest = true
		f.ID += "/nested-after-map"
		out = append(out, f)
	}
	// the same, inside a holder that declares no fields at all (`message Ledger { message Balance {...} }`):
	// one feature per annotation value (the other one of the pair when sampled)
	seen = map[string]int{}
	for _, f := range Features() {
		seen[f.Ann]++
		if seen[f.Ann] != 2-seed%2 && !(all && seen[f.Ann] == 1) {
			continue
		}
		f.Nest, f.NestEmpty = true, true
		f.ID += "/nested-in-fieldless-holder"
		out = append(out, f)
	}
	return out
}

func card(f *spec.Field, c spec.Card, key spec.T) *spec.Field {
	switch c {
	case spec.Optional:
		return f.Opt()
	case spec.Repeated:
		return f.Rep()
	case spec.Map:
		return f.MapOf(key)
	}
	return f
}

func siblings(start int32) []*spec.Field {
	return []*spec.Field{spec.F("label", start, spec.String), spec.F("count", start+1, spec.Int32)}
}

var int64Kinds = []spec.T{spec.Int64, spec.Sint64, spec.Sfixed64, spec.Uint64, spec.Fixed64}

// Features enumerates the JSON-mapping feature catalogue. shapeOf chooses the field-name
// shape for the annotated field of the i-th feature (so shapes are spread deterministically).
func Features() []Feature {
	var out []Feature
	add := func(f Feature) { out = append(out, f) }
	shape := func(i int) string { return Shapes[i%len(Shapes)] }
	idx := 0
	next := func() string { idx++; return shape(idx) }

	// baseline: every scalar kind x card, no annotation
	for _, c := range []spec.Card{spec.Singular, spec.Optional, spec.Repeated, spec.Map} {
		c := c
		add(Feature{ID: "none/scalars/" + c.String(), Ann: "none", Kind: "scalars", Card: c.String(), Shape: "mixed", Build: func(b *B) string {
			var fs []*spec.Field
			for i, k := range spec.ScalarKinds {
				fs = append(fs, card(spec.F(b.N.Field(Shapes[i%len(Shapes)], i+1), int32(i+1), k), c, spec.String))
			}
			en := b.EnumPlain("E")
			fs = append(fs, card(spec.FE("kind_of", 30, en), c, spec.String))
			b.Msg("Root", fs...)
			return "Root"
		}})
	}
	add(Feature{ID: "none/messages/mixed", Ann: "none", Kind: "message", Card: "mixed", Shape: "mixed", Build: func(b *B) string {
		ch := b.Child("Kid")
		b.Msg("Root", spec.FM("one_kid", 1, ch), spec.FM("kids", 2, ch).Rep(), spec.FM("kid_map", 3, ch).MapOf(spec.String),
			spec.FM("by_num", 4, ch).MapOf(spec.Int64), spec.F("flags", 5, spec.Bool).MapOf(spec.Bool),
			spec.FM("when", 6, spec.Timestamp), spec.FM("span", 7, spec.Duration), spec.FM("opt_kid", 8, ch).Opt())
		return "Root"
	}})
	// explicit json_name options: the wire key is what the definition says, for plain fields and next to
	// every codec that rebuilds the JSON object itself
	add(Feature{ID: "none/json_name/custom-keys", Ann: "none", Kind: "mixed", Card: "mixed", Shape: "json_name", Build: func(b *B) string {
		kid := b.Child("Kid")
		b.Msg("Root", spec.F("project_id", 1, spec.String).JSONAs("project"), spec.F("item_count", 2, spec.Int32).JSONAs("n"), spec.FM("first_kid", 3, kid).JSONAs("kid"),
			spec.F("tag_list", 4, spec.String).Rep().JSONAs("tags"), spec.F("by_name", 5, spec.Int64).MapOf(spec.String).JSONAs("byName2"), spec.F("plain_field", 6, spec.String),
			spec.F("UpperStart", 7, spec.String).JSONAs("UpperStart"), spec.F("snaked", 8, spec.String).JSONAs("snake_key"), spec.F("opt_val", 9, spec.String).Opt().JSONAs("optional_value"))
		return "Root"
	}})
	add(Feature{ID: "int64_number/int64/singular/json_name", Ann: "int64_number", Kind: "int64", Card: "singular", Shape: "json_name", Build: func(b *B) string {
		b.Msg("Root", spec.F("total_amount", 1, spec.Int64).JSONAs("total").With(func(a *spec.Ann) { a.Int64Enc = 2 }), spec.F("other_amount", 2, spec.Int64).JSONAs("other"), spec.F("label", 3, spec.String).JSONAs("labelText"))
		return "Root"
	}})
	add(Feature{ID: "nullable/string/optional/json_name", Ann: "nullable", Kind: "string", Card: "optional", Shape: "json_name", Build: func(b *B) string {
		b.Msg("Root", spec.F("middle_name", 1, spec.String).Opt().JSONAs("middle").With(func(a *spec.Ann) { a.Nullable = spec.B(true) }), spec.F("label", 2, spec.String).JSONAs("labelText"))
		return "Root"
	}})
	add(Feature{ID: "ts_unix_seconds/timestamp/singular/json_name", Ann: "ts_unix_seconds", Kind: "timestamp", Card: "singular", Shape: "json_name", Build: func(b *B) string {
		b.Msg("Root", spec.FM("created_at", 1, spec.Timestamp).JSONAs("created").With(func(a *spec.Ann) { a.TSFormat = 2 }), spec.F("label", 2, spec.String).JSONAs("labelText"))
		return "Root"
	}})
	add(Feature{ID: "bytes_hex/bytes/singular/json_name", Ann: "bytes_hex", Kind: "bytes", Card: "singular", Shape: "json_name", Build: func(b *B) string {
		b.Msg("Root", spec.F("digest_value", 1, spec.Bytes).JSONAs("digest").With(func(a *spec.Ann) { a.BytesEnc = 5 }), spec.F("label", 2, spec.String).JSONAs("labelText"))
		return "Root"
	}})
	add(Feature{ID: "none/oneof/plain", Ann: "none", Kind: "oneof", Card: "oneof", Shape: "mixed", Build: func(b *B) string {
		ch := b.Child("Kid")
		m := b.Msg("Root", spec.F("id", 1, spec.String), spec.F("text_val", 2, spec.String).In(1), spec.F("num_val", 3, spec.Int64).In(1), spec.FM("kid_val", 4, ch).In(1), spec.F("flag_val", 5, spec.Bool).In(1))
		m.Oneofs = []*spec.Oneof{{Name: "choice"}}
		return "Root"
	}})

	// int64_encoding
	for _, k := range int64Kinds {
		for _, c := range []spec.Card{spec.Singular, spec.Optional, spec.Repeated} {
			k, c, sh := k, c, next()
			add(Feature{ID: fmt.Sprintf("int64_number/%s/%s", spec.KindName(k), c), Ann: "int64_number", Kind: spec.KindName(k), Card: c.String(), Shape: sh, Build: func(b *B) string {
				f := card(spec.F(b.N.Field(sh, 0), 1, k), c, spec.String).With(func(a *spec.Ann) { a.Int64Enc = 2 })
				b.Msg("Root", append([]*spec.Field{f, spec.F("plain_big", 2, k)}, siblings(3)...)...)
				return "Root"
			}})
		}
	}
	add(Feature{ID: "int64_string/int64/singular", Ann: "int64_string", Kind: "int64", Card: "singular", Shape: "word", Build: func(b *B) string {
		b.Msg("Root", append([]*spec.Field{spec.F(b.N.Field("word", 0), 1, spec.Int64).With(func(a *spec.Ann) { a.Int64Enc = 1 })}, siblings(2)...)...)
		return "Root"
	}})

	// enums
	for _, c := range []spec.Card{spec.Singular, spec.Optional, spec.Repeated, spec.Map} {
		c, sh := c, next()
		add(Feature{ID: "enum_value/enum/" + c.String(), Ann: "enum_value", Kind: "enum", Card: c.String(), Shape: sh, Build: func(b *B) string {
			en := b.EnumCustom("E")
			b.Msg("Root", append([]*spec.Field{card(spec.FE(b.N.Field(sh, 0), 1, en), c, spec.String)}, siblings(2)...)...)
			return "Root"
		}})
	}
	for _, enc := range []struct {
		n string
		v int32
	}{{"enum_string", 1}, {"enum_number", 2}} {
		for _, c := range []spec.Card{spec.Singular, spec.Optional, spec.Repeated} {
			enc, c, sh := enc, c, next()
			add(Feature{ID: enc.n + "/enum/" + c.String(), Ann: enc.n, Kind: "enum", Card: c.String(), Shape: sh, Build: func(b *B) string {
				en := b.EnumPlain("E")
				b.Msg("Root", append([]*spec.Field{card(spec.FE(b.N.Field(sh, 0), 1, en), c, spec.String).With(func(a *spec.Ann) { a.EnumEnc = enc.v }), spec.FE("plain_kind", 2, en)}, siblings(3)...)...)
				return "Root"
			}})
		}
	}

	// nullable (optional primitives)
	for _, k := range []spec.T{spec.String, spec.Int32, spec.Int64, spec.Uint64, spec.Bool, spec.Double, spec.Float, spec.Bytes} {
		k, sh := k, next()
		add(Feature{ID: "nullable/" + spec.KindName(k) + "/optional", Ann: "nullable", Kind: spec.KindName(k), Card: "optional", Shape: sh, Build: func(b *B) string {
			b.Msg("Root", append([]*spec.Field{spec.F(b.N.Field(sh, 0), 1, k).Opt().With(func(a *spec.Ann) { a.Nullable = spec.B(true) }), spec.F("plain_opt", 2, k).Opt()}, siblings(3)...)...)
			return "Root"
		}})
	}
	add(Feature{ID: "nullable/enum/optional", Ann: "nullable", Kind: "enum", Card: "optional", Shape: "word", Build: func(b *B) string {
		en := b.EnumPlain("E")
		b.Msg("Root", append([]*spec.Field{spec.FE(b.N.Field("word", 0), 1, en).Opt().With(func(a *spec.Ann) { a.Nullable = spec.B(true) })}, siblings(2)...)...)
		return "Root"
	}})
	add(Feature{ID: "nullable/two-fields/optional", Ann: "nullable", Kind: "string+int32", Card: "optional", Shape: "multi_word", Build: func(b *B) string {
		b.Msg("Root", append([]*spec.Field{
			spec.F(b.N.Field("multi_word", 0), 1, spec.String).Opt().With(func(a *spec.Ann) { a.Nullable = spec.B(true) }),
			spec.F(b.N.Field("word", 1), 2, spec.Int32).Opt().With(func(a *spec.Ann) { a.Nullable = spec.B(true) })}, siblings(3)...)...)
		return "Root"
	}})

	// empty_behavior
	for _, eb := range []struct {
		n string
		v int32
	}{{"empty_preserve", 1}, {"empty_null", 2}, {"empty_omit", 3}} {
		for _, c := range []spec.Card{spec.Singular, spec.Optional} {
			eb, c, sh := eb, c, next()
			lossy := ""
			if eb.v != 1 {
				lossy = "empty-presence"
			}
			add(Feature{ID: eb.n + "/message/" + c.String(), Ann: eb.n, Kind: "message", Card: c.String(), Shape: sh, Lossy: lossy, Build: func(b *B) string {
				ch := b.Child("Kid")
				b.Msg("Root", append([]*spec.Field{card(spec.FM(b.N.Field(sh, 0), 1, ch), c, spec.String).With(func(a *spec.Ann) { a.EmptyBehavior = eb.v }), spec.FM("plain_kid", 2, ch)}, siblings(3)...)...)
				return "Root"
			}})
		}
	}

	// empty_behavior on well-known message types whose JSON form is not an object (a string)
	for _, eb := range []struct {
		n string
		v int32
	}{{"empty_preserve", 1}, {"empty_null", 2}, {"empty_omit", 3}} {
		// (Duration is left out: its OpenAPI/TS representation is a subject of its own, outside the annotations)
		for _, wk := range []struct{ kind, typ string }{{"timestamp", spec.Timestamp}} {
			eb, wk, sh := eb, wk, next()
			lossy := ""
			if eb.v != 1 {
				lossy = "empty-presence"
			}
			add(Feature{ID: eb.n + "/" + wk.kind + "/singular", Ann: eb.n, Kind: wk.kind, Card: "singular", Shape: sh, Lossy: lossy, Build: func(b *B) string {
				b.Msg("Root", append([]*spec.Field{spec.FM(b.N.Field(sh, 0), 1, wk.typ).With(func(a *spec.Ann) { a.EmptyBehavior = eb.v }), spec.FM("plain_wkt", 2, wk.typ)}, siblings(3)...)...)
				return "Root"
			}})
		}
	}

	// timestamp_format
	for _, tf := range []struct {
		n     string
		v     int32
		lossy string
	}{{"ts_rfc3339", 1, ""}, {"ts_unix_seconds", 2, "ts-seconds"}, {"ts_unix_millis", 3, "ts-millis"}, {"ts_date", 4, "ts-date"}} {
		for _, c := range []spec.Card{spec.Singular, spec.Optional, spec.Repeated} {
			tf, c, sh := tf, c, next()
			add(Feature{ID: tf.n + "/timestamp/" + c.String(), Ann: tf.n, Kind: "timestamp", Card: c.String(), Shape: sh, Lossy: tf.lossy, Build: func(b *B) string {
				b.Msg("Root", append([]*spec.Field{card(spec.FM(b.N.Field(sh, 0), 1, spec.Timestamp), c, spec.String).With(func(a *spec.Ann) { a.TSFormat = tf.v }), spec.FM("plain_time", 2, spec.Timestamp)}, siblings(3)...)...)
				return "Root"
			}})
		}
	}

	// bytes_encoding
	for _, be := range []struct {
		n string
		v int32
	}{{"bytes_base64", 1}, {"bytes_base64_raw", 2}, {"bytes_base64url", 3}, {"bytes_base64url_raw", 4}, {"bytes_hex", 5}} {
		for _, c := range []spec.Card{spec.Singular, spec.Optional, spec.Repeated} {
			be, c, sh := be, c, next()
			add(Feature{ID: be.n + "/bytes/" + c.String(), Ann: be.n, Kind: "bytes", Card: c.String(), Shape: sh, Build: func(b *B) string {
				b.Msg("Root", append([]*spec.Field{card(spec.F(b.N.Field(sh, 0), 1, spec.Bytes), c, spec.String).With(func(a *spec.Ann) { a.BytesEnc = be.v }), spec.F("plain_blob", 2, spec.Bytes)}, siblings(3)...)...)
				return "Root"
			}})
		}
	}

	// oneof_config
	for _, fl := range []bool{false, true} {
		for _, custom := range []bool{false, true} {
			fl, custom, sh := fl, custom, next()
			id := "oneof_nested"
			if fl {
				id = "oneof_flatten"
			}
			v := "default-values"
			if custom {
				v = "oneof_value"
			}
			add(Feature{ID: id + "/message/" + v, Ann: id, Kind: "message", Card: v, Shape: sh, Build: func(b *B) string {
				b.Msg("Text", spec.F("body", 1, spec.String), spec.F(b.N.Field(sh, 1), 2, spec.Int32))
				b.Msg("Image", spec.F("url", 1, spec.String), spec.F("width_px", 2, spec.Int32), spec.F("size_bytes", 3, spec.Int64))
				t := spec.FM("text_part", 2, b.FQ("Text")).In(1)
				im := spec.FM("image", 3, b.FQ("Image")).In(1)
				if custom {
					t.Ann.OneofValue = spec.S("txt")
					im.Ann.OneofValue = spec.S("img/v2")
				}
				m := b.Msg("Root", spec.F("id", 1, spec.String), t, im, spec.F("count", 4, spec.Int32))
				m.Oneofs = []*spec.Oneof{{Name: "content", HasConfig: true, Discriminator: "type", Flatten: fl}}
				return "Root"
			}})
		}
	}
	// variants whose own message type carries a JSON-shaping annotation (an annotation on a message plus one on the
	// message nested in it)
	for _, fl := range []bool{false, true} {
		fl, sh := fl, next()
		id := "oneof_nested"
		if fl {
			id = "oneof_flatten"
		}
		add(Feature{ID: id + "/message/variants-with-codecs", Ann: id, Kind: "message", Card: "variants-with-codecs", Shape: sh, Build: func(b *B) string {
			b.Msg("Text", spec.F("body", 1, spec.String), spec.F(b.N.Field(sh, 1), 2, spec.String).Opt().With(func(a *spec.Ann) { a.Nullable = spec.B(true) }))
			b.Msg("Image", spec.F("url", 1, spec.String), spec.F("size_bytes", 2, spec.Int64).With(func(a *spec.Ann) { a.Int64Enc = 2 }))
			t := spec.FM("text_part", 2, b.FQ("Text")).In(1)
			im := spec.FM("image", 3, b.FQ("Image")).In(1)
			m := b.Msg("Root", spec.F("id", 1, spec.String), t, im, spec.F("count", 4, spec.Int32))
			m.Oneofs = []*spec.Oneof{{Name: "content", HasConfig: true, Discriminator: "type", Flatten: fl}}
			return "Root"
		}})
	}
	// variants without fields (`message Ping {}`): the discriminator alone carries the information
	for _, fl := range []bool{false, true} {
		fl, sh := fl, next()
		id := "oneof_nested"
		if fl {
			id = "oneof_flatten"
		}
		add(Feature{ID: id + "/message/fieldless-variants", Ann: id, Kind: "message", Card: "fieldless-variants", Shape: sh, Build: func(b *B) string {
			b.Msg("Text", spec.F("body", 1, spec.String))
			b.Msg("Ping")
			b.Msg("Ack")
			t := spec.FM("text_part", 2, b.FQ("Text")).In(1)
			pg := spec.FM("ping", 3, b.FQ("Ping")).In(1)
			ak := spec.FM("ack", 4, b.FQ("Ack")).In(1)
			ak.Ann.OneofValue = spec.S("acknowledged")
			m := b.Msg("Root", spec.F("id", 1, spec.String), t, pg, ak, spec.F(b.N.Field(sh, 1), 5, spec.Int32))
			m.Oneofs = []*spec.Oneof{{Name: "payload", HasConfig: true, Discriminator: "type", Flatten: fl}}
			return "Root"
		}})
	}
	add(Feature{ID: "oneof_nested/scalar/default-values", Ann: "oneof_nested", Kind: "scalar", Card: "default-values", Shape: "word", Build: func(b *B) string {
		m := b.Msg("Root", spec.F("id", 1, spec.String), spec.F("text_val", 2, spec.String).In(1), spec.F("num_val", 3, spec.Int32).In(1), spec.F("big_val", 4, spec.Int64).In(1))
		m.Oneofs = []*spec.Oneof{{Name: "value", HasConfig: true, Discriminator: "kind"}}
		return "Root"
	}})

	// flatten
	for _, pre := range []string{"", "addr_"} {
		for _, chShape := range Shapes {
			pre, chShape := pre, chShape
			v := "noprefix"
			if pre != "" {
				v = "prefix"
			}
			add(Feature{ID: "flatten/" + v + "/child=" + chShape, Ann: "flatten_" + v, Kind: "message", Card: "singular", Shape: chShape, Build: func(b *B) string {
				b.Msg("Addr", spec.F(b.N.Field(chShape, 0), 1, spec.String), spec.F(b.N.Field(chShape, 1), 2, spec.Int32))
				f := spec.FM("address", 2, b.FQ("Addr")).With(func(a *spec.Ann) {
					a.Flatten = spec.B(true)
					if pre != "" {
						a.FlattenPrefix = spec.S(pre)
					}
				})
				b.Msg("Root", spec.F("id", 1, spec.String), f, spec.F("count", 3, spec.Int32))
				return "Root"
			}})
		}
	}
	add(Feature{ID: "flatten/prefix/child=int64+enum+nested", Ann: "flatten_prefix", Kind: "message", Card: "singular", Shape: "word", Build: func(b *B) string {
		en := b.EnumPlain("E")
		kid := b.Child("Kid")
		b.Msg("Addr", spec.F("zip", 1, spec.String), spec.F("serial", 2, spec.Int64), spec.FE("mode", 3, en), spec.FM("kid", 4, kid), spec.F("tags", 5, spec.String).Rep(), spec.F("ok", 6, spec.Bool))
		b.Msg("Root", spec.F("id", 1, spec.String), spec.FM("address", 2, b.FQ("Addr")).With(func(a *spec.Ann) { a.Flatten = spec.B(true); a.FlattenPrefix = spec.S("a_") }))
		return "Root"
	}})
	add(Feature{ID: "flatten/two-children/prefix", Ann: "flatten_prefix", Kind: "message", Card: "two", Shape: "word", Build: func(b *B) string {
		b.Msg("Addr", spec.F("street", 1, spec.String), spec.F("city", 2, spec.String))
		b.Msg("Root", spec.F("id", 1, spec.String),
			spec.FM("billing", 2, b.FQ("Addr")).With(func(a *spec.Ann) { a.Flatten = spec.B(true); a.FlattenPrefix = spec.S("billing_") }),
			spec.FM("shipping", 3, b.FQ("Addr")).With(func(a *spec.Ann) { a.Flatten = spec.B(true); a.FlattenPrefix = spec.S("shipping_") }))
		return "Root"
	}})

	add(Feature{ID: "flatten/three-children-different-types/mixed-prefixes", Ann: "flatten_prefix", Kind: "message", Card: "three", Shape: "word", Build: func(b *B) string {
		b.Msg("Addr", spec.F("street", 1, spec.String), spec.F("city", 2, spec.String))
		b.Msg("Contact", spec.F("email", 1, spec.String), spec.F("phone", 2, spec.String))
		b.Msg("Meta", spec.F("tag", 1, spec.String))
		b.Msg("Root", spec.F("id", 1, spec.String),
			spec.FM("shipping", 2, b.FQ("Addr")).With(func(a *spec.Ann) { a.Flatten = spec.B(true); a.FlattenPrefix = spec.S("ship_") }),
			spec.FM("contact", 3, b.FQ("Contact")).With(func(a *spec.Ann) { a.Flatten = spec.B(true); a.FlattenPrefix = spec.S("contact_") }),
			spec.FM("meta", 4, b.FQ("Meta")).With(func(a *spec.Ann) { a.Flatten = spec.B(true) }),
			spec.F("note", 5, spec.String))
		return "Root"
	}})

	// unwrap
	add(Feature{ID: "unwrap/map-value/scalar", Ann: "unwrap_mapvalue", Kind: "int32", Card: "map", Shape: "word", Build: func(b *B) string {
		b.Msg("IntList", spec.F("values", 1, spec.Int32).Rep().With(func(a *spec.Ann) { a.Unwrap = true }))
		b.Msg("Root", spec.FM("scores", 1, b.FQ("IntList")).MapOf(spec.String), spec.F("next_page_token", 2, spec.String))
		return "Root"
	}})
	add(Feature{ID: "unwrap/map-value/message", Ann: "unwrap_mapvalue", Kind: "message", Card: "map", Shape: "word", Build: func(b *B) string {
		b.Msg("Bar", spec.F("symbol", 1, spec.String), spec.F("price", 2, spec.Double), spec.F("lots", 3, spec.Int32))
		b.Msg("BarList", spec.FM("bars", 1, b.FQ("Bar")).Rep().With(func(a *spec.Ann) { a.Unwrap = true }))
		b.Msg("Root", spec.FM("bars", 1, b.FQ("BarList")).MapOf(spec.String), spec.F("next_page_token", 2, spec.String))
		return "Root"
	}})
	// scalar-element and message-element wrappers in one file (a file with scalar wrappers alone does not
	// build on the unchanged tree, recorded under C13, which would hide the scalar path)
	add(Feature{ID: "unwrap/map-value/scalars-next-to-messages", Ann: "unwrap_mapvalue", Kind: "mixed", Card: "map", Shape: "word", Build: func(b *B) string {
		b.Msg("Bar", spec.F("symbol", 1, spec.String), spec.F("price", 2, spec.Double))
		b.Msg("BarList", spec.FM("bars", 1, b.FQ("Bar")).Rep().With(func(a *spec.Ann) { a.Unwrap = true }))
		b.Msg("TagList", spec.F("values", 1, spec.String).Rep().With(func(a *spec.Ann) { a.Unwrap = true }))
		b.Msg("NumList", spec.F("values", 1, spec.Int32).Rep().With(func(a *spec.Ann) { a.Unwrap = true }))
		b.Msg("Root", spec.FM("bars", 1, b.FQ("BarList")).MapOf(spec.String), spec.FM("tags", 2, b.FQ("TagList")).MapOf(spec.String), spec.FM("nums", 3, b.FQ("NumList")).MapOf(spec.String), spec.F("next_page_token", 4, spec.String))
		return "Root"
	}})
	add(Feature{ID: "unwrap/map-value/message-int64", Ann: "unwrap_mapvalue", Kind: "message-int64", Card: "map", Shape: "word", Build: func(b *B) string {
		b.Msg("Bar", spec.F("symbol", 1, spec.String), spec.F("volume", 2, spec.Int64))
		b.Msg("BarList", spec.FM("bars", 1, b.FQ("Bar")).Rep().With(func(a *spec.Ann) { a.Unwrap = true }))
		b.Msg("Root", spec.FM("bars", 1, b.FQ("BarList")).MapOf(spec.String))
		return "Root"
	}})
	add(Feature{ID: "unwrap/root-map/scalar", Ann: "unwrap_rootmap", Kind: "int32", Card: "map", Shape: "word", Build: func(b *B) string {
		b.Msg("Root", spec.F("scores", 1, spec.Int32).MapOf(spec.String).With(func(a *spec.Ann) { a.Unwrap = true }))
		return "Root"
	}})
	add(Feature{ID: "unwrap/root-map/message", Ann: "unwrap_rootmap", Kind: "message", Card: "map", Shape: "word", Build: func(b *B) string {
		b.Msg("User", spec.F("name", 1, spec.String), spec.F("age", 2, spec.Int32))
		b.Msg("Root", spec.FM("users", 1, b.FQ("User")).MapOf(spec.String).With(func(a *spec.Ann) { a.Unwrap = true }))
		return "Root"
	}})
	add(Feature{ID: "unwrap/root-list/scalar", Ann: "unwrap_rootlist", Kind: "string", Card: "repeated", Shape: "word", Build: func(b *B) string {
		b.Msg("Root", spec.F("tags", 1, spec.String).Rep().With(func(a *spec.Ann) { a.Unwrap = true }))
		return "Root"
	}})
	add(Feature{ID: "unwrap/root-list/message", Ann: "unwrap_rootlist", Kind: "message", Card: "repeated", Shape: "word", Build: func(b *B) string {
		b.Msg("User", spec.F("name", 1, spec.String), spec.F("age", 2, spec.Int32))
		b.Msg("Root", spec.FM("users", 1, b.FQ("User")).Rep().With(func(a *spec.Ann) { a.Unwrap = true }))
		return "Root"
	}})
	add(Feature{ID: "unwrap/combined/message", Ann: "unwrap_combined", Kind: "message", Card: "map", Shape: "word", Build: func(b *B) string {
		b.Msg("Bar", spec.F("symbol", 1, spec.String), spec.F("price", 2, spec.Double))
		b.Msg("BarList", spec.FM("bars", 1, b.FQ("Bar")).Rep().With(func(a *spec.Ann) { a.Unwrap = true }))
		b.Msg("Root", spec.FM("data", 1, b.FQ("BarList")).MapOf(spec.String).With(func(a *spec.Ann) { a.Unwrap = true }))
		return "Root"
	}})
	// rich siblings: every message-level codec must leave its neighbours alone — proto3 optional
	// scalars and messages (synthetic oneofs), members of a plain oneof, repeated and map fields
	rich := func(b *B, start int32, oi int) ([]*spec.Field, *spec.Oneof) {
		kid := b.Child("SibKid")
		return []*spec.Field{
			spec.F("opt_note", start, spec.String).Opt(), spec.FM("opt_kid", start+1, kid).Opt(), spec.F("opt_flag", start+2, spec.Bool).Opt(),
			spec.F("actor_user", start+3, spec.String).In(oi), spec.FM("actor_kid", start+4, kid).In(oi), spec.F("actor_code", start+5, spec.Int32).In(oi),
			spec.FM("kid_list", start+6, kid).Rep(), spec.F("tag_map", start+7, spec.String).MapOf(spec.String), spec.F("plain_big", start+8, spec.Int64),
		}, &spec.Oneof{Name: "actor"}
	}
	withRich := func(b *B, m *spec.Message, first []*spec.Oneof, start int32) {
		fs, oo := rich(b, start, len(first)+1)
		m.Fields = append(m.Fields, fs...)
		m.Oneofs = append(append([]*spec.Oneof{}, first...), oo)
	}
	_ = withRich
	type richFam struct {
		ann   string
		build func(b *B) (*spec.Message, []*spec.Oneof)
	}
	for _, rf := range []richFam{
		{"int64_number", func(b *B) (*spec.Message, []*spec.Oneof) {
			return b.Msg("Root", spec.F("id", 1, spec.String), spec.F("big_total", 2, spec.Int64).With(func(a *spec.Ann) { a.Int64Enc = 2 })), nil
		}},
		{"nullable", func(b *B) (*spec.Message, []*spec.Oneof) {
			return b.Msg("Root", spec.F("id", 1, spec.String), spec.F("maybe_text", 2, spec.String).Opt().With(func(a *spec.Ann) { a.Nullable = spec.B(true) })), nil
		}},
		{"empty_null", func(b *B) (*spec.Message, []*spec.Oneof) {
			k := b.Child("EKid")
			return b.Msg("Root", spec.F("id", 1, spec.String), spec.FM("maybe_kid", 2, k).With(func(a *spec.Ann) { a.EmptyBehavior = 2 })), nil
		}},
		{"ts_unix_seconds", func(b *B) (*spec.Message, []*spec.Oneof) {
			return b.Msg("Root", spec.F("id", 1, spec.String), spec.FM("seen_at", 2, spec.Timestamp).With(func(a *spec.Ann) { a.TSFormat = 2 })), nil
		}},
		{"bytes_hex", func(b *B) (*spec.Message, []*spec.Oneof) {
			return b.Msg("Root", spec.F("id", 1, spec.String), spec.F("digest", 2, spec.Bytes).With(func(a *spec.Ann) { a.BytesEnc = 5 })), nil
		}},
		{"oneof_nested", func(b *B) (*spec.Message, []*spec.Oneof) {
			b.Msg("Text", spec.F("body", 1, spec.String))
			b.Msg("Image", spec.F("url", 1, spec.String), spec.F("width_px", 2, spec.Int32))
			m := b.Msg("Root", spec.F("id", 1, spec.String), spec.FM("text_part", 2, b.FQ("Text")).In(1), spec.FM("image", 3, b.FQ("Image")).In(1))
			return m, []*spec.Oneof{{Name: "content", HasConfig: true, Discriminator: "type"}}
		}},
		{"oneof_flatten", func(b *B) (*spec.Message, []*spec.Oneof) {
			b.Msg("Text", spec.F("body", 1, spec.String))
			b.Msg("Image", spec.F("url", 1, spec.String), spec.F("width_px", 2, spec.Int32))
			m := b.Msg("Root", spec.F("id", 1, spec.String), spec.FM("text_part", 2, b.FQ("Text")).In(1), spec.FM("image", 3, b.FQ("Image")).In(1))
			return m, []*spec.Oneof{{Name: "content", HasConfig: true, Discriminator: "type", Flatten: true}}
		}},
		{"flatten_prefix", func(b *B) (*spec.Message, []*spec.Oneof) {
			b.Msg("Addr", spec.F("street", 1, spec.String), spec.F("zip", 2, spec.String))
			return b.Msg("Root", spec.F("id", 1, spec.String), spec.FM("address", 2, b.FQ("Addr")).With(func(a *spec.Ann) { a.Flatten = spec.B(true); a.FlattenPrefix = spec.S("addr_") })), nil
		}},
		{"unwrap_mapvalue", func(b *B) (*spec.Message, []*spec.Oneof) {
			b.Msg("Bar", spec.F("symbol", 1, spec.String), spec.F("lots", 2, spec.Int32))
			b.Msg("BarList", spec.FM("bars", 1, b.FQ("Bar")).Rep().With(func(a *spec.Ann) { a.Unwrap = true }))
			return b.Msg("Root", spec.F("id", 1, spec.String), spec.FM("bars", 2, b.FQ("BarList")).MapOf(spec.String)), nil
		}},
		{"none", func(b *B) (*spec.Message, []*spec.Oneof) {
			return b.Msg("Root", spec.F("id", 1, spec.String), spec.F("plain", 2, spec.Int32)), nil
		}},
	} {
		rf := rf
		fam := rf.ann
		switch fam {
		case "flatten_prefix":
			fam = "flatten"
		case "unwrap_mapvalue":
			fam = "unwrap"
		}
		if fam == "unwrap" {
			// the unwrap container codec re-implements its siblings and is known not to build with
			// optional scalars or oneof members (C13 gobuild/pair): keep the siblings it supports
			add(Feature{ID: "unwrap/siblings/optional-message", Ann: rf.ann, Kind: "siblings", Card: "optional-message", Shape: "word", Build: func(b *B) string {
				m, _ := rf.build(b)
				kid := b.Child("SibKid")
				m.Fields = append(m.Fields, spec.FM("opt_kid", 21, kid).Opt(), spec.FM("kid_list", 26, kid).Rep(), spec.F("tag_map", 27, spec.String).MapOf(spec.String), spec.F("plain_big", 28, spec.Int64))
				return "Root"
			}})
			continue
		}
		add(Feature{ID: fam + "/siblings/rich", Ann: rf.ann, Kind: "siblings", Card: "rich", Shape: "word", Build: func(b *B) string {
			m, first := rf.build(b)
			withRich(b, m, first, 20)
			return "Root"
		}})
	}
	return out
}
