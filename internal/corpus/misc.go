package corpus

import (
	"fmt"
	"strings"

	validate "buf.build/gen/go/bufbuild/protovalidate/protocolbuffers/go/buf/validate"
	"google.golang.org/protobuf/proto"

	"verif/internal/spec"
)

// HeaderTypes / HeaderFormats of the header catalogue.
var (
	HeaderTypes   = []string{"", "string", "integer", "number", "boolean", "array"}
	HeaderFormats = []string{"", "uuid", "email", "date-time", "date", "time"}
)

// ManyHeadersFile is a service with many service- and method-level headers (ordering probes).
func ManyHeadersFile(pkg, goName string) *spec.File {
	f := &spec.File{Path: "misc/" + goName + "/headers.proto", Package: pkg, GoImport: "lab/gen/" + goName, GoName: goName}
	f.Messages = []*spec.Message{
		{Name: "HReq", Fields: []*spec.Field{spec.F("id", 1, spec.String)}},
		{Name: "HResp", Fields: []*spec.Field{spec.F("ok", 1, spec.Bool)}},
	}
	var sh []spec.Header
	for i, n := range []string{"X-Zeta", "X-Alpha", "Authorization", "X-Mid-Word", "X-Request-ID", "x-lower", "X-Beta", "X-Gamma", "X-Delta", "X-Omega", "X-Kappa", "X-Epsilon"} {
		sh = append(sh, spec.Header{Name: n, Type: HeaderTypes[i%len(HeaderTypes)], Format: map[bool]string{true: HeaderFormats[i%len(HeaderFormats)], false: ""}[HeaderTypes[i%len(HeaderTypes)] == "string" || HeaderTypes[i%len(HeaderTypes)] == ""], Required: i%3 != 0, Description: "header " + n, Example: "ex"})
	}
	var mh []spec.Header
	for i, n := range []string{"X-Tenant", "X-Alpha", "X-Trace-Id", "X-Another", "X-Yet-Another", "X-Idem-Key", "X-Nu", "X-Xi"} {
		mh = append(mh, spec.Header{Name: n, Type: "string", Required: i%2 == 0, Deprecated: i == 3})
	}
	f.Services = []*spec.Service{{Name: "HeaderHeavyService", BasePath: spec.S("/hh"), Headers: sh, Methods: []*spec.Method{
		{Name: "First", In: "." + pkg + ".HReq", Out: "." + pkg + ".HResp", HTTP: &spec.HTTP{Path: "/first", Verb: 2}, Headers: mh},
		{Name: "Second", In: "." + pkg + ".HReq", Out: "." + pkg + ".HResp", HTTP: &spec.HTTP{Path: "/second/{id}", Verb: 1}, Headers: mh[:3]},
		{Name: "Third", In: "." + pkg + ".HReq", Out: "." + pkg + ".HResp", HTTP: &spec.HTTP{Path: "/third", Verb: 2}},
	}}}
	return f
}

// HeaderCaseVariantsFile: header names that differ only in letter case, within one level and across the
// service and method level (HTTP treats them as one header; the definition spells them apart). Whatever
// order and merging the generators apply, it has to be the same on every run.
func HeaderCaseVariantsFile(pkg, goName string) *spec.File {
	f := &spec.File{Path: "misc/" + goName + "/header_cases.proto", Package: pkg, GoImport: "lab/gen/" + goName, GoName: goName}
	f.Messages = []*spec.Message{{Name: "CReq", Fields: []*spec.Field{spec.F("id", 1, spec.String)}}, {Name: "CResp", Fields: []*spec.Field{spec.F("ok", 1, spec.Bool)}}}
	h := func(n, t string, req bool) spec.Header { return spec.Header{Name: n, Type: t, Required: req, Description: "declared as " + n} }
	svc := []spec.Header{h("X-Request-ID", "string", true), h("X-Tenant-ID", "string", true), h("X-Trace-ID", "string", false), h("X-Api-Key", "string", true), h("X-Region", "string", false), h("x-debug", "boolean", false)}
	m1 := []spec.Header{h("X-Request-Id", "string", true), h("X-Tenant-Id", "integer", true), h("x-trace-id", "string", true), h("X-API-KEY", "string", false), h("X-REGION", "string", true), h("X-Debug", "boolean", true)}
	m2 := []spec.Header{h("x-request-id", "string", false), h("X-Request-iD", "string", true), h("X-TENANT-ID", "string", true)}
	f.Services = []*spec.Service{{Name: "CaseService", BasePath: spec.S("/cases"), Headers: svc, Methods: []*spec.Method{
		{Name: "First", In: "." + pkg + ".CReq", Out: "." + pkg + ".CResp", HTTP: &spec.HTTP{Path: "/first", Verb: 2}, Headers: m1},
		{Name: "Second", In: "." + pkg + ".CReq", Out: "." + pkg + ".CResp", HTTP: &spec.HTTP{Path: "/second/{id}", Verb: 1}, Headers: m2},
		{Name: "Third", In: "." + pkg + ".CReq", Out: "." + pkg + ".CResp", HTTP: &spec.HTTP{Path: "/third", Verb: 2}},
	}}}
	return f
}

// MultiFilePackage returns two files of one proto/Go package: annotated types without a
// service, and a service file using them (cross-file unwrap, enum values, int64 NUMBER),
// plus a third unrelated file in another package.
func MultiFilePackage(pkg, goName string) (types, service, unrelated *spec.File) {
	types = &spec.File{Path: "multi/" + goName + "/types.proto", Package: pkg, GoImport: "lab/gen/" + goName, GoName: goName}
	types.Enums = []*spec.EnumDef{{Name: "Level", Values: []spec.EnumValue{{Name: "LEVEL_UNSPECIFIED", Num: 0}, {Name: "LEVEL_LOW", Num: 1, JSON: spec.S("low")}, {Name: "LEVEL_HIGH", Num: 2, JSON: spec.S("high")}}}}
	types.Messages = []*spec.Message{
		{Name: "Bar", Fields: []*spec.Field{spec.F("symbol", 1, spec.String), spec.F("price", 2, spec.Double), spec.F("volume", 3, spec.Int64).With(func(a *spec.Ann) { a.Int64Enc = 2 })}},
		{Name: "BarList", Fields: []*spec.Field{spec.FM("bars", 1, "."+pkg+".Bar").Rep().With(func(a *spec.Ann) { a.Unwrap = true })}},
		{Name: "Tagged", Fields: []*spec.Field{spec.FE("level", 1, "."+pkg+".Level"), spec.F("raw", 2, spec.Bytes).With(func(a *spec.Ann) { a.BytesEnc = 5 })}},
		{Name: "Stamped", Fields: []*spec.Field{spec.FM("seen_at", 1, spec.Timestamp).With(func(a *spec.Ann) { a.TSFormat = 3 })}},
		{Name: "Outer", Nested: []*spec.Message{{Name: "Inner", Fields: []*spec.Field{spec.F("v", 1, spec.Int32)}, Nested: []*spec.Message{{Name: "Deep", Fields: []*spec.Field{spec.F("w", 1, spec.String)}}}}},
			Fields: []*spec.Field{spec.FM("inner", 1, "."+pkg+".Outer.Inner"), spec.FM("deep", 2, "."+pkg+".Outer.Inner.Deep")}},
	}
	service = &spec.File{Path: "multi/" + goName + "/service.proto", Package: pkg, GoImport: "lab/gen/" + goName, GoName: goName, Imports: []string{types.Path}}
	service.Messages = []*spec.Message{
		{Name: "BarsReq", Fields: []*spec.Field{spec.F("symbols", 1, spec.String).Rep(), spec.FM("tagged", 2, "."+pkg+".Tagged")}},
		{Name: "BarsResp", Fields: []*spec.Field{spec.FM("bars", 1, "."+pkg+".BarList").MapOf(spec.String), spec.F("next_page_token", 2, spec.String), spec.FM("outer", 3, "."+pkg+".Outer")}},
		// root map unwrap whose value type (declared in the other file) unwraps again
		{Name: "BarsByKey", Fields: []*spec.Field{spec.FM("data", 1, "."+pkg+".BarList").MapOf(spec.String).With(func(a *spec.Ann) { a.Unwrap = true })}},
	}
	service.Services = []*spec.Service{
		{Name: "MarketService", BasePath: spec.S("/market"), Methods: []*spec.Method{{Name: "GetBars", In: "." + pkg + ".BarsReq", Out: "." + pkg + ".BarsResp", HTTP: &spec.HTTP{Path: "/bars", Verb: 2}}}},
		{Name: "SecondService", BasePath: spec.S("/second"), Methods: []*spec.Method{{Name: "GetTagged", In: "." + pkg + ".BarsReq", Out: "." + pkg + ".Tagged", HTTP: &spec.HTTP{Path: "/tagged", Verb: 2}},
			{Name: "GetByKey", In: "." + pkg + ".BarsReq", Out: "." + pkg + ".BarsByKey", HTTP: &spec.HTTP{Path: "/by-key", Verb: 2}}}},
	}
	upkg := pkg + "x"
	unrelated = &spec.File{Path: "multi/" + goName + "x/unrelated.proto", Package: upkg, GoImport: "lab/gen/" + goName + "x", GoName: goName + "x"}
	unrelated.Messages = []*spec.Message{{Name: "UReq", Fields: []*spec.Field{spec.F("id", 1, spec.String)}}, {Name: "UResp", Fields: []*spec.Field{spec.F("n", 1, spec.Int64).With(func(a *spec.Ann) { a.Int64Enc = 2 })}}}
	unrelated.Services = []*spec.Service{{Name: "UnrelatedService", Methods: []*spec.Method{{Name: "Ping", In: "." + upkg + ".UReq", Out: "." + upkg + ".UResp", HTTP: &spec.HTTP{Path: "/u/{id}", Verb: 2}}}}}
	return
}

// SameRouteServices: two services that each expose the same verb and path (a health probe, an item route),
// each meant for a mux of its own: in one file, or in two files of different proto and Go packages
// generated by one invocation. Routes are per service; nothing about one service limits another.
func SameRouteServices(pkg, goName string, twoPackages bool) []*spec.File {
	mk := func(p, g, svc, rpcSuffix string) *spec.File {
		f := &spec.File{Path: "same/" + g + "/api.proto", Package: p, GoImport: "lab/gen/" + g, GoName: g}
		in := func(m string) string { return "." + p + "." + m }
		f.Messages = []*spec.Message{{Name: "Ping" + rpcSuffix, Fields: []*spec.Field{spec.F("probe", 1, spec.String).Q("probe")}}, {Name: "Pong" + rpcSuffix, Fields: []*spec.Field{spec.F("ok", 1, spec.Bool)}},
			{Name: "Item" + rpcSuffix, Fields: []*spec.Field{spec.F("id", 1, spec.String), spec.F("title", 2, spec.String)}}}
		f.Services = []*spec.Service{{Name: svc, BasePath: spec.S("/api"), Methods: []*spec.Method{
			{Name: "Health" + rpcSuffix, In: in("Ping" + rpcSuffix), Out: in("Pong" + rpcSuffix), HTTP: &spec.HTTP{Path: "/healthz", Verb: 1}},
			{Name: "PutItem" + rpcSuffix, In: in("Item" + rpcSuffix), Out: in("Item" + rpcSuffix), HTTP: &spec.HTTP{Path: "/items/{id}", Verb: 3}}}}}
		return f
	}
	if twoPackages {
		return []*spec.File{mk(pkg+".shop", goName+"shop", "ShopService", ""), mk(pkg+".admin", goName+"admin", "AdminService", "")}
	}
	a := mk(pkg, goName, "ShopService", "A")
	b := mk(pkg, goName, "AdminService", "B")
	a.Messages = append(a.Messages, b.Messages...)
	a.Services = append(a.Services, b.Services...)
	return []*spec.File{a}
}

// SiblingFiles: three files of one proto package and one Go package, all generated in one invocation: a
// service file, the models file it imports, and an audit file that nothing imports. Every message
// carries field examples, rules and JSON-mapping annotations, so whatever a generator collects per
// file (example tables, codec lists, schema sets) would show a leak from a sibling.
func SiblingFiles(pkg, goName string) []*spec.File {
	ex := func(v ...string) func(a *spec.Ann) { return func(a *spec.Ann) { a.Examples = v } }
	dir := "siblings/" + goName + "/"
	mk := func(n string) *spec.File {
		return &spec.File{Path: dir + n + ".proto", Package: pkg, GoImport: "lab/gen/" + goName, GoName: goName}
	}
	models := mk("models")
	models.Messages = []*spec.Message{
		{Name: "Product", Fields: []*spec.Field{spec.F("title", 1, spec.String).With(ex("Lamp", "Desk")), spec.F("price_cents", 2, spec.Int64).With(func(a *spec.Ann) { a.Int64Enc = 2; a.Examples = []string{"1999"} }),
			spec.FM("listed_at", 3, spec.Timestamp).With(func(a *spec.Ann) { a.TSFormat = 2 })}},
		{Name: "ProductList", Fields: []*spec.Field{spec.FM("products", 1, "."+pkg+".Product").Rep().With(func(a *spec.Ann) { a.Unwrap = true })}},
	}
	audit := mk("audit")
	audit.Enums = []*spec.EnumDef{{Name: "Action", Values: []spec.EnumValue{{Name: "ACTION_UNSPECIFIED", Num: 0}, {Name: "ACTION_CREATE", Num: 1, JSON: spec.S("create")}}}}
	audit.Messages = []*spec.Message{
		{Name: "AuditEntry", Fields: []*spec.Field{spec.F("actor", 1, spec.String).With(ex("root", "alice")), spec.F("title", 2, spec.String).With(ex("audit-title")), spec.FE("action", 3, "."+pkg+".Action"),
			spec.F("payload", 4, spec.Bytes).With(func(a *spec.Ann) { a.BytesEnc = 5 }), spec.FM("at", 5, spec.Timestamp).With(func(a *spec.Ann) { a.TSFormat = 3 })}},
		{Name: "Another", Fields: []*spec.Field{spec.F("big", 1, spec.Uint64).With(func(a *spec.Ann) { a.Int64Enc = 2; a.Examples = []string{"7"} })}},
	}
	svc := mk("service")
	svc.Imports = []string{models.Path}
	svc.Messages = []*spec.Message{
		{Name: "FindRequest", Fields: []*spec.Field{spec.F("query", 1, spec.String).With(ex("lamp"))}},
		{Name: "FindResponse", Fields: []*spec.Field{spec.FM("best", 1, "."+pkg+".Product"), spec.FM("by_shelf", 2, "."+pkg+".ProductList").MapOf(spec.String), spec.F("title", 3, spec.String).With(ex("results"))}},
	}
	svc.Services = []*spec.Service{{Name: "ShopService", BasePath: spec.S("/shop"), Methods: []*spec.Method{{Name: "Find", In: "." + pkg + ".FindRequest", Out: "." + pkg + ".FindResponse", HTTP: &spec.HTTP{Path: "/find", Verb: 2}}}}}
	return []*spec.File{models, audit, svc}
}

// ManyTypesFile has many messages and enums (emission-order probe for type declarations/schemas).
func ManyTypesFile(pkg, goName string) *spec.File {
	f := &spec.File{Path: "misc/" + goName + "/many.proto", Package: pkg, GoImport: "lab/gen/" + goName, GoName: goName}
	var refs []*spec.Field
	for i := 0; i < 24; i++ {
		mn := fmt.Sprintf("T%c%d", 'Z'-rune(i), i)
		en := fmt.Sprintf("E%c%d", 'A'+rune((i*7)%26), i)
		f.Enums = append(f.Enums, &spec.EnumDef{Name: en, Values: []spec.EnumValue{{Name: fmt.Sprintf("%s_UNSPECIFIED", en), Num: 0}, {Name: fmt.Sprintf("%s_ONE", en), Num: 1}}})
		f.Messages = append(f.Messages, &spec.Message{Name: mn, Fields: []*spec.Field{spec.F("a", 1, spec.String), spec.FE("e", 2, "."+pkg+"."+en), spec.F("m", 3, spec.Int64).MapOf(spec.String)}})
		refs = append(refs, spec.FM(fmt.Sprintf("f%02d", i), int32(i+1), "."+pkg+"."+mn))
	}
	f.Messages = append(f.Messages, &spec.Message{Name: "AllReq", Fields: refs}, &spec.Message{Name: "AllResp", Fields: refs})
	f.Services = []*spec.Service{{Name: "ManyTypesService", Methods: []*spec.Method{{Name: "All", In: "." + pkg + ".AllReq", Out: "." + pkg + ".AllResp", HTTP: &spec.HTTP{Path: "/all", Verb: 2}}}}}
	return f
}

// EnumShape is a package layout around enums with enum_value custom JSON strings.
type EnumShape struct {
	Label string
	Files []*spec.File // all of one proto/Go package
}

func customEnum(name, prefix string) *spec.EnumDef {
	return &spec.EnumDef{Name: name, Values: []spec.EnumValue{
		{Name: prefix + "_UNSPECIFIED", Num: 0, JSON: spec.S("unknown")}, {Name: prefix + "_PENDING", Num: 1, JSON: spec.S("pending")},
		{Name: prefix + "_ON_HOLD", Num: 2, JSON: spec.S("on-hold")}, {Name: prefix + "_PLAIN", Num: 5}}}
}

// EnumShapes: where annotated enums may live (top level, nested, the same short name in several
// scopes, a file of their own) — every annotated enum must get its JSON methods in each of them.
func EnumShapes(pkgPrefix, goPrefix string) []EnumShape {
	var out []EnumShape
	mk := func(label string, fill func(pkg string, f *spec.File) []*spec.File) {
		n := len(out)
		pkg := fmt.Sprintf("%s.e%d", pkgPrefix, n)
		goName := fmt.Sprintf("%se%d", goPrefix, n)
		f := &spec.File{Path: fmt.Sprintf("%s/e%d/defs.proto", goPrefix, n), Package: pkg, GoImport: "lab/gen/" + goName, GoName: goName}
		extra := fill(pkg, f)
		out = append(out, EnumShape{Label: label, Files: append(extra, f)})
	}
	mk("top-level", func(pkg string, f *spec.File) []*spec.File {
		f.Enums = []*spec.EnumDef{customEnum("Status", "STATUS")}
		f.Messages = []*spec.Message{{Name: "Order", Fields: []*spec.Field{spec.FE("status", 1, "."+pkg+".Status")}}}
		return nil
	})
	mk("two-top-level-and-plain", func(pkg string, f *spec.File) []*spec.File {
		f.Enums = []*spec.EnumDef{customEnum("Status", "STATUS"), customEnum("Phase", "PHASE"), {Name: "Plain", Values: []spec.EnumValue{{Name: "PLAIN_UNSPECIFIED", Num: 0}, {Name: "PLAIN_ONE", Num: 1}}}}
		f.Messages = []*spec.Message{{Name: "Order", Fields: []*spec.Field{spec.FE("status", 1, "."+pkg+".Status"), spec.FE("phase", 2, "."+pkg+".Phase"), spec.FE("plain", 3, "."+pkg+".Plain")}}}
		return nil
	})
	mk("nested", func(pkg string, f *spec.File) []*spec.File {
		f.Messages = []*spec.Message{{Name: "Order", Enums: []*spec.EnumDef{customEnum("Status", "STATUS")}, Fields: []*spec.Field{spec.FE("status", 1, "."+pkg+".Order.Status")}}}
		return nil
	})
	mk("deep-nested", func(pkg string, f *spec.File) []*spec.File {
		f.Messages = []*spec.Message{{Name: "Outer", Nested: []*spec.Message{{Name: "Inner", Enums: []*spec.EnumDef{customEnum("Level", "LEVEL")}, Fields: []*spec.Field{spec.FE("level", 1, "."+pkg+".Outer.Inner.Level")}}},
			Fields: []*spec.Field{spec.FM("inner", 1, "."+pkg+".Outer.Inner")}}}
		return nil
	})
	mk("nested-same-short-name", func(pkg string, f *spec.File) []*spec.File {
		f.Messages = []*spec.Message{
			{Name: "Order", Enums: []*spec.EnumDef{customEnum("Status", "STATUS")}, Fields: []*spec.Field{spec.FE("status", 1, "."+pkg+".Order.Status")}},
			{Name: "Shipment", Enums: []*spec.EnumDef{customEnum("Status", "STATUS")}, Fields: []*spec.Field{spec.FE("status", 1, "."+pkg+".Shipment.Status"), spec.FM("order", 2, "."+pkg+".Order")}}}
		return nil
	})
	mk("top-and-nested-same-short-name", func(pkg string, f *spec.File) []*spec.File {
		f.Enums = []*spec.EnumDef{customEnum("Status", "TOP_STATUS")}
		f.Messages = []*spec.Message{
			{Name: "Shipment", Enums: []*spec.EnumDef{customEnum("Status", "STATUS")}, Fields: []*spec.Field{spec.FE("status", 1, "."+pkg+".Shipment.Status"), spec.FE("top", 2, "."+pkg+".Status")}}}
		return nil
	})
	mk("enums-only-file", func(pkg string, f *spec.File) []*spec.File {
		ef := &spec.File{Path: strings.TrimSuffix(f.Path, "defs.proto") + "status.proto", Package: pkg, GoImport: f.GoImport, GoName: f.GoName}
		ef.Enums = []*spec.EnumDef{customEnum("Status", "STATUS"), customEnum("Phase", "PHASE")}
		f.Imports = []string{ef.Path}
		f.Messages = []*spec.Message{{Name: "Order", Fields: []*spec.Field{spec.FE("status", 1, "."+pkg+".Status"), spec.FE("phase", 2, "."+pkg+".Phase")}}}
		return []*spec.File{ef}
	})
	// an enum whose values are NOT declared in ascending number order, used number-encoded by one file's
	// service and name-encoded by another file's service (the enum lives in a third, shared file)
	mk("non-ascending-numbers/number-and-name-users", func(pkg string, f *spec.File) []*spec.File {
		dir := strings.TrimSuffix(f.Path, "defs.proto")
		// three Go packages (two service files in ONE Go package do not build on the unchanged tree, recorded under C13)
		common := &spec.File{Path: dir + "common.proto", Package: pkg, GoImport: f.GoImport + "common", GoName: f.GoName + "common"}
		common.Enums = []*spec.EnumDef{{Name: "Priority", Values: []spec.EnumValue{{Name: "PRIORITY_UNSPECIFIED", Num: 0}, {Name: "PRIORITY_LOW", Num: 1}, {Name: "PRIORITY_MEDIUM", Num: 3}, {Name: "PRIORITY_HIGH", Num: 2}, {Name: "PRIORITY_URGENT", Num: 9}, {Name: "PRIORITY_LATER", Num: 4}}}}
		tickets := &spec.File{Path: dir + "tickets.proto", Package: pkg, GoImport: f.GoImport + "tickets", GoName: f.GoName + "tickets", Imports: []string{common.Path}}
		tickets.Messages = []*spec.Message{{Name: "Ticket", Fields: []*spec.Field{spec.F("id", 1, spec.String), spec.FE("priority", 2, "."+pkg+".Priority").With(func(a *spec.Ann) { a.EnumEnc = 2 })}}}
		tickets.Services = []*spec.Service{{Name: "TicketService", Methods: []*spec.Method{{Name: "GetTicket", In: "." + pkg + ".Ticket", Out: "." + pkg + ".Ticket", HTTP: &spec.HTTP{Path: "/tickets", Verb: 2}}}}}
		f.Imports = []string{common.Path}
		f.Messages = []*spec.Message{{Name: "Alert", Fields: []*spec.Field{spec.F("id", 1, spec.String), spec.FE("priority", 2, "."+pkg+".Priority"), spec.FE("history", 3, "."+pkg+".Priority").Rep()}}}
		f.Services = []*spec.Service{{Name: "AlertService", Methods: []*spec.Method{{Name: "GetAlert", In: "." + pkg + ".Alert", Out: "." + pkg + ".Alert", HTTP: &spec.HTTP{Path: "/alerts", Verb: 2}}}}}
		return []*spec.File{common, tickets}
	})
	mk("with-service", func(pkg string, f *spec.File) []*spec.File {
		f.Enums = []*spec.EnumDef{customEnum("Status", "STATUS")}
		f.Messages = []*spec.Message{{Name: "Order", Enums: []*spec.EnumDef{customEnum("Kind", "KIND")}, Fields: []*spec.Field{spec.FE("status", 1, "."+pkg+".Status"), spec.FE("kind", 2, "."+pkg+".Order.Kind")}}}
		f.Services = []*spec.Service{{Name: "EnumService", Methods: []*spec.Method{{Name: "Call", In: "." + pkg + ".Order", Out: "." + pkg + ".Order", HTTP: &spec.HTTP{Path: "/e", Verb: 2}}}}}
		return nil
	})
	return out
}

// HeaderCountFile: one service per number of service-level headers (0..9 and 12), each with
// several RPCs that declare no method-level headers but different URL-bound parameters
// (slice capacity after n appends differs by n: shared parameter tables show at some counts only).
func HeaderCountFile(pkg, goName string) *spec.File {
	f := &spec.File{Path: "misc/" + goName + "/hcount.proto", Package: pkg, GoImport: "lab/gen/" + goName, GoName: goName}
	f.Messages = []*spec.Message{
		{Name: "ByItem", Fields: []*spec.Field{spec.F("item_id", 1, spec.String), spec.F("verbose", 2, spec.Bool).Q("verbose")}},
		{Name: "Search", Fields: []*spec.Field{spec.F("q", 1, spec.String).QReq("q"), spec.F("page_size", 2, spec.Int32).Q("limit"), spec.F("cursor", 3, spec.String).Q("cursor")}},
		{Name: "ByOrg", Fields: []*spec.Field{spec.F("org_id", 1, spec.String), spec.F("user_id", 2, spec.String), spec.F("note", 3, spec.String)}},
		{Name: "Drop", Fields: []*spec.Field{spec.F("drop_id", 1, spec.Int64), spec.F("force", 2, spec.Bool).Q("force")}},
		{Name: "HCResp", Fields: []*spec.Field{spec.F("ok", 1, spec.Bool)}},
	}
	for _, n := range []int{0, 1, 2, 3, 4, 5, 6, 7, 8, 9, 12} {
		var hs []spec.Header
		for i := 0; i < n; i++ {
			hs = append(hs, spec.Header{Name: fmt.Sprintf("X-Svc-%02d", i), Type: "string", Required: i%2 == 0})
		}
		in := func(m string) string { return "." + pkg + "." + m }
		f.Services = append(f.Services, &spec.Service{Name: fmt.Sprintf("H%02dService", n), BasePath: spec.S(fmt.Sprintf("/hc%02d", n)), Headers: hs, Methods: []*spec.Method{
			{Name: "GetItem", In: in("ByItem"), Out: in("HCResp"), HTTP: &spec.HTTP{Path: "/items/{item_id}", Verb: 1}},
			{Name: "SearchItems", In: in("Search"), Out: in("HCResp"), HTTP: &spec.HTTP{Path: "/search", Verb: 1}},
			{Name: "Annotate", In: in("ByOrg"), Out: in("HCResp"), HTTP: &spec.HTTP{Path: "/orgs/{org_id}/users/{user_id}", Verb: 2}},
			{Name: "DropItem", In: in("Drop"), Out: in("HCResp"), HTTP: &spec.HTTP{Path: "/drops/{drop_id}", Verb: 4}},
			{Name: "Tagged", In: in("ByItem"), Out: in("HCResp"), HTTP: &spec.HTTP{Path: "/tagged/{item_id}", Verb: 1}, Headers: []spec.Header{{Name: "X-Own", Type: "integer", Required: true}}},
		}})
	}
	return f
}

// SharedRequestFile: one request message used by several RPCs (bodiless and body verbs, two
// services, with and without path variables) — per-message state kept by a generator must not
// carry over from one RPC to the next.
func SharedRequestFile(pkg, goName string) *spec.File {
	f := &spec.File{Path: "misc/" + goName + "/shared_req.proto", Package: pkg, GoImport: "lab/gen/" + goName, GoName: goName}
	f.Messages = []*spec.Message{
		{Name: "NoteRef", Fields: []*spec.Field{spec.F("note_id", 1, spec.String), spec.F("rev", 2, spec.Int64).Q("rev")}},
		{Name: "OrgRef", Fields: []*spec.Field{spec.F("org_id", 1, spec.String), spec.F("note_id", 2, spec.String), spec.F("dry_run", 3, spec.Bool).Q("dry_run")}},
		{Name: "Note", Fields: []*spec.Field{spec.F("note_id", 1, spec.String), spec.F("text", 2, spec.String)}},
		{Name: "ItemRef", Fields: []*spec.Field{spec.F("item", 1, spec.String), spec.F("org", 2, spec.String), spec.F("title", 3, spec.String)}},
		// used by a body verb FIRST and by bodiless verbs afterwards (the other messages: bodiless first)
		{Name: "TagRef", Fields: []*spec.Field{spec.F("tag_id", 1, spec.String), spec.F("limit", 2, spec.Int32).Q("limit"), spec.F("q", 3, spec.String).Q("q"), spec.F("exact", 4, spec.Bool).Q("exact")}},
	}
	in := func(m string) string { return "." + pkg + "." + m }
	f.Services = []*spec.Service{
		{Name: "NoteService", BasePath: spec.S("/v1"), Methods: []*spec.Method{
			// one message under path-variable sets of different sizes (what a server resolves per message
			// instead of per route shows here)
			{Name: "AddItem", In: in("ItemRef"), Out: in("Note"), HTTP: &spec.HTTP{Path: "/orgs/{org}/items", Verb: 2}},
			{Name: "PutItem", In: in("ItemRef"), Out: in("Note"), HTTP: &spec.HTTP{Path: "/orgs/{org}/items/{item}", Verb: 3}},
			{Name: "PatchItem", In: in("ItemRef"), Out: in("Note"), HTTP: &spec.HTTP{Path: "/items/{item}", Verb: 5}},
			{Name: "RetagAll", In: in("TagRef"), Out: in("Note"), HTTP: &spec.HTTP{Path: "/tags/{tag_id}/retag", Verb: 2}},
			{Name: "FindByTag", In: in("TagRef"), Out: in("Note"), HTTP: &spec.HTTP{Path: "/tags/{tag_id}", Verb: 1}},
			{Name: "DropTag", In: in("TagRef"), Out: in("Note"), HTTP: &spec.HTTP{Path: "/tags/{tag_id}", Verb: 4}},
			{Name: "GetNote", In: in("NoteRef"), Out: in("Note"), HTTP: &spec.HTTP{Path: "/notes/{note_id}", Verb: 1}},
			{Name: "DeleteNote", In: in("NoteRef"), Out: in("Note"), HTTP: &spec.HTTP{Path: "/notes/{note_id}", Verb: 4}},
			{Name: "TouchNote", In: in("NoteRef"), Out: in("Note"), HTTP: &spec.HTTP{Path: "/notes/{note_id}/touch", Verb: 2}},
			{Name: "GetOrgNote", In: in("OrgRef"), Out: in("Note"), HTTP: &spec.HTTP{Path: "/orgs/{org_id}/notes/{note_id}", Verb: 1}},
			{Name: "PutNote", In: in("Note"), Out: in("Note"), HTTP: &spec.HTTP{Path: "/notes/{note_id}", Verb: 3}},
		}},
		{Name: "ArchiveService", BasePath: spec.S("/v1/archive"), Methods: []*spec.Method{
			{Name: "DropOrgNote", In: in("OrgRef"), Out: in("Note"), HTTP: &spec.HTTP{Path: "/orgs/{org_id}/notes/{note_id}", Verb: 4}},
			{Name: "PeekNote", In: in("NoteRef"), Out: in("Note"), HTTP: &spec.HTTP{Path: "/notes/{note_id}", Verb: 1}},
			{Name: "PatchTag", In: in("TagRef"), Out: in("Note"), HTTP: &spec.HTTP{Path: "/tags/{tag_id}", Verb: 5}},
			{Name: "PeekTag", In: in("TagRef"), Out: in("Note"), HTTP: &spec.HTTP{Path: "/tags/{tag_id}", Verb: 1}},
		}},
	}
	return f
}

// TwinPackages: two files of DIFFERENT proto packages (and Go packages) generated in one
// invocation that declare messages, enums and RPCs with the same short names but different
// fields, annotations, validation rules, verbs and paths. Whatever a generator keeps between the
// files of a run (caches keyed by a short name, tables built from every file to generate) must not
// let one package's declarations show in the other's output.
func TwinPackages(pkgPrefix, goPrefix string) []*spec.File {
	mk := func(tag string, b bool) *spec.File {
		pkg := pkgPrefix + "." + tag
		goName := goPrefix + tag
		f := &spec.File{Path: "twins/" + goName + "/catalog.proto", Package: pkg, GoImport: "lab/gen/" + goName, GoName: goName}
		in := func(m string) string { return "." + pkg + "." + m }
		strRule := func(minLen, maxLen uint64) *validate.FieldRules {
			return &validate.FieldRules{Type: &validate.FieldRules_String_{String_: &validate.StringRules{MinLen: &minLen, MaxLen: &maxLen}}}
		}
		i32Rule := func(gte, lte int32) *validate.FieldRules {
			return &validate.FieldRules{Type: &validate.FieldRules_Int32{Int32: &validate.Int32Rules{GreaterThan: &validate.Int32Rules_Gte{Gte: gte}, LessThan: &validate.Int32Rules_Lte{Lte: lte}}}}
		}
		req := true
		status := &spec.EnumDef{Name: "Status", Values: []spec.EnumValue{{Name: "STATUS_UNSPECIFIED", Num: 0}, {Name: "STATUS_ACTIVE", Num: 1}}}
		var item, create, list *spec.Message
		if !b {
			item = &spec.Message{Name: "Item", Fields: []*spec.Field{
				spec.F("item_id", 1, spec.String),
				spec.F("name", 2, spec.String).With(func(a *spec.Ann) { a.Rules = strRule(1, 40) }),
				spec.F("quantity", 3, spec.Int32).With(func(a *spec.Ann) { a.Rules = i32Rule(0, 1000) }),
				spec.F("weight_grams", 4, spec.Int64).With(func(a *spec.Ann) { a.Int64Enc = 2 }),
				spec.FE("status", 5, in("Status")),
			}}
			create = &spec.Message{Name: "CreateItemRequest", Fields: []*spec.Field{
				spec.F("name", 1, spec.String).With(func(a *spec.Ann) { a.Rules = strRule(1, 40); a.Rules.Required = &req }),
				spec.F("quantity", 2, spec.Int32).With(func(a *spec.Ann) { a.Rules = i32Rule(0, 1000) }),
				spec.F("note", 3, spec.String).Opt(),
			}}
			list = &spec.Message{Name: "ListItemsResponse", Fields: []*spec.Field{spec.FM("items", 1, in("Item")).Rep(), spec.F("next_cursor", 2, spec.String)}}
		} else {
			status.Values = []spec.EnumValue{{Name: "STATUS_UNSPECIFIED", Num: 0}, {Name: "STATUS_LISTED", Num: 1, JSON: spec.S("listed")}, {Name: "STATUS_HIDDEN", Num: 2, JSON: spec.S("hidden")}}
			item = &spec.Message{Name: "Item", Fields: []*spec.Field{
				spec.F("sku", 1, spec.String).With(func(a *spec.Ann) { a.Rules = strRule(8, 8) }),
				spec.F("name", 2, spec.String).With(func(a *spec.Ann) { a.Rules = strRule(3, 12) }),
				spec.F("quantity", 3, spec.Int32).With(func(a *spec.Ann) { a.Rules = i32Rule(1, 10) }),
				spec.F("price_cents", 4, spec.Int64),
				spec.FE("status", 5, in("Status")),
				spec.F("thumbnail", 6, spec.Bytes).With(func(a *spec.Ann) { a.BytesEnc = 5 }),
			}}
			create = &spec.Message{Name: "CreateItemRequest", Fields: []*spec.Field{
				spec.F("sku", 1, spec.String).With(func(a *spec.Ann) { a.Rules = strRule(8, 8); a.Rules.Required = &req }),
				spec.F("name", 2, spec.String).With(func(a *spec.Ann) { a.Rules = strRule(3, 12) }),
				spec.F("quantity", 3, spec.Int32).With(func(a *spec.Ann) { a.Rules = i32Rule(1, 10); a.Rules.Required = &req }),
			}}
			list = &spec.Message{Name: "ListItemsResponse", Fields: []*spec.Field{spec.FM("items", 1, in("Item")).Rep().With(func(a *spec.Ann) { a.Unwrap = true })}}
		}
		get := &spec.Message{Name: "GetItemRequest"}
		lst := &spec.Message{Name: "ListItemsRequest"}
		if !b {
			get.Fields = []*spec.Field{spec.F("item_id", 1, spec.String)}
			lst.Fields = []*spec.Field{spec.F("cursor", 1, spec.String).Q("cursor"), spec.F("limit", 2, spec.Int32).Q("limit")}
		} else {
			get.Fields = []*spec.Field{spec.F("sku", 1, spec.String), spec.F("currency", 2, spec.String).QReq("currency")}
			lst.Fields = []*spec.Field{spec.F("category", 1, spec.String), spec.F("page", 2, spec.Int64).Q("page")}
		}
		f.Enums = []*spec.EnumDef{status}
		f.Messages = []*spec.Message{item, create, list, get, lst}
		if !b {
			f.Services = []*spec.Service{{Name: "InventoryService", BasePath: spec.S("/inventory/v1"), Headers: []spec.Header{{Name: "X-Tenant", Type: "string", Required: true}}, Methods: []*spec.Method{
				{Name: "CreateItem", In: in("CreateItemRequest"), Out: in("Item"), HTTP: &spec.HTTP{Path: "/items", Verb: 2}},
				{Name: "GetItem", In: in("GetItemRequest"), Out: in("Item"), HTTP: &spec.HTTP{Path: "/items/{item_id}", Verb: 1}},
				{Name: "ListItems", In: in("ListItemsRequest"), Out: in("ListItemsResponse"), HTTP: &spec.HTTP{Path: "/items", Verb: 1}},
			}}}
		} else {
			f.Services = []*spec.Service{{Name: "StorefrontService", BasePath: spec.S("/shop"), Headers: []spec.Header{{Name: "X-Tenant", Type: "integer", Required: false}, {Name: "X-Channel", Type: "string", Required: true}}, Methods: []*spec.Method{
				{Name: "CreateItem", In: in("CreateItemRequest"), Out: in("Item"), HTTP: &spec.HTTP{Path: "/catalog/items", Verb: 3}},
				{Name: "GetItem", In: in("GetItemRequest"), Out: in("Item"), HTTP: &spec.HTTP{Path: "/catalog/{sku}", Verb: 1}},
				{Name: "ListItems", In: in("ListItemsRequest"), Out: in("ListItemsResponse"), HTTP: &spec.HTTP{Path: "/categories/{category}/items", Verb: 1}},
			}}}
		}
		return f
	}
	return []*spec.File{mk("twa", false), mk("twb", true)}
}

// EnumRuleVariant is one buf.validate enum rule placed on every enum-typed carrier of EnumRulesFile.
type EnumRuleVariant struct {
	ID    string
	Rules *validate.EnumRules
}

// EnumRuleVariants: in / not_in / const / defined_only over an enum that declares 0,1,2 (proto3 enums
// are open: a rule may name a number the enum gives no name to, and protovalidate accepts that).
func EnumRuleVariants() []EnumRuleVariant {
	return []EnumRuleVariant{
		{"in/declared-numbers", &validate.EnumRules{In: []int32{1, 2}}},
		{"in/with-undeclared-number", &validate.EnumRules{In: []int32{1, 2, 7}}},
		{"in/only-undeclared-negative", &validate.EnumRules{In: []int32{-3}}},
		{"not_in/zero", &validate.EnumRules{NotIn: []int32{0}}},
		{"not_in/with-undeclared-number", &validate.EnumRules{NotIn: []int32{0, 7}}},
		{"not_in/every-declared-number", &validate.EnumRules{NotIn: []int32{0, 1, 2}}},
		{"const/declared-number", &validate.EnumRules{Const: proto.Int32(1)}},
		{"const/undeclared-number", &validate.EnumRules{Const: proto.Int32(7)}},
		{"defined_only/true", &validate.EnumRules{DefinedOnly: proto.Bool(true)}},
		{"defined_only+in/undeclared", &validate.EnumRules{DefinedOnly: proto.Bool(true), In: []int32{2, 9}}},
	}
}

// EnumRulesFile: one service whose request and response carry the rule on a singular enum field
// (name-encoded, NUMBER-encoded, with custom enum_value strings), a proto3-optional one, a oneof
// variant, list elements (repeated.items.enum) and map values (map.values.enum).
func EnumRulesFile(pkg, goName string, v EnumRuleVariant) *spec.File {
	f := &spec.File{Path: "misc/" + goName + "/enum_rules.proto", Package: pkg, GoImport: "lab/gen/" + goName, GoName: goName}
	f.Enums = []*spec.EnumDef{
		{Name: "OrderStatus", Values: []spec.EnumValue{{Name: "ORDER_STATUS_UNSPECIFIED", Num: 0}, {Name: "ORDER_STATUS_OPEN", Num: 1}, {Name: "ORDER_STATUS_CLOSED", Num: 2}}},
		{Name: "Shade", Values: []spec.EnumValue{{Name: "SHADE_UNSPECIFIED", Num: 0, JSON: spec.S("none")}, {Name: "SHADE_LIGHT", Num: 1, JSON: spec.S("light")}, {Name: "SHADE_DARK", Num: 2}}},
	}
	rule := func() *validate.FieldRules {
		return &validate.FieldRules{Type: &validate.FieldRules_Enum{Enum: proto.Clone(v.Rules).(*validate.EnumRules)}}
	}
	st, sh := "."+pkg+".OrderStatus", "."+pkg+".Shade"
	withRule := func(fl *spec.Field) *spec.Field { fl.Ann.Rules = rule(); return fl }
	carrier := &spec.Message{Name: "Carrier", Oneofs: []*spec.Oneof{{Name: "choice"}}, Fields: []*spec.Field{
		withRule(spec.FE("status", 1, st)),
		withRule(spec.FE("status_number", 2, st)).With(func(a *spec.Ann) { a.EnumEnc = 2 }),
		withRule(spec.FE("shade", 3, sh)),
		withRule(spec.FE("maybe_status", 4, st).Opt()),
		withRule(spec.FE("picked", 5, st).In(1)),
		spec.F("label", 6, spec.String).In(1),
		spec.FE("statuses", 7, st).Rep().With(func(a *spec.Ann) {
			a.Rules = &validate.FieldRules{Type: &validate.FieldRules_Repeated{Repeated: &validate.RepeatedRules{Items: rule()}}}
		}),
		spec.FE("by_key", 8, sh).MapOf(spec.String).With(func(a *spec.Ann) {
			a.Rules = &validate.FieldRules{Type: &validate.FieldRules_Map{Map: &validate.MapRules{Values: rule()}}}
		}),
		// the rule switched off: nothing of it may matter
		spec.FE("ignored", 9, st).With(func(a *spec.Ann) { r := rule(); r.Ignore = validate.Ignore_IGNORE_ALWAYS.Enum(); a.Rules = r }),
		spec.FE("plain", 10, st),
	}}
	find := &spec.Message{Name: "FindReq", Fields: []*spec.Field{withRule(spec.FE("status", 1, st)).Q("status"), withRule(spec.FE("shade", 2, sh)).QReq("shade")}}
	f.Messages = []*spec.Message{carrier, find, {Name: "Ack", Fields: []*spec.Field{spec.F("ok", 1, spec.Bool), spec.FM("echo", 2, "."+pkg+".Carrier")}}}
	f.Services = []*spec.Service{{Name: "EnumRuleService", BasePath: spec.S("/enum-rules"), Methods: []*spec.Method{
		{Name: "Put", In: "." + pkg + ".Carrier", Out: "." + pkg + ".Ack", HTTP: &spec.HTTP{Path: "/put", Verb: 2}},
		{Name: "Find", In: "." + pkg + ".FindReq", Out: "." + pkg + ".Carrier", HTTP: &spec.HTTP{Path: "/find", Verb: 1}},
	}}}
	return f
}

// ManyServices: n services spread round-robin over `files` files (each file its own proto and Go package,
// so nothing collides), every service with a GET route with a path variable, a query parameter and a POST.
func ManyServices(pkg, goName string, n, files int) []*spec.File {
	var out []*spec.File
	for fi := 0; fi < files; fi++ {
		fp, gn := pkg, goName
		if files > 1 {
			fp, gn = fmt.Sprintf("%s.f%d", pkg, fi), fmt.Sprintf("%sf%d", goName, fi)
		}
		f := &spec.File{Path: "misc/" + gn + "/services.proto", Package: fp, GoImport: "lab/gen/" + gn, GoName: gn}
		f.Messages = []*spec.Message{
			{Name: "GetReq", Fields: []*spec.Field{spec.F("item_id", 1, spec.String), spec.F("view", 2, spec.String).Q("view")}},
			{Name: "PutReq", Fields: []*spec.Field{spec.F("label", 1, spec.String), spec.F("rank", 2, spec.Int32)}},
			{Name: "Item", Fields: []*spec.Field{spec.F("item_id", 1, spec.String), spec.F("label", 2, spec.String)}},
		}
		out = append(out, f)
	}
	for i := 0; i < n; i++ {
		f := out[i%files]
		name := fmt.Sprintf("Svc%c%dService", 'A'+rune(i), i)
		f.Services = append(f.Services, &spec.Service{Name: name, BasePath: spec.S(fmt.Sprintf("/s%d", i)), Methods: []*spec.Method{
			{Name: "GetItem", In: "." + f.Package + ".GetReq", Out: "." + f.Package + ".Item", HTTP: &spec.HTTP{Path: "/items/{item_id}", Verb: 1}},
			{Name: "PutItem", In: "." + f.Package + ".PutReq", Out: "." + f.Package + ".Item", HTTP: &spec.HTTP{Path: "/items", Verb: 2}},
		}})
	}
	return out
}
