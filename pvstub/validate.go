// Package protovalidate is a stand-in for buf.build/go/protovalidate (not available in the
// offline module cache). It implements the API surface sebuf-generated servers use and
// evaluates the *standard* buf.validate rules by reflection. CEL / custom rules are ignored.
// It is part of the trusted base of the verification machinery (see /verif/DESIGN.md).
package protovalidate

import (
	"fmt"
	"math"
	"math/big"
	"net"
	"net/url"
	"os"
	"regexp"
	"strconv"
	"strings"
	"time"
	"unicode/utf8"

	validate "buf.build/gen/go/bufbuild/protovalidate/protocolbuffers/go/buf/validate"
	"google.golang.org/protobuf/proto"
	"google.golang.org/protobuf/reflect/protoreflect"
	"google.golang.org/protobuf/types/descriptorpb"
)

// Validator validates messages.
type Validator interface {
	Validate(msg proto.Message, options ...ValidationOption) error
}

// ValidationOption is accepted and ignored.
type ValidationOption func()

// ValidatorOption is accepted and ignored.
type ValidatorOption func()

// Violation mirrors protovalidate.Violation.
type Violation struct {
	Proto           *validate.Violation
	FieldValue      protoreflect.Value
	FieldDescriptor protoreflect.FieldDescriptor
	RuleValue       protoreflect.Value
	RuleDescriptor  protoreflect.FieldDescriptor
}

// ValidationError mirrors protovalidate.ValidationError.
type ValidationError struct {
	Violations []*Violation
}

func (e *ValidationError) Error() string {
	var b strings.Builder
	b.WriteString("validation error:")
	for _, v := range e.Violations {
		b.WriteString("\n - ")
		if p := FieldPathString(v.Proto.GetField()); p != "" {
			b.WriteString(p + ": ")
		}
		fmt.Fprintf(&b, "%s [%s]", v.Proto.GetMessage(), v.Proto.GetRuleId())
	}
	return b.String()
}

// FieldPathString renders a path like protovalidate does: a.b[2].c, m["k"].
func FieldPathString(p *validate.FieldPath) string {
	var b strings.Builder
	for i, e := range p.GetElements() {
		if i > 0 {
			b.WriteByte('.')
		}
		b.WriteString(e.GetFieldName())
		switch s := e.GetSubscript().(type) {
		case *validate.FieldPathElement_Index:
			fmt.Fprintf(&b, "[%d]", s.Index)
		case *validate.FieldPathElement_StringKey:
			fmt.Fprintf(&b, "[%q]", s.StringKey)
		case *validate.FieldPathElement_IntKey:
			fmt.Fprintf(&b, "[%d]", s.IntKey)
		case *validate.FieldPathElement_UintKey:
			fmt.Fprintf(&b, "[%d]", s.UintKey)
		case *validate.FieldPathElement_BoolKey:
			fmt.Fprintf(&b, "[%v]", s.BoolKey)
		}
	}
	return b.String()
}

type validator struct{}

// NewDelay is a failpoint used by the concurrency check (C17) to hold the first-use window
// of the generated code's lazily created validator open. Zero by default.
var NewDelay = func() time.Duration {
	if s := os.Getenv("VERIF_PV_NEW_DELAY"); s != "" {
		if d, err := time.ParseDuration(s); err == nil {
			return d
		}
	}
	return 0
}()

// New returns a validator.
func New(_ ...ValidatorOption) (Validator, error) {
	if NewDelay > 0 {
		time.Sleep(NewDelay)
	}
	return &validator{}, nil
}

// Validate is the package-level helper of the real library.
func Validate(msg proto.Message, _ ...ValidationOption) error {
	return (&validator{}).Validate(msg)
}

func (v *validator) Validate(msg proto.Message, _ ...ValidationOption) error {
	if msg == nil {
		return nil
	}
	var out []*Violation
	walkMessage(msg.ProtoReflect(), nil, &out, 0)
	if len(out) == 0 {
		return nil
	}
	return &ValidationError{Violations: out}
}

func elem(fd protoreflect.FieldDescriptor) *validate.FieldPathElement {
	t := descriptorType(fd)
	return &validate.FieldPathElement{
		FieldNumber: proto.Int32(int32(fd.Number())),
		FieldName:   proto.String(string(fd.Name())),
		FieldType:   &t,
	}
}

func add(out *[]*Violation, path []*validate.FieldPathElement, ruleID, msg string) {
	p := make([]*validate.FieldPathElement, len(path))
	copy(p, path)
	*out = append(*out, &Violation{Proto: &validate.Violation{
		Field:   &validate.FieldPath{Elements: p},
		RuleId:  proto.String(ruleID),
		Message: proto.String(msg),
	}})
}

func fieldRules(fd protoreflect.FieldDescriptor) *validate.FieldRules {
	opts := fd.Options()
	if opts == nil {
		return nil
	}
	if !proto.HasExtension(opts, validate.E_Field) {
		return nil
	}
	r, _ := proto.GetExtension(opts, validate.E_Field).(*validate.FieldRules)
	return r
}

func walkMessage(m protoreflect.Message, path []*validate.FieldPathElement, out *[]*Violation, depth int) {
	if depth > 64 {
		return
	}
	fds := m.Descriptor().Fields()
	for i := 0; i < fds.Len(); i++ {
		fd := fds.Get(i)
		rules := fieldRules(fd)
		p := append(path[:len(path):len(path)], elem(fd))
		set := m.Has(fd)
		if rules != nil && rules.GetIgnore() == validate.Ignore_IGNORE_ALWAYS {
			// "Always ignore rules, including the `required` rule", and the rules of the value's own fields
			continue
		}
		if rules != nil {
			if rules.GetRequired() && !set {
				add(out, p, "required", "value is required")
				continue
			}
			ig := rules.GetIgnore()
			skip := false
			switch ig {
			case validate.Ignore_IGNORE_ALWAYS:
				skip = true
			case validate.Ignore_IGNORE_IF_ZERO_VALUE:
				skip = !set
			default:
				// fields that track presence are skipped when unset
				if fd.HasPresence() && !set {
					skip = true
				}
			}
			if !skip {
				checkField(m.Get(fd), fd, rules, p, out)
			}
		}
		// recurse into message values
		if !set {
			continue
		}
		switch {
		case fd.IsMap():
			if fd.MapValue().Kind() == protoreflect.MessageKind {
				m.Get(fd).Map().Range(func(k protoreflect.MapKey, v protoreflect.Value) bool {
					e := elem(fd)
					setKey(e, fd.MapKey(), k)
					walkMessage(v.Message(), append(path[:len(path):len(path)], e), out, depth+1)
					return true
				})
			}
		case fd.IsList():
			if fd.Kind() == protoreflect.MessageKind {
				l := m.Get(fd).List()
				for j := 0; j < l.Len(); j++ {
					e := elem(fd)
					e.Subscript = &validate.FieldPathElement_Index{Index: uint64(j)}
					walkMessage(l.Get(j).Message(), append(path[:len(path):len(path)], e), out, depth+1)
				}
			}
		case fd.Kind() == protoreflect.MessageKind:
			walkMessage(m.Get(fd).Message(), p, out, depth+1)
		}
	}
}

func setKey(e *validate.FieldPathElement, kd protoreflect.FieldDescriptor, k protoreflect.MapKey) {
	kt := descriptorType(kd)
	e.KeyType = &kt
	switch kd.Kind() {
	case protoreflect.StringKind:
		e.Subscript = &validate.FieldPathElement_StringKey{StringKey: k.String()}
	case protoreflect.BoolKind:
		e.Subscript = &validate.FieldPathElement_BoolKey{BoolKey: k.Bool()}
	case protoreflect.Uint32Kind, protoreflect.Uint64Kind, protoreflect.Fixed32Kind, protoreflect.Fixed64Kind:
		e.Subscript = &validate.FieldPathElement_UintKey{UintKey: k.Uint()}
	default:
		e.Subscript = &validate.FieldPathElement_IntKey{IntKey: k.Int()}
	}
}

func checkField(v protoreflect.Value, fd protoreflect.FieldDescriptor, rules *validate.FieldRules, path []*validate.FieldPathElement, out *[]*Violation) {
	switch {
	case fd.IsMap():
		mr := rules.GetMap()
		if mr == nil {
			return
		}
		mp := v.Map()
		if mr.HasMinPairs() && uint64(mp.Len()) < mr.GetMinPairs() {
			add(out, path, "map.min_pairs", fmt.Sprintf("map must be at least %d entries", mr.GetMinPairs()))
		}
		if mr.HasMaxPairs() && uint64(mp.Len()) > mr.GetMaxPairs() {
			add(out, path, "map.max_pairs", fmt.Sprintf("map must be at most %d entries", mr.GetMaxPairs()))
		}
		if mr.GetKeys() != nil || mr.GetValues() != nil {
			mp.Range(func(k protoreflect.MapKey, val protoreflect.Value) bool {
				e := proto.Clone(path[len(path)-1]).(*validate.FieldPathElement)
				setKey(e, fd.MapKey(), k)
				p := append(path[:len(path)-1:len(path)-1], e)
				if mr.GetKeys() != nil {
					checkScalar(k.Value(), fd.MapKey(), mr.GetKeys(), p, out)
				}
				if mr.GetValues() != nil {
					checkScalar(val, fd.MapValue(), mr.GetValues(), p, out)
				}
				return true
			})
		}
	case fd.IsList():
		rr := rules.GetRepeated()
		if rr == nil {
			return
		}
		l := v.List()
		if rr.HasMinItems() && uint64(l.Len()) < rr.GetMinItems() {
			add(out, path, "repeated.min_items", fmt.Sprintf("value must contain at least %d item(s)", rr.GetMinItems()))
		}
		if rr.HasMaxItems() && uint64(l.Len()) > rr.GetMaxItems() {
			add(out, path, "repeated.max_items", fmt.Sprintf("value must contain no more than %d item(s)", rr.GetMaxItems()))
		}
		if rr.GetUnique() {
			seen := map[string]bool{}
			for i := 0; i < l.Len(); i++ {
				k := keyOf(l.Get(i), fd)
				if seen[k] {
					add(out, path, "repeated.unique", "repeated value must contain unique items")
					break
				}
				seen[k] = true
			}
		}
		if rr.GetItems() != nil {
			for i := 0; i < l.Len(); i++ {
				e := proto.Clone(path[len(path)-1]).(*validate.FieldPathElement)
				e.Subscript = &validate.FieldPathElement_Index{Index: uint64(i)}
				checkScalar(l.Get(i), fd, rr.GetItems(), append(path[:len(path)-1:len(path)-1], e), out)
			}
		}
	default:
		checkScalar(v, fd, rules, path, out)
	}
}

func keyOf(v protoreflect.Value, fd protoreflect.FieldDescriptor) string {
	switch fd.Kind() {
	case protoreflect.BytesKind:
		return string(v.Bytes())
	case protoreflect.MessageKind:
		b, _ := proto.MarshalOptions{Deterministic: true}.Marshal(v.Message().Interface())
		return string(b)
	case protoreflect.FloatKind, protoreflect.DoubleKind:
		return strconv.FormatFloat(v.Float(), 'g', -1, 64)
	}
	return v.String()
}

// numeric comparison through big.Float / exact ints
func toBig(v protoreflect.Value, k protoreflect.Kind) (*big.Float, bool) {
	switch k {
	case protoreflect.Int32Kind, protoreflect.Sint32Kind, protoreflect.Sfixed32Kind, protoreflect.Int64Kind, protoreflect.Sint64Kind, protoreflect.Sfixed64Kind:
		return new(big.Float).SetPrec(128).SetInt64(v.Int()), true
	case protoreflect.Uint32Kind, protoreflect.Fixed32Kind, protoreflect.Uint64Kind, protoreflect.Fixed64Kind:
		return new(big.Float).SetPrec(128).SetUint64(v.Uint()), true
	case protoreflect.FloatKind, protoreflect.DoubleKind:
		f := v.Float()
		if math.IsNaN(f) {
			return nil, false
		}
		if math.IsInf(f, 0) {
			return new(big.Float).SetInf(f < 0), true
		}
		return new(big.Float).SetPrec(128).SetFloat64(f), true
	}
	return nil, false
}

func numericRules(fd protoreflect.FieldDescriptor, r *validate.FieldRules) (protoreflect.Message, string) {
	switch fd.Kind() {
	case protoreflect.Int32Kind:
		if x := r.GetInt32(); x != nil {
			return x.ProtoReflect(), "int32"
		}
	case protoreflect.Int64Kind:
		if x := r.GetInt64(); x != nil {
			return x.ProtoReflect(), "int64"
		}
	case protoreflect.Uint32Kind:
		if x := r.GetUint32(); x != nil {
			return x.ProtoReflect(), "uint32"
		}
	case protoreflect.Uint64Kind:
		if x := r.GetUint64(); x != nil {
			return x.ProtoReflect(), "uint64"
		}
	case protoreflect.Sint32Kind:
		if x := r.GetSint32(); x != nil {
			return x.ProtoReflect(), "sint32"
		}
	case protoreflect.Sint64Kind:
		if x := r.GetSint64(); x != nil {
			return x.ProtoReflect(), "sint64"
		}
	case protoreflect.Fixed32Kind:
		if x := r.GetFixed32(); x != nil {
			return x.ProtoReflect(), "fixed32"
		}
	case protoreflect.Fixed64Kind:
		if x := r.GetFixed64(); x != nil {
			return x.ProtoReflect(), "fixed64"
		}
	case protoreflect.Sfixed32Kind:
		if x := r.GetSfixed32(); x != nil {
			return x.ProtoReflect(), "sfixed32"
		}
	case protoreflect.Sfixed64Kind:
		if x := r.GetSfixed64(); x != nil {
			return x.ProtoReflect(), "sfixed64"
		}
	case protoreflect.FloatKind:
		if x := r.GetFloat(); x != nil {
			return x.ProtoReflect(), "float"
		}
	case protoreflect.DoubleKind:
		if x := r.GetDouble(); x != nil {
			return x.ProtoReflect(), "double"
		}
	}
	return nil, ""
}

func checkNumeric(v protoreflect.Value, fd protoreflect.FieldDescriptor, rm protoreflect.Message, name string, path []*validate.FieldPathElement, out *[]*Violation) {
	k := fd.Kind()
	val, finite := toBig(v, k)
	get := func(n string) (*big.Float, bool) {
		f := rm.Descriptor().Fields().ByName(protoreflect.Name(n))
		if f == nil || !rm.Has(f) {
			return nil, false
		}
		b, ok := toBig(rm.Get(f), f.Kind())
		return b, ok
	}
	isNaN := !finite && (k == protoreflect.FloatKind || k == protoreflect.DoubleKind)
	if c, ok := get("const"); ok {
		if isNaN || val.Cmp(c) != 0 {
			add(out, path, name+".const", fmt.Sprintf("value must equal %s", c.Text('g', 20)))
		}
	}
	lt, hasLt := get("lt")
	lte, hasLte := get("lte")
	gt, hasGt := get("gt")
	gte, hasGte := get("gte")
	var hi, lo *big.Float
	hiIncl, loIncl := false, false
	if hasLt {
		hi = lt
	} else if hasLte {
		hi, hiIncl = lte, true
	}
	if hasGt {
		lo = gt
	} else if hasGte {
		lo, loIncl = gte, true
	}
	below := func() bool { // satisfies upper bound
		if hi == nil {
			return true
		}
		c := val.Cmp(hi)
		return c < 0 || (hiIncl && c == 0)
	}
	above := func() bool {
		if lo == nil {
			return true
		}
		c := val.Cmp(lo)
		return c > 0 || (loIncl && c == 0)
	}
	if hi != nil || lo != nil {
		okRange := false
		switch {
		case isNaN:
			okRange = false
		case hi != nil && lo != nil && hi.Cmp(lo) < 0:
			// exclusive range (upper bound strictly below the lower one): outside (hi, lo);
			// equal bounds stay a conjunction, as in the rules' own CEL definitions
			okRange = below() || above()
		default:
			okRange = below() && above()
		}
		if !okRange {
			id := name + "."
			switch {
			case lo != nil && hi != nil:
				id += map[bool]string{true: "gte", false: "gt"}[loIncl] + "_" + map[bool]string{true: "lte", false: "lt"}[hiIncl]
			case lo != nil:
				id += map[bool]string{true: "gte", false: "gt"}[loIncl]
			default:
				id += map[bool]string{true: "lte", false: "lt"}[hiIncl]
			}
			add(out, path, id, "value is out of range")
		}
	}
	inF := rm.Descriptor().Fields().ByName("in")
	if inF != nil && rm.Get(inF).List().Len() > 0 {
		l := rm.Get(inF).List()
		found := false
		for i := 0; i < l.Len() && !isNaN; i++ {
			b, _ := toBig(l.Get(i), inF.Kind())
			if b != nil && val.Cmp(b) == 0 {
				found = true
			}
		}
		if !found {
			add(out, path, name+".in", "value must be in list")
		}
	}
	ninF := rm.Descriptor().Fields().ByName("not_in")
	if ninF != nil && rm.Get(ninF).List().Len() > 0 && !isNaN {
		l := rm.Get(ninF).List()
		for i := 0; i < l.Len(); i++ {
			b, _ := toBig(l.Get(i), ninF.Kind())
			if b != nil && val.Cmp(b) == 0 {
				add(out, path, name+".not_in", "value must not be in list")
				break
			}
		}
	}
	if finF := rm.Descriptor().Fields().ByName("finite"); finF != nil && rm.Get(finF).Bool() {
		f := v.Float()
		if math.IsNaN(f) || math.IsInf(f, 0) {
			add(out, path, name+".finite", "value must be finite")
		}
	}
}

var (
	uuidRe     = regexp.MustCompile(`^[0-9a-fA-F]{8}-[0-9a-fA-F]{4}-[0-9a-fA-F]{4}-[0-9a-fA-F]{4}-[0-9a-fA-F]{12}$`)
	tuuidRe    = regexp.MustCompile(`^[0-9a-fA-F]{32}$`)
	emailRe    = regexp.MustCompile("^[a-zA-Z0-9.!#$%&'*+/=?^_`{|}~-]+@[a-zA-Z0-9](?:[a-zA-Z0-9-]{0,61}[a-zA-Z0-9])?(?:\\.[a-zA-Z0-9](?:[a-zA-Z0-9-]{0,61}[a-zA-Z0-9])?)*$")
	hostLabel  = regexp.MustCompile(`^[a-zA-Z0-9]([a-zA-Z0-9-]{0,61}[a-zA-Z0-9])?$`)
	allDigitRe = regexp.MustCompile(`^[0-9]+$`)
)

// IsHostname follows protovalidate's hostname definition.
func IsHostname(s string) bool {
	if len(s) > 253 || s == "" {
		return false
	}
	s = strings.TrimSuffix(s, ".")
	parts := strings.Split(s, ".")
	for _, p := range parts {
		if !hostLabel.MatchString(p) {
			return false
		}
	}
	return !allDigitRe.MatchString(parts[len(parts)-1])
}

func isIP(s string, ver int) bool {
	ip := net.ParseIP(s)
	if ip == nil {
		return false
	}
	is4 := ip.To4() != nil && !strings.Contains(s, ":")
	switch ver {
	case 4:
		return is4
	case 6:
		return !is4
	}
	return true
}

func isURI(s string, ref bool) bool {
	u, err := url.Parse(s)
	if err != nil {
		return false
	}
	if !ref && !u.IsAbs() {
		return false
	}
	return true
}

func checkString(s string, r *validate.StringRules, path []*validate.FieldPathElement, out *[]*Violation) {
	n := uint64(utf8.RuneCountInString(s))
	if r.HasConst() && s != r.GetConst() {
		add(out, path, "string.const", fmt.Sprintf("value must equal `%s`", r.GetConst()))
	}
	if r.HasLen() && n != r.GetLen() {
		add(out, path, "string.len", fmt.Sprintf("value length must be %d characters", r.GetLen()))
	}
	if r.HasMinLen() && n < r.GetMinLen() {
		add(out, path, "string.min_len", fmt.Sprintf("value length must be at least %d characters", r.GetMinLen()))
	}
	if r.HasMaxLen() && n > r.GetMaxLen() {
		add(out, path, "string.max_len", fmt.Sprintf("value length must be at most %d characters", r.GetMaxLen()))
	}
	if r.HasLenBytes() && uint64(len(s)) != r.GetLenBytes() {
		add(out, path, "string.len_bytes", fmt.Sprintf("value length must be %d bytes", r.GetLenBytes()))
	}
	if r.HasMinBytes() && uint64(len(s)) < r.GetMinBytes() {
		add(out, path, "string.min_bytes", fmt.Sprintf("value length must be at least %d bytes", r.GetMinBytes()))
	}
	if r.HasMaxBytes() && uint64(len(s)) > r.GetMaxBytes() {
		add(out, path, "string.max_bytes", fmt.Sprintf("value length must be at most %d bytes", r.GetMaxBytes()))
	}
	if r.HasPattern() {
		re, err := regexp.Compile(r.GetPattern())
		if err != nil || !re.MatchString(s) {
			add(out, path, "string.pattern", fmt.Sprintf("value does not match regex pattern `%s`", r.GetPattern()))
		}
	}
	if r.HasPrefix() && !strings.HasPrefix(s, r.GetPrefix()) {
		add(out, path, "string.prefix", "value does not have prefix")
	}
	if r.HasSuffix() && !strings.HasSuffix(s, r.GetSuffix()) {
		add(out, path, "string.suffix", "value does not have suffix")
	}
	if r.HasContains() && !strings.Contains(s, r.GetContains()) {
		add(out, path, "string.contains", "value does not contain substring")
	}
	if r.HasNotContains() && strings.Contains(s, r.GetNotContains()) {
		add(out, path, "string.not_contains", "value contains substring")
	}
	if len(r.GetIn()) > 0 {
		ok := false
		for _, x := range r.GetIn() {
			if x == s {
				ok = true
			}
		}
		if !ok {
			add(out, path, "string.in", "value must be in list")
		}
	}
	for _, x := range r.GetNotIn() {
		if x == s {
			add(out, path, "string.not_in", "value must not be in list")
			break
		}
	}
	wk := func(ok bool, id, what string) {
		if !ok {
			if s == "" {
				add(out, path, id+"_empty", "value is empty, which is not a valid "+what)
			} else {
				add(out, path, id, "value must be a valid "+what)
			}
		}
	}
	switch {
	case r.GetEmail():
		wk(emailRe.MatchString(s), "string.email", "email address")
	case r.GetHostname():
		wk(IsHostname(s), "string.hostname", "hostname")
	case r.GetIp():
		wk(isIP(s, 0), "string.ip", "IP address")
	case r.GetIpv4():
		wk(isIP(s, 4), "string.ipv4", "IPv4 address")
	case r.GetIpv6():
		wk(isIP(s, 6), "string.ipv6", "IPv6 address")
	case r.GetUri():
		wk(s != "" && isURI(s, false), "string.uri", "URI")
	case r.GetUriRef():
		wk(isURI(s, true), "string.uri_ref", "URI Reference")
	case r.GetAddress():
		wk(IsHostname(s) || isIP(s, 0), "string.address", "hostname, or ip address")
	case r.GetUuid():
		wk(uuidRe.MatchString(s), "string.uuid", "UUID")
	case r.GetTuuid():
		wk(tuuidRe.MatchString(s), "string.tuuid", "trimmed UUID")
	}
}

func checkScalar(v protoreflect.Value, fd protoreflect.FieldDescriptor, rules *validate.FieldRules, path []*validate.FieldPathElement, out *[]*Violation) {
	switch fd.Kind() {
	case protoreflect.StringKind:
		if r := rules.GetString(); r != nil {
			checkString(v.String(), r, path, out)
		}
	case protoreflect.BoolKind:
		if r := rules.GetBool(); r != nil && r.HasConst() && v.Bool() != r.GetConst() {
			add(out, path, "bool.const", fmt.Sprintf("value must equal %v", r.GetConst()))
		}
	case protoreflect.BytesKind:
		if r := rules.GetBytes(); r != nil {
			b := v.Bytes()
			if r.HasConst() && string(b) != string(r.GetConst()) {
				add(out, path, "bytes.const", "value must be const")
			}
			if r.HasLen() && uint64(len(b)) != r.GetLen() {
				add(out, path, "bytes.len", fmt.Sprintf("value length must be %d bytes", r.GetLen()))
			}
			if r.HasMinLen() && uint64(len(b)) < r.GetMinLen() {
				add(out, path, "bytes.min_len", fmt.Sprintf("value length must be at least %d bytes", r.GetMinLen()))
			}
			if r.HasMaxLen() && uint64(len(b)) > r.GetMaxLen() {
				add(out, path, "bytes.max_len", fmt.Sprintf("value must be at most %d bytes", r.GetMaxLen()))
			}
		}
	case protoreflect.EnumKind:
		if r := rules.GetEnum(); r != nil {
			n := int32(v.Enum())
			if r.HasConst() && n != r.GetConst() {
				add(out, path, "enum.const", fmt.Sprintf("value must equal %d", r.GetConst()))
			}
			if r.GetDefinedOnly() && fd.Enum().Values().ByNumber(v.Enum()) == nil {
				add(out, path, "enum.defined_only", "value must be one of the defined enum values")
			}
			if len(r.GetIn()) > 0 {
				ok := false
				for _, x := range r.GetIn() {
					if x == n {
						ok = true
					}
				}
				if !ok {
					add(out, path, "enum.in", "value must be in list")
				}
			}
			for _, x := range r.GetNotIn() {
				if x == n {
					add(out, path, "enum.not_in", "value must not be in list")
				}
			}
		}
	case protoreflect.MessageKind, protoreflect.GroupKind:
		// nested messages are validated by the walker
	default:
		if rm, name := numericRules(fd, rules); rm != nil {
			checkNumeric(v, fd, rm, name, path, out)
		}
	}
}

type descriptorFieldType = descriptorpb.FieldDescriptorProto_Type

func descriptorType(fd protoreflect.FieldDescriptor) descriptorFieldType {
	return descriptorFieldType(fd.Kind())
}
