#!/usr/bin/env python3
# dev aid: aggregate VIOLATION lines of a check run by (symptom, detail) and list distinct case-coordinate values
import sys,re,collections
g=collections.defaultdict(list)
other=[]
for line in sys.stdin:
    m=re.search(r'signature="([^"]*)"',line)
    if not line.startswith("VIOLATION") or not m:
        if not line.startswith("WARNING conda"): other.append(line.rstrip())
        continue
    parts=m.group(1).split("|")
    case=parts[1]; sym=parts[2]; det="|".join(parts[3:])
    g[(sym,det)].append(case)
for (sym,det),cases in sorted(g.items()):
    print(f"[{len(cases)}] {sym} :: {det[:140]}")
    # coordinate summary
    coords=collections.defaultdict(set)
    for c in cases:
        for i,seg in enumerate(c.split("/")):
            coords[i].add(seg)
    print("     "+" / ".join(",".join(sorted(v))[:90] for k,v in sorted(coords.items())))
for o in other[-6:]: print(o[:300])
