#!/bin/sh
# dev aid: run every registered check on the current /repo tree. usage: tools/sweep.sh <tier> <seed>... (env PAR=3)
tier="$1"; shift
cd /verif || exit 2
./check --setup >/dev/null 2>&1; cp .bin/sebufverif /var/tmp/sebufverif.refine.$$; VERIF_BIN=/var/tmp/sebufverif.refine.$$; export VERIF_BIN; trap "rm -f $VERIF_BIN" EXIT
for seed in "$@"; do
  ls internal/checks/ >/dev/null
  printf '%s\n' C01 C02 C03 C04 C05 C06 C07 C08 C09 C10 C11 C12 C13 C14 C15 C16 C17 C18 C19 C20 | xargs -P "${PAR:-3}" -I{} sh -c '
    out=/var/tmp/sweep.'"$tier"'.'"$seed"'.{}.out
    VERIF_SEED='"$seed"' ./check {} '"$tier"' > "$out" 2>&1; ec=$?
    echo "{} tier='"$tier"' seed='"$seed"' exit=$ec violations=$(grep -c "^VIOLATION" "$out") harness=$(grep -c "^HARNESS" "$out") $(grep "^SUMMARY" "$out" | sed -E "s/.*(evaluations=.*)/\1/")"
    [ $ec -eq 0 ] && rm -f "$out"'
done
