#!/bin/sh
# dev aid: take a sub-agent's deliverables out of its scratch worktree (/tmp/wt/<id>/MUTANT) into
# seeded/<id>/, confirm the demonstration both ways in a fresh throw-away worktree (tools/demo.sh),
# confirm the change builds, and remove the agent's worktree with its build output.
# usage: tools/harvest.sh <id>...   (env WT=<worktree> for one id whose worktree lives elsewhere)
export GOFLAGS=-mod=mod GOPROXY=off GOSUMDB=off GOTOOLCHAIN=local
GO=/root/go/pkg/mod/golang.org/toolchain@v0.0.1-go1.24.7.linux-amd64/bin/go
for id in "$@"; do
  wt=${WT:-/tmp/wt/$id}
  [ -f "$wt/MUTANT/patch.diff" ] || { echo "$id: no patch.diff in $wt/MUTANT"; continue; }
  d=/verif/seeded/$id
  rm -rf "$d"; mkdir -p "$d"
  cp "$wt/MUTANT/patch.diff" "$d/patch.diff"
  cp "$wt/MUTANT/meta.agent.json" "$d/meta.agent.json" 2>/dev/null || echo "$id: meta.agent.json missing"
  cp -r "$wt/MUTANT/demo" "$d/demo"
  rm -rf "$d/demo/tmp" "$d/demo/bin"
  find "$d/demo" -type f -size +400k -print -delete
  # the patch must be the whole source change and apply to the unchanged tree
  chk=/var/tmp/harvest-wt.$$.$id
  git -C /repo worktree add --detach "$chk" HEAD >/dev/null 2>&1
  if (cd "$chk" && git apply "$d/patch.diff" && $GO build ./... ) >/var/tmp/harvest.$id.build 2>&1; then echo "$id: patch applies and builds"; else echo "$id: PATCH/BUILD PROBLEM"; cat /var/tmp/harvest.$id.build | head; fi
  rm -f /var/tmp/harvest.$id.build
  git -C /repo worktree remove --force "$chk" >/dev/null 2>&1; rm -rf "$chk"
  /verif/tools/demo.sh "$id"
  git -C /repo worktree remove --force "$wt" >/dev/null 2>&1; rm -rf "$wt"
done
git -C /repo worktree prune
