#!/usr/bin/env python3
"""dev aid: write seeded/<id>/meta.json from the author's notes (meta.agent.json), my own
confirmation notes (table below) and the observed detection runs (detection.json, written by
tools/matrix.sh). Also prints the markdown matrix used in DESIGN.md."""
import glob, json, os, sys

ROOT = os.path.join(os.path.dirname(os.path.abspath(__file__)), "..", "seeded")

# id -> (first verdict of the registered check before strengthening, what was strengthened)
MINE = {
 "C01-a": ("caught as built", ""),
 "C02-a": ("missed", "URL value classes gained zero-padded decimal spellings (089, 0123, -010) for integer path/query fields"),
 "C03-a": ("caught as built", "quick tier now runs all five base-path classes"),
 "C04-a": ("missed", "new sub-check c04split: the same message generated as one file, as two files together, as two files in separate invocations and by go-client; codec outcomes must be identical (also run under C14)"),
 "C05-a": ("missed (masked by a coarse known-finding entry)", "violation details are now coordinate paths of the differing JSON node (role:...), the known entry excludes the discriminator position with not_detail"),
 "C06-a": ("missed in quick (sampled out), caught in thorough", "quick keeps every feature and samples value classes instead, always including the priority classes (set-but-empty, zero, absent)"),
 "C07-a": ("missed", "placement catalogue gained int64_encoding=NUMBER on 64-bit query and path fields; the TS handler view of every URL-bound field is type-checked"),
 "C08-a": ("missed", "header helper unit is built in three requiredness shapes (all required, all optional, mixed); optional headers are left out of the default headers"),
 "C09-a": ("missed", "declaration-order cases (optional before/between required headers, with a method-level override); a handler-chain panic observed in the lab child is a verdict (server-panic) instead of 'inconclusive'"),
 "C10-a": ("missed", "Go client error mapping is exercised under five content-type arrangements incl. per-call override different from the client-level type"),
 "C11-a": ("caught as built", ""),
 "C12-a": ("missed", "collision rules are probed with the colliding sibling being plain, proto3-optional and a member of another oneof"),
 "C13-a": ("missed", "build catalogue gained 'scope/*': the same short name for annotated enums/messages/oneofs/wrappers in different parents, with and without a service"),
 "C14-a": ("caught as built", ""),
 "C15-a": ("missed by C15 (caught by C04/C14 c04split)", "single-vs-multi comparison now also requires every file the multi-file run emitted for a source file to come out of the run for that file alone"),
 "C16-a": ("caught as built", ""),
 "C17-a": ("caught as built", ""),
 "C18-a": ("missed", "schema-shape probes gained three same-short-name layouts where each namesake is the only route to some message"),
 "C19-a": ("missed", "range rules with equal bounds (accept exactly one value / nothing) and inverted bounds; pvstub corrected to the rules' own CEL (exclusive only when upper < lower)"),
 "C01-b": ("missed", "routing catalogue gained the 'shared' sub-catalogue: one path under several verbs, trailing slashes, the bare '/' under a base path; every base_path class runs in the quick tier"),
 "C02-b": ("caught as built", ""),
 "C03-b": ("caught as built", ""),
 "C04-b": ("missed", "new sub-check c04enum runs the generated JSON methods of every annotated enum type (top level, nested, same short name in several scopes, a file of its own) through encoding/json, for go-http and go-client; enum shapes joined the L1 corpus of C14/C15/C18"),
 "C05-b": ("missed by C05 (caught by C04/C15)", "c04split also runs under C05 (json-split): helper types in an imported file, generated together or one invocation per file, must give the single-file JSON"),
 "C06-b": ("caught as built", ""),
 "C07-b": ("missed (masked by a coarse known-finding entry)", "rich-sibling features (optional scalars/messages, members of a plain oneof, repeated, map next to every codec family); the known entry for flattened oneofs is restricted to the coordinate paths it was observed at; later generalised into the known-instance list"),
 "C08-b": ("missed in quick (base sampled out), caught in thorough", "every base_path class runs in the quick tier of C08 and C01"),
 "C09-b": ("missed", "services with several methods: each method is judged against its own declarations (with/without method headers in every order, optional service headers before required ones)"),
 "C10-b": ("missed", "custom *Error bodies: the client's error must still carry the body's content; Go client against servers whose error hook rewrites status/body (incl. a 400 that is not a ValidationError)"),
 "C11-b": ("missed", "feature unwrap/siblings/optional-message: an unwrap container with an optional message, repeated message, map and 64-bit siblings (found a genuine defect on the way: 64-bit siblings in proto3 JSON string form are rejected)"),
 "C12-b": ("missed", "nullable probed on a real oneof member (scalar and message), repeated and map fields"),
 "C13-b": ("caught as built", ""),
 "C14-b": ("missed", "enum shapes incl. an enums-only file in the L1 corpus; c04enum under C14"),
 "C15-b": ("missed by C15 (caught by C04/C14)", "the multi-file package gained a root map unwrap whose value type (other file) unwraps again"),
 "C16-b": ("missed", "recursion through annotations: flatten (with/without prefix), unwrap list, unwrap map value, discriminated oneof nested/flattened, cycle lengths 1-3"),
 "C17-b": ("missed by C17 (deterministic aliasing, caught by C09 after its multi-method cases)", "C17's schema declares optional service headers next to the required ones, so route-level header tables with spare capacity are exercised"),
 "C18-b": ("missed", "discriminated oneofs whose variant message types are nested declarations or non-CamelCase names (Go identifier != schema name)"),
 "C19-b": ("caught as built", ""),
 "C20-b": ("missed", "every method of a mocked service is called; a message that is the request of one RPC and the response of others must still take its declared examples"),
 "C20-a": ("missed", "example membership is checked along every path (wildcards for list elements and map values) of a response that reaches one message type several times"),
 "C01-c": ("caught as built", ""),
 "C02-c": ("missed by C02 (caught by C18)", "header-count corpus: services with 0-12 service-level headers whose RPCs have no method headers but different URL parameters; every URL parameter must be owned by its own operation/route (C18, C02)"),
 "C03-c": ("missed", "versions pair: two packages declaring the same service and RPC names with different verbs/paths, generated in one invocation, alone and permuted (C03 route-depends-on-invocation, C15)"),
 "C04-c": ("caught as built", ""),
 "C05-c": ("missed (masked by the flatten known-finding pattern)", "sibling-pair value classes (one flattened child richer than the other) and the known-instance list: the flatten pattern absorbs only the places it was observed at"),
 "C06-c": ("missed", "content-type dimension: requests arrive with form/plain/absent content types; responses of annotated messages must still follow the document"),
 "C07-c": ("missed", "content-type dimension shared with C06: the wire JSON under every request content type is checked against the TS types"),
 "C08-c": ("missed by C08 (caught by C17)", "one-client call sequence: per-call header options followed by calls without them on the same client object, for Go and TS clients"),
 "C09-c": ("missed", "services in which an earlier method re-declares a service header and a later method does not: every method is judged against the published header types of its own operation"),
 "C10-c": ("missed", "clients against servers whose error hook answers 400 with a body that is not a ValidationError, for the Go and the TS client"),
 "C11-c": ("missed", "degenerate response bodies for the client robustness half: whitespace-only, lone newline, CRLF under every status"),
 "C12-c": ("missed", "shared request messages: one request type used by several RPCs (bodiless then body verbs, two services); the whole L1 corpus is an acceptance probe"),
 "C13-c": ("missed", "free-text cases: comment terminators, template syntax, quotes and line breaks in header descriptions/examples and proto comments; 'unparsable Go source' is a verdict"),
 "C14-c": ("caught as built", ""),
 "C15-c": ("caught as built", ""),
 "C16-c": ("missed", "odd but descriptor-valid strings in every annotation slot (27 path shapes with stray/nested/adjacent braces, 25 generic texts x 13 slots); found and repaired a genuine crash on the way (empty field example, dfe72ea)"),
 "C17-c": ("missed", "request kinds in every burst (all-default, partly default, rejected after binding, raw malformed body/URL value) and deterministic rejection->default sequences whose follow-ups are re-issued alone in a fresh process; exactly-once by call id"),
 "C18-c": ("caught as built", ""),
 "C19-c": ("missed", "twin package: the same message/field names with different rules in a second proto package, documents generated alone and together in both orders; twins also joined the L1 corpus (C15 single-vs-multi)"),
 "C20-c": ("caught as built", ""),
 "C01-d": ("caught as built", ""),
 "C02-d": ("missed", "query-name spellings (camelCase, acronyms, digits, dots, dashes, brackets) on every verb for the Go and the TS server (C01/C02/C07)"),
 "C03-d": ("missed", "routing sub-catalogue 'shared' gained routes of the same path shape with different variable names under different verbs (C03, C18, C01)"),
 "C04-d": ("caught as built", ""),
 "C05-d": ("caught as built", ""),
 "C06-d": ("missed by C06 (caught by C19's one-way element rules)", "C06 sends bodies of rule-carrying messages: one RPC per C19 rule case, every probe the rules accept travels in both directions and must validate against the operation's schema"),
 "C07-d": ("caught as built", ""),
 "C08-d": ("missed by C08 (caught by C03/C15 versions pair)", "versions pair with different base paths and service headers: each file's TS/Go client must be the one its own invocation emits (C03 route-depends-on-invocation, C15)"),
 "C09-d": ("missed", "13/16/24 header declarations per route in ascending, descending and scattered name order with a re-declared header first/middle/last; probes that are valid only for the replaced service-level declaration"),
 "C10-d": ("missed", "handler errors that wrap *sebufhttp.Error / *ValidationError with %w keep their message and status (C10)"),
 "C11-d": ("missed", "request bodies sent with Transfer-Encoding: chunked (no Content-Length) for every malformed-body class"),
 "C12-d": ("missed", "misuse whose helper declarations (enum with custom values, flattened child, variants) live in another file of the package, generated together or only imported"),
 "C13-d": ("missed", "RPC-shape mixes per file (bodiless + body verbs with only query-bound fields, no path variables): what one method needs from an import must not depend on its neighbours"),
 "C14-d": ("caught as built", ""),
 "C15-d": ("missed", "two services over the same types in one file and over a shared types file in the L1 corpus (C15 single-vs-multi, C18 dangling refs)"),
 "C16-d": ("missed", "misuse definitions (every C12 rule) with edge-shaped request messages (no fields, only message/enum/bytes/repeated fields) under the termination monitor"),
 "C17-d": ("missed", "one message object shared by concurrent calls: every codec feature of both plugins is marshalled from 8-16 goroutines on ONE object (and decoded from shared bytes) under the race detector; output and receiver must not change"),
 "C18-d": ("missed", "path-variable spellings: json_name / camelCase spellings of a field name, explicit json_name, variables that match no field"),
 "C19-d": ("missed", "ignore = IGNORE_IF_ZERO_VALUE / IGNORE_ALWAYS on every rule kind (found and repaired a genuine defect on the way: 4dfe284)"),
 "C20-d": ("missed", "request sequences on ONE mock: requests the rules reject followed by valid ones, over HTTP and by calling the mock object directly (glue RegisterMock / labrt mockdirect)"),
 "C01-e": ("missed", "the server behind a front door that answers 307/308: the client must repeat verb and body (every route of the abs base, json and x-protobuf)"),
 "C02-e": ("caught as built", ""),
 "C03-e": ("missed", "hostile-sentinel pass in C03 and replace-pattern / template-brace / percent-looking strings in C08 and the shared string classes ($&, $', $$, ${x}, {id})"),
 "C04-e": ("caught in thorough only (UTC in quick)", "quick tier runs every Timestamp feature under Asia/Kolkata and America/St_Johns as well"),
 "C05-e": ("caught as built", ""),
 "C06-e": ("caught as built", ""),
 "C07-e": ("caught as built", ""),
 "C08-e": ("missed by C08 (caught by C17 and C02)", "C08 ends every route with default-valued requests after the value-carrying ones (harness correction on the way: defaultLike did not know float64)"),
 "C09-e": ("caught as built", ""),
 "C10-e": ("caught as built", ""),
 "C11-e": ("caught as built", ""),
 "C12-e": ("missed", "annotations reached through an umbrella file's `import public` for every misuse rule and as an acceptance probe for every feature"),
 "C13-e": ("missed", "mock x declaration scopes x examples: the same short message and field names in several scopes, all with field examples (C13 build, C20 example membership); found and repaired a genuine defect on the way (92ff240)"),
 "C14-e": ("missed", "feature twins in the L1 corpus: two packages declaring the same message names with another member of the same annotation group, generated in one invocation (C14 interchange, C15 single-vs-multi, C18)"),
 "C15-e": ("missed", "C15 applies every variation under generate_mock=true and format=json too; sibling files of one Go package (service + imported models + an audit file nothing imports), all with examples"),
 "C16-e": ("missed", "comment shapes as protoc hands them over (paragraphs separated by empty lines, leading/trailing blank lines, block-comment stars, tabs, CRLF) on files, messages, fields, enums, enum values, services and methods"),
 "C17-e": ("caught as built", ""),
 "C18-e": ("caught as built", ""),
 "C19-e": ("caught as built", ""),
 "C20-e": ("missed", "examples on fields that also carry rules (max_len/min_len/len in characters, max_bytes, pattern, in) with non-ASCII and astral text"),
 "C01-f": ("missed", "request messages shared by several RPCs in C01 (bodiless verbs first / body verb first, two services)"),
 "C02-f": ("missed", "decoy twin: every plugin invocation whose output an L2 check executes is preceded, in the same invocation, by a twin package declaring the same names with every sebuf annotation set otherwise (spec.WithDecoy / lab.RunDecoy)"),
 "C03-f": ("missed", "routes whose request message declares the path-bound fields in another order than the path names them (2 and 3 variables; C01, C03, C08, C18)"),
 "C04-f": ("missed", "features declared as nested types of a holder message after a map field, laid out as protoc lays them out (synthetic map-entry type first): C04, C05, C13"),
 "C05-f": ("caught as built", ""),
 "C06-f": ("missed", "C06 rules inside JSON-mapping constructs: flattened child (with/without prefix), oneof variants (flattened/nested), message, optional message, list and map elements, optional and nullable scalars; construct present and absent"),
 "C07-f": ("missed", "feature with three flattened children of different message types and mixed prefixes"),
 "C08-f": ("missed by C08 by design (a string for a number on the TS side is C07's question; caught by C07)", ""),
 "C09-f": ("missed", "a header sharing its name with a query parameter and/or a path variable of the same RPC (service level, method level, case variant)"),
 "C10-f": ("missed by C10 (headers are C09's subject; caught by C09's multi-method cases)", ""),
 "C11-f": ("missed by C11 (concurrency is C17's subject; caught by C17's race monitor)", ""),
 "C12-f": ("missed", "acceptance corpus: the same verb and path in two services, in one file and in two packages of one invocation"),
 "C13-f": ("missed by C13's own build catalogue (caught by C15)", "the decoy twin has another import path and the SAME Go package name: every lab package is generated after a same-named package"),
 "C14-f": ("missed", "protogen parameters under the interchange comparison (paths=source_relative, M mapping of timestamp.proto to the ptypes alias package, M mapping of the own file, module=); a codec file only the client plugin writes is a verdict"),
 "C15-f": ("missed (hidden behind the recorded finding about document names: the comparison skipped files the multi-file run lacks)", "a file of the single-file run that the multi-file run does not emit is a verdict"),
 "C16-f": ("missed", "2/3/9 services per file; every structural shape also on a single-CPU runner (GOMAXPROCS=1)"),
 "C17-f": ("missed", "48 concurrent requests (16 wide) against every mock that picks examples, under the race detector (C20); found a harness fault on the way: bursts made only of hand-made requests never ran"),
 "C18-f": ("caught as built", ""),
 "C19-f": ("missed by C19 (caught by C06's structural rule cases)", "C19 judges the required list of every plain component schema of the structural service"),
 "C20-f": ("missed", "the decoy twin carries other examples on the same message and field names under the same Go package name"),
 "C01-g": ("caught as built", ""),
 "C02-g": ("missed by C02 (the TS client's URL building is C08's subject; caught by C08's replace-pattern strings)", ""),
 "C03-g": ("missed", "C08 drives the TS client over the placement catalogue (every kind and cardinality incl. optional/repeated/enum in path and query, explicit json_name) against a go-http-only server; found three genuine TS-client defects on the way (recorded)"),
 "C04-g": ("caught as built", ""),
 "C05-g": ("caught as built", ""),
 "C06-g": ("missed by C06 (caught by C18)", "C06 validates every body against the document of a SECOND service declared in the same file as well; an unresolvable reference in an operation's schema is a verdict instead of an inconclusive validator error"),
 "C07-g": ("missed", "explicit json_name: in the IR, in the feature corpus (plain keys and next to int64/nullable/timestamp/bytes codecs) and on URL-bound fields of the placement catalogue (C01, C02, C07, C08)"),
 "C08-g": ("missed by C08 (caught by C09's multi-method cases with three service headers)", ""),
 "C09-g": ("caught as built", ""),
 "C10-g": ("missed", "TS handlers throw errors of foreign classes that are merely named ValidationError / ApiError, and a TypeError: they are handler failures (500 or the onError hook)"),
 "C11-g": ("missed", "client robustness under long vendor content types, +json suffixes, many parameters, upper case, degenerate types, with bodies that are and are not JSON (a hang of the node bridge is a verdict)"),
 "C12-g": ("missed", "every value of timestamp_format / bytes_encoding / empty_behavior on a wrong field type, including the value that spells the default out"),
 "C13-g": ("caught as built", ""),
 "C14-g": ("caught as built", ""),
 "C15-g": ("missed", "corpus entry headers/case-variants: header names that differ only in letter case within and across the service and method level"),
 "C16-g": ("missed", "message names that coincide with names the generators use themselves (Error, ValidationError, FieldViolation, ApiError, Timestamp, Empty, Response, Promise, <Msg>_<variant> ...), top-level and nested, as RPC types and as field types"),
 "C17-g": ("missed", "C17's schema puts one request message under path-variable sets of different size and order (AlphaMove); the shared-request corpus gained ItemRef under three different variable sets (C01)"),
 "C18-g": ("caught as built", ""),
 "C19-g": ("missed", "float bounds, const and in values without an exact binary representation; found and repaired a genuine defect on the way (7dd3c12)"),
 "C20-g": ("missed by C20 (caught by C19)", "mock case with NUMBER-encoded int64 fields that carry in/const rules and examples inside the set"),
 # ---- round h (performance optimisations C01-C10, small features C11-C20)
 "C01-h": ("caught as built", ""),
 "C02-h": ("missed by C02 (a schedule-dependent break in the emitted Go code: caught by C17's bursts)", ""),
 "C03-h": ("missed by C03 (caught by C01's route matching)", ""),
 "C04-h": ("caught as built", ""),
 "C05-h": ("caught as built", ""),
 "C06-h": ("missed by C06 (caught by C05's value comparison)", ""),
 "C07-h": ("missed by C07 (caught by C04, C05 and C14)", ""),
 "C08-h": ("caught as built", ""),
 "C09-h": ("caught as built", ""),
 "C10-h": ("caught as built", ""),
 "C11-h": ("missed", "server-side Content-Type mutations: values without a slash, empty, parameters only, duplicated header — combined with undecodable bodies"),
 "C12-h": ("missed", "near-miss catalogue: definitions one step away from a refused one (two discriminated oneofs sharing a oneof_value, ...), which must be accepted"),
 "C13-h": ("missed by C13 (caught by C12)", ""),
 "C14-h": ("caught as built", ""),
 "C15-h": ("missed", "enum shape whose numbers are declared in non-ascending order, used number-encoded and name-encoded from two files of one invocation"),
 "C16-h": ("missed", "buf.validate enum rules (in / not_in / const / defined_only, with numbers the enum does not declare) on every enum carrier; the shared annotation corpus now also runs under C16"),
 "C17-h": ("missed", "C17 scans the emitted client for option constructors beyond the documented ones, drives them on a fifth of the calls with arguments chosen by parameter type, and compares the shared *http.Client / http.DefaultClient state before and after every burst"),
 "C18-h": ("missed", "field_examples texts that spell special values of the field's own kind (NaN, Infinity, padded/signed/out-of-range numbers, boolean words) on every scalar kind and cardinality"),
 "C19-h": ("missed", "required on repeated string/bytes, on maps and together with min_items, probed with empty elements, keys and values"),
 "C20-h": ("missed", "response fields named and typed like request fields with rules of their own; request sequences whose values break the response rules; every answer of a sequence is validated"),
 # ---- round i (small features C01-C10, performance optimisations C11-C20)
 "C01-i": ("missed", "string classes with whitespace at the ends (spaces, U+00A0): data for a string binder"),
 "C02-i": ("caught as built", ""),
 "C03-i": ("missed", "routes declared after routes with path variables {id}/{org_id} whose QUERY-bound fields carry those proto names"),
 "C04-i": ("missed (masked: the timestamp pattern absorbed every value class)", "timestamp classes inside the Timestamp range and outside the int64-nanosecond range (years 1500, 1677, 2263, 2500); the known-finding pattern for UNIX formats is restricted to the value classes it was observed for (max, min); found and repaired a genuine defect on the way (3399969: decoders converted in the local zone)"),
 "C05-i": ("caught as built", ""),
 "C06-i": ("missed", "bytes length rules (len / min_len / max_len, bounds not divisible by 3) under every bytes_encoding, probed at and around the bound; they travel through C06 and C19"),
 "C07-i": ("caught as built", ""),
 "C08-i": ("missed", "route sub-catalogue bodymap: body verbs whose body carries multi-word fields, string-keyed maps of strings and of messages, a nested message with a map; map keys spelled like the definition's field names (both spellings)"),
 "C09-i": ("caught as built", ""),
 "C10-i": ("caught as built", ""),
 "C11-i": ("missed", "responses that declare a Content-Length at the edges of int64 (MaxInt64, -1, -511, -512, -4096, 2^62, 1 TiB, 2^32+1, 2^31, 0 with a body, one less than the body)"),
 "C12-i": ("missed", "path variables that share their segment with literal text ({id}.json, {id}:verb, v{id}, {a}-{b}): the three path rules as refusals, GET/DELETE/POST routes bound only through such a variable as acceptances"),
 "C13-i": ("missed", "path variables bound to proto3 optional fields of every scalar kind (build catalogue) and as a placement group (C01/C02/C07/C08); found and repaired a genuine defect on the way (6e941ca: the Go client put the pointer's address into the path)"),
 "C14-i": ("caught as built", ""),
 "C15-i": ("caught as built", ""),
 "C16-i": ("caught as built", ""),
 "C17-i": ("missed", "one header name declared with three different specs on three routes of the package (integer, uuid, free string); request kind bad-header sends a value that another route's declaration accepts"),
 "C18-i": ("missed", "field_examples texts of whole numbers between 2^63 and 2^64 and at the int64 edges"),
 "C19-i": ("missed", "a third rule package that reaches sebuf's and buf.validate's option files only through an umbrella file with import public"),
 "C20-i": ("missed", "nested types with examples used from a sibling nested type, from an unrelated message and as a map value; an absent JSON member counts as the kind's default"),

 # ---- round j (invocation / run-time environment C01-C10, interplay of two features C11-C20)
 "C01-j": ("missed", "the decoy twin keeps the SERVICE names as well (two API versions declaring the same Service.Method in one invocation), for every generator but openapiv3"),
 "C02-j": ("missed", "body variants chunked-empty / chunked-empty-protobuf: no body bytes under Transfer-Encoding: chunked, written on the wire by the driver"),
 "C03-j": ("missed", "all routing files through ONE openapiv3 invocation under GOMAXPROCS 2, 3, 4 and 7: every service's document must be the one its own invocation gave; 3/5/7 services per invocation in the shared corpus, repeats under GOMAXPROCS 1-7"),
 "C04-j": ("missed by C04 (needs generate_mock=true in a multi-file invocation: caught by C15's parameter x order variations)", ""),
 "C05-j": ("caught as built", ""),
 "C06-j": ("missed by C06 and by every neighbour", "c04split arrangement other-go-package: the helper types live in another Go package generated by an invocation of its own (C04, C05, C14); the lab now drops the importers of a lab package that does not build; found and recorded a genuine defect on the way (flatten children / oneof variants of another Go package are named unqualified)"),
 "C07-j": ("caught as built", ""),
 "C08-j": ("missed by C08 (one invocation per file of a package: caught by c04split under C04, C05 and C14)", ""),
 "C09-j": ("missed", "same-named decoy services (see C01-j): header declarations cached by service and method name are poisoned by the twin"),
 "C10-j": ("missed", "the hook-less registration runs once more AFTER a registration that passed a hook, in the same process"),
 "C11-j": ("missed", "mutation two-members-of-one-oneof; oneof features whose variant types carry codecs of their own; every oneof feature in both tiers"),
 "C12-j": ("missed", "flatten collisions between fields with DIFFERENT prefixes (prefixed vs unprefixed in both orders, two different prefixes)"),
 "C13-j": ("caught as built (through a side effect); streaming RPCs in every position are now in the build catalogue and in C16's shapes", ""),
 "C14-j": ("missed", "empty_behavior on google.protobuf.Timestamp fields (found a genuine defect on the way, recorded: NULL cannot be decoded back)"),
 "C15-j": ("missed", "versions/v0-v1-with-headers: two versions of a service with service- and method-level headers in one invocation"),
 "C16-j": ("missed", "examples-by-kind joined the shared corpus (C15/C16/C18) with zero-led digit strings as field examples, header examples and string.in members"),
 "C17-j": ("caught as built", ""),
 "C18-j": ("missed", "param-name-in-two-locations: a field that is a query filter on the collection route and the path variable of the item route, a header named like a query parameter"),
 "C19-j": ("missed", "every message with a required scalar field is also the body of a PUT route that binds the field to a path variable"),
 "C20-j": ("caught as built", ""),

 # ---- round k (definition shape C01-C05, fault / unusual peer C06-C10, value or sequence C11-C15, two cooperating sites C16-C20)
 "C01-k": ("missed", "unit deliver/wkt-value: google.protobuf.Value and Struct fields in requests and responses; value classes unset, one per kind, an explicit null, a struct with a null member"),
 "C02-k": ("missed", "placement group fnames: URL-bound fields whose proto names are not lower snake_case (itemId, shelfNo, ID, userID, x1, a_B)"),
 "C03-k": ("caught as built", ""),
 "C04-k": ("missed (the coarse pattern for flattened oneofs absorbed it)", "features oneof_{nested,flatten}/message/fieldless-variants"),
 "C05-k": ("missed", "nested features inside a holder message that declares no fields of its own (a pure namespace)"),
 "C06-k": ("caught as built", ""),
 "C07-k": ("missed by C07 (one invocation per file; caught by c04split under C04/C05/C14)", ""),
 "C08-k": ("missed", "uuid-format headers in the helper unit; typed helper options carry upper- and mixed-case UUIDs"),
 "C09-k": ("missed", "scenarios absent+body-announced-as-{gzip,x-gzip,deflate,br,identity}: a missing required header next to a body announced with a Content-Encoding it is not valid in"),
 "C10-k": ("caught as built", ""),
 "C11-k": ("missed", "oracle: the message handed to the handler must be one the reference encoder can write; leaf replacements by int64-sized numbers outside the Timestamp range and dates in year 0000 / 10000"),
 "C12-k": ("missed", "rules judged in an RPC declared AFTER valid RPCs whose routes use the offending name as a path variable / query parameter"),
 "C13-k": ("caught as built", ""),
 "C14-k": ("caught as built", ""),
 "C15-k": ("caught as built", ""),
 "C16-k": ("caught as built", ""),
 "C17-k": ("missed by C17 (caught by C10's hook-less registration after a hooked one)", "C17 registers AlphaService with a header-only error hook and BetaService after it without options; a rejected raw request on a Beta route that shows the hook's header is a verdict"),
 "C18-k": ("missed", "path variables bound to proto3 optional fields in the schema-shape probes"),
 "C19-k": ("missed", "maps with int32 / uint32 / int64 / bool keys, with and without rules on the keys"),
 "C20-k": ("missed", "mock case with message types of another Go package (singular, map value, inside a local map value); found and recorded a genuine defect on the way (map values of an imported type ignore its examples)"),
 "C04-l": ("caught as built", ""),
 "C09-l": ("caught as built", ""),
 "C10-l": ("missed by C10 (caught by C02's violation-names-the-proto-field oracle on unparsable URL values)", ""),
 "C11-l": ("caught as built", ""),
 "C16-l": ("missed", "shape family ident-spelling: underscores at the ends / doubled / next to digits and one-letter names for plain oneofs, discriminated oneofs (nested and flattened) and fields"),
 "C17-l": ("missed, and out of reach: the change adds a new client option (With<Svc>DefaultCallOptions) and breaks isolation only for clients constructed with it; on the API the pinned tree emits, every execution is identical to the unchanged tree's, so no monitor over that API can tell them apart (the drivers are written against the pinned API and cannot call an option that does not exist there)", ""),
}


rows = []
for d in sorted(glob.glob(os.path.join(ROOT, "C*-*"))):
    sid = os.path.basename(d)
    ap = os.path.join(d, "meta.agent.json")
    if not os.path.exists(ap):
        continue
    a = json.load(open(ap))
    det = {}
    dp = os.path.join(d, "detection.json")
    if os.path.exists(dp):
        det = json.load(open(dp))
    first, strengthened = MINE.get(sid, ("", ""))
    demo = sorted(os.listdir(os.path.join(d, "demo"))) if os.path.isdir(os.path.join(d, "demo")) else []
    meta = {
        "id": sid,
        "breaks_property": a.get("property"),
        "change": a.get("summary"),
        "needs_to_manifest": a.get("needs"),
        "why_existing_tests_pass": a.get("why_tests_pass"),
        "files": {"patch": "patch.diff", "demonstration": ["demo/" + x for x in demo], "author_notes": "meta.agent.json", "detection_runs": "detection.json"},
        "author_ran": a.get("ran"),
        "what_i_ran": [
            "demonstration in a throw-away worktree of /repo: passes on the unchanged tree, fails with patch.diff applied (tools/demo.sh, or the command in demo/RUN.txt inside the author's worktree)",
            "git -C /repo apply patch.diff; ./check <Cxx> quick; git -C /repo checkout -- .   (tools/matrix.sh; observed results in detection.json)",
        ],
        "first_verdict_of_registered_check": first,
        "strengthening": strengthened,
        "caught_by": [r["check"] for r in det.get("runs", []) if r.get("exit") == 1 and r.get("violation_lines", 0) > 0],
        "not_caught_by": [r["check"] for r in det.get("runs", []) if not (r.get("exit") == 1 and r.get("violation_lines", 0) > 0)],
    }
    json.dump(meta, open(os.path.join(d, "meta.json"), "w"), indent=1, ensure_ascii=False)
    rows.append(meta)

import io, sys
buf = io.StringIO()
_print = print
def print(*a, **k):
    _print(*a, **k, file=buf)
print("| change | property | needs | first verdict | caught by (quick tier) | strengthening |")
print("|---|---|---|---|---|---|")
for m in rows:
    needs = (m["needs_to_manifest"] or "").replace("|", "\\|").replace("\n", " ")
    if len(needs) > 150:
        needs = needs[:147] + "..."
    det = ", ".join(m["caught_by"]) or "-"
    if m["not_caught_by"]:
        det += " (not: " + ", ".join(m["not_caught_by"]) + ")"
    print(f'| {m["id"]} | {m["breaks_property"]} | {needs} | {m["first_verdict_of_registered_check"]} | {det} | {m["strengthening"] or "-"} |')

table = buf.getvalue()
dp = os.path.join(ROOT, "..", "DESIGN.md")
d = open(dp).read()
b, e = d.index("<!-- MATRIX:BEGIN -->"), d.index("<!-- MATRIX:END -->")
d = d[:b] + "<!-- MATRIX:BEGIN -->\n(generated by tools/gen_meta.py from seeded/*/detection.json)\n\n" + table + d[e:]
open(dp, "w").write(d)
_print(table)
