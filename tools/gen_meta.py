#!/usr/bin/env python3
"""dev aid: write seeded/<id>/meta.json from the author's notes (meta.agent.json), my own
confirmation notes (table below) and the observed detection runs (detection.json, written by
tools/matrix.sh). Also prints the markdown matrix used in DESIGN.md."""
import glob, json, os, sys

ROOT = os.path.join(os.path.dirname(os.path.abspath(__file__)), "..", "seeded")

# id -> (first verdict of the registered check before strengthening, what was strengthened)
MINE = {
 "C01-a": ("caught as built", ""),
 "C02-a": ("missed", "URL value classes gained zero-padded decimal spellings (089, 0123, -010) for integer path/query fields"),
 "C03-a": ("caught as built", "quick tier now runs all five base-path classes"),
 "C04-a": ("missed", "new sub-check c04split: the same message generated as one file, as two files together, as two files in separate invocations and by go-client; codec outcomes must be identical (also run under C14)"),
 "C05-a": ("missed (masked by a coarse known-finding entry)", "violation details are now coordinate paths of the differing JSON node (role:...), the known entry excludes the discriminator position with not_detail"),
 "C06-a": ("missed in quick (sampled out), caught in thorough", "quick keeps every feature and samples value classes instead, always including the priority classes (set-but-empty, zero, absent)"),
 "C07-a": ("missed", "placement catalogue gained int64_encoding=NUMBER on 64-bit query and path fields; the TS handler view of every URL-bound field is type-checked"),
 "C08-a": ("missed", "header helper unit is built in three requiredness shapes (all required, all optional, mixed); optional headers are left out of the default headers"),
 "C09-a": ("missed", "declaration-order cases (optional before/between required headers, with a method-level override); a handler-chain panic observed in the lab child is a verdict (server-panic) instead of 'inconclusive'"),
 "C10-a": ("missed", "Go client error mapping is exercised under five content-type arrangements incl. per-call override different from the client-level type"),
 "C11-a": ("caught as built", ""),
 "C12-a": ("missed", "collision rules are probed with the colliding sibling being plain, proto3-optional and a member of another oneof"),
 "C13-a": ("missed", "build catalogue gained 'scope/*': the same short name for annotated enums/messages/oneofs/wrappers in different parents, with and without a service"),
 "C14-a": ("caught as built", ""),
 "C15-a": ("missed by C15 (caught by C04/C14 c04split)", "single-vs-multi comparison now also requires every file the multi-file run emitted for a source file to come out of the run for that file alone"),
 "C16-a": ("caught as built", ""),
 "C17-a": ("caught as built", ""),
 "C18-a": ("missed", "schema-shape probes gained three same-short-name layouts where each namesake is the only route to some message"),
 "C19-a": ("missed", "range rules with equal bounds (accept exactly one value / nothing) and inverted bounds; pvstub corrected to the rules' own CEL (exclusive only when upper < lower)"),
 "C20-a": ("missed", "example membership is checked along every path (wildcards for list elements and map values) of a response that reaches one message type several times"),
}

rows = []
for d in sorted(glob.glob(os.path.join(ROOT, "C*-*"))):
    sid = os.path.basename(d)
    ap = os.path.join(d, "meta.agent.json")
    if not os.path.exists(ap):
        continue
    a = json.load(open(ap))
    det = {}
    dp = os.path.join(d, "detection.json")
    if os.path.exists(dp):
        det = json.load(open(dp))
    first, strengthened = MINE.get(sid, ("", ""))
    demo = sorted(os.listdir(os.path.join(d, "demo"))) if os.path.isdir(os.path.join(d, "demo")) else []
    meta = {
        "id": sid,
        "breaks_property": a.get("property"),
        "change": a.get("summary"),
        "needs_to_manifest": a.get("needs"),
        "why_existing_tests_pass": a.get("why_tests_pass"),
        "files": {"patch": "patch.diff", "demonstration": ["demo/" + x for x in demo], "author_notes": "meta.agent.json", "detection_runs": "detection.json"},
        "author_ran": a.get("ran"),
        "what_i_ran": [
            "demonstration in a throw-away worktree of /repo: passes on the unchanged tree, fails with patch.diff applied (tools/demo.sh, or the command in demo/RUN.txt inside the author's worktree)",
            "git -C /repo apply patch.diff; ./check <Cxx> quick; git -C /repo checkout -- .   (tools/matrix.sh; observed results in detection.json)",
        ],
        "first_verdict_of_registered_check": first,
        "strengthening": strengthened,
        "caught_by": [r["check"] for r in det.get("runs", []) if r.get("exit") == 1 and r.get("violation_lines", 0) > 0],
        "not_caught_by": [r["check"] for r in det.get("runs", []) if not (r.get("exit") == 1 and r.get("violation_lines", 0) > 0)],
    }
    json.dump(meta, open(os.path.join(d, "meta.json"), "w"), indent=1, ensure_ascii=False)
    rows.append(meta)

print("| change | property | needs | first verdict | caught by (quick tier) | strengthening |")
print("|---|---|---|---|---|---|")
for m in rows:
    needs = (m["needs_to_manifest"] or "").replace("|", "\\|").replace("\n", " ")
    if len(needs) > 150:
        needs = needs[:147] + "..."
    det = ", ".join(m["caught_by"]) or "-"
    if m["not_caught_by"]:
        det += " (not: " + ", ".join(m["not_caught_by"]) + ")"
    print(f'| {m["id"]} | {m["breaks_property"]} | {needs} | {m["first_verdict_of_registered_check"]} | {det} | {m["strengthening"] or "-"} |')
