#!/bin/bash
# run seeded changes against the registered checks, in parallel, and record what was observed in
# seeded/<id>/detection.json. Each change is applied (git apply) to a throw-away worktree of /repo's HEAD outside
# /repo and /verif, the check is pointed at it with VERIF_REPO, and the worktree is removed straight afterwards;
# /repo itself is never touched (tools/matrix.sh does the same on /repo, one change at a time).
# Checks run from a private copy of the committed /verif, so /verif/evidence and /verif/replays stay as they are.
# usage: tools/matrix_wt.sh <tier> <id>:<check>[,<check>...] ...      (env PAR=6, SEED=1)
tier="$1"; shift
export GOFLAGS=-mod=mod GOPROXY=off GOSUMDB=off GOTOOLCHAIN=local
dev=/var/tmp/vmatrix.$$
rsync -a --exclude .git --exclude replays --exclude .bin /verif/ "$dev/" || exit 2
(cd "$dev" && ./check --setup >/dev/null 2>&1) || { echo "setup failed"; exit 2; }
run_one() {
  spec="$1"; id="${spec%%:*}"; checks="$(echo "${spec#*:}" | tr ',' ' ')"
  wt="/var/tmp/mwt.$$.$id"
  for try in 1 2 3; do git -C /repo worktree add --detach "$wt" HEAD >/dev/null 2>&1 && break; sleep 2; done
  [ -d "$wt" ] || { echo "$id: worktree failed"; return; }
  if ! git -C "$wt" apply "/verif/seeded/$id/patch.diff"; then echo "$id: patch does not apply"; else
    rows=""
    for c in $checks; do
      o="/var/tmp/matrixwt.$$.$id.$c.out"
      VERIF_SEED="${SEED:-1}" VERIF_DIR="$dev" VERIF_REPO="$wt" VERIF_BIN="$dev/.bin/sebufverif" "$dev/check" "$c" "$tier" > "$o" 2>&1; ec=$?
      n=$(grep -c '^VIOLATION' "$o")
      first=$(grep '^VIOLATION' "$o" | head -3 | sed -E 's/.*signature="([^"]*)".*/\1/' | cut -c1-220 | python3 -c 'import sys,json; print(json.dumps([l.rstrip("\n") for l in sys.stdin]))')
      rows="$rows{\"check\":\"$c\",\"tier\":\"$tier\",\"seed\":${SEED:-1},\"exit\":$ec,\"violation_lines\":$n,\"first_signatures\":$first},"
      echo "$id $c exit=$ec violations=$n"
      rm -f "$o"
    done
    echo "{\"id\":\"$id\",\"how\":\"patch applied with git apply to a throw-away worktree of /repo HEAD ($(git -C /repo rev-parse --short HEAD)), check run with VERIF_REPO pointing at it\",\"runs\":[${rows%,}]}" | python3 -m json.tool > "/verif/seeded/$id/detection.json"
  fi
  git -C /repo worktree remove --force "$wt" >/dev/null 2>&1; rm -rf "$wt"
}
n=0
for spec in "$@"; do
  run_one "$spec" &
  n=$((n+1))
  if [ "$n" -ge "${PAR:-6}" ]; then wait -n 2>/dev/null || wait; n=$((n-1)); fi
done
wait
rm -rf "$dev"
git -C /repo worktree prune
