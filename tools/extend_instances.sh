#!/bin/bash
# dev aid: run every check on the UNCHANGED tree at one more (tier, seed) with the instance filter off and ADD
# what the known-finding patterns absorbed to known_instances.tsv (refine_known.sh regenerates the whole file;
# this only widens it). A run that exits non-zero reports something no pattern covers: look at it first.
# usage: tools/extend_instances.sh <tier> <seed> [check...]     (env PAR=4)
tier="$1"; seed="$2"; shift 2
checks="${*:-C01 C02 C03 C04 C05 C06 C07 C08 C09 C10 C11 C12 C13 C14 C15 C16 C17 C18 C19 C20}"
if ! git -C /repo diff --quiet; then echo "/repo is dirty, refusing"; exit 2; fi
dev=/var/tmp/vextend.$$
rsync -a --exclude .git --exclude replays --exclude .bin /verif/ "$dev/" || exit 2
(cd "$dev" && ./check --setup >/dev/null 2>&1) || { echo "setup failed"; exit 2; }
d="$dev/out"; mkdir -p "$d"
export VERIF_DIR="$dev" VERIF_BIN="$dev/.bin/sebufverif"
printf '%s\n' $checks | xargs -P "${PAR:-4}" -I{} sh -c \
  'VERIF_NO_INSTANCES=1 VERIF_SEED='"$seed"' VERIF_DUMP_KNOWN='"$d"'/{}.tsv '"$dev"'/check {} '"$tier"' > '"$d"'/{}.out 2>&1 || { echo "{} '"$tier"' seed='"$seed"' exit=$?"; grep "^VIOLATION\|^HARNESS" '"$d"'/{}.out | cut -c1-300 | head -5; }'
before=$(grep -vc '^#' /verif/known_instances.tsv)
{ grep '^#' /verif/known_instances.tsv | head -1; { grep -v '^#' /verif/known_instances.tsv; cat "$d"/*.tsv; } | sort -u; } > "$dev/merged.tsv"
cp "$dev/merged.tsv" /verif/known_instances.tsv
echo "instances: $before -> $(grep -vc '^#' /verif/known_instances.tsv) (added by $tier seed $seed)"
rm -rf "$dev"
