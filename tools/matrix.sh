#!/bin/sh
# dev aid: run seeded changes against the registered checks and record what was observed in
# seeded/<id>/detection.json. usage: tools/matrix.sh <tier> <id>:<check>[,<check>...] ...
tier="$1"; shift
cd /verif || exit 2
for spec in "$@"; do
  id="${spec%%:*}"; checks="$(echo "${spec#*:}" | tr ',' ' ')"
  if ! git -C /repo diff --quiet; then echo "/repo is dirty, refusing"; exit 2; fi
  git -C /repo apply "/verif/seeded/$id/patch.diff" || { echo "$id: patch does not apply"; continue; }
  rows=""
  for c in $checks; do
    out="/var/tmp/matrix.$id.$c.out"
    ./check "$c" "$tier" > "$out" 2>&1; ec=$?
    n=$(grep -c '^VIOLATION' "$out")
    first=$(grep '^VIOLATION' "$out" | head -3 | sed -E 's/.*signature="([^"]*)".*/\1/' | cut -c1-220 | python3 -c 'import sys,json; print(json.dumps([l.rstrip("\n") for l in sys.stdin]))')
    rows="$rows{\"check\":\"$c\",\"tier\":\"$tier\",\"exit\":$ec,\"violation_lines\":$n,\"first_signatures\":$first},"
    echo "$id $c exit=$ec violations=$n"
    rm -f "$out"
  done
  git -C /repo checkout -- .
  git -C /repo clean -fdq -- internal cmd docs http proto examples scripts 2>/dev/null # files a change ADDED
  echo "{\"id\":\"$id\",\"runs\":[${rows%,}]}" | python3 -m json.tool > "/verif/seeded/$id/detection.json"
done
git -C /repo status --short | head -3
