#!/bin/sh
# dev aid: apply a seeded change to /repo, run checks, undo it straight afterwards.
# usage: tools/mutant.sh <seeded-id> <tier> <check>...
id="$1"; tier="$2"; shift 2
cd /verif || exit 2
if ! git -C /repo diff --quiet; then echo "/repo is dirty, refusing"; exit 2; fi
git -C /repo apply "/verif/seeded/$id/patch.diff" || { echo "patch does not apply"; exit 2; }
trap 'git -C /repo checkout -- . ; git -C /repo status --short | head -3' EXIT INT TERM
for c in "$@"; do
  out="/tmp/mut.$id.$c.out"
  ./check "$c" "$tier" > "$out" 2>&1
  echo "$id $c exit=$? new=$(grep -c '^VIOLATION' "$out") harness=$(grep -c '^HARNESS' "$out") :: $(grep '^VIOLATION' "$out" | sed -E 's/.*signature="([^"]*)".*/\1/' | cut -c1-150 | head -4 | tr '\n' ';')"
done
